package rules

import (
	"go/token"

	"golang.org/x/tools/go/ssa"

	"lbcheck/eng"
)

// ruleReaderSegment (R01.9): the segment a reader reads from is always obtained by looking the reader's own position
// up in the segment list — by offset (findSegment / findSegmentContains with the offset the reader is about to deliver)
// or by moving to the segment that follows the current one (findSegmentByBaseOffset(segments, seg.BaseOffset+1)).
// A reader that takes its segment from somewhere else (the high-watermark segment, the active segment, an index into
// the list) skips or repeats messages whenever that other position is in a different segment.
func ruleReaderSegment(c *eng.Ctx) {
	p := c.P
	type rd struct{ typ, field string }
	readers := []rd{{"committedReader", "seg"}, {"uncommittedReader", "seg"}}
	lookup := func(v ssa.Value) (string, *ssa.Call) {
		v = eng.Strip(v)
		if ex, ok := v.(*ssa.Extract); ok {
			if ex.Index != 0 {
				return "", nil
			}
			v = ex.Tuple
		}
		call, ok := v.(*ssa.Call)
		if !ok {
			return "", nil
		}
		return eng.CalleeRef(&call.Call), call
	}
	var okValue func(fn *ssa.Function, v ssa.Value, typ string, depth int) (bool, string)
	okValue = func(fn *ssa.Function, v ssa.Value, typ string, depth int) (bool, string) {
		if depth > 4 {
			return false, "value too deep to classify"
		}
		if eng.NilConst(v) {
			return true, "nil (reader parked beyond the data)"
		}
		if ph, ok := v.(*ssa.Phi); ok {
			for _, e := range ph.Edges {
				if ok2, why := okValue(fn, e, typ, depth+1); !ok2 {
					return false, why
				}
			}
			return true, "phi of looked-up segments"
		}
		// segments[idx] with idx returned by a lookup
		if u, ok := eng.Strip(v).(*ssa.UnOp); ok && u.Op == token.MUL {
			if ia, ok := u.X.(*ssa.IndexAddr); ok {
				if ex, ok := ia.Index.(*ssa.Extract); ok && ex.Index == 1 {
					if call, ok := ex.Tuple.(*ssa.Call); ok && eng.RefIn(eng.CalleeRef(&call.Call), cl+"findSegment") {
						return true, "element at the index returned by findSegment"
					}
				}
			}
		}
		ref, call := lookup(v)
		switch ref {
		case cl + "findSegment", cl + "findSegmentContains":
			return true, "looked up by offset"
		case cl + "findSegmentByBaseOffset":
			// the successor of the segment being read: key = <reader>.seg.BaseOffset + 1
			segF := p.Field(clPkg, typ, "seg")
			if eng.Bin(token.ADD, eng.LoadNamed("BaseOffset", eng.Load(segF, nil)), eng.IntConst(1))(call.Call.Args[1]) {
				return true, "successor of the current segment"
			}
			return false, "findSegmentByBaseOffset is not keyed by <reader>.seg.BaseOffset+1"
		}
		return false, "the value is " + eng.Describe(v) + ", not the result of a segment lookup for the reader's position"
	}
	for _, r := range readers {
		f := p.Field(clPkg, r.typ, r.field)
		if f == nil {
			c.Unresolved("field " + r.typ + "." + r.field)
			continue
		}
		for _, fn := range p.Funcs {
			if fn.Pkg == nil || fn.Pkg != p.SSAPkg[clPkg] {
				continue
			}
			for _, st := range eng.FieldStores(fn, func(fa *ssa.FieldAddr) bool { return fieldIs(fa, f) }) {
				ok, why := okValue(fn, st.Val, r.typ, 0)
				c.Check(ok, "store to "+r.typ+".seg in "+fn.Name(), c.Pos(st), why, "a reader's segment is taken from somewhere other than a lookup of its own position: "+why+" — when that other position lies in a different segment the reader skips or repeats messages")
			}
		}
	}
	// a Reader that has to re-open after its segment was replaced resumes right after the last message it returned
	if fn := c.Fn(cl + "(*Reader).ReadMessage"); fn != nil {
		of := p.Field(clPkg, "Reader", "offset")
		rm := eng.CallsIn(fn, cl+"readMessage")
		ok := len(rm) == 1
		if ok {
			got := func(v ssa.Value) bool {
				ex, isE := eng.Strip(v).(*ssa.Extract)
				return isE && ex.Index == 1 && ex.Tuple == rm[0].Value()
			}
			sts := eng.FieldStores(fn, func(fa *ssa.FieldAddr) bool { return fieldIs(fa, of) })
			ok = len(sts) == 1 && eng.Bin(token.ADD, got, eng.IntConst(1))(sts[0].Val)
			// re-initialisation starts from that remembered offset
			for _, k := range []string{cl + "commitLog.newReaderUncommitted", cl + "commitLog.newReaderCommitted"} {
				for _, nr := range eng.CallsIn(fn, k) {
					if !eng.Load(of, nil)(nr.Common().Args[1]) {
						ok = false
					}
				}
			}
		}
		c.Check(ok, "a re-opened Reader resumes after the last message it returned", p.Pos(fn.Pos()), "r.offset = (offset of the message just read) + 1; re-initialisation uses r.offset", "Reader.ReadMessage does not remember (offset of the returned message)+1 as its resume point (or does not re-open there): on a log with gaps, a reader whose segment is replaced by a compaction or truncation resumes too early and delivers messages twice, or too late and skips some")
	}
	// the committed reader that was parked beyond the watermark resumes at old watermark + 1
	if fn := c.Fn(cl + "(*committedReader).Read"); fn != nil {
		hwF := p.Field(clPkg, "committedReader", "hw")
		ok := false
		for _, fs := range eng.CallsIn(fn, cl+"findSegment") {
			a := fs.Common().Args[1]
			if eng.Bin(token.ADD, eng.Load(hwF, nil), eng.IntConst(1))(a) {
				// computed before r.hw is overwritten: no store to r.hw precedes the addition in its block path
				ok = true
				if bo, isB := eng.Strip(a).(*ssa.BinOp); isB {
					for _, st := range eng.FieldStores(fn, func(fa *ssa.FieldAddr) bool { return fieldIs(fa, hwF) }) {
						q := &eng.PathQuery{Fn: fn, FromAfter: []ssa.Instruction{st}, Target: func(x ssa.Instruction) bool { return x == ssa.Instruction(bo) }}
						if q.Find() != nil {
							ok = false
						}
					}
				}
				// and the same offset positions the reader inside the segment
				same := false
				for _, fe := range eng.CallsIn(fn, cl+"segment.findEntry") {
					if fe.Common().Args[1] == a {
						same = true
					}
				}
				ok = ok && same
			}
		}
		c.Check(ok, "a parked committed reader resumes at its old watermark + 1", p.Pos(fn.Pos()), "findSegment(segments, r.hw+1) and findEntry(r.hw+1), r.hw read before it is updated", "the committed reader that waited beyond the watermark does not resume at (old watermark + 1): committed messages are skipped or delivered twice")
	}
}
