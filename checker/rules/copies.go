package rules

import (
	"go/token"
	"go/types"
	"sort"
	"strings"

	"golang.org/x/tools/go/ssa"

	"lbcheck/eng"
	"lbcheck/ir"
)

// Field-by-field copies (shared shape rule): a function that builds a fresh T and fills two or more of its fields from the
// same-named fields of another T is copying it; a copy that leaves a field out silently resets that setting wherever the
// copy is used (stream.GetConfig feeding ResumePartition and Snapshot, for instance). Every settable field must be carried.

// configTypes are the types through which stream settings travel.
var configTypes = []string{"StreamConfig", "StreamsConfig", "Options", "CreateStreamRequest"}

type partialCopy struct {
	Fn      *ssa.Function
	Alloc   *ssa.Alloc
	Type    *types.Named
	Copied  []string
	Missing []string
}

func structFieldCopies(p *ir.Program, only map[string]bool) []partialCopy {
	var out []partialCopy
	for _, fn := range p.Funcs {
		if fn.Pkg == nil {
			continue
		}
		if file := p.Pos(fn.Pos()); strings.Contains(file, ".pb.go") {
			continue // generated code
		}
		byAlloc := map[*ssa.Alloc]map[string]bool{}
		var order []*ssa.Alloc
		eng.Instrs(fn, func(in ssa.Instruction) {
			st, ok := in.(*ssa.Store)
			if !ok {
				return
			}
			fa, ok := st.Addr.(*ssa.FieldAddr)
			if !ok {
				return
			}
			al, ok := fa.X.(*ssa.Alloc)
			if !ok {
				return
			}
			n := ownerNamed(al.Type())
			if n == nil || (len(only) > 0 && !only[n.Obj().Name()]) {
				return
			}
			// value: load of the same-named field of another value of the same type
			u, ok := st.Val.(*ssa.UnOp)
			if !ok || u.Op != token.MUL {
				return
			}
			src, ok := u.X.(*ssa.FieldAddr)
			if !ok || src.X == ssa.Value(al) {
				return
			}
			sn := ownerNamed(src.X.Type())
			if sn == nil || sn.Obj() != n.Obj() || eng.FieldNameOf(src) != eng.FieldNameOf(fa) {
				return
			}
			if byAlloc[al] == nil {
				byAlloc[al] = map[string]bool{}
				order = append(order, al)
			}
			byAlloc[al][eng.FieldNameOf(fa)] = true
		})
		for _, al := range order {
			if len(byAlloc[al]) < 2 {
				continue
			}
			n := ownerNamed(al.Type())
			stt, ok := n.Underlying().(*types.Struct)
			if !ok {
				continue
			}
			// every field stored into the fresh value (copied or set otherwise) counts as carried
			set := map[string]bool{}
			if al.Referrers() != nil {
				for _, r := range *al.Referrers() {
					if fa, ok := r.(*ssa.FieldAddr); ok && fa.Referrers() != nil {
						for _, rr := range *fa.Referrers() {
							if st, ok := rr.(*ssa.Store); ok && st.Addr == ssa.Value(fa) {
								set[eng.FieldNameOf(fa)] = true
							}
						}
					}
				}
			}
			pc := partialCopy{Fn: fn, Alloc: al, Type: n}
			for f := range byAlloc[al] {
				pc.Copied = append(pc.Copied, f)
			}
			sort.Strings(pc.Copied)
			for i := 0; i < stt.NumFields(); i++ {
				f := stt.Field(i).Name()
				if strings.HasPrefix(f, "XXX_") || set[f] {
					continue
				}
				pc.Missing = append(pc.Missing, f)
			}
			out = append(out, pc)
		}
	}
	return out
}

// ruleCompleteCopies: field-by-field copies of the named types carry every field. fields, when given, restricts the
// obligation to those fields (the ones the property depends on).
func ruleCompleteCopies(c *eng.Ctx, rule string, typeNames []string, fields []string, why string) {
	c.Rule(rule, "K6")
	only := map[string]bool{}
	for _, t := range typeNames {
		only[t] = true
	}
	want := map[string]bool{}
	for _, f := range fields {
		want[f] = true
	}
	copies := structFieldCopies(c.P, only)
	for _, pc := range copies {
		var missing []string
		for _, m := range pc.Missing {
			if len(want) == 0 || want[m] {
				missing = append(missing, m)
			}
		}
		construct := "field-by-field copy of " + pc.Type.Obj().Name() + " in " + ir.FuncKey(pc.Fn)
		c.Check(len(missing) == 0, construct, c.P.Pos(pc.Alloc.Pos()), "every field is carried over", "the copy leaves out "+strings.Join(missing, ", ")+": "+why)
	}
	c.Note("%s: %d field-by-field copies of %s found", rule, len(copies), strings.Join(typeNames, "/"))
}

// DebugCopies lists every field-by-field copy in the module (survey).
func DebugCopies(p *ir.Program) []string {
	var out []string
	for _, pc := range structFieldCopies(p, nil) {
		out = append(out, ir.FuncKey(pc.Fn)+" "+pc.Type.Obj().Name()+" copied="+strings.Join(pc.Copied, ",")+" missing="+strings.Join(pc.Missing, ","))
	}
	return out
}
