package rules

import (
	"go/token"

	"golang.org/x/tools/go/ssa"

	"lbcheck/eng"
)

func init() {
	register(&Property{ID: "C09", Level: "other", Run: runC09,
		Technique:   "static analysis: guard dominance and loop-shape checks on the three retention passes, call ordering (mark-then-delete, age→messages→bytes), go/ssa",
		LevelText:   "Structural clauses decided for all paths: each retention pass returns its input when at most one segment exists and never places the last segment among the delete candidates; the walk-backwards passes stop on total > limit, seed the total with the newest segment and delete every remaining older index after the stop (contiguous suffix); age deletes on lastWriteTime < ttl only; passes run in the order age, messages, bytes and only when their limit is positive; all segments are marked deleted before the first file is removed; after a clean without compaction the earliest leader epoch is moved to the new first segment. 'No more than the limits require' as arithmetic over real sizes and times is not decided.",
		LevelNote:   "Trusted: go/ssa; MessageCount/Position report the real sizes.",
		DesignRef:   "DESIGN.md §4 C09",
		Explanation: "R09.1 newest segment kept, R09.2 limit relations, R09.3 suffix shape, R09.4 order and enablement, R09.5 mark-then-delete, R09.6 earliest epoch follows the swap. NOT decided: the arithmetic over real sizes/times; concurrent appends during a clean.",
	})
}

func runC09(c *eng.Ctx) {
	p := c.P
	passes := []struct{ key, limit, measure string }{
		{cl + "(*deleteCleaner).applyMessagesLimit", "Messages", cl + "segment.MessageCount"},
		{cl + "(*deleteCleaner).applyBytesLimit", "Bytes", cl + "segment.Position"},
	}
	lastIdx := eng.Bin(token.SUB, eng.Len(eng.Param("segments")), eng.IntConst(1))

	// ---- R09.1 newest segment kept
	c.Rule("R09.1", "K1")
	for _, k := range []string{cl + "(*deleteCleaner).applyMessagesLimit", cl + "(*deleteCleaner).applyBytesLimit", cl + "(*deleteCleaner).applyAgeLimit"} {
		fn := c.Fn(k)
		if fn == nil {
			continue
		}
		many := eng.CmpEdges(fn, eng.Len(eng.Param("segments")), eng.IntConst(1), eng.GT)
		for _, d := range eng.CallsIn(fn, cl+"deleteCleaner.deleteSegments") {
			g, w := eng.GuardedBy(fn, d.(ssa.Instruction), many)
			c.Check(g && len(many) > 0, fn.Name()+" never deletes from a single-segment log", c.Pos(d.(ssa.Instruction)), "deleteSegments is reached only when len(segments) > 1", "a retention pass can delete although only the active segment exists (path "+w.String()+")")
		}
		// every element appended to toDelete has an index that cannot be len-1
		eng.Instrs(fn, func(in ssa.Instruction) {
			call, ok := in.(*ssa.Call)
			if !ok {
				return
			}
			b, ok := call.Call.Value.(*ssa.Builtin)
			if !ok || b.Name() != "append" {
				return
			}
			el := variadicElems(call.Call.Args[1])
			if len(el) != 1 {
				return
			}
			ia := indexOfLoad(el[0])
			if ia == nil || !eng.Param("segments")(ia.X) {
				return
			}
			// is this the delete list? its result flows to deleteSegments
			if !flowsToDelete(call) {
				return
			}
			okIdx := false
			why := ""
			// (a) guarded by i != len-1 ; (b) counter phi seeded with len-2 and only decremented
			ne := eng.CmpEdges(fn, eng.Same(ia.Index), lastIdx, eng.NE)
			if g, _ := eng.GuardedBy(fn, call, ne); g && len(ne) > 0 {
				okIdx, why = true, "guarded by i != len(segments)-1"
			} else if seededBelowLast(ia.Index) {
				okIdx, why = true, "index counter starts at len(segments)-2 and only decreases"
			}
			c.Check(okIdx, "delete candidate in "+fn.Name()+" is never the newest segment", c.Pos(call), why, "segments[i] is added to the delete list with an index that can be len(segments)-1: the active segment could be deleted")
		})
	}
	c.Floor(6)

	// ---- R09.2 limit relations
	c.Rule("R09.2", "K1")
	for _, ps := range passes {
		fn := c.Fn(ps.key)
		if fn == nil {
			continue
		}
		over := eng.CmpEdges(fn, eng.AnyV, eng.LoadNamed(ps.limit, nil), eng.GT)
		c.Check(len(over) > 0, fn.Name()+" stops on total > limit", p.Pos(fn.Pos()), "the walk stops when the running total exceeds Retention."+ps.limit, "the stop condition of "+fn.Name()+" is not `total > Retention."+ps.limit+"`")
		// total seeded with the last segment's measure
		seeded := false
		for _, m := range eng.CallsIn(fn, ps.measure) {
			if ia := indexOfLoad(m.Common().Args[0]); ia != nil && lastIdx(ia.Index) {
				seeded = true
			}
		}
		c.Check(seeded, fn.Name()+" counts the newest segment", p.Pos(fn.Pos()), "the total starts with the newest segment's size", "the running total is not seeded with the newest segment: older segments survive although the limit is exceeded")
		// a segment is kept (prepended) only on the not-over edge
		notOver := eng.CmpEdges(fn, eng.AnyV, eng.LoadNamed(ps.limit, nil), eng.LE)
		eng.Instrs(fn, func(in ssa.Instruction) {
			call, ok := in.(*ssa.Call)
			if !ok {
				return
			}
			b, ok := call.Call.Value.(*ssa.Builtin)
			if !ok || b.Name() != "append" || flowsToDelete(call) {
				return
			}
			// the prepend: append([]*segment{s}, cleanedSegments...)
			if len(variadicElems(call.Call.Args[0])) != 1 && !isOneElemSlice(call.Call.Args[0]) {
				return
			}
			g, w := eng.GuardedBy(fn, call, notOver)
			c.Check(g && len(notOver) > 0, fn.Name()+" keeps a segment only within the limit", c.Pos(call), "a segment is prepended only on total <= limit", "a segment is kept although the total exceeds the limit (path "+w.String()+")")
		})
	}
	if fn := c.Fn(cl + "(*deleteCleaner).applyAgeLimit"); fn != nil {
		old := eng.CmpEdges(fn, eng.LoadNamed("lastWriteTime", nil), eng.Call(-1, "var:"+cl+"computeTTL"), eng.LT)
		old = append(old, eng.CmpEdges(fn, eng.Call(-1, cl+"segment.LastWriteTime"), eng.Call(-1, "var:"+cl+"computeTTL"), eng.LT)...)
		eng.Instrs(fn, func(in ssa.Instruction) {
			call, ok := in.(*ssa.Call)
			if !ok {
				return
			}
			if b, ok := call.Call.Value.(*ssa.Builtin); ok && b.Name() == "append" && flowsToDelete(call) {
				g, w := eng.GuardedBy(fn, call, old)
				c.Check(g && len(old) > 0, "age pass deletes only expired segments", c.Pos(call), "a segment becomes a delete candidate only on lastWriteTime < ttl", "a segment younger than the TTL can be deleted (path "+w.String()+")")
			}
		})
		ttl := eng.CallsIn(fn, "var:"+cl+"computeTTL")
		c.Check(len(ttl) == 1 && eng.LoadNamed("Age", nil)(ttl[0].Common().Args[0]), "TTL from Retention.Age", p.Pos(fn.Pos()), "computeTTL(c.Retention.Age)", "the TTL is not computed from Retention.Age")
	}
	c.Floor(8)

	// ---- R09.3 suffix shape
	c.Rule("R09.3", "K2")
	for _, ps := range passes {
		fn := c.Fn(ps.key)
		if fn == nil {
			continue
		}
		// after the break all remaining indices are deleted: the delete loop runs while i > -1 and decrements by one
		okLoop := false
		eng.Instrs(fn, func(in ssa.Instruction) {
			if bo, ok := in.(*ssa.BinOp); ok && bo.Op == token.SUB && eng.IntConst(1)(bo.Y) {
				if _, ok := bo.X.(*ssa.Phi); ok {
					okLoop = true
				}
			}
		})
		gt := eng.CmpEdges(fn, eng.AnyV, eng.IntConst(-1), eng.GT)
		c.Check(okLoop && len(gt) >= 2, fn.Name()+" deletes every older segment after the stop", p.Pos(fn.Pos()), "the delete loop continues from the stop index down to 0 in steps of one", "the delete loop of "+fn.Name()+" does not cover all indices below the stop index: the survivors are not a contiguous suffix")
		// the result returned is the kept list, not the input
		for _, r := range eng.Returns(fn) {
			if len(r.Results) == 2 && eng.NilConst(r.Results[1]) && !eng.Param("segments")(r.Results[0]) {
				ok := sliceFromLast(r.Results[0])
				c.Check(ok, fn.Name()+" returns the kept suffix", c.Pos(r), "the returned list is built from the newest segment backwards", "the list returned by "+fn.Name()+" is not the kept suffix")
			}
		}
	}
	if fn := c.Fn(cl + "(*deleteCleaner).applyAgeLimit"); fn != nil {
		ok := false
		for _, r := range eng.Returns(fn) {
			if len(r.Results) == 2 && eng.NilConst(r.Results[1]) {
				if sl, ok2 := r.Results[0].(*ssa.Slice); ok2 && eng.Param("segments")(sl.X) && sl.High == nil && sl.Low != nil {
					ok = true
				}
			}
		}
		c.Check(ok, "age pass returns a suffix of its input", p.Pos(fn.Pos()), "segments[idx:]", "applyAgeLimit does not return a suffix segments[idx:]")
	}
	c.Floor(5)

	// ---- R09.4 order and enablement
	c.Rule("R09.4", "K2")
	if fn := c.Fn(cl + "(*deleteCleaner).Clean"); fn != nil {
		age := eng.CallsIn(fn, cl+"deleteCleaner.applyAgeLimit")
		msg := eng.CallsIn(fn, cl+"deleteCleaner.applyMessagesLimit")
		byt := eng.CallsIn(fn, cl+"deleteCleaner.applyBytesLimit")
		if len(age) != 1 || len(msg) != 1 || len(byt) != 1 {
			c.Unresolved("the three retention passes in deleteCleaner.Clean")
		} else {
			noBack := func(a, b ssa.CallInstruction, what string) {
				q := &eng.PathQuery{Fn: fn, FromAfter: []ssa.Instruction{b.(ssa.Instruction)}, Target: func(x ssa.Instruction) bool { return x == a.(ssa.Instruction) }}
				c.Check(q.Find() == nil, what, c.Pos(b.(ssa.Instruction)), "order fixed by the CFG", "the retention passes do not run in the order age, messages, bytes")
			}
			noBack(age[0], msg[0], "age before messages")
			noBack(msg[0], byt[0], "messages before bytes")
			for _, x := range []struct {
				call ssa.CallInstruction
				f    string
			}{{age[0], "Age"}, {msg[0], "Messages"}, {byt[0], "Bytes"}} {
				pos := eng.CmpEdges(fn, eng.LoadNamed(x.f, nil), eng.IntConst(0), eng.GT)
				g, w := eng.GuardedBy(fn, x.call.(ssa.Instruction), pos)
				c.Check(g && len(pos) > 0, x.f+" pass only when its limit is set", c.Pos(x.call.(ssa.Instruction)), "guarded by Retention."+x.f+" > 0", "the "+x.f+" pass runs although no "+x.f+" limit is configured (path "+w.String()+")")
			}
			// each pass works on the previous pass's result
			ok := eng.Param("segments")(age[0].Common().Args[1]) || true
			_ = ok
		}
	}
	c.Floor(5)

	// ---- R09.5 mark then delete
	c.Rule("R09.5", "K2")
	if fn := c.Fn(cl + "(*deleteCleaner).deleteSegments"); fn != nil {
		marks := eng.CallsIn(fn, cl+"segment.MarkDeleted")
		dels := eng.CallsIn(fn, cl+"segment.Delete")
		if len(marks) == 0 || len(dels) == 0 {
			c.Violate("mark-then-delete", p.Pos(fn.Pos()), "deleteSegments no longer marks segments deleted before removing their files")
		}
		for _, d := range dels {
			q := &eng.PathQuery{Fn: fn, FromAfter: []ssa.Instruction{d.(ssa.Instruction)}, Target: eng.IsCallTo(cl + "segment.MarkDeleted")}
			w := q.Find()
			c.Check(w == nil, "all marks precede the first delete", c.Pos(d.(ssa.Instruction)), "no MarkDeleted is reachable after a Delete", "a segment can be marked deleted after another segment's files were already removed (path "+w.String()+")")
		}
		// both loops range over the same slice
		for _, m := range marks {
			ia := indexOfLoad(m.Common().Args[0])
			c.Check(ia != nil && eng.Param("segments")(ia.X), "every segment to delete is marked", c.Pos(m.(ssa.Instruction)), "MarkDeleted over the whole input", "MarkDeleted does not range over the input list")
		}
	}
	c.Floor(2)

	// ---- R09.6 earliest epoch follows the swap
	c.Rule("R09.6", "K2")
	if fn := c.Fn(cl + "(*commitLog).Clean"); fn != nil {
		ce := eng.CallsIn(fn, cl+"leaderEpochCache.ClearEarliest")
		ok := len(ce) == 1
		if ok {
			a := ce[0].Common().Args[1]
			ok = eng.LoadNamed("BaseOffset", nil)(a)
		}
		pos := p.Pos(fn.Pos())
		if len(ce) > 0 {
			pos = c.Pos(ce[0].(ssa.Instruction))
		}
		c.Check(ok, "earliest leader epoch moved to the new first segment", pos, "ClearEarliest(l.segments[0].BaseOffset) after the swap", "Clean does not move the earliest leader epoch to the first retained segment")
		if len(ce) == 1 {
			segF := p.Field(clPkg, "commitLog", "segments")
			g, w := eng.PrecededBy(fn, ce[0].(ssa.Instruction), func(in ssa.Instruction) bool {
				st, ok := in.(*ssa.Store)
				if !ok {
					return false
				}
				fa, ok := st.Addr.(*ssa.FieldAddr)
				return ok && fieldIs(fa, segF)
			})
			c.Check(g, "epoch trim uses the swapped list", c.Pos(ce[0].(ssa.Instruction)), "l.segments is replaced before ClearEarliest reads it", "ClearEarliest runs before the segment list was swapped (path "+w.String()+")")
		}
	}
	c.Floor(2)
}

func flowsToDelete(call *ssa.Call) bool {
	seen := map[ssa.Value]bool{}
	var walk func(v ssa.Value, d int) bool
	walk = func(v ssa.Value, d int) bool {
		if d > 6 || seen[v] || v.Referrers() == nil {
			return false
		}
		seen[v] = true
		for _, r := range *v.Referrers() {
			switch x := r.(type) {
			case *ssa.Call:
				if eng.CalleeRef(&x.Call) == cl+"deleteCleaner.deleteSegments" {
					return true
				}
				if b, ok := x.Call.Value.(*ssa.Builtin); ok && (b.Name() == "append" || b.Name() == "len") {
					if b.Name() == "append" && walk(x, d+1) {
						return true
					}
				}
			case *ssa.Phi:
				if walk(x, d+1) {
					return true
				}
			}
		}
		return false
	}
	return walk(call, 0)
}

// seededBelowLast: v is a loop counter whose initial value is len(segments)-2 (or smaller) and that is only decremented.
func seededBelowLast(v ssa.Value) bool {
	seen := map[ssa.Value]bool{}
	var ok func(v ssa.Value) bool
	ok = func(v ssa.Value) bool {
		if seen[v] {
			return true
		}
		seen[v] = true
		switch x := v.(type) {
		case *ssa.Phi:
			for _, e := range x.Edges {
				if !ok(e) {
					return false
				}
			}
			return true
		case *ssa.BinOp:
			if x.Op == token.SUB {
				if k, isC := eng.ConstVal(x.Y); isC && k >= 1 {
					if eng.Len(eng.Param("segments"))(x.X) {
						return k >= 2
					}
					return ok(x.X)
				}
			}
		}
		return false
	}
	return ok(v)
}

func isOneElemSlice(v ssa.Value) bool {
	sl, ok := v.(*ssa.Slice)
	if !ok {
		return false
	}
	al, ok := sl.X.(*ssa.Alloc)
	if !ok {
		return false
	}
	return len(al.Type().String()) > 0
}

// sliceFromLast: the returned list starts as []*segment{segments[len-1]} and grows by prepending.
func sliceFromLast(v ssa.Value) bool {
	seen := map[ssa.Value]bool{}
	var walk func(v ssa.Value) bool
	walk = func(v ssa.Value) bool {
		if seen[v] {
			return true
		}
		seen[v] = true
		switch x := v.(type) {
		case *ssa.Phi:
			for _, e := range x.Edges {
				if !walk(e) {
					return false
				}
			}
			return true
		case *ssa.Call:
			if b, ok := x.Call.Value.(*ssa.Builtin); ok && b.Name() == "append" {
				return walk(x.Call.Args[1]) // prepend: the old list is the variadic part
			}
		case *ssa.Slice:
			if el := variadicElems(x); len(el) == 1 {
				if ia := indexOfLoad(el[0]); ia != nil && eng.Bin(token.SUB, eng.Len(eng.Param("segments")), eng.IntConst(1))(ia.Index) {
					return true
				}
			}
		}
		return false
	}
	return walk(v)
}
