package rules

import (
	"go/token"

	"golang.org/x/tools/go/ssa"

	"lbcheck/eng"
)

func init() {
	register(&Property{ID: "C09", Level: "other", Run: runC09,
		Technique:   "static analysis: guard dominance and loop-shape checks on the three retention passes, call ordering (mark-then-delete, age→messages→bytes), go/ssa",
		LevelText:   "Structural clauses decided for all paths: each retention pass returns its input when at most one segment exists and never places the last segment among the delete candidates; the walk-backwards passes stop on total > limit, seed the total with the newest segment and delete every remaining older index after the stop (contiguous suffix); age deletes on lastWriteTime < ttl only; passes run in the order age, messages, bytes and only when their limit is positive; all segments are marked deleted before the first file is removed; after a clean without compaction the earliest leader epoch is moved to the new first segment. 'No more than the limits require' as arithmetic over real sizes and times is not decided.",
		LevelNote:   "Trusted: go/ssa; MessageCount/Position report the real sizes.",
		DesignRef:   "DESIGN.md §4 C09",
		Explanation: "Round 10: R09.5 also: deleteSegments removes the files of every segment it is handed (marked earlier or not); R09.1 also: every successful write moves lastWriteTime to the last entry's timestamp. R01.8 also (round 8): the recovered last entry is the answer given after the rebuild. R09.7 also: every call of Clean runs a pass; R01.8 (shared) a reopened segment pairs its bookkeeping with the right index entries. R09.8 the cleaned list is swapped in only after a successful pass; R09.9 Segments() and OldestOffset() leave out leading segments a pass has marked deleted (F87); R08.6 (shared) reverse scans recover from deleted segments (F76); R09.6 also: the earliest epoch stays at or before the newest offset (F82). R09.1 newest segment kept, R09.2 limit relations, R09.3 suffix shape, R09.4 order and enablement, R09.5 mark-then-delete, R09.6 earliest epoch follows the swap, R09.7 a stop implies deletion / exact counter tests / early exit / no-limits test / segments rolled during a clean re-attached on every path, R16.8 (shared) retention settings travel from the request to the cleaner under their own names. R15.8 (shared) the retention / segment / cleaner keys reach their Config fields. NOT decided: the arithmetic over real sizes/times; concurrent appends during a clean.",
	})
}

func runC09(c *eng.Ctx) {
	c.Rule("R16.7", "K6")
	ruleNewPartitionCopiesTheServerDefaults(c)
	c.Rule("R09.5", "K5")
	ruleRetentionDeletesWhatItWasHanded(c)
	c.Rule("R09.1", "K2")
	ruleLastWriteTimeFollowsTheLastEntry(c)
	// (shared with C08/C10) a reader recognises a replaced or removed segment whatever wraps the error on its way up
	ruleSentinelIdentity(c, "R14.6", []string{cl + "(*Reader).ReadMessage", cl + "(*ReverseReader).ReadMessage"}, "the reader does not notice that the segment it was reading was replaced (compaction, truncation) or removed (retention): it fails instead of re-positioning itself and carrying on")

	c.Rule("R08.6", "K4")
	ruleReverseScanRecoversFromDeleted(c)
	c.Rule("R09.8", "K1")
	ruleSwapOnlyAfterASuccessfulPass(c)
	c.Rule("R09.9", "K5")
	ruleReadPathSkipsDeletedSegments(c)
	c.Rule("R01.8", "K5")
	ruleRecoveredBookkeepingPairs(c)
	ruleRecoveredEntryIsTheLastAnswer(c)
	c.Rule("R09.7", "K1")
	ruleCleanAlwaysRunsAPass(c)
	c.Rule("R01.9", "K5")
	ruleReaderStartsInsideItsSegment(c)
	p := c.P
	passes := []struct{ key, limit, measure string }{
		{cl + "(*deleteCleaner).applyMessagesLimit", "Messages", cl + "segment.MessageCount"},
		{cl + "(*deleteCleaner).applyBytesLimit", "Bytes", cl + "segment.Position"},
	}
	lastIdx := eng.Bin(token.SUB, eng.Len(eng.Param("segments")), eng.IntConst(1))

	// ---- R09.1 newest segment kept
	c.Rule("R09.1", "K1")
	for _, k := range []string{cl + "(*deleteCleaner).applyMessagesLimit", cl + "(*deleteCleaner).applyBytesLimit", cl + "(*deleteCleaner).applyAgeLimit"} {
		fn := c.Fn(k)
		if fn == nil {
			continue
		}
		many := eng.CmpEdges(fn, eng.Len(eng.Param("segments")), eng.IntConst(1), eng.GT)
		for _, d := range eng.CallsIn(fn, cl+"deleteCleaner.deleteSegments") {
			g, w := eng.GuardedBy(fn, d.(ssa.Instruction), many)
			c.Check(g && len(many) > 0, fn.Name()+" never deletes from a single-segment log", c.Pos(d.(ssa.Instruction)), "deleteSegments is reached only when len(segments) > 1", "a retention pass can delete although only the active segment exists (path "+w.String()+")")
		}
		// a delete list given as the prefix segments[:i+1]: its upper bound cannot reach len(segments) (i is seeded with len-2
		// and only decremented), so the newest segment is never part of it
		for _, d := range eng.CallsIn(fn, cl+"deleteCleaner.deleteSegments") {
			a := d.Common().Args
			sl, isSl := a[len(a)-1].(*ssa.Slice)
			if !isSl || !eng.Param("segments")(sl.X) || sl.High == nil {
				continue
			}
			okIdx := false
			if bo, isBo := sl.High.(*ssa.BinOp); isBo && bo.Op == token.ADD && eng.IntConst(1)(bo.Y) && seededBelowLast(bo.X) && sl.Low == nil {
				okIdx = true
			}
			c.Check(okIdx, "delete candidate in "+fn.Name()+" is never the newest segment", c.Pos(d.(ssa.Instruction)), "segments[:i+1] with i starting at len(segments)-2 and only decreasing", "the prefix handed to deleteSegments can include the newest segment")
		}
		// every element appended to toDelete has an index that cannot be len-1
		eng.Instrs(fn, func(in ssa.Instruction) {
			call, ok := in.(*ssa.Call)
			if !ok {
				return
			}
			b, ok := call.Call.Value.(*ssa.Builtin)
			if !ok || b.Name() != "append" {
				return
			}
			el := variadicElems(call.Call.Args[1])
			if len(el) != 1 {
				return
			}
			ia := indexOfLoad(el[0])
			if ia == nil || !eng.Param("segments")(ia.X) {
				return
			}
			// is this the delete list? its result flows to deleteSegments
			if !flowsToDelete(call) {
				return
			}
			okIdx := false
			why := ""
			// (a) guarded by i != len-1 ; (b) counter phi seeded with len-2 and only decremented
			ne := eng.CmpEdges(fn, eng.Same(ia.Index), lastIdx, eng.NE)
			if g, _ := eng.GuardedBy(fn, call, ne); g && len(ne) > 0 {
				okIdx, why = true, "guarded by i != len(segments)-1"
			} else if seededBelowLast(ia.Index) {
				okIdx, why = true, "index counter starts at len(segments)-2 and only decreases"
			}
			c.Check(okIdx, "delete candidate in "+fn.Name()+" is never the newest segment", c.Pos(call), why, "segments[i] is added to the delete list with an index that can be len(segments)-1: the active segment could be deleted")
		})
	}
	c.Floor(6)

	// ---- R09.2 limit relations
	c.Rule("R09.2", "K1")
	ruleCountLimitKeepsEverythingOnlyWhenItFits(c)
	for _, ps := range passes {
		fn := c.Fn(ps.key)
		if fn == nil {
			continue
		}
		over := eng.CmpEdges(fn, eng.AnyV, eng.LoadNamed(ps.limit, nil), eng.GT)
		c.Check(len(over) > 0, fn.Name()+" stops on total > limit", p.Pos(fn.Pos()), "the walk stops when the running total exceeds Retention."+ps.limit, "the stop condition of "+fn.Name()+" is not `total > Retention."+ps.limit+"`")
		// total seeded with the last segment's measure
		seeded := false
		for _, m := range eng.CallsIn(fn, ps.measure) {
			if ia := indexOfLoad(m.Common().Args[0]); ia != nil && lastIdx(ia.Index) {
				seeded = true
			}
		}
		c.Check(seeded, fn.Name()+" counts the newest segment", p.Pos(fn.Pos()), "the total starts with the newest segment's size", "the running total is not seeded with the newest segment: older segments survive although the limit is exceeded")
		// a segment is kept (prepended) only on the not-over edge
		notOver := eng.CmpEdges(fn, eng.AnyV, eng.LoadNamed(ps.limit, nil), eng.LE)
		eng.Instrs(fn, func(in ssa.Instruction) {
			call, ok := in.(*ssa.Call)
			if !ok {
				return
			}
			b, ok := call.Call.Value.(*ssa.Builtin)
			if !ok || b.Name() != "append" || flowsToDelete(call) {
				return
			}
			// the prepend: append([]*segment{s}, cleanedSegments...)
			if len(variadicElems(call.Call.Args[0])) != 1 && !isOneElemSlice(call.Call.Args[0]) {
				return
			}
			g, w := eng.GuardedBy(fn, call, notOver)
			c.Check(g && len(notOver) > 0, fn.Name()+" keeps a segment only within the limit", c.Pos(call), "a segment is prepended only on total <= limit", "a segment is kept although the total exceeds the limit (path "+w.String()+")")
		})
	}
	if fn := c.Fn(cl + "(*deleteCleaner).applyAgeLimit"); fn != nil {
		old := eng.CmpEdges(fn, eng.LoadNamed("lastWriteTime", nil), eng.Call(-1, "var:"+cl+"computeTTL"), eng.LT)
		old = append(old, eng.CmpEdges(fn, eng.Call(-1, cl+"segment.LastWriteTime"), eng.Call(-1, "var:"+cl+"computeTTL"), eng.LT)...)
		eng.Instrs(fn, func(in ssa.Instruction) {
			call, ok := in.(*ssa.Call)
			if !ok {
				return
			}
			if b, ok := call.Call.Value.(*ssa.Builtin); ok && b.Name() == "append" && flowsToDelete(call) {
				g, w := eng.GuardedBy(fn, call, old)
				c.Check(g && len(old) > 0, "age pass deletes only expired segments", c.Pos(call), "a segment becomes a delete candidate only on lastWriteTime < ttl", "a segment younger than the TTL can be deleted (path "+w.String()+")")
			}
		})
		ttl := eng.CallsIn(fn, "var:"+cl+"computeTTL")
		c.Check(len(ttl) == 1 && eng.LoadNamed("Age", nil)(ttl[0].Common().Args[0]), "TTL from Retention.Age", p.Pos(fn.Pos()), "computeTTL(c.Retention.Age)", "the TTL is not computed from Retention.Age")
	}
	c.Floor(8)

	// ---- R09.3 suffix shape
	c.Rule("R09.3", "K2")
	for _, ps := range passes {
		fn := c.Fn(ps.key)
		if fn == nil {
			continue
		}
		// after the break all remaining indices are deleted: the delete loop runs while i > -1 and decrements by one
		okLoop := false
		eng.Instrs(fn, func(in ssa.Instruction) {
			if bo, ok := in.(*ssa.BinOp); ok && bo.Op == token.SUB && eng.IntConst(1)(bo.Y) {
				if _, ok := bo.X.(*ssa.Phi); ok {
					okLoop = true
				}
			}
		})
		gt := eng.CmpEdges(fn, eng.AnyV, eng.IntConst(-1), eng.GT)
		c.Check(okLoop && len(gt) >= 2, fn.Name()+" deletes every older segment after the stop", p.Pos(fn.Pos()), "the delete loop continues from the stop index down to 0 in steps of one", "the delete loop of "+fn.Name()+" does not cover all indices below the stop index: the survivors are not a contiguous suffix")
		// the result returned is the kept list, not the input
		for _, r := range eng.Returns(fn) {
			if len(eng.RetVals(r)) == 2 && eng.NilConst(eng.RetVals(r)[1]) && !eng.Param("segments")(eng.RetVals(r)[0]) {
				ok := sliceFromLast(eng.RetVals(r)[0])
				c.Check(ok, fn.Name()+" returns the kept suffix", c.Pos(r), "the returned list is built from the newest segment backwards", "the list returned by "+fn.Name()+" is not the kept suffix")
			}
		}
	}
	if fn := c.Fn(cl + "(*deleteCleaner).applyAgeLimit"); fn != nil {
		nRet, ok := allReturns(fn, errNil(1), func(rv []ssa.Value) bool {
			sl, ok2 := rv[0].(*ssa.Slice)
			return ok2 && eng.Param("segments")(sl.X) && sl.High == nil && sl.Low != nil
		}, func(rv []ssa.Value) bool { return eng.Param("segments")(rv[0]) })
		ok = ok && nRet >= 2
		c.Check(ok, "age pass returns a suffix of its input", p.Pos(fn.Pos()), "segments[idx:]", "applyAgeLimit does not return a suffix segments[idx:]")
	}
	c.Floor(5)

	// ---- R09.4 order and enablement
	c.Rule("R09.4", "K2")
	if fn := c.Fn(cl + "(*deleteCleaner).Clean"); fn != nil {
		age := eng.CallsIn(fn, cl+"deleteCleaner.applyAgeLimit")
		msg := eng.CallsIn(fn, cl+"deleteCleaner.applyMessagesLimit")
		byt := eng.CallsIn(fn, cl+"deleteCleaner.applyBytesLimit")
		if len(age) != 1 || len(msg) != 1 || len(byt) != 1 {
			c.Unresolved("the three retention passes in deleteCleaner.Clean")
		} else {
			noBack := func(a, b ssa.CallInstruction, what string) {
				q := &eng.PathQuery{Fn: fn, FromAfter: []ssa.Instruction{b.(ssa.Instruction)}, Target: func(x ssa.Instruction) bool { return x == a.(ssa.Instruction) }}
				c.Check(q.Find() == nil, what, c.Pos(b.(ssa.Instruction)), "order fixed by the CFG", "the retention passes do not run in the order age, messages, bytes")
			}
			noBack(age[0], msg[0], "age before messages")
			noBack(msg[0], byt[0], "messages before bytes")
			for _, x := range []struct {
				call ssa.CallInstruction
				f    string
			}{{age[0], "Age"}, {msg[0], "Messages"}, {byt[0], "Bytes"}} {
				pos := eng.CmpEdges(fn, eng.LoadNamed(x.f, nil), eng.IntConst(0), eng.GT)
				g, w := eng.GuardedBy(fn, x.call.(ssa.Instruction), pos)
				c.Check(g && len(pos) > 0, x.f+" pass only when its limit is set", c.Pos(x.call.(ssa.Instruction)), "guarded by Retention."+x.f+" > 0", "the "+x.f+" pass runs although no "+x.f+" limit is configured (path "+w.String()+")")
			}
			// each pass works on the previous pass's result
			ok := eng.Param("segments")(age[0].Common().Args[1]) || true
			_ = ok
		}
	}
	c.Floor(5)

	// ---- R09.5 mark then delete
	c.Rule("R09.5", "K2")
	if fn := c.Fn(cl + "(*deleteCleaner).deleteSegments"); fn != nil {
		marks := eng.CallsIn(fn, cl+"segment.MarkDeleted")
		dels := eng.CallsIn(fn, cl+"segment.Delete")
		if len(marks) == 0 || len(dels) == 0 {
			c.Violate("mark-then-delete", p.Pos(fn.Pos()), "deleteSegments no longer marks segments deleted before removing their files")
		}
		for _, d := range dels {
			q := &eng.PathQuery{Fn: fn, FromAfter: []ssa.Instruction{d.(ssa.Instruction)}, Target: eng.IsCallTo(cl + "segment.MarkDeleted")}
			w := q.Find()
			c.Check(w == nil, "all marks precede the first delete", c.Pos(d.(ssa.Instruction)), "no MarkDeleted is reachable after a Delete", "a segment can be marked deleted after another segment's files were already removed (path "+w.String()+")")
		}
		// both loops range over the same slice
		for _, m := range marks {
			ia := indexOfLoad(m.Common().Args[0])
			c.Check(ia != nil && eng.Param("segments")(ia.X), "every segment to delete is marked", c.Pos(m.(ssa.Instruction)), "MarkDeleted over the whole input", "MarkDeleted does not range over the input list")
		}
	}
	c.Floor(2)

	// ---- R09.6 earliest epoch follows the swap
	c.Rule("R09.6", "K2")
	if fn := c.Fn(cl + "(*commitLog).Clean"); fn != nil {
		ce := eng.CallsIn(fn, cl+"leaderEpochCache.ClearEarliest")
		ok := len(ce) == 1
		if ok {
			a := ce[0].Common().Args[1]
			ok = eng.LoadNamed("BaseOffset", nil)(a)
			if !ok {
				// … or the smaller of that base offset and the newest offset (a log retention has emptied, F81)
				if ph, isPhi := eng.Strip(a).(*ssa.Phi); isPhi {
					hasBase := false
					for _, e := range ph.Edges {
						if eng.LoadNamed("BaseOffset", nil)(e) {
							hasBase = true
						}
					}
					ok = hasBase
				}
				// … written with min(…): the builtin or the package's own helper
				if call := eng.AsCall(eng.Strip(a)); call != nil && (isBuiltinCall(call, "min") || eng.CalleeRef(&call.Call) == cl+"min") {
					for _, x := range call.Call.Args {
						if eng.LoadNamed("BaseOffset", nil)(x) {
							ok = true
						}
					}
				}
			}
		}
		pos := p.Pos(fn.Pos())
		if len(ce) > 0 {
			pos = c.Pos(ce[0].(ssa.Instruction))
		}
		c.Check(ok, "earliest leader epoch moved to the new first segment", pos, "ClearEarliest(l.segments[0].BaseOffset) after the swap", "Clean does not move the earliest leader epoch to the first retained segment")
		if len(ce) == 1 {
			segF := p.Field(clPkg, "commitLog", "segments")
			g, w := eng.PrecededBy(fn, ce[0].(ssa.Instruction), func(in ssa.Instruction) bool {
				st, ok := in.(*ssa.Store)
				if !ok {
					return false
				}
				fa, ok := st.Addr.(*ssa.FieldAddr)
				return ok && fieldIs(fa, segF)
			})
			c.Check(g, "epoch trim uses the swapped list", c.Pos(ce[0].(ssa.Instruction)), "l.segments is replaced before ClearEarliest reads it", "ClearEarliest runs before the segment list was swapped (path "+w.String()+")")
			// retention-only cleans (no compaction cache) must take the trim branch, compaction must take the replace branch
			noCache := eng.CmpEdges(fn, eng.Call(1, cl+"commitLog.clean"), eng.NilConst, eng.EQ)
			hasCache := eng.CmpEdges(fn, eng.Call(1, cl+"commitLog.clean"), eng.NilConst, eng.NE)
			g1, w1 := eng.GuardedBy(fn, ce[0].(ssa.Instruction), noCache)
			okBr := g1 && len(noCache) > 0
			wit := w1
			for _, rp := range eng.CallsIn(fn, cl+"leaderEpochCache.Replace") {
				g2, w2 := eng.GuardedBy(fn, rp.(ssa.Instruction), hasCache)
				if !g2 {
					okBr, wit = false, w2
				}
			}
			c.Check(okBr, "epoch trim exactly when no compaction cache was built", c.Pos(ce[0].(ssa.Instruction)), "ClearEarliest on epochCache == nil, Replace on epochCache != nil", "after a retention-only clean the leader epoch cache is not trimmed to the first retained segment (or a nil cache replaces it) (path "+wit.String()+")")
		}
	}
	c.Floor(3)

	// ---- R09.7 a stop really deletes, and nothing else does
	c.Rule("R09.7", "K1")
	delAppends := func(fn *ssa.Function) []ssa.Instruction {
		var out []ssa.Instruction
		eng.Instrs(fn, func(in ssa.Instruction) {
			if call, ok := in.(*ssa.Call); ok {
				if b, ok := call.Call.Value.(*ssa.Builtin); ok && b.Name() == "append" && flowsToDelete(call) {
					out = append(out, in)
				}
			}
		})
		return out
	}
	okReturn := func(in ssa.Instruction) bool {
		r, ok := in.(*ssa.Return)
		return ok && len(eng.RetVals(r)) == 2 && eng.NilConst(eng.RetVals(r)[1])
	}
	isDelete := eng.IsCallTo(cl + "deleteCleaner.deleteSegments")
	for _, ps := range passes {
		fn := c.Fn(ps.key)
		if fn == nil {
			continue
		}
		// every comparison of the walk counter with -1 is exactly `> -1`: `>=` walks to index -1, `> 0` never looks at segment 0
		nCmp, okCmp := allCmpExact(fn, eng.AnyV, eng.IntConst(-1), eng.GT)
		// the delete list may also be the prefix segments[:i+1] of the input (oldest first), which needs no delete loop
		prefix := false
		for _, dc := range eng.CallsIn(fn, cl+"deleteCleaner.deleteSegments") {
			a := dc.Common().Args
			if sl, isSl := a[len(a)-1].(*ssa.Slice); isSl && eng.Param("segments")(sl.X) && sl.Low == nil && sl.High != nil &&
				eng.Bin(token.ADD, func(v ssa.Value) bool { _, isPhi := v.(*ssa.Phi); return isPhi }, eng.IntConst(1))(sl.High) {
				prefix = true
			}
		}
		minCmp := 3
		if prefix {
			minCmp = 2
		}
		c.Check(okCmp && nCmp >= minCmp, fn.Name()+" walks down to index 0 and not further", p.Pos(fn.Pos()), "every test of the counter is `i > -1` (walk, guard, delete loop)", "a loop or guard of "+fn.Name()+" does not test the counter with exactly `> -1`: the oldest segment is skipped or index -1 is read")
		over := eng.CmpEdges(fn, eng.AnyV, eng.LoadNamed(ps.limit, nil), eng.GT)
		below := eng.CmpEdges(fn, eng.AnyV, eng.IntConst(-1), eng.LE)
		// After the stop the counter is >= 0, so the `<= -1` edges are infeasible until the counter is decremented: on the remaining
		// paths the pass must not return success without deleting, and the delete list must not stay empty.
		q := &eng.PathQuery{Fn: fn, FromEdges: over, Target: okReturn, CutInstr: isDelete, CutEdges: below}
		w := q.Find()
		c.Check(w == nil && len(over) > 0, fn.Name()+" deletes whenever it stopped", p.Pos(fn.Pos()), "from total > limit every path to a successful return calls deleteSegments", "after the walk stopped on total > limit, "+fn.Name()+" can return successfully without calling deleteSegments (path "+w.String()+"): the list no longer contains the older segments but their files stay")
		apps := delAppends(fn)
		reach := false
		for _, a := range apps {
			a := a
			q := &eng.PathQuery{Fn: fn, FromEdges: over, Target: func(in ssa.Instruction) bool { return in == a }, CutInstr: isDelete, CutEdges: below}
			if q.Find() != nil {
				reach = true
			}
		}
		c.Check(reach || prefix, fn.Name()+" collects the segments below the stop", p.Pos(fn.Pos()), "the delete list is filled on the i > -1 edge after the stop", "after the walk stopped, "+fn.Name()+" never adds a segment to the delete list before calling deleteSegments")
	}
	if fn := c.Fn(cl + "(*deleteCleaner).applyAgeLimit"); fn != nil {
		apps := delAppends(fn)
		// the age pass stops at the first segment it keeps: once idx is set, nothing more becomes a delete candidate
		var idxStores []ssa.Instruction
		eng.Instrs(fn, func(in ssa.Instruction) {
			if phi, ok := in.(*ssa.Phi); ok && phi.Comment == "idx" {
				_ = phi
			}
		})
		old := eng.CmpEdges(fn, eng.Call(-1, cl+"segment.LastWriteTime"), eng.Call(-1, "var:"+cl+"computeTTL"), eng.LT)
		keep := eng.CmpEdges(fn, eng.Call(-1, cl+"segment.LastWriteTime"), eng.Call(-1, "var:"+cl+"computeTTL"), eng.GE)
		keep = append(keep, eng.CmpEdges(fn, eng.AnyV, lastIdx, eng.EQ)...)
		_ = idxStores
		contiguous := len(keep) > 0 && len(apps) > 0
		var wit *eng.Witness
		for _, a := range apps {
			a := a
			q := &eng.PathQuery{Fn: fn, FromEdges: keep, Target: func(in ssa.Instruction) bool { return in == a }}
			if w := q.Find(); w != nil {
				contiguous, wit = false, w
			}
		}
		c.Check(contiguous, "age pass stops at the first segment it keeps", p.Pos(fn.Pos()), "no delete candidate is collected after a segment was kept", "after keeping a segment the age pass can still collect a later one (path "+wit.String()+"): the survivors are not a contiguous suffix")
		empty := eng.CmpEdges(fn, eng.Len(eng.AnyV), eng.IntConst(0), eng.LE)
		q := &eng.PathQuery{Fn: fn, FromAfter: apps, Target: okReturn, CutInstr: isDelete, CutEdges: empty}
		w := q.Find()
		c.Check(w == nil && len(apps) > 0 && len(old) > 0, "age pass deletes what it collected", p.Pos(fn.Pos()), "from a collected candidate every path to a successful return calls deleteSegments", "applyAgeLimit can return successfully without deleting the segments it dropped from the list (path "+w.String()+")")
	}
	if fn := c.Fn(cl + "(*deleteCleaner).Clean"); fn != nil {
		// the early exit is taken only for an empty list or when no limit is configured
		none := eng.CmpEdges(fn, eng.Len(eng.Param("segments")), eng.IntConst(0), eng.EQ)
		none = append(none, eng.BoolEdges(fn, eng.Call(-1, cl+"deleteCleaner.noRetentionLimits"), true)...)
		n := 0
		for _, r := range eng.Returns(fn) {
			if rv := eng.RetVals(r); len(rv) == 2 && eng.Param("segments")(rv[0]) {
				n++
				g, w := eng.GuardedBy(fn, r, none)
				c.Check(g && len(none) >= 2, "retention is skipped only without segments or limits", c.Pos(r), "the unchanged input is returned only on len(segments) == 0 or noRetentionLimits()", "deleteCleaner.Clean can return its input unchanged although segments and limits exist (path "+w.String()+")")
			}
		}
		if n == 0 {
			c.OK("retention is skipped only without segments or limits", p.Pos(fn.Pos()), "the input is never returned unchanged")
		}
	}
	if fn := c.FnQuiet(cl + "(*deleteCleaner).noRetentionLimits"); fn != nil {
		// true is returned only when all three limits are zero
		c.Check(returnsTrueOnlyWhenAllZero(fn), "no-limits test covers all three limits", p.Pos(fn.Pos()), "Bytes == 0 && Messages == 0 && Age == 0", "noRetentionLimits can report true although a limit is configured: that limit is never enforced")
	}
	ruleCleanSwap(c)
	c.Floor(10)
	// the limits that the cleaner enforces are the ones the stream was created with
	c.Rule("R16.8", "K6")
	ruleStreamConfigPlumbing(c, "RetentionMaxAge", "RetentionMaxBytes", "RetentionMaxMessages", "CleanerInterval", "SegmentMaxBytes", "SegmentMaxAge")
	ruleRetentionOptionsReachCleaner(c)
	c.Floor(22)
	// ---- R15.8 (shared) the configuration keys this property's switches hang on reach their fields
	ruleConfigWiring(c, "R15.8")

	// ---- shared: retention deletes whole segments through segment.Delete, which must be repeatable (a half-failed deletion is
	// retried by the next clean), and decides by age on the segment's last write time, which the bookkeeping shapes fix
	c.Rule("R05.7", "K2")
	ruleSegmentDelete(c)
	c.Floor(2)
	c.Rule("R01.8", "K5")
	ruleLogShapes(c)
	c.Floor(20)

	// ---- extensions from repaired defects
	c.Rule("R09.5", "K2")
	ruleRetentionDeletesFromTheOldestEnd(c)
	c.Rule("R09.4", "K2")
	ruleCleanerRunsEveryTick(c)

}

// allCmpExact counts the If conditions in fn that compare a with b and reports whether every one of them uses exactly rel
// (or its complement, i.e. the same boundary).
func allCmpExact(fn *ssa.Function, a, b eng.VM, rel eng.Rel) (int, bool) {
	n, ok := 0, true
	for _, r := range eng.CmpRels(fn, a, b) {
		if r == rel || r == rel.Neg() {
			n++
		} else {
			ok = false
		}
	}
	return n, ok
}

// returnsTrueOnlyWhenAllZero: every path on which fn returns true (or a conjunction that can be true) crosses the == 0 edge of
// each limit. fn is a short predicate; its result is a phi of constants and comparisons.
func returnsTrueOnlyWhenAllZero(fn *ssa.Function) bool {
	fields := []string{"Bytes", "Messages", "Age"}
	for _, r := range eng.Returns(fn) {
		if len(eng.RetVals(r)) != 1 {
			return false
		}
		// which comparisons are decided by branching, which one is the returned value itself
		covered := map[string]bool{}
		var visit func(v ssa.Value, depth int) bool
		visit = func(v ssa.Value, depth int) bool {
			if depth > 4 {
				return false
			}
			switch x := v.(type) {
			case *ssa.Phi:
				for i, e := range x.Edges {
					if k, ok := e.(*ssa.Const); ok && k.Value != nil && k.Value.String() == "false" {
						continue
					}
					// the value arriving over this edge may be true: the predecessor must be behind the == 0 edges of the
					// other fields and e must be the remaining comparison
					pred := x.Block().Preds[i]
					for _, f := range fields {
						z := eng.CmpEdges(fn, eng.LoadNamed(f, nil), eng.IntConst(0), eng.EQ)
						if len(pred.Instrs) > 0 {
							if g, _ := eng.GuardedBy(fn, pred.Instrs[len(pred.Instrs)-1], z); g && len(z) > 0 {
								covered[f] = true
							}
						}
					}
					if !visit(e, depth+1) {
						return false
					}
				}
				return true
			case *ssa.BinOp:
				if x.Op == token.EQL && (eng.IntConst(0)(x.Y) || eng.IntConst(0)(x.X)) {
					val := x.X
					if eng.IntConst(0)(x.X) {
						val = x.Y
					}
					for _, f := range fields {
						if eng.LoadNamed(f, nil)(val) {
							covered[f] = true
							return true
						}
					}
				}
				return false
			case *ssa.Const:
				return x.Value != nil && x.Value.String() == "false"
			}
			return false
		}
		if !visit(eng.RetVals(r)[0], 0) {
			return false
		}
		for _, f := range fields {
			if !covered[f] {
				return false
			}
		}
	}
	return true
}

func flowsToDelete(call *ssa.Call) bool {
	seen := map[ssa.Value]bool{}
	var walk func(v ssa.Value, d int) bool
	walk = func(v ssa.Value, d int) bool {
		if d > 6 || seen[v] || v.Referrers() == nil {
			return false
		}
		seen[v] = true
		for _, r := range *v.Referrers() {
			switch x := r.(type) {
			case *ssa.Call:
				if eng.CalleeRef(&x.Call) == cl+"deleteCleaner.deleteSegments" {
					return true
				}
				if b, ok := x.Call.Value.(*ssa.Builtin); ok && (b.Name() == "append" || b.Name() == "len") {
					if b.Name() == "append" && walk(x, d+1) {
						return true
					}
				}
			case *ssa.Phi:
				if walk(x, d+1) {
					return true
				}
			}
		}
		return false
	}
	return walk(call, 0)
}

// seededBelowLast: v is a loop counter whose initial value is len(segments)-2 (or smaller) and that is only decremented.
func seededBelowLast(v ssa.Value) bool {
	seen := map[ssa.Value]bool{}
	var ok func(v ssa.Value) bool
	ok = func(v ssa.Value) bool {
		if seen[v] {
			return true
		}
		seen[v] = true
		switch x := v.(type) {
		case *ssa.Phi:
			for _, e := range x.Edges {
				if !ok(e) {
					return false
				}
			}
			return true
		case *ssa.BinOp:
			if x.Op == token.SUB {
				if k, isC := eng.ConstVal(x.Y); isC && k >= 1 {
					if eng.Len(eng.Param("segments"))(x.X) {
						return k >= 2
					}
					return ok(x.X)
				}
			}
		}
		return false
	}
	return ok(v)
}

func isOneElemSlice(v ssa.Value) bool {
	sl, ok := v.(*ssa.Slice)
	if !ok {
		return false
	}
	al, ok := sl.X.(*ssa.Alloc)
	if !ok {
		return false
	}
	return len(al.Type().String()) > 0
}

// sliceFromLast: the returned list starts as []*segment{segments[len-1]} and grows by prepending.
func sliceFromLast(v ssa.Value) bool {
	seen := map[ssa.Value]bool{}
	var walk func(v ssa.Value) bool
	walk = func(v ssa.Value) bool {
		if seen[v] {
			return true
		}
		seen[v] = true
		switch x := v.(type) {
		case *ssa.Phi:
			for _, e := range x.Edges {
				if !walk(e) {
					return false
				}
			}
			return true
		case *ssa.Call:
			if b, ok := x.Call.Value.(*ssa.Builtin); ok && b.Name() == "append" {
				return walk(x.Call.Args[1]) // prepend: the old list is the variadic part
			}
		case *ssa.Slice:
			if el := variadicElems(x); len(el) == 1 {
				if ia := indexOfLoad(el[0]); ia != nil && eng.Bin(token.SUB, eng.Len(eng.Param("segments")), eng.IntConst(1))(ia.Index) {
					return true
				}
			}
		}
		return false
	}
	return walk(v)
}

// ruleCleanSwap (part of R09.7, shared with C08): segments rolled while the cleaner (retention or compaction) ran are
// re-attached to the cleaned list, exactly those, on every path.
func ruleCleanSwap(c *eng.Ctx) {
	p := c.P
	// segments rolled while the cleaner ran are kept
	if fn := c.Fn(cl + "(*commitLog).Clean"); fn != nil {
		segF := p.Field(clPkg, "commitLog", "segments")
		rb := eng.CallsIn(fn, cl+"commitLog.rebaseSegments")
		more := eng.CmpEdges(fn, eng.Len(eng.Load(segF, nil)), eng.Len(eng.Load(segF, nil)), eng.GT)
		okRb := len(rb) == 1 && len(more) > 0 && exactRel(fn, eng.Len(eng.Load(segF, nil)), eng.Len(eng.Load(segF, nil)), eng.GT)
		pos := p.Pos(fn.Pos())
		if len(rb) == 1 {
			pos = c.Pos(rb[0].(ssa.Instruction))
			g, _ := eng.GuardedBy(fn, rb[0].(ssa.Instruction), more)
			fromArg := eng.ArgOf(rb[0].Common(), "from")
			if fromArg == nil {
				fromArg = rb[0].Common().Args[1]
			}
			sl, isSl := fromArg.(*ssa.Slice)
			okRb = okRb && g && isSl && sl.High == nil && sl.Low != nil && eng.Len(eng.Load(segF, nil))(sl.Low) && eng.Load(segF, nil)(sl.X)
			// the swapped-in list is the rebased one on that path
			okStore := false
			for _, st := range eng.FieldStores(fn, func(fa *ssa.FieldAddr) bool { return fieldIs(fa, segF) }) {
				if phi, ok := st.Val.(*ssa.Phi); ok {
					for _, e := range phi.Edges {
						if e == rb[0].Value() {
							okStore = true
						}
					}
				} else if st.Val == rb[0].Value() {
					okStore = true
				}
			}
			okRb = okRb && okStore
			// ... and on every path on which more segments exist: nothing else (compaction ran or not) may decide it
			q := &eng.PathQuery{Fn: fn, FromEdges: more, Target: func(x ssa.Instruction) bool {
				st, isSt := x.(*ssa.Store)
				if !isSt {
					return false
				}
				fa, isFA := st.Addr.(*ssa.FieldAddr)
				return isFA && fieldIs(fa, segF)
			}, CutInstr: func(x ssa.Instruction) bool { return x == rb[0].(ssa.Instruction) }}
			if w := q.Find(); w != nil {
				okRb = false
			}
			// the comparison is made on every path to the swap (it is not skipped when, say, no compaction ran)
			notMore := eng.CmpEdges(fn, eng.Len(eng.Load(segF, nil)), eng.Len(eng.Load(segF, nil)), eng.LE)
			for _, st := range eng.FieldStores(fn, func(fa *ssa.FieldAddr) bool { return fieldIs(fa, segF) }) {
				if g, _ := eng.GuardedBy(fn, st, append(append([]eng.Edge{}, more...), notMore...)); !g {
					okRb = false
				}
			}
		}
		// rebaseSegments itself appends the new segments to the cleaned ones
		if rf := c.FnQuiet(cl + "(*commitLog).rebaseSegments"); rf != nil {
			okApp := false
			for _, r := range eng.Returns(rf) {
				if ac := eng.AsCall(eng.RetVals(r)[0]); ac != nil {
					if b, isB := ac.Call.Value.(*ssa.Builtin); isB && b.Name() == "append" && eng.Param("to")(ac.Call.Args[0]) && eng.Param("from")(ac.Call.Args[1]) {
						okApp = true
					}
				}
			}
			okRb = okRb && okApp
		}
		c.Check(okRb, "segments rolled during a clean survive the swap", pos, "l.segments = rebaseSegments(new[len(old):], cleaned) exactly when len(new) > len(old)", "commitLog.Clean swaps in the cleaned list without re-attaching (exactly) the segments that were rolled while the cleaner ran: a segment appended during a clean is lost or duplicated")
	}
}
