package rules

import (
	"go/token"
	"strings"

	"golang.org/x/tools/go/ssa"

	"lbcheck/eng"
	"lbcheck/ir"
)

func init() {
	register(&Property{ID: "C03", Level: "other", Run: runC03,
		Technique:   "static analysis: discovered-store monotonicity guards, who-may-call, must-lockset over go/ssa, path ordering in the committed reader",
		LevelText:   "Structural clauses decided for all paths: every store to the high watermark anywhere in the module is either pre-publication or guarded by new > old under the log's write lock; only the three named writers call SetHighWatermark; the waiter protocol re-checks the watermark and registers the waiter inside one critical section and notifications cannot block; the committed reader's read limit on the watermark segment is min(len, hwPos-pos), it re-synchronises the watermark position after every wake-up, and parked readers cannot reach the read loop without a watermark change; subscriptions always create committed readers. Exactly-once / eventual delivery under all schedules is not decided.",
		LevelNote:   "Trusted: go/ssa, the lock table (commitLog.hw, hwWaiters under commitLog.mu), the frozen writer list; liveness and data equality need execution.",
		DesignRef:   "DESIGN.md §4 C03",
		Explanation: "Round 12: R09.7 (shared) segments rolled while a cleaning pass ran are re-attached on every path. R01.14 (shared) the list a parked reader searches is fetched after the wait. R03.4 also: a reader whose cached watermark segment was replaced re-initialises before it reads (F98); R03.7 also: the queued read-only signal is re-checked when the reader acts on it (F101). R03.14 a committed reader is positioned in a segment only when something is committed (F92); R03.15 the parked committed reader waits on a source the append path signals (known finding K16). R03.12 ReadAt answers from the file, not from a remembered end; R03.13 Append re-tests read-only between taking the log lock and the write, SetReadonly publishes the flag before it takes the lock (F86). R03.1 monotonic stores to commitLog.hw (all stores discovered), R03.2 who may call SetHighWatermark, R03.3 lost-wake-up freedom of waitForHW/notify*, R03.4 read limit and re-sync after wake-up, R03.5 subscriptions use committed readers, R03.6 parked readers, R03.7 read-only end of log, R03.8 lock pairing, R03.9 end-of-log announced only at the current watermark, R01.9 (shared) reader segment / resume provenance; R03.1 also requires the new > old test to run under the same write-lock hold as the store. R03.10 a reader's Read fills the buffer or reports an error (path property over both context readers). NOT decided: exactly-once and eventual delivery, stale hwPos across concurrent segment replacement.",
	})
}

const (
	clSet   = "server/commitlog.commitLog.SetHighWatermark"
	clSetI  = "server/commitlog.CommitLog.SetHighWatermark"
	clPkg   = "server/commitlog"
	clOverr = "server/commitlog.commitLog.OverrideHighWatermark"
)

func runC03(c *eng.Ctx) {
	c.Rule("R05.2", "K3")
	ruleHWCheckpointIsReplacedAtomically(c)
	// (shared with C08/C09/C11) segments rolled while a cleaning pass ran stay in the list a committed reader walks
	c.Rule("R09.7", "K1")
	ruleCleanSwap(c)
	// (shared with C08/C10) a reader recognises a replaced or removed segment whatever wraps the error on its way up
	ruleSentinelIdentity(c, "R14.6", []string{cl + "(*Reader).ReadMessage", cl + "(*ReverseReader).ReadMessage"}, "the reader does not notice that the segment it was reading was replaced (compaction, truncation) or removed (retention): it fails instead of re-positioning itself and carrying on")

	c.Rule("R03.12", "K5")
	ruleReadAtAnswersFromTheFile(c)
	c.Rule("R03.13", "K1")
	ruleAppendRechecksReadonlyUnderTheLock(c)
	c.Rule("R03.14", "K1")
	ruleNothingCommittedMeansWait(c)
	c.Rule("R03.15", "K3")
	ruleAppendsWakeParkedCommittedReaders(c)
	c.Rule("R03.16", "K2")
	ruleOneRegistrationOneWait(c)
	c.Rule("R03.4", "K1")
	ruleReplacedWatermarkSegmentReinitialises(c)
	c.Rule("R03.7", "K1")
	ruleReadonlyVerdictIsRechecked(c)
	c.Rule("R01.14", "K5")
	ruleListIsFetchedAfterTheWait(c)
	p := c.P
	hw := p.Field(clPkg, "commitLog", "hw")
	waiters := p.Field(clPkg, "commitLog", "hwWaiters")

	// ---- R03.1 every store to hw
	c.Rule("R03.1", "K1m")
	for _, a := range eng.StoresToField(p, hw, true) {
		key := ir.FuncKey(a.Fn)
		st := a.Use.(*ssa.Store)
		construct := "store to commitLog.hw in " + key
		switch key {
		case "server/commitlog.(*commitLog).open":
			// recovery, before the log is published: open is called only by New
			callers := eng.Index(p).OuterCallers("server/commitlog.commitLog.open")
			ok := len(callers) == 1 && callers[0] == "server/commitlog.New"
			c.Check(ok, construct, c.Pos(st), "recovery of the checkpointed value before the log is published (open ← New only)", "open() stores hw but is called from "+strings.Join(callers, ",")+", not only from New")
		case "server/commitlog.(*commitLog).OverrideHighWatermark":
			callers := append(eng.Index(p).OuterCallers(clOverr), eng.Index(p).OuterCallers("server/commitlog.CommitLog.OverrideHighWatermark")...)
			c.Check(len(callers) == 0, construct, c.Pos(st), "test-only override: no caller in non-test code", "OverrideHighWatermark (unguarded store) is called from non-test code: "+strings.Join(callers, ","))
		default:
			guard := eng.CmpEdges(a.Fn, eng.Same(st.Val), eng.Load(hw, eng.Same(a.Base)), eng.GT)
			g, w := eng.GuardedBy(a.Fn, st, guard)
			la := eng.LocksOf(p, a.Fn, 0)
			held := la.At(st)[eng.Path(a.Base)+".mu"] == 2
			bad := ""
			if !g || len(guard) == 0 {
				bad = "store to the high watermark is not guarded by new > old on every path (" + w.String() + "): the watermark can move backwards"
			} else if !held {
				bad = "store to the high watermark without the log's write lock: comparison and store are not atomic"
			} else {
				// the comparison itself is made under that same hold of the write lock
				muKey := eng.Path(a.Base) + ".mu"
				for _, e := range guard {
					iff := e.From.Instrs[len(e.From.Instrs)-1]
					if la.At(iff)[muKey] != 2 {
						bad = "new > l.hw is evaluated at " + c.Pos(iff) + " without the write lock held, and the store happens later under it: two callers can both pass the test and the one carrying the smaller value can store last — the watermark moves backwards"
						break
					}
					q := &eng.PathQuery{Fn: a.Fn, FromEdges: []eng.Edge{e}, Target: func(x ssa.Instruction) bool { return x == ssa.Instruction(st) }, CutInstr: func(x ssa.Instruction) bool {
						call, ok := x.(*ssa.Call)
						if !ok {
							return false
						}
						sc := call.Call.StaticCallee()
						return sc != nil && (sc.Name() == "Unlock" || sc.Name() == "RUnlock")
					}}
					if q.Find() == nil {
						bad = "every path from the test new > l.hw to the store releases a lock in between: the test and the store are not one critical section"
					}
				}
			}
			c.Check(bad == "", construct, c.Pos(st), "guarded by new > l.hw with l.mu write-held", bad)
		}
	}
	c.Floor(3)

	// ---- R03.2 who may call
	c.Rule("R03.2", "K3")
	c.WhoMayCall("SetHighWatermark", []string{clSet, clSetI},
		[]string{"server.(*partition).messageProcessingLoop", "server.(*partition).commitLoop", "server.(*partition).handleReplicationResponse"},
		[]string{"server.(*partition).messageProcessingLoop", "server.(*partition).commitLoop", "server.(*partition).handleReplicationResponse"})
	c.Floor(3)

	ruleFastPathGate(c)
	c.Floor(4)

	// ---- R03.3 lost wake-up freedom
	c.Rule("R03.3", "K4")
	ctorExempt := map[string]string{"server/commitlog.(*commitLog).open": "runs before the log is published (open ← New)"}
	c.CheckFieldLocks(eng.LockRule{Field: hw, Lock: "mu", Exempt: ctorExempt}, "commitLog.hw")
	c.CheckFieldLocks(eng.LockRule{Field: waiters, Lock: "mu", Exempt: ctorExempt}, "commitLog.hwWaiters")
	if fn := c.Fn("server/commitlog.(*commitLog).waitForHW"); fn != nil {
		n := 0
		eng.Instrs(fn, func(in ssa.Instruction) {
			if mc, ok := in.(*ssa.MakeChan); ok {
				n++
				k, ok := eng.ConstVal(mc.Size)
				c.Check(ok && k >= 1, "waiter channel capacity", c.Pos(mc), "buffered (capacity 1): a notification under the lock cannot block", "the waiter channel is unbuffered: notify* sends while holding l.mu and would block")
			}
		})
		if n == 0 {
			c.Unresolved("make(chan bool, 1) in waitForHW")
		}
		// the re-check compares the caller's hw with l.hw
		cmp := eng.CmpEdges(fn, eng.Load(hw, nil), eng.Param("hw"), eng.NE)
		c.Check(len(cmp) > 0, "re-check of hw in waitForHW", p.Pos(fn.Pos()), "l.hw != hw is tested before parking", "waitForHW does not compare l.hw with the reader's value before parking: a watermark advance between the reader's check and registration is lost")
		// registration only when unchanged, and in the critical section of the comparison
		eng.Instrs(fn, func(in ssa.Instruction) {
			if mu, ok := in.(*ssa.MapUpdate); ok {
				var loads []ssa.Instruction
				eng.Instrs(fn, func(x ssa.Instruction) {
					if u, ok := x.(*ssa.UnOp); ok && eng.Load(hw, nil)(u) {
						loads = append(loads, x)
					}
				})
				released := false
				for _, ld := range loads {
					q := &eng.PathQuery{Fn: fn, FromAfter: []ssa.Instruction{ld}, Target: func(x ssa.Instruction) bool {
						return eng.IsCallTo("sync.RWMutex.Unlock", "sync.RWMutex.RUnlock")(x)
					}, CutInstr: func(x ssa.Instruction) bool { return x == ssa.Instruction(mu) }}
					if w := q.Find(); w != nil {
						// an unlock reachable before the registration: is the registration still reachable after it?
						q2 := &eng.PathQuery{Fn: fn, FromAfter: []ssa.Instruction{w.At}, Target: func(x ssa.Instruction) bool { return x == ssa.Instruction(mu) }}
						if q2.Find() != nil {
							released = true
						}
					}
				}
				c.Check(!released && len(loads) > 0, "no release between the watermark check and parking", c.Pos(mu), "the comparison of l.hw and the registration happen in one critical section", "the log lock is released between comparing l.hw with the reader's value and registering the waiter: a watermark advance in that window notifies nobody and the reader parks for ever (lost wake-up)")
				eq := eng.CmpEdges(fn, eng.Load(hw, nil), eng.Param("hw"), eng.EQ)
				g, w := eng.GuardedBy(fn, mu, eq)
				c.Check(g && len(eq) > 0, "waiter registration", c.Pos(mu), "registered only on the l.hw == hw edge", "waiter registered although the watermark already changed: "+w.String())
			}
		})
	}
	if fn := c.Fn("server/commitlog.(*commitLog).waitForHW"); fn != nil {
		// every caller gets either an immediate answer or a registration: no path to the return without a send or a map insert
		q := &eng.PathQuery{Fn: fn, FromEntry: true, Target: isReturn, CutInstr: func(x ssa.Instruction) bool {
			switch x.(type) {
			case *ssa.Send, *ssa.MapUpdate:
				return true
			}
			return false
		}}
		w := q.Find()
		c.Check(w == nil, "waiter is answered or registered", p.Pos(fn.Pos()), "every path to the return passes a send on the waiter channel or its registration in hwWaiters", "waitForHW can return a channel that nobody will ever send on (path "+w.String()+"): the reader parks for ever")
	}
	for _, k := range []string{"server/commitlog.(*commitLog).notifyHWChange", "server/commitlog.(*commitLog).notifyReadonly"} {
		fn := c.Fn(k)
		if fn == nil {
			continue
		}
		// each send is followed by removal of the waiter (one notification per registration)
		eng.Instrs(fn, func(in ssa.Instruction) {
			snd, ok := in.(*ssa.Send)
			if !ok {
				return
			}
			q := &eng.PathQuery{Fn: fn, FromAfter: []ssa.Instruction{snd}, Target: func(x ssa.Instruction) bool { _, ok := x.(*ssa.Send); return ok || isReturn(x) },
				CutInstr: func(x ssa.Instruction) bool {
					call, ok := x.(*ssa.Call)
					if !ok {
						return false
					}
					b, ok := call.Call.Value.(*ssa.Builtin)
					return ok && b.Name() == "delete"
				}}
			w := q.Find()
			c.Check(w == nil, "send then unregister in "+fn.Name(), c.Pos(snd), "every notification is followed by removal of the waiter", "a waiter can be notified again without having been removed (second send on a capacity-1 channel blocks under the lock): "+w.String())
		})
	}
	c.Floor(12)

	// ---- R03.7 every watermark advance / readonly switch wakes the parked readers
	c.Rule("R03.7", "K2")
	for _, a := range eng.StoresToField(p, hw, true) {
		key := ir.FuncKey(a.Fn)
		if key == "server/commitlog.(*commitLog).open" {
			continue // nobody can be parked before the log is published
		}
		st := a.Use.(*ssa.Store)
		q := &eng.PathQuery{Fn: a.Fn, FromAfter: []ssa.Instruction{st}, Target: func(x ssa.Instruction) bool {
			return isReturn(x) || eng.IsCallTo("sync.RWMutex.Unlock")(x)
		}, CutInstr: eng.IsCallTo("server/commitlog.commitLog.notifyHWChange")}
		w := q.Find()
		c.Check(w == nil, "watermark advance wakes parked readers in "+key, c.Pos(st), "every path from the store to the unlock passes notifyHWChange()", "the high watermark is advanced without notifying the readers parked in waitForHW (path "+w.String()+"): committed readers that already caught up never see the new messages")
	}
	if fn := c.Fn("server/commitlog.(*commitLog).SetReadonly"); fn != nil {
		ro := eng.BoolEdges(fn, eng.Param("readonly"), true)
		// the parameter is tested more than once: a path is a "readonly == true" path when it crosses no false edge of any test
		notRO := eng.BoolEdges(fn, eng.Param("readonly"), false)
		q := &eng.PathQuery{Fn: fn, FromEntry: true, Target: isReturn, CutEdges: notRO, CutInstr: eng.IsCallTo("server/commitlog.commitLog.notifyReadonly")}
		w := q.Find()
		c.Check(w == nil && len(ro) > 0, "switch to read-only wakes parked readers", p.Pos(fn.Pos()), "on readonly == true every path to the return passes notifyReadonly()", "SetReadonly(true) can return without waking the parked readers (path "+w.String()+"): subscriptions on a read-only partition never end")
		for _, nr := range eng.CallsIn(fn, "server/commitlog.commitLog.notifyReadonly") {
			la := eng.LocksOf(p, fn, 0)
			held := la.At(nr.(ssa.Instruction))
			okL := false
			for k, m := range held {
				if strings.HasSuffix(k, ".mu") && m == 2 {
					okL = true
				}
			}
			c.Check(okL, "readonly notification under the log lock", c.Pos(nr.(ssa.Instruction)), "l.mu write-held", "notifyReadonly is called without l.mu: it races with waiter registration")
		}
	}
	if fn := c.Fn("server/commitlog.(*commitLog).notifyReadonly"); fn != nil {
		// readers are only released when the watermark has reached the end of the log
		behind := eng.CmpEdges(fn, eng.Load(hw, nil), eng.Call(-1, "server/commitlog.commitLog.NewestOffset"), eng.LT)
		q := &eng.PathQuery{Fn: fn, FromEdges: behind, Target: func(x ssa.Instruction) bool { _, ok := x.(*ssa.Send); return ok }}
		c.Check(q.Find() == nil && len(behind) > 0, "read-only end-of-log only when everything is committed", p.Pos(fn.Pos()), "no reader is told 'end of readonly log' while hw < newest offset", "readers can be told the read-only log ended although committed messages are still outstanding")
	}
	if fn := c.Fn("server/commitlog.(*commitLog).waitForHW"); fn != nil {
		// the immediate readonly answer requires hw == newest && IsReadonly()
		eq := eng.CmpEdges(fn, eng.Load(hw, nil), eng.Call(-1, "server/commitlog.commitLog.NewestOffset"), eng.EQ)
		ro := eng.BoolEdges(fn, eng.Call(-1, "server/commitlog.commitLog.IsReadonly"), true)
		eng.Instrs(fn, func(in ssa.Instruction) {
			if snd, ok := in.(*ssa.Send); ok {
				if k, ok := snd.X.(*ssa.Const); ok && k.Value != nil && k.Value.String() == "true" {
					g1, _ := eng.GuardedBy(fn, snd, eq)
					g2, _ := eng.GuardedBy(fn, snd, ro)
					c.Check(g1 && g2, "immediate read-only answer", c.Pos(snd), "only when l.hw == NewestOffset() ∧ IsReadonly()", "waitForHW answers 'read-only end' without hw == newest ∧ readonly")
				}
			}
		})
	}
	c.Floor(5)

	// ---- R03.8 acquire/release pairing
	c.Rule("R03.8", "K2")
	ruleLockPairing(c, "commitlog/commitlog.go", "commitlog/reader.go", "commitlog/segment.go", "commitlog/index.go")
	c.Floor(40)

	// ---- R03.10 a Read fills the buffer or fails
	c.Rule("R03.10", "K1")
	ruleReadFillsOrFails(c)
	c.Floor(2)

	// ---- R03.4 read limit and re-sync
	c.Rule("R03.4", "K1")
	if fn := c.Fn("server/commitlog.(*committedReader).readLoop"); fn != nil {
		segF := p.Field(clPkg, "committedReader", "seg")
		hwSegF := p.Field(clPkg, "committedReader", "hwSeg")
		hwPosF := p.Field(clPkg, "committedReader", "hwPos")
		posF := p.Field(clPkg, "committedReader", "pos")
		reads := eng.CallsIn(fn, "server/commitlog.segment.ReadAt")
		if len(reads) != 1 {
			c.Unresolved("single ReadAt call in committedReader.readLoop")
		} else {
			rd := reads[0].(*ssa.Call)
			sl, ok := rd.Call.Args[1].(*ssa.Slice)
			if !ok || sl.High == nil {
				c.Violate("read limit", c.Pos(rd), "the buffer handed to ReadAt is not sliced with an upper limit: the reader can read past the high watermark position")
			} else {
				onHW := eng.CmpEdges(fn, eng.Load(segF, nil), eng.Load(hwSegF, nil), eng.EQ)
				isMin := func(v ssa.Value) bool {
					call, ok := v.(*ssa.Call)
					if !ok || !(eng.CalleeRef(&call.Call) == "server/commitlog.min" || isBuiltinCall(call, "min")) {
						return false
					}
					for _, a := range call.Call.Args {
						if eng.Bin(token.SUB, eng.Load(hwPosF, nil), eng.Load(posF, nil))(a) {
							return true
						}
					}
					return false
				}
				high := sl.High
				if cv, ok := high.(*ssa.Convert); ok {
					high = cv.X
				}
				okLim := false
				detail := ""
				if ph, ok := high.(*ssa.Phi); ok && len(onHW) > 0 {
					okLim = true
					sawMin := false
					for i, e := range ph.Edges {
						pred := ph.Block().Preds[i]
						if isMin(e) {
							// must come from the seg == hwSeg side
							g, _ := eng.GuardedBy(fn, pred.Instrs[len(pred.Instrs)-1], onHW)
							_ = g
							sawMin = true
							continue
						}
						// the unlimited value may only arrive over the seg != hwSeg edge
						direct := false
						for _, oe := range eng.CmpEdges(fn, eng.Load(segF, nil), eng.Load(hwSegF, nil), eng.NE) {
							if oe.From == pred && oe.To() == ph.Block() {
								direct = true
							}
						}
						if !direct {
							okLim = false
							detail = "an unlimited read size reaches ReadAt on a path where the reader is on the watermark segment"
						}
					}
					if !sawMin {
						okLim = false
						detail = "the limit min(len, hwPos - pos) is not applied on the watermark segment"
					}
				} else if isMin(high) {
					okLim = true
				} else {
					detail = "the read limit is " + eng.Describe(high) + ", not min(len, hwPos - pos) on the r.seg == r.hwSeg edge"
				}
				c.Check(okLim, "read limit", c.Pos(rd), "ReadAt is given p[n:lim] with lim = min(len, hwPos - pos) whenever r.seg == r.hwSeg", detail)
			}
			// re-sync after wake-up
			waits := eng.CallsIn(fn, "server/commitlog.committedReader.waitForHW")
			if len(waits) == 0 {
				c.Unresolved("waitForHW call in readLoop")
			}
			for _, wc := range waits {
				q := &eng.PathQuery{Fn: fn, FromAfter: []ssa.Instruction{wc.(ssa.Instruction)}, Target: func(x ssa.Instruction) bool { return x == rd }, CutInstr: eng.IsCallTo("server/commitlog.getHWPos")}
				w := q.Find()
				c.Check(w == nil, "re-sync after wake-up", c.Pos(wc.(ssa.Instruction)), "no path from the wake-up to the next ReadAt avoids getHWPos", "after a wake-up the reader can read again with a stale watermark position (path "+w.String()+")")
			}
			// the result of getHWPos is what is stored
			hwF := p.Field(clPkg, "committedReader", "hw")
			for _, gc := range eng.CallsIn(fn, "server/commitlog.getHWPos") {
				gv := gc.(*ssa.Call)
				g, w := eng.PrecededBy(fn, gv, func(x ssa.Instruction) bool {
					st, ok := x.(*ssa.Store)
					if !ok {
						return false
					}
					fa, ok := st.Addr.(*ssa.FieldAddr)
					return ok && fieldIs(fa, hwF) && isHWValue(st.Val)
				})
				c.Check(g, "reader adopts the new watermark before positioning", c.Pos(gv), "r.hw = HighWatermark() precedes getHWPos", "the reader computes the watermark position without having stored the new watermark (path "+w.String()+"): it keeps reading up to a stale position or spins")
				changed := eng.CmpEdges(fn, isHWValue, eng.Load(hwF, nil), eng.NE)
				q := &eng.PathQuery{Fn: fn, FromAfter: []ssa.Instruction{rd}, Target: func(x ssa.Instruction) bool { return x == ssa.Instruction(gv) }, CutEdges: changed, CutInstr: func(x ssa.Instruction) bool { return x == ssa.Instruction(rd) }}
				w2 := q.Find()
				c.Check(w2 == nil && len(changed) > 0, "reader at the watermark waits for a change", c.Pos(gv), "getHWPos is reached only over the hw != r.hw edge", "a reader that hit the watermark re-positions without the watermark having changed (path "+w2.String()+")")
				okStore := false
				for _, st := range eng.FieldStores(fn, func(fa *ssa.FieldAddr) bool { return fieldIs(fa, hwPosF) }) {
					if e, ok := st.Val.(*ssa.Extract); ok && e.Tuple == gv && e.Index == 1 {
						okStore = true
					}
				}
				c.Check(okStore, "hwPos updated from getHWPos", c.Pos(gv), "r.hwPos = position returned by getHWPos(segments, r.hw)", "the position returned by getHWPos is not stored into r.hwPos")
				c.Check(eng.Load(p.Field(clPkg, "committedReader", "hw"), nil)(gv.Call.Args[1]), "getHWPos asked for r.hw", c.Pos(gv), "getHWPos(segments, r.hw)", "getHWPos is not asked for the reader's synchronised watermark r.hw")
			}
		}
	}
	if fn := c.Fn("server/commitlog.getHWPos"); fn != nil {
		// The answer is the read limit of committed readers: the position where committed data ends. findEntry(hw) answers the
		// first entry AT OR AFTER hw, so its end is the limit only when that entry is not past the watermark; when it is (the
		// watermark's own message is gone: retention, compaction of a lagging log) committed data ends where that entry
		// starts; when the watermark lies beyond the log end the whole log is committed.
		okShape, nOK, why := true, 0, ""
		ent := eng.Call(0, "server/commitlog.segment.findEntry")
		notPast := eng.CmpEdges(fn, eng.LoadNamed("Offset", ent), eng.Param("hw"), eng.LE)
		past := eng.CmpEdges(fn, eng.LoadNamed("Offset", ent), eng.Param("hw"), eng.GT)
		wholeLog := eng.CmpEdges(fn, eng.Call(-1, "server/commitlog.segment.NextOffset"), eng.Param("hw"), eng.LE)
		for _, r := range eng.Returns(fn) {
			rv := eng.RetVals(r)
			if len(rv) != 3 || !eng.NilConst(rv[2]) {
				continue
			}
			nOK++
			switch {
			case eng.BinComm(token.ADD, eng.LoadNamed("Position", ent), eng.LoadNamed("Size", ent))(rv[1]):
				if g, _ := eng.GuardedBy(fn, r, notPast); !g || len(notPast) == 0 {
					okShape, why = false, "the END of the entry findEntry(hw) returned is taken as the read limit without checking that the entry is not past the watermark: when the watermark's own message is no longer in the log (retention removed its segment while the watermark lagged) the first retained message above the watermark is handed to committed readers"
				}
			case eng.LoadNamed("Position", ent)(rv[1]):
				if g, _ := eng.GuardedBy(fn, r, past); !g || len(past) == 0 {
					okShape, why = false, "the START of the watermark entry is taken as the read limit although the entry is the watermark's own message: the committed message at the watermark is withheld"
				}
			case eng.Call(-1, "server/commitlog.segment.Position")(rv[1]):
				if g, _ := eng.GuardedBy(fn, r, wholeLog); !g || len(wholeLog) == 0 {
					okShape, why = false, "the end of the log is taken as the read limit without the log ending at or below the watermark"
				}
			default:
				okShape, why = false, "a successful answer is neither the end of the watermark entry, the start of the first entry past the watermark, nor the end of a log that ends below the watermark"
			}
		}
		okShape = okShape && nOK > 0
		c.Check(okShape, "getHWPos result", p.Pos(fn.Pos()), "the position where committed data ends (end of the watermark entry; start of the first entry past a vanished watermark; end of a log that lies below the watermark)", "getHWPos: "+why)
		fe := eng.CallsIn(fn, "server/commitlog.segment.findEntry")
		c.Check(len(fe) == 1 && eng.Param("hw")(fe[0].Common().Args[1]), "getHWPos looks up hw", p.Pos(fn.Pos()), "findEntry(hw)", "getHWPos does not look up the entry of the high watermark offset")
	}
	c.Floor(8)

	// ---- R03.5 committed readers only
	c.Rule("R03.5", "K5")
	for _, s := range eng.Index(p).Sites("server/commitlog.CommitLog.NewReader", "server/commitlog.CommitLog.NewReverseReader", "server/commitlog.commitLog.NewReader", "server/commitlog.commitLog.NewReverseReader") {
		ci := s.Instr.(ssa.CallInstruction)
		args := eng.AllArgs(ci.Common())
		unc := args[len(args)-1]
		k, isConst := eng.Strip(unc).(*ssa.Const)
		val := isConst && k.Value != nil && k.Value.String() == "true"
		outer := s.Outer()
		if strings.HasPrefix(outer, "server/commitlog.") {
			// internal forwarding (NewReverseReaderFromEnd passes its own parameter on)
			continue
		}
		// the replicator's loop, or a private helper of it that nobody but the replicator calls (the per-request body moved
		// out of start into a method of its own)
		if outer != "server.(*replicator).start" && strings.HasPrefix(outer, "server.(*replicator).") {
			ref := "server.replicator." + strings.TrimPrefix(outer, "server.(*replicator).")
			sites := eng.Index(p).Sites(ref)
			only := len(sites) > 0
			for _, cs := range sites {
				if !strings.HasPrefix(cs.Outer(), "server.(*replicator).") {
					only = false
				}
			}
			if only {
				outer = "server.(*replicator).start"
			}
		}
		switch outer {
		case "server.(*replicator).start":
			c.Check(isConst && val, "reader in "+outer, c.Pos(s.Instr), "replication reads uncommitted data (by design)", "replicator does not read uncommitted data")
		default:
			c.Check(isConst && !val, "reader in "+outer, c.Pos(s.Instr), "created with uncommitted = false", "a reader outside the replicator is created with uncommitted = "+eng.Describe(unc)+": consumers could see messages above the high watermark")
		}
	}
	// inside the package: wherever a Reader's inner reader is (re)created, its kind follows the Reader's own `uncommitted`
	// flag — NewReader at creation, ReadMessage after the segment it read from was replaced
	for _, k := range []string{cl + "(*commitLog).NewReader", cl + "(*Reader).ReadMessage"} {
		fn := c.Fn(k)
		if fn == nil {
			continue
		}
		flag := func(v ssa.Value) bool { return eng.Param("uncommitted")(v) || eng.LoadNamed("uncommitted", nil)(v) }
		unc := eng.BoolEdges(fn, flag, true)
		com := eng.BoolEdges(fn, flag, false)
		nU, nC, okKind := 0, 0, len(unc) > 0 && len(com) > 0
		for _, call := range eng.CallsIn(fn, cl+"commitLog.newReaderUncommitted") {
			nU++
			if g, _ := eng.GuardedBy(fn, call.(ssa.Instruction), unc); !g {
				okKind = false
			}
		}
		for _, call := range eng.CallsIn(fn, cl+"commitLog.newReaderCommitted") {
			nC++
			if g, _ := eng.GuardedBy(fn, call.(ssa.Instruction), com); !g {
				okKind = false
			}
		}
		c.Check(okKind && nU >= 1 && nC >= 1, "inner reader kind follows the Reader's flag in "+ir.FuncKey(fn), p.Pos(fn.Pos()), "newReaderUncommitted only on uncommitted, newReaderCommitted otherwise", "a committed Reader can be given an uncommitted inner reader (for instance when it is re-created after compaction replaced the segment under it): from then on the subscriber reads without any high-watermark limit")
	}
	c.Floor(5)

	// ---- R03.9 a reader that has not seen the newest watermark is woken, not told that the log ended
	c.Rule("R03.9", "K1")
	ruleEndOfLogAtCurrentHW(c)
	c.Floor(1)

	// ---- R01.9 (shared with C01, C10): the segment a reader reads from comes from a lookup of its own position
	c.Rule("R01.9", "K5")
	ruleReaderSegment(c)
	c.Floor(6)

	// ---- R03.6 parked readers
	c.Rule("R03.6", "K2")
	if fn := c.Fn("server/commitlog.(*commitLog).newReaderCommitted"); fn != nil {
		// the segment-less reader is returned exactly on offset > hw || OldestOffset() == -1
		beyond := eng.CmpEdges(fn, eng.Param("offset"), eng.Call(-1, "server/commitlog.commitLog.HighWatermark"), eng.GT)
		empty := eng.CmpEdges(fn, eng.Call(-1, "server/commitlog.commitLog.OldestOffset"), eng.IntConst(-1), eng.EQ)
		// nothing committed at all (F92): also a reason to wait — offset > hw does not cover a negative offset at hw == -1
		empty = append(empty, eng.CmpEdges(fn, eng.Call(-1, "server/commitlog.commitLog.HighWatermark"), eng.IntConst(-1), eng.EQ)...)
		// ... or one named condition (`mustWait := offset > hw || hw == -1 || …`): the edge on which one of them holds whichever
		// way the condition came to be true
		hwV := eng.Call(-1, "server/commitlog.commitLog.HighWatermark")
		oneOf := eng.EdgesWhere(fn, func(a eng.AtomView) bool {
			return a.RelHolds(eng.Param("offset"), hwV, eng.GT) || a.RelHolds(hwV, eng.IntConst(-1), eng.EQ) ||
				a.RelHolds(eng.Call(-1, "server/commitlog.commitLog.OldestOffset"), eng.IntConst(-1), eng.EQ)
		})
		n := 0
		for _, r := range eng.Returns(fn) {
			if len(eng.RetVals(r)) != 2 || !eng.NilConst(eng.RetVals(r)[1]) {
				continue
			}
			parked := readerSegIsNil(eng.RetVals(r)[0])
			g, _ := eng.GuardedBy(fn, r, append(append(append([]eng.Edge{}, beyond...), empty...), oneOf...))
			n++
			if parked {
				c.Check(g, "parked reader returned", c.Pos(r), "only when offset > hw, nothing is committed or the log is empty", "a segment-less (parked) reader is returned on a path where the offset is committed and the log non-empty")
			} else {
				within := eng.CmpEdges(fn, eng.Param("offset"), eng.Call(-1, "server/commitlog.commitLog.HighWatermark"), eng.LE)
				nonEmpty := eng.CmpEdges(fn, eng.Call(-1, "server/commitlog.commitLog.OldestOffset"), eng.IntConst(-1), eng.NE)
				g1, w1 := eng.GuardedBy(fn, r, within)
				g2, _ := eng.GuardedBy(fn, r, nonEmpty)
				c.Check(!g && g1 && g2 && len(within) > 0 && len(nonEmpty) > 0, "positioned reader returned", c.Pos(r), "only when offset <= hw and the log is non-empty", "a positioned reader can be returned although the offset is beyond the high watermark or the log is empty (path "+w1.String()+"): it would read uncommitted data")
			}
		}
		if n < 2 {
			c.Unresolved("the two success returns of newReaderCommitted")
		}
	}
	if fn := c.Fn("server/commitlog.(*committedReader).Read"); fn != nil {
		segF := p.Field(clPkg, "committedReader", "seg")
		hwF := p.Field(clPkg, "committedReader", "hw")
		parked := eng.CmpEdges(fn, eng.Load(segF, nil), eng.NilConst, eng.EQ)
		// "parked" is the state the reader was left in by an earlier call: a nil test that follows an assignment of r.seg
		// in this call is the not-found test of the lookup, not the parked test
		{
			var entryTests []eng.Edge
			for _, e := range parked {
				if len(e.From.Instrs) == 0 {
					continue
				}
				assigned, _ := eng.PrecededBy(fn, e.From.Instrs[len(e.From.Instrs)-1], func(x ssa.Instruction) bool {
					st, ok := x.(*ssa.Store)
					if !ok {
						return false
					}
					fa, ok := st.Addr.(*ssa.FieldAddr)
					return ok && fieldIs(fa, segF)
				})
				if !assigned {
					entryTests = append(entryTests, e)
				}
			}
			parked = entryTests
		}
		rl := eng.CallsIn(fn, "server/commitlog.committedReader.readLoop")
		if len(parked) == 0 || len(rl) != 1 {
			c.Unresolved("r.seg == nil test / readLoop call in committedReader.Read")
		} else {
			q := &eng.PathQuery{Fn: fn, FromEdges: parked, Target: func(x ssa.Instruction) bool { return x == rl[0].(ssa.Instruction) }, CutInstr: eng.IsCallTo("server/commitlog.getHWPos")}
			w := q.Find()
			c.Check(w == nil, "parked reader positions itself before reading", c.Pos(rl[0].(ssa.Instruction)), "every path from r.seg == nil to readLoop passes getHWPos", "a parked reader can enter the read loop without computing the watermark position: "+w.String())
			changed := eng.CmpEdges(fn, isHWValue, eng.Load(hwF, nil), eng.NE)
			// equally good: the reader waits until the watermark has REACHED the offset it will resume at (which is at least
			// its old watermark + 1): hw >= offset implies that it changed
			resumeAt := func(v ssa.Value) bool {
				next := eng.Bin(token.ADD, eng.Load(hwF, nil), eng.IntConst(1))
				if next(v) {
					return true
				}
				ph, isPhi := v.(*ssa.Phi)
				if !isPhi {
					return false
				}
				has := false
				for _, e := range ph.Edges {
					switch {
					case next(e):
						has = true
					case eng.LoadNamed("start", nil)(e): // the offset the reader was created for, taken when it lies further on
					default:
						return false
					}
				}
				return has && len(eng.CmpEdges(fn, eng.LoadNamed("start", nil), next, eng.GT)) > 0
			}
			changed = append(changed, eng.CmpEdges(fn, isHWValue, resumeAt, eng.GE)...)
			q2 := &eng.PathQuery{Fn: fn, FromEdges: parked, Target: eng.IsCallTo("server/commitlog.getHWPos"), CutEdges: changed}
			w2 := q2.Find()
			c.Check(w2 == nil && len(changed) > 0, "parked reader waits for a watermark change", p.Pos(fn.Pos()), "getHWPos is reached only over the hw != r.hw edge", "a parked reader can proceed although the high watermark did not change: "+w2.String())
			// first offset read is r.hw + 1
			fe := eng.CallsIn(fn, "server/commitlog.segment.findEntry")
			okOff := len(fe) == 1 && resumeAt(fe[0].Common().Args[1])
			c.Check(okOff, "parked reader resumes at hw+1", p.Pos(fn.Pos()), "findEntry(r.hw + 1) with the watermark value from before the wait", "the parked reader does not resume at the offset following its last synchronised watermark")
		}
	}
	if fn := c.Fn("server/commitlog.(*committedReader).waitForHW"); fn != nil {
		// readonly signal -> ErrCommitLogReadonly; close / cancel -> io.EOF
		ro := false
		sig := func(v ssa.Value) bool {
			e, ok := v.(*ssa.Extract)
			if !ok {
				return false
			}
			_, isSel := e.Tuple.(*ssa.Select)
			return isSel && e.Type().String() == "bool" && e.Index >= 2
		}
		isRO := eng.BoolEdges(fn, sig, true)
		notRO := eng.BoolEdges(fn, sig, false)
		// (F101) ... or the signal was "read-only" but the verdict no longer holds: the caller syncs and waits again
		notRO = append(notRO, eng.BoolEdges(fn, eng.Call(-1, "server/commitlog.commitLog.isReadonlyEnd"), false)...)
		for _, r := range eng.Returns(fn) {
			if eng.Global("server/commitlog.ErrCommitLogReadonly")(eng.RetVals(r)[0]) {
				g, _ := eng.GuardedBy(fn, r, isRO)
				ro = g && len(isRO) > 0
			}
			if eng.NilConst(eng.RetVals(r)[0]) {
				g, w := eng.GuardedBy(fn, r, notRO)
				c.Check(g && len(notRO) > 0, "plain wake-up returns nil only on the change signal", c.Pos(r), "nil only when the waiter received false", "waitForHW can return nil (keep reading) on the read-only signal (path "+w.String()+")")
			}
		}
		c.Check(ro, "readonly wake-up reported", p.Pos(fn.Pos()), "returns ErrCommitLogReadonly exactly on the readonly signal", "the readonly signal is not (only) what is turned into ErrCommitLogReadonly")
	}
	c.Floor(6)
	// ---- R01.14 (shared) readers look segments up in a freshly fetched list
	c.Rule("R01.14", "K5")
	ruleFreshSegmentList(c)
	c.Floor(3)

	// ---- R03.11 read-only wake-up on a writable log is retried; R01.15 (shared) rolls and appends exclude each other;
	// no reader parks on a sealed segment
	c.Rule("R03.11", "K2")
	ruleReadonlyRetry(c)
	ruleSealedSegmentDoesNotPark(c)
	c.Floor(2)
	c.Rule("R01.15", "K4")
	ruleRollExcludesAppend(c)
	c.Floor(3)

}

func isReturn(in ssa.Instruction) bool { _, ok := in.(*ssa.Return); return ok }

// isHWValue: a value that is the result of HighWatermark(), or a phi of such results.
func isHWValue(v ssa.Value) bool {
	m := eng.Call(-1, "server/commitlog.commitLog.HighWatermark")
	if m(v) {
		return true
	}
	if ph, ok := v.(*ssa.Phi); ok {
		for _, e := range ph.Edges {
			if !m(e) {
				return false
			}
		}
		return len(ph.Edges) > 0
	}
	return false
}

// readerSegIsNil: the returned committedReader literal has seg: nil.
func readerSegIsNil(v ssa.Value) bool {
	mi, ok := v.(*ssa.MakeInterface)
	if !ok {
		return false
	}
	al, ok := mi.X.(*ssa.Alloc)
	if !ok {
		return false
	}
	isNil := true
	found := false
	for _, r := range *al.Referrers() {
		fa, ok := r.(*ssa.FieldAddr)
		if !ok || eng.FieldNameOf(fa) != "seg" {
			continue
		}
		for _, rr := range *fa.Referrers() {
			if st, ok := rr.(*ssa.Store); ok {
				found = true
				if !eng.NilConst(st.Val) {
					isNil = false
				}
			}
		}
	}
	return found && isNil
}

// ruleFastPathGate (R03.2, shared with C02): the leader's direct watermark advance in messageProcessingLoop is only
// taken when the partition has a single replica; with followers the watermark may only move through the commit loop.
func ruleFastPathGate(c *eng.Ctx) {
	fn := c.Fn("server.(*partition).messageProcessingLoop")
	if fn == nil {
		return
	}
	isRF1 := func(v ssa.Value) bool {
		return eng.RelVal(eng.LoadNamed("ReplicationFactor", nil), eng.IntConst(1), eng.EQ)(v)
	}
	// the guard variable: a phi whose leaves are `ReplicationFactor == 1` or the constant false
	var okGuard func(v ssa.Value, seen map[ssa.Value]bool) bool
	okGuard = func(v ssa.Value, seen map[ssa.Value]bool) bool {
		if seen[v] {
			return true
		}
		seen[v] = true
		if isRF1(v) {
			return true
		}
		if k, ok := v.(*ssa.Const); ok && k.Value != nil && k.Value.String() == "false" {
			return true
		}
		if ph, ok := v.(*ssa.Phi); ok {
			for _, e := range ph.Edges {
				if !okGuard(e, seen) {
					return false
				}
			}
			return true
		}
		return false
	}
	for _, sh := range eng.CallsIn(fn, clSetI) {
		edges := eng.BoolEdges(fn, func(v ssa.Value) bool { return okGuard(v, map[ssa.Value]bool{}) && !eng.IsConst(v) }, true)
		g, w := eng.GuardedBy(fn, sh.(ssa.Instruction), edges)
		c.Check(g && len(edges) > 0, "leader fast path only without followers", c.Pos(sh.(ssa.Instruction)), "SetHighWatermark in the leader loop is guarded by a flag that can only be true when ReplicationFactor == 1", "the leader advances the high watermark directly on a partition that may have followers (path "+w.String()+"): messages become visible and 'committed' before any follower stored them")
		// the value is the last offset of the batch just appended
		i := indexOfLoad(eng.AllArgs(sh.Common())[1])
		okV := i != nil && eng.Call(0, "server/commitlog.CommitLog.Append")(i.X)
		c.Check(okV, "fast path commits what was just appended", c.Pos(sh.(ssa.Instruction)), "SetHighWatermark(offsets[len-1]) of Append's result", "the fast path advances the watermark to something other than the last offset Append returned")
	}
}

// ruleEndOfLogAtCurrentHW (R03.9, shared with C10).
func ruleEndOfLogAtCurrentHW(c *eng.Ctx) {
	p := c.P
	hw := p.Field(clPkg, "commitLog", "hw")
	if fn := c.Fn("server/commitlog.(*commitLog).waitForHW"); fn != nil {
		same := eng.CmpEdges(fn, eng.Load(hw, nil), eng.Param("hw"), eng.EQ)
		// sends of `true` (end of a read-only log) into the wait channel
		n, ok := 0, len(same) > 0
		var w *eng.Witness
		eng.Instrs(fn, func(in ssa.Instruction) {
			snd, isS := in.(*ssa.Send)
			if !isS || !constBool(snd.X, true) {
				return
			}
			n++
			g, wt := eng.GuardedBy(fn, in, same)
			if !g {
				ok, w = false, wt
			}
		})
		c.Check(ok && n >= 1, "end-of-log is announced only to a reader that is at the current watermark", p.Pos(fn.Pos()), "`true` is sent only on l.hw == hw (the reader's sampled watermark)", "waitForHW can tell a reader that the read-only log has ended although the watermark moved since the reader sampled it (path "+w.String()+"): the subscription ends without delivering the last committed messages")
	}
}
