package rules

import (
	"go/token"
	"go/types"
	"strings"

	"golang.org/x/tools/go/ssa"

	"lbcheck/eng"
	"lbcheck/ir"
)

// ruleReadonlyRetry (R03.11): a reader that was woken by the read-only flag and finds the log writable again goes back to
// waiting; the wrapped ErrCommitLogReadonly never leaves ReadMessage.
func ruleReadonlyRetry(c *eng.Ctx) {
	p := c.P
	fn := c.Fn(cl + "(*Reader).ReadMessage")
	if fn == nil {
		return
	}
	rawErr := eng.Call(4, cl+"readMessage")
	isRO := eng.CmpEdges(fn, func(v ssa.Value) bool {
		call, ok := v.(*ssa.Call)
		return ok && eng.CalleeRef(&call.Call) == "github.com/pkg/errors.Cause" && rawErr(call.Call.Args[0])
	}, eng.Global(cl+"ErrCommitLogReadonly"), eng.EQ)
	ok := len(isRO) > 0
	var w *eng.Witness
	if ok {
		q := &eng.PathQuery{Fn: fn, FromEdges: isRO, Target: func(x ssa.Instruction) bool {
			r, isR := x.(*ssa.Return)
			if !isR {
				return false
			}
			rv := eng.RetVals(r)
			return len(rv) == 5 && rawErr(rv[4])
		}, CutInstr: eng.IsCallTo(cl + "readMessage")}
		w = q.Find()
		ok = w == nil
	}
	c.Check(ok, "a read-only wake-up on a log that is writable again is retried", p.Pos(fn.Pos()), "Cause(err) == ErrCommitLogReadonly ⇒ the sentinel, or a retry — never the wrapped error", "when read-only was switched on and straight off again, ReadMessage returns the wrapped `end of readonly log` error (path "+w.String()+"): the subscription on a writable partition ends with an Unknown status and never receives the next committed message")
}

// ruleRollExcludesAppend (R01.15, shared with C03): a segment roll and an append cannot interleave. The roll (split) holds the
// log's write lock from the moment it reads the log end until the new segment is active AND in the segment list; Append and
// AppendMessageSet hold at least the read lock from loading the active segment until the message set is written. Without it
// the cleaner's age-based roll can land between an append's offset assignment and its write: offset N is written into the
// sealed segment while the new one starts at N too, and the next append is assigned N again.
func ruleRollExcludesAppend(c *eng.Ctx) {
	p := c.P
	if fn := c.Fn(cl + "(*commitLog).split"); fn != nil {
		la := eng.LocksOf(p, fn, 0)
		bad := ""
		eng.Instrs(fn, func(in ssa.Instruction) {
			ci, ok := in.(ssa.CallInstruction)
			if !ok {
				return
			}
			switch eng.CalleeRef(ci.Common()) {
			case cl + "commitLog.NewestOffset", cl + "newSegment", "sync/atomic.CompareAndSwapPointer":
				if !lockHeld(la.At(in), ".mu", 2) {
					bad = eng.CalleeRef(ci.Common()) + " at " + c.Pos(in)
				}
			}
		})
		segF := p.Field(clPkg, "commitLog", "segments")
		for _, st := range eng.FieldStores(fn, func(fa *ssa.FieldAddr) bool { return fieldIs(fa, segF) }) {
			if !lockHeld(la.At(st), ".mu", 2) {
				bad = "store to l.segments at " + c.Pos(st)
			}
		}
		c.Check(bad == "", "the roll runs under the log's write lock from reading the log end to publishing the segment", p.Pos(fn.Pos()), "NewestOffset(), newSegment, the CAS of the active segment and l.segments = … with l.mu write-held", "split performs "+bad+" without l.mu write-held: an append can assign offsets from the old active segment after the roll has fixed the new segment's base offset (the same offset is given out twice), and a reader can see the new active segment before it is in the segment list")
	}
	for _, k := range []string{cl + "(*commitLog).Append", cl + "(*commitLog).AppendMessageSet"} {
		fn := c.Fn(k)
		if fn == nil {
			continue
		}
		la := eng.LocksOf(p, fn, 0)
		bad := ""
		eng.Instrs(fn, func(in ssa.Instruction) {
			ci, ok := in.(ssa.CallInstruction)
			if !ok {
				return
			}
			switch eng.CalleeRef(ci.Common()) {
			case cl + "commitLog.activeSegment", cl + "segment.NextOffset", cl + "segment.Position", cl + "commitLog.append":
				if !lockHeld(la.At(in), ".mu", 1) {
					bad = eng.CalleeRef(ci.Common()) + " at " + c.Pos(in)
				}
			}
		})
		c.Check(bad == "", "offsets are assigned and written under the log lock in "+ir.FuncKey(fn), p.Pos(fn.Pos()), "activeSegment(), NextOffset()/Position() and l.append with l.mu held (read or write)", ir.FuncKey(fn)+" performs "+bad+" without holding l.mu: a roll by the cleaner goroutine between the offset assignment and the write makes two messages share an offset")
		// the roll check itself must not be made while holding the read lock (split takes the write lock)
		for _, sp := range eng.CallsIn(fn, cl+"commitLog.checkAndPerformSplit") {
			if lockHeld(la.At(sp.(ssa.Instruction)), ".mu", 1) {
				c.Violate("roll check outside the log lock in "+ir.FuncKey(fn), c.Pos(sp.(ssa.Instruction)), "checkAndPerformSplit is called with l.mu held although split() takes the write lock: self-deadlock")
			}
		}
	}
}

// ruleTruncateUnseals (R01.8 extension): whichever segment Truncate makes the active one is not sealed — a sealed active
// segment makes the next roll's Seal() a no-op, so readers parked on it are never woken.
func ruleTruncateUnseals(c *eng.Ctx) {
	p := c.P
	fn := c.Fn(cl + "(*commitLog).Truncate")
	if fn == nil {
		return
	}
	sealedF := p.Field(clPkg, "segment", "sealed")
	// the value handed to StorePointer
	var active ssa.Value
	for _, sp := range eng.CallsIn(fn, "sync/atomic.StorePointer") {
		v := sp.Common().Args[1]
		for {
			if cv, isCv := v.(*ssa.Convert); isCv {
				v = cv.X
				continue
			}
			break
		}
		active = v
	}
	ok := false
	if active != nil {
		eng.Instrs(fn, func(in ssa.Instruction) {
			call, isCall := in.(*ssa.Call)
			if !isCall || call.Call.StaticCallee() == nil || len(call.Call.Args) == 0 || !sameExpr(call.Call.Args[0], active, 0) {
				return
			}
			callee := call.Call.StaticCallee()
			for _, st := range eng.FieldStores(callee, func(fa *ssa.FieldAddr) bool { return fieldIs(fa, sealedF) }) {
				if constBool(st.Val, false) {
					ok = true
				}
			}
		})
	}
	c.Check(ok, "Truncate leaves the active segment unsealed", p.Pos(fn.Pos()), "the segment that becomes active has its sealed flag cleared", "after a truncation into a segment that had been sealed (a rewritten one inherits the flag, a re-activated earlier one still has it) the active segment stays sealed: when it is rolled later, Seal() does nothing and a parked reader — a replication reader — is never woken")
}

// ruleEncodeFailureIsAnError (R14.7 extension, shared with C01): a message that cannot be encoded is refused, not fatal.
func ruleEncodeFailureIsAnError(c *eng.Ctx) {
	p := c.P
	if fn := c.Fn(cl + "newMessageSetFromProto"); fn != nil {
		bad := ""
		eng.Instrs(fn, func(in ssa.Instruction) {
			if pn, isP := in.(*ssa.Panic); isP && panicCause(pn.X, 0) == cl+"encode" {
				bad = c.Pos(pn)
			}
		})
		c.Check(bad == "", "a message that cannot be encoded is refused with an error", p.Pos(fn.Pos()), "encode errors are returned", "newMessageSetFromProto panics at "+bad+" when a message cannot be encoded (a header key of 32 KiB or more): one publish stops the partition leader")
	}
	if fn := c.Fn(cl + "(*Message).Encode"); fn != nil {
		// the header count is written as a 16-bit value: more headers than it can hold must be refused
		bound := eng.CmpEdges(fn, eng.Len(eng.LoadNamed("Headers", nil)), func(v ssa.Value) bool { k, ok := eng.ConstVal(v); return ok && k >= 32767 && k <= 65535 }, eng.LE)
		ok := len(bound) > 0
		for _, pc := range eng.CallsIn(fn, cl+"packetEncoder.PutInt16") {
			a := pc.Common().Args
			if cv, isCv := a[len(a)-1].(*ssa.Convert); isCv && eng.Len(eng.LoadNamed("Headers", nil))(cv.X) {
				if g, _ := eng.GuardedBy(fn, pc.(ssa.Instruction), bound); !g {
					ok = false
				}
			}
		}
		c.Check(ok, "the header count fits the 16 bits it is stored in", p.Pos(fn.Pos()), "len(m.Headers) is bounded before PutInt16(int16(len(m.Headers)))", "Message.Encode writes len(m.Headers) as a 16-bit count without a bound: 65536 headers are stored as 0 with a valid CRC and read back as an empty header set")
	}
}

// ruleSealedSegmentDoesNotPark (R03.3 extension): a reader is never registered as a waiter on a sealed segment.
func ruleSealedSegmentDoesNotPark(c *eng.Ctx) {
	p := c.P
	fn := c.Fn(cl + "(*segment).waitForData")
	if fn == nil {
		return
	}
	sealedF := p.Field(clPkg, "segment", "sealed")
	open := eng.BoolEdges(fn, eng.Load(sealedF, nil), false)
	n, ok := 0, len(open) > 0
	eng.Instrs(fn, func(in ssa.Instruction) {
		if mu, isMU := in.(*ssa.MapUpdate); isMU && eng.LoadNamed("waiters", nil)(mu.Map) {
			n++
			if g, _ := eng.GuardedBy(fn, in, open); !g {
				ok = false
			}
		}
	})
	c.Check(ok && n > 0, "no reader parks on a sealed segment", p.Pos(fn.Pos()), "s.waiters[waiter] = wait only when !s.sealed", "waitForData registers a waiter on a segment that is already sealed (an age-based roll between the reader's segment-list snapshot and its registration): nothing will ever be written to or announced on that segment, the reader parks for ever")
}

// ruleShrinkKeepsSize (R01.8 extension): shrinking the index file records the new size, so the next write re-expands and
// re-maps instead of writing through a mapping the file no longer backs (lost index entries, then SIGBUS).
func ruleShrinkKeepsSize(c *eng.Ctx) {
	p := c.P
	fn := c.Fn(cl + "(*index).shrink")
	if fn == nil {
		return
	}
	sizeF := p.Field(clPkg, "index", "size")
	posF := p.Field(clPkg, "index", "position")
	ok := false
	for _, st := range eng.FieldStores(fn, func(fa *ssa.FieldAddr) bool { return fieldIs(fa, sizeF) }) {
		if eng.Load(posF, nil)(st.Val) {
			ok = true
		}
	}
	tr := eng.CallsIn(fn, "os.File.Truncate")
	c.Check(ok && len(tr) == 1, "index.shrink records the size it truncated the file to", p.Pos(fn.Pos()), "file.Truncate(position); size = position", "index.shrink truncates the file below the mapped size without updating idx.size: when the segment is written to again (Truncate re-activates a sealed segment) the entries go into pages the file no longer backs — not persisted, and SIGBUS once a page boundary is crossed")
	_ = token.ADD
}

// ruleLeaderForgetsOldProgress (R04.5 extension, shared with C02): what a leader believes its followers hold is learned in ITS
// term. becomeLeader resets every in-sync replica's recorded offset before it records its own; an offset remembered from an
// earlier term of the same server can be ahead of what the follower holds now (it truncated in between), and the commit
// rule would acknowledge ALL-policy messages the follower does not have.
func ruleLeaderForgetsOldProgress(c *eng.Ctx) {
	p := c.P
	fn := c.Fn("server.(*partition).becomeLeader")
	if fn == nil {
		return
	}
	isrF := p.Field("server", "partition", "isr")
	offF := p.Field("server", "replica", "offset")
	ok := false
	eng.Instrs(fn, func(in ssa.Instruction) {
		mu, isMU := in.(*ssa.MapUpdate)
		if !isMU || !eng.Load(isrF, nil)(mu.Map) {
			return
		}
		// the key comes from ranging over the same map, the value is a fresh replica at -1
		if _, fromRange := eng.Strip(mu.Key).(*ssa.Extract); !fromRange {
			return
		}
		al, isAl := eng.Strip(mu.Value).(*ssa.Alloc)
		if !isAl || al.Referrers() == nil {
			return
		}
		for _, r := range *al.Referrers() {
			if fa, isFA := r.(*ssa.FieldAddr); isFA && fieldIs(fa, offF) && fa.Referrers() != nil {
				for _, rr := range *fa.Referrers() {
					if st, isSt := rr.(*ssa.Store); isSt && eng.IntConst(-1)(st.Val) {
						ok = true
					}
				}
			}
		}
	})
	if !ok {
		// equally good: the existing replica objects are reset in place (a store of -1 to replica.offset, or a reset method,
		// inside a loop over p.isr)
		eng.Instrs(fn, func(in ssa.Instruction) {
			if st, isSt := in.(*ssa.Store); isSt && eng.IntConst(-1)(st.Val) {
				if fa, isFA := st.Addr.(*ssa.FieldAddr); isFA && fieldIs(fa, offF) {
					if _, fromRange := eng.Strip(fa.X).(*ssa.Extract); fromRange {
						ok = true
					}
				}
			}
		})
	}
	if ok {
		// … on every path: each successful return of becomeLeader has passed a range over p.isr that does the reset
		var resetLoop ssa.Instruction
		for _, ml := range eng.MapLoops(fn) {
			if !eng.Load(isrF, nil)(ml.Range.X) {
				continue
			}
			for blk := range ml.Body {
				for _, in := range blk.Instrs {
					switch x := in.(type) {
					case *ssa.MapUpdate:
						if eng.Load(isrF, nil)(x.Map) {
							resetLoop = ml.Range
						}
					case *ssa.Store:
						if fa, isFA := x.Addr.(*ssa.FieldAddr); isFA && fieldIs(fa, offF) && eng.IntConst(-1)(x.Val) {
							resetLoop = ml.Range
						}
					}
				}
			}
		}
		if resetLoop != nil {
			// ... for EVERY entry: no iteration of the loop skips the reset (the leader's own entry included — its refresh
			// below only ever raises the offset, and whether it raised it decides if the watermark is re-derived)
			isReset := func(x ssa.Instruction) bool {
				switch y := x.(type) {
				case *ssa.MapUpdate:
					return eng.Load(isrF, nil)(y.Map)
				case *ssa.Store:
					fa, isFA := y.Addr.(*ssa.FieldAddr)
					return isFA && fieldIs(fa, offF) && eng.IntConst(-1)(y.Val)
				}
				return false
			}
			eng.Instrs(fn, func(in ssa.Instruction) {
				nx, isNext := in.(*ssa.Next)
				if !isNext || nx.Iter != ssa.Value(resetLoop.(*ssa.Range)) {
					return
				}
				q := &eng.PathQuery{Fn: fn, FromAfter: []ssa.Instruction{in}, Target: func(x ssa.Instruction) bool { return x == in }, CutInstr: isReset}
				if q.Find() != nil {
					ok = false
				}
			})
		}
		if resetLoop == nil {
			ok = false
		} else {
			for _, r := range eng.Returns(fn) {
				rv := eng.RetVals(r)
				if len(rv) == 1 && eng.NilConst(rv[0]) {
					if g, _ := eng.PrecededBy(fn, r, func(x ssa.Instruction) bool { return x == resetLoop }); !g {
						ok = false
					}
				}
			}
		}
	}
	c.Check(ok, "a new leader forgets the follower progress of earlier terms", p.Pos(fn.Pos()), "every p.isr entry starts at -1 again in becomeLeader, on every path to a successful return", "becomeLeader keeps the offsets recorded for the in-sync replicas while this server led an earlier epoch (replica offsets only grow, and only the leader's own entry is refreshed): after A → C → A with B truncating in between, A still believes B holds offset 5 and acknowledges an ALL message at offset 3 that B does not have")
}

// ruleReplicationShipsAtLeastOne (R04.6 extension): whatever the leader admitted can be shipped. The size cut-off of a
// replication response applies only once the response already carries a message; otherwise a stored message whose size plus
// the protocol overhead exceeds replication.max.bytes makes every response empty and the follower never gets past it.
func ruleReplicationShipsAtLeastOne(c *eng.Ctx) {
	p := c.P
	fn := c.Fn("server.(*replicator).replicate")
	if fn == nil {
		return
	}
	tooBig := eng.CmpEdges(fn, func(v ssa.Value) bool { bo, ok := v.(*ssa.BinOp); return ok && bo.Op == token.ADD }, eng.LoadNamed("ReplicationMaxBytes", nil), eng.GT)
	writes := eng.CallsIn(fn, "server.replicationProtocolWriter.Write")
	if len(tooBig) == 0 || len(writes) == 0 {
		c.Unresolved("the batch size test and writer.Write in replicator.replicate")
		return
	}
	some := eng.CmpEdges(fn, func(v ssa.Value) bool { _, ok := v.(*ssa.Phi); return ok && v.Type().String() == "int" }, eng.IntConst(0), eng.GT)
	q := &eng.PathQuery{Fn: fn, FromEdges: tooBig, Target: func(x ssa.Instruction) bool { _, isR := x.(*ssa.Return); return isR }, CutEdges: some,
		CutInstr: func(x ssa.Instruction) bool {
			for _, w := range writes {
				if x == w.(ssa.Instruction) {
					return true
				}
			}
			return false
		}}
	w := q.Find()
	c.Check(w == nil, "a replication response carries at least one message", p.Pos(fn.Pos()), "the size cut-off ends the batch only when something has been written to it", "the size cut-off can end a batch that is still empty (path "+w.String()+"): a stored message whose size plus headers exceeds replication.max.bytes is never shipped, every response is empty from then on, the follower stays behind and ALL-policy publishes time out")
}

// ruleReplayedDeleteNotifiesGroups (R06.6 extension, shared with C12): a replayed DELETE_STREAM tells the consumer groups about
// the deletion at that entry, with that entry's index, exactly as a live apply does — only the removal of the data waits for
// the end of recovery. Otherwise the groups hear of it later, stamped with the index of whatever entry was replayed last,
// and a restarted server ends up with another group epoch than the servers that applied the log live.
func ruleReplayedDeleteNotifiesGroups(c *eng.Ctx) {
	p := c.P
	fn := c.Fn("server.(*metadataAPI).RemoveStream")
	if fn == nil {
		return
	}
	replay := eng.BoolEdges(fn, eng.Param("recovered"), true)
	notifies := func(x ssa.Instruction) bool {
		call, ok := x.(*ssa.Call)
		if !ok || call.Call.StaticCallee() == nil || !p.IsModuleFunc(call.Call.StaticCallee()) {
			return false
		}
		hasEpoch := false
		for _, a := range call.Call.Args {
			if eng.Param("epoch")(a) {
				hasEpoch = true
			}
		}
		if !hasEpoch {
			return false
		}
		for _, f := range moduleReach(c, call.Call.StaticCallee(), 3) {
			found := false
			eng.InstrsDeep(f, func(_ *ssa.Function, in ssa.Instruction) {
				if ci, isCI := in.(ssa.CallInstruction); isCI && eng.CalleeRef(ci.Common()) == "server.consumerGroup.StreamDeleted" {
					found = true
				}
			})
			if found {
				return true
			}
		}
		return false
	}
	ok := len(replay) > 0
	var w *eng.Witness
	if ok {
		q := &eng.PathQuery{Fn: fn, FromEdges: replay, Target: func(x ssa.Instruction) bool {
			r, isR := x.(*ssa.Return)
			if !isR {
				return false
			}
			rv := eng.RetVals(r)
			return len(rv) == 1 && eng.NilConst(rv[0])
		}, CutInstr: notifies}
		w = q.Find()
		ok = w == nil
	}
	c.Check(ok, "a replayed stream deletion reaches the consumer groups at its own log position", p.Pos(fn.Pos()), "RemoveStream(recovered = true) notifies the groups with the entry's index before it returns", "a replayed DELETE_STREAM only tombstones the stream (path "+w.String()+"); the groups are told when the tombstoned stream is finally removed, with the index of the last replayed entry: the group epoch after a restart differs from the one on servers that applied the log live, and consumers get ErrGroupEpoch")
}

// ruleIdentityCheckAndDeleteAtomic (R13.4 extension): the look-up of the group's current member, the identity test and the
// delete are one hold of consumersMu. Otherwise a replacement can be registered between the test and the delete, and the
// ending loop deletes its successor's entry.
func ruleIdentityCheckAndDeleteAtomic(c *eng.Ctx) {
	p := c.P
	fn := c.Fn("server.(*partition).removeGroupSubscriber")
	if fn == nil {
		return
	}
	cons := p.Field("server", "partition", "consumers")
	la := eng.LocksOf(p, fn, 0)
	var lookups, deletes []ssa.Instruction
	eng.Instrs(fn, func(in ssa.Instruction) {
		switch x := in.(type) {
		case *ssa.Lookup:
			if eng.Load(cons, nil)(x.X) {
				lookups = append(lookups, in)
			}
		case *ssa.Call:
			if b, isB := x.Call.Value.(*ssa.Builtin); isB && b.Name() == "delete" && eng.Load(cons, nil)(x.Call.Args[0]) {
				deletes = append(deletes, in)
			}
		}
	})
	ok := len(lookups) >= 1 && len(deletes) >= 1
	why := "the member table is not looked up and deleted from in removeGroupSubscriber itself (the look-up went into a helper that releases the lock before the delete)"
	for _, d := range deletes {
		if !lockHeld(la.At(d), ".consumersMu", 2) {
			ok, why = false, "the delete runs without consumersMu"
		}
		for _, l := range lookups {
			if !lockHeld(la.At(l), ".consumersMu", 2) {
				ok, why = false, "the look-up runs without consumersMu"
			}
			if unlockedBetween(fn, l, d) {
				ok, why = false, "consumersMu is released between the identity test and the delete"
			}
		}
	}
	c.Check(ok, "identity test and de-registration are one critical section", p.Pos(fn.Pos()), "lookup, member.sub == sub and delete under one hold of consumersMu", "removeGroupSubscriber: "+why+": a replacement registered in between is deleted by the loop of the member it replaced; it stays active but unrecorded, and the next subscriber of the group runs next to it")
}

// ruleConsumersTableNeverReset (R13.1 extension): the table of active group members is created once, with the partition
// object; nothing replaces it wholesale (a reset on becoming leader forgets subscriptions that are still running).
func ruleConsumersTableNeverReset(c *eng.Ctx) {
	p := c.P
	cons := p.Field("server", "partition", "consumers")
	n := 0
	for _, a := range eng.FieldAccesses(p, cons) {
		st, isStore := a.Use.(*ssa.Store)
		if !a.Write || !isStore {
			continue
		}
		if _, isFA := st.Addr.(*ssa.FieldAddr); !isFA {
			continue
		}
		n++
		k := ir.FuncKey(ir.Outermost(a.Fn))
		c.Check(k == "server.(*Server).newPartition", "partition.consumers assigned in "+k, c.Pos(st), "the member table is created with the partition object", "the table of active group members is replaced on a live partition: subscriptions that are still running are forgotten, and the next subscriber of the group is admitted next to them")
	}
	c.Check(n >= 1, "partition.consumers is created with the partition", "", "assignment in newPartition found", "no assignment of partition.consumers found")
}

// ruleStartResolvedBeforeStop (R10.3 extension): Subscribe resolves the start position before the stop position. Both read
// the log end; a publish between the two reads can only move the later read forward, so start <= stop holds only in this order.
func ruleStartResolvedBeforeStop(c *eng.Ctx) {
	fn := c.Fn("server.(*partition).Subscribe")
	if fn == nil {
		return
	}
	st := eng.CallsIn(fn, "server.partition.getStartOffset")
	sp := eng.CallsIn(fn, "server.partition.getStopOffset")
	if len(st) != 1 || len(sp) != 1 {
		c.Unresolved("getStartOffset / getStopOffset in Subscribe")
		return
	}
	g, _ := eng.PrecededBy(fn, sp[0].(ssa.Instruction), func(x ssa.Instruction) bool { return x == st[0].(ssa.Instruction) })
	c.Check(g, "the start position is resolved before the stop position", c.Pos(sp[0].(ssa.Instruction)), "getStartOffset precedes getStopOffset", "Subscribe reads the stop position first: a message published between the two reads makes start = stop + 1 and a valid LATEST … STOP_LATEST request is refused as `stop offset is before start offset`")
}

// ruleScannersReturnFreshBuffers (R01.10 extension, shared with C10): what a segment scanner returns is backed by memory
// allocated in that call. A buffer kept in the scanner and re-used makes message N change under the consumer when N-1 is read.
func ruleScannersReturnFreshBuffers(c *eng.Ctx) {
	p := c.P
	for _, k := range []string{cl + "(*segmentScanner).Scan", cl + "(*reverseSegmentScanner).Scan"} {
		fn := c.Fn(k)
		if fn == nil {
			continue
		}
		var fresh func(v ssa.Value, d int) bool
		fresh = func(v ssa.Value, d int) bool {
			if d > 8 {
				return false
			}
			switch x := v.(type) {
			case *ssa.MakeSlice:
				return true
			case *ssa.Slice:
				return fresh(x.X, d+1)
			case *ssa.ChangeType:
				return fresh(x.X, d+1)
			case *ssa.Convert:
				return fresh(x.X, d+1)
			case *ssa.Alloc:
				return true // an array literal of this call
			case *ssa.Call:
				if b, isB := x.Call.Value.(*ssa.Builtin); isB && b.Name() == "append" {
					return fresh(x.Call.Args[0], d+1)
				}
				return false
			case *ssa.Phi:
				for _, e := range x.Edges {
					if !fresh(e, d+1) {
						return false
					}
				}
				return true
			case *ssa.Const:
				return true
			}
			return false
		}
		ok, n := true, 0
		for _, r := range eng.Returns(fn) {
			rv := eng.RetVals(r)
			if len(rv) == 3 && eng.NilConst(rv[2]) {
				n++
				if !fresh(rv[0], 0) {
					ok = false
				}
			}
		}
		c.Check(ok && n > 0, "a scanned message set is backed by memory of that call in "+ir.FuncKey(fn), p.Pos(fn.Pos()), "the returned message set is allocated in Scan", "Scan returns a message set backed by a buffer the scanner keeps and re-uses: the message (and the Key / Value / Headers of the client message built from it) changes while the subscriber is still using it — one message's content is delivered twice, another's is lost")
	}
}

// ruleReverseStartSlotUnclamped (R01.8 extension, shared with C08 and C10): the reverse scanner starts at the slot
// findLastEntryIndex answers — including -1, "nothing at or below the offset in this segment", which the index scanner
// turns into end-of-segment. Raising it to 0 makes a reverse read that starts in a compacted-away range deliver a message
// ABOVE the requested start.
func ruleReverseStartSlotUnclamped(c *eng.Ctx) {
	p := c.P
	fn := c.Fn(cl + "newReverseSegmentScanner")
	if fn == nil {
		return
	}
	ok := false
	for _, call := range eng.CallsIn(fn, cl+"newReverseIndexScanner") {
		a := call.Common().Args
		if eng.Call(0, cl+"segment.findLastEntryIndex")(a[len(a)-1]) {
			if _, isPhi := a[len(a)-1].(*ssa.Phi); !isPhi {
				ok = true
			}
		}
	}
	c.Check(ok, "the reverse scanner starts at the slot findLastEntryIndex answered", p.Pos(fn.Pos()), "newReverseIndexScanner(index, entryIdx) with entryIdx unchanged", "newReverseSegmentScanner alters the slot findLastEntryIndex answered (a clamp of -1 to 0): on a compacted log a reverse read starting at an offset that was compacted away returns the first survivor above it")
}

// ruleGroupLeaveAndDeleteCoverEveryone (R12.5 extension): a leaving member is taken out of the subscriber heaps whatever it
// holds (no return before the per-stream walk), and a stream deletion takes the stream away from EVERY subscriber (no
// iteration of the subscriber loop skips the un-subscription) — a member that holds nothing is still in the heaps and still
// has the stream in its subscription set.
func ruleGroupLeaveAndDeleteCoverEveryone(c *eng.Ctx) {
	p := c.P
	if fn := c.Fn("server.(*consumerGroup).removeConsumer"); fn != nil {
		walks := eng.CallsIn(fn, "server.rangeStreamsOrdered")
		ok := len(walks) >= 1
		var w *eng.Witness
		if sw := resolveStreamWalk(c, "server.(*consumerGroup).removeConsumer", p.Field("server", "consumerGroup", "subscribers"), false); !ok && sw != nil && sw.hdr != nil {
			// the walk is a loop in removeConsumer itself: every path passes its header
			q := &eng.PathQuery{Fn: fn, FromEntry: true, Target: isRet, CutInstr: func(x ssa.Instruction) bool { return x.Block() == sw.hdr }}
			w = q.Find()
			ok = w == nil
		} else if ok {
			q := &eng.PathQuery{Fn: fn, FromEntry: true, Target: func(x ssa.Instruction) bool { _, isR := x.(*ssa.Return); return isR },
				CutInstr: func(x ssa.Instruction) bool { return x == walks[0].(ssa.Instruction) }}
			w = q.Find()
			ok = w == nil
		}
		c.Check(ok, "a leaving member is removed from the heaps whatever it holds", p.Pos(fn.Pos()), "every path through removeConsumer walks the member's streams", "removeConsumer can return before it walks the member's streams (path "+w.String()+"): a member that leaves while holding no partition stays in the subscriber heaps as a ghost, is the least loaded at the next rebalance and is given partitions no member then owns")
	}
	if fn := c.Fn("server.(*consumerGroup).StreamDeleted"); fn != nil {
		var unsub []ssa.Instruction
		eng.Instrs(fn, func(in ssa.Instruction) {
			call, isCall := in.(*ssa.Call)
			if !isCall {
				return
			}
			if b, isB := call.Call.Value.(*ssa.Builtin); isB && b.Name() == "delete" && eng.LoadNamed("streams", nil)(call.Call.Args[0]) {
				unsub = append(unsub, in)
			}
		})
		ok := len(unsub) == 1
		var w *eng.Witness
		if ok {
			hdr := unsub[0].Block()
			for hdr != nil && !isLoopHeader(hdr) {
				hdr = hdr.Idom()
			}
			if hdr == nil {
				ok = false
			} else {
				var body []eng.Edge
				for si, sb := range hdr.Succs {
					if sb.Dominates(unsub[0].Block()) || sb == unsub[0].Block() {
						body = append(body, eng.Edge{From: hdr, Succ: si})
					}
				}
				q := &eng.PathQuery{Fn: fn, FromEdges: body, Target: func(x ssa.Instruction) bool { return x == hdr.Instrs[0] }, CutInstr: func(x ssa.Instruction) bool { return x == unsub[0] }}
				w = q.Find()
				ok = w == nil && len(body) > 0
			}
		}
		c.Check(ok, "a deleted stream is taken from every subscriber", p.Pos(fn.Pos()), "every iteration of the subscriber loop un-subscribes the member", "StreamDeleted can skip a subscriber (path "+w.String()+"): a member that held no partition of the stream keeps it in its subscription set while the heap is dropped; when the stream is created again that member is in no heap, and a restore from a snapshot — which rebuilds heaps from the subscription sets — diverges from the servers that applied the log")
	}
}

// ruleRetentionDeletesFromTheOldestEnd (R09.5 extension): whatever fails or crashes part-way, the files that are left are a
// contiguous suffix — deleteSegments removes its segments in the order given and stops at the first one that cannot be
// removed, and the count / size passes hand it the doomed segments oldest first.
func ruleRetentionDeletesFromTheOldestEnd(c *eng.Ctx) {
	p := c.P
	if fn := c.Fn(cl + "(*deleteCleaner).deleteSegments"); fn != nil {
		dels := eng.CallsIn(fn, cl+"segment.Delete")
		ok := len(dels) == 1
		var w *eng.Witness
		if ok {
			d := dels[0].(*ssa.Call)
			failed := eng.CmpEdges(fn, eng.Same(d), eng.NilConst, eng.NE)
			q := &eng.PathQuery{Fn: fn, FromEdges: failed, Target: func(x ssa.Instruction) bool { return x == ssa.Instruction(d) }}
			w = q.Find()
			ok = w == nil && len(failed) > 0
		}
		c.Check(ok, "deletion stops at the first segment that cannot be removed", p.Pos(fn.Pos()), "after a failed Delete no further segment is deleted in this pass", "deleteSegments carries on with the next segment after one could not be deleted (path "+w.String()+"): an older segment stays while newer ones go — a hole in the log that open() loads as it is after a restart")
	}
	for _, k := range []string{cl + "(*deleteCleaner).applyMessagesLimit", cl + "(*deleteCleaner).applyBytesLimit"} {
		fn := c.Fn(k)
		if fn == nil {
			continue
		}
		ok := false
		for _, dc := range eng.CallsIn(fn, cl+"deleteCleaner.deleteSegments") {
			a := dc.Common().Args
			if sl, isSl := a[len(a)-1].(*ssa.Slice); isSl && eng.Param("segments")(sl.X) && sl.Low == nil {
				ok = true // a prefix of the input list: oldest first by construction
			}
		}
		if !ok {
			// a list built by appending: the index of the appended elements must ascend
			asc := true
			found := false
			eng.Instrs(fn, func(in ssa.Instruction) {
				call, isCall := in.(*ssa.Call)
				if !isCall {
					return
				}
				if b, isB := call.Call.Value.(*ssa.Builtin); !isB || b.Name() != "append" || !flowsToDelete(call) {
					return
				}
				for _, e := range variadicElems(call.Call.Args[1]) {
					if ia := indexOfLoad(e); ia != nil && eng.Param("segments")(ia.X) {
						found = true
						if ph, isPhi := ia.Index.(*ssa.Phi); isPhi {
							for _, pe := range ph.Edges {
								if eng.Bin(token.SUB, eng.Same(ph), eng.IntConst(1))(pe) {
									asc = false // i-- : newest first
								}
							}
						}
					}
				}
			})
			ok = found && asc
		}
		c.Check(ok, fn.Name()+" hands the doomed segments over oldest first", p.Pos(fn.Pos()), "segments[:i+1], or a list built in ascending order", fn.Name()+" builds the delete list from the stop index DOWN to 0: the newest doomed segment is removed first, and a crash or failure before the older ones are gone leaves them in front of a gap")
	}
}

// ruleCleanerRunsEveryTick (R09.4 extension): a tick of the cleaner loop that rolled the active segment still runs Clean.
func ruleCleanerRunsEveryTick(c *eng.Ctx) {
	p := c.P
	fn := c.Fn(cl + "(*commitLog).cleanerLoop")
	if fn == nil {
		return
	}
	splits := eng.CallsIn(fn, cl+"commitLog.checkAndPerformSplit")
	cleans := eng.CallsIn(fn, cl+"commitLog.Clean")
	if len(splits) != 1 || len(cleans) != 1 {
		c.Unresolved("checkAndPerformSplit / Clean in cleanerLoop")
		return
	}
	// from the roll check, the next wait (the select / ticker receive at the loop head) is not reached without Clean
	var waits []ssa.Instruction
	eng.Instrs(fn, func(in ssa.Instruction) {
		switch in.(type) {
		case *ssa.Select:
			waits = append(waits, in)
		}
	})
	q := &eng.PathQuery{Fn: fn, FromAfter: []ssa.Instruction{splits[0].(ssa.Instruction)}, Target: func(x ssa.Instruction) bool {
		for _, w := range waits {
			if x == w {
				return true
			}
		}
		return false
	}, CutInstr: func(x ssa.Instruction) bool { return x == cleans[0].(ssa.Instruction) },
		CutEdges: eng.CmpEdges(fn, eng.Call(1, cl+"commitLog.checkAndPerformSplit"), eng.NilConst, eng.NE)}
	w := q.Find()
	c.Check(w == nil && len(waits) > 0, "every tick of the cleaner loop cleans", p.Pos(fn.Pos()), "after the roll check the loop reaches Clean before it waits again", "a tick that rolled the active segment skips Clean (path "+w.String()+"): with segment.max.age below cleaner.interval and a slow stream every tick rolls, and the retention limits are never applied")
}

// ruleReverseReaderSurvivesReplacement (R08.6 extension, shared with C10 and C11): a reverse reader whose segment was replaced
// by the cleaner re-positions itself in the current segments instead of failing.
func ruleReverseReaderSurvivesReplacement(c *eng.Ctx) {
	p := c.P
	fn := c.Fn(cl + "(*ReverseReader).ReadMessage")
	if fn == nil {
		return
	}
	scanErr := eng.Call(2, cl+"reverseSegmentScanner.Scan")
	replaced := eng.CmpEdges(fn, eng.AnyV, eng.Global(cl+"ErrSegmentReplaced"), eng.EQ)
	ok := len(replaced) > 0
	var w *eng.Witness
	if ok {
		q := &eng.PathQuery{Fn: fn, FromEdges: replaced, Target: func(x ssa.Instruction) bool {
			r, isR := x.(*ssa.Return)
			if !isR {
				return false
			}
			rv := eng.RetVals(r)
			return len(rv) == 5 && scanErr(rv[4])
		}, CutInstr: eng.IsCallTo(cl + "reverseSegmentScanner.Scan")}
		w = q.Find()
		ok = w == nil
	}
	c.Check(ok, "a reverse reader re-positions itself when its segment was replaced", p.Pos(fn.Pos()), "ErrSegmentReplaced from the scanner leads to a re-initialisation, not to the caller", "ReverseReader.ReadMessage has no handling for a segment replaced by compaction: after a Clean() during a reverse subscription the next read fails (`segment has been closed`) — a FetchCursor that scans the compacted cursors stream fails with an Internal error")
}

// ruleParkedReaderKeepsRequestedOffset (R10.9): a committed reader created for an offset above the high watermark parks
// (seg == nil) and must start, once the watermark moves, at the offset it was asked for — not at whatever is committed next.
// Structural necessary condition: newReaderCommitted stores a value derived from its offset parameter in the parked reader,
// and committedReader.Read derives the offset it resumes at from that field.
func ruleParkedReaderKeepsRequestedOffset(c *eng.Ctx) {
	p := c.P
	mk := c.Fn(cl + "(*commitLog).newReaderCommitted")
	rd := c.Fn(cl + "(*committedReader).Read")
	if mk == nil || rd == nil {
		return
	}
	dependsOnParam := func(v ssa.Value) bool {
		hit := false
		var walk func(v ssa.Value, d int)
		seen := map[ssa.Value]bool{}
		walk = func(v ssa.Value, d int) {
			if v == nil || seen[v] || d > 20 {
				return
			}
			seen[v] = true
			switch x := v.(type) {
			case *ssa.Parameter:
				if x.Name() == "offset" {
					hit = true
				}
			case *ssa.Phi:
				for _, e := range x.Edges {
					walk(e, d+1)
				}
			case *ssa.BinOp:
				walk(x.X, d+1)
				walk(x.Y, d+1)
			case *ssa.Convert:
				walk(x.X, d+1)
			case *ssa.ChangeType:
				walk(x.X, d+1)
			}
		}
		walk(v, 0)
		return hit
	}
	// the parked reader: the committedReader literal whose seg field is nil
	var parkedFields []string
	for _, st := range eng.FieldStores(mk, func(fa *ssa.FieldAddr) bool { return true }) {
		fa := st.Addr.(*ssa.FieldAddr)
		al, isAlloc := fa.X.(*ssa.Alloc)
		if !isAlloc || !strings.HasSuffix(al.Type().String(), "committedReader") {
			continue
		}
		// is this the literal with seg == nil?
		parked := false
		for _, st2 := range eng.FieldStores(mk, func(fa2 *ssa.FieldAddr) bool { return fa2.X == al && eng.FieldNameOf(fa2) == "seg" }) {
			if eng.NilConst(st2.Val) {
				parked = true
			}
		}
		if parked && dependsOnParam(st.Val) {
			parkedFields = append(parkedFields, eng.FieldNameOf(fa))
		}
	}
	c.Check(len(parkedFields) > 0, "parked reader remembers the requested offset", p.Pos(mk.Pos()), "newReaderCommitted stores the offset it was asked for in the reader it parks (seg == nil)", "the reader parked for an offset above the high watermark does not record that offset: when the watermark moves it starts at hw+1 and delivers messages below the requested start (NEW_ONLY / LATEST on a leader with uncommitted messages)")
	if len(parkedFields) == 0 {
		return
	}
	// Read resumes from it
	uses := false
	for _, fe := range eng.CallsIn(rd, cl+"segment.findEntry", cl+"findSegment") {
		seen := map[ssa.Value]bool{}
		sources(fe.Common().Args[1], seen, func(v ssa.Value) {
			for _, f := range parkedFields {
				if eng.LoadNamed(f, nil)(v) {
					uses = true
				}
			}
		})
	}
	c.Check(uses, "parked reader resumes at the requested offset", p.Pos(rd.Pos()), "the offset committedReader.Read looks up after the wait derives from the recorded start offset", "committedReader.Read ignores the offset recorded for the parked reader when it resumes")
}

// ruleImplicitStopNotAnArgumentError (R10.3 extension): "stop offset before start offset" is an argument error only when the
// client asked for a stop position. The implicit stop of a read-only partition (StopPosition == STOP_ON_CANCEL) lying before
// the start means there is nothing to read, and the subscription has to end with the read-only status.
func ruleImplicitStopNotAnArgumentError(c *eng.Ctx) {
	p := c.P
	fn := c.Fn("server.(*partition).Subscribe")
	if fn == nil {
		return
	}
	stopC := eng.Call(0, "server.partition.getStopOffset")
	startC := eng.Call(0, "server.partition.getStartOffset")
	inverted := eng.CmpEdges(fn, stopC, startC, eng.LT)
	if len(inverted) == 0 {
		c.Unresolved("stopOffset < startOffset test in Subscribe")
		return
	}
	explicit := eng.CmpEdges(fn, eng.LoadNamed("StopPosition", nil), func(v ssa.Value) bool {
		k, isK := eng.Strip(v).(*ssa.Const)
		return isK && eng.EnumName(k) == "StopPosition_STOP_ON_CANCEL"
	}, eng.NE)
	// returns reached from the inverted edge without passing the reader creation: all of them are the rejection
	var rej []*eng.Witness
	for _, e := range inverted {
		q := &eng.PathQuery{Fn: fn, FromEdges: []eng.Edge{e}, Target: func(x ssa.Instruction) bool {
			call, isCall := x.(*ssa.Call)
			if !isCall {
				return false
			}
			if f := call.Common().StaticCallee(); f != nil && f.Name() == "New" && f.Pkg != nil && strings.HasSuffix(f.Pkg.Pkg.Path(), "grpc/status") {
				k, isK := call.Common().Args[0].(*ssa.Const)
				return isK && k.Int64() == 3 // codes.InvalidArgument
			}
			return false
		}, CutEdges: append(append([]eng.Edge{}, explicit...), eng.BoolEdges(fn, eng.LoadNamed("Reverse", nil), true)...)} // the inverted forward range is only tested for !Reverse
		if w := q.Find(); w != nil {
			rej = append(rej, w)
		}
	}
	c.Check(len(rej) == 0 && len(explicit) > 0, "implicit read-only stop before the start is not an argument error", p.Pos(fn.Pos()), "InvalidArgument for stop < start only behind StopPosition != STOP_ON_CANCEL", "a subscription without a stop position whose start lies past the end of a read-only partition (NEW_ONLY, the default) is rejected with InvalidArgument about a stop offset the client never sent, instead of ending with the read-only status")
}

// ruleDeletedSegmentReadsRecover (R08.6 extension, C09/C10): a read from a segment that retention marked deleted and closed
// reports ErrSegmentReplaced — the error readers recover from by looking the position up again — exactly like a read from a
// segment replaced by compaction. Decided on the reach condition of the ErrSegmentReplaced result over (closed, replaced,
// deleted).
func ruleDeletedSegmentReadsRecover(c *eng.Ctx) {
	fn := c.Fn(cl + "(*segment).ReadAt")
	if fn == nil {
		return
	}
	isRep := eng.Global(cl + "ErrSegmentReplaced")
	var site ssa.Instruction
	eng.Instrs(fn, func(in ssa.Instruction) {
		switch x := in.(type) {
		case *ssa.Return:
			for _, r := range eng.RetVals(x) {
				if isRep(r) {
					site = in
				}
			}
		case *ssa.Store:
			if isRep(x.Val) {
				site = in
			}
		}
	})
	if site == nil {
		c.Unresolved("ErrSegmentReplaced result in segment.ReadAt")
		return
	}
	specs := []eng.AtomSpec{{A: eng.LoadNamed("closed", nil)}, {A: eng.LoadNamed("replaced", nil)}, {A: eng.LoadNamed("deleted", nil)}}
	t, okT := eng.ReachTable(fn, site, specs)
	ok := okT && eng.TableIs(t, func(bit func(int) bool) bool { return bit(0) && (bit(1) || bit(2)) })
	c.Check(ok, "reads of a closed segment that was replaced or deleted ask the reader to re-position", c.Pos(site), "ErrSegmentReplaced exactly for closed ∧ (replaced ∨ deleted)", "a read from a segment deleted by retention (marked deleted, then closed) is reported as ErrSegmentClosed: the subscription of a slow reader ends with an Unknown status instead of continuing at the oldest retained message — or a segment still open is reported as gone")
}

// ruleReverseOnEmptyPartitionEnds (R10.2 extension): a reverse subscription reads committed messages downwards; with nothing
// committed (HW == -1) it is at the beginning of the partition already and ends with ResourceExhausted instead of creating a
// reverse reader (which fails with a lookup error reported as Unknown).
func ruleReverseOnEmptyPartitionEnds(c *eng.Ctx) {
	p := c.P
	fn := c.Fn("server.(*partition).Subscribe")
	if fn == nil {
		return
	}
	nr := eng.CallsIn(fn, cl+"CommitLog.NewReverseReader", cl+"commitLog.NewReverseReader")
	if len(nr) == 0 {
		// the reverse reader may be created by the subscribe loop; then the guard has to stand before the loop is started
		for _, x := range eng.CallsIn(fn, "server.partition.newSubscribeLoop") {
			nr = append(nr, x)
		}
	}
	if len(nr) == 0 {
		c.Unresolved("reverse reader creation reachable from Subscribe")
		return
	}
	nonEmpty := eng.CmpEdges(fn, eng.Call(0, cl+"CommitLog.HighWatermark", cl+"commitLog.HighWatermark"), eng.IntConst(-1), eng.NE)
	forward := eng.BoolEdges(fn, eng.LoadNamed("Reverse", nil), false)
	ok := len(nonEmpty) > 0
	var w *eng.Witness
	for _, x := range nr {
		g, ww := eng.GuardedBy(fn, x.(ssa.Instruction), append(append([]eng.Edge{}, nonEmpty...), forward...))
		if !g {
			ok, w = false, ww
		}
	}
	c.Check(ok, "reverse subscription on a partition with nothing committed ends at once", p.Pos(fn.Pos()), "the reverse reader is created only behind HighWatermark() != -1", "a reverse subscription on a partition without committed messages creates a reverse reader anyway (path "+w.String()+"): the client gets an Unknown lookup error instead of ResourceExhausted `beginning of partition`")
}

// isCommitCheckSignal: a (non-blocking) send on the partition's commitCheck channel.
func isCommitCheckSignal(in ssa.Instruction) bool {
	ch := eng.LoadNamed("commitCheck", nil)
	switch x := in.(type) {
	case *ssa.Send:
		return ch(x.Chan)
	case *ssa.Select:
		for _, st := range x.States {
			if st.Dir == types.SendOnly && ch(st.Chan) {
				return true
			}
		}
	}
	return false
}

// ruleOffsetProgressSignalsCommit (R04.2 extension, C04/C11): the commit loop recomputes the high watermark only when it is
// signalled. Whoever moves a replica's latest offset forward (replica.updateLatestOffset answering true) therefore has to
// signal commitCheck — the leader's own offset on becoming leader included: with the leader alone in the ISR nothing else
// ever will, and a watermark recovered from a stale checkpoint stays behind acknowledged messages.
func ruleOffsetProgressSignalsCommit(c *eng.Ctx) {
	p := c.P
	n := 0
	for _, s := range eng.Index(p).Sites("server.replica.updateLatestOffset") {
		call, isCall := s.Instr.(*ssa.Call)
		if !isCall {
			continue
		}
		fn := call.Parent()
		n++
		moved := eng.BoolEdges(fn, func(v ssa.Value) bool { return v == ssa.Value(call) }, true)
		ok := len(moved) > 0
		var w *eng.Witness
		if ok {
			q := &eng.PathQuery{Fn: fn, FromEdges: moved, Target: func(x ssa.Instruction) bool { _, isRet := x.(*ssa.Return); return isRet }, CutInstr: isCommitCheckSignal}
			w = q.Find()
			ok = w == nil
		}
		c.Check(ok, "offset progress recorded in "+ir.FuncKey(ir.Outermost(fn))+" signals the commit loop", c.Pos(call), "updateLatestOffset() == true → commitCheck signalled on every path", "a replica's latest offset moves forward here without the commit loop being told ("+w.String()+"): the high watermark is not recomputed until something else signals it — a leader that is alone in the ISR and recovered a stale watermark checkpoint serves reads (cursor fetches) from before acknowledged messages until the next publish")
	}
	if n < 2 {
		c.Unresolved("call sites of replica.updateLatestOffset (2 on the reference tree)")
	}
}

// ruleCompactionScansEndOnlyAtEOF (R08.1 extension, C08/C11): the compactor reads segments with a scanner; only io.EOF means
// "segment read to its end". Any other scan error (the segment closed under it by Close / Truncate, an I/O error) must make
// the compaction fail — a loop of the form `for …; err == nil; …` would take it for the end, and the compactor would replace
// the segment by the prefix it managed to read, deleting the rest.
func ruleCompactionScansEndOnlyAtEOF(c *eng.Ctx) {
	n := 0
	for _, name := range []string{"(*compactCleaner).compact", "(*compactCleaner).cleanSegment", "(*compactCleaner).scanSegments"} {
		fn := c.Fn(cl + name)
		if fn == nil {
			continue
		}
		scans := eng.CallsIn(fn, cl+"segmentScanner.Scan")
		if len(scans) > 0 {
			n++
		}
		okAll, anyCuts := true, false
		var bad *eng.Witness
		var at ssa.Instruction
		for _, sc := range scans {
			at = sc.(ssa.Instruction)
			// the error of this Scan, or — `for ms, e, err := ss.Scan(); err != io.EOF; ms, e, err = ss.Scan()` — the merge of
			// the errors of the function's Scan calls with this one among them
			isScan := func(t ssa.Value) bool {
				for _, o := range scans {
					if o.Value() == t {
						return true
					}
				}
				return false
			}
			var errv func(v ssa.Value) bool
			errv = func(v ssa.Value) bool {
				switch e := v.(type) {
				case *ssa.Extract:
					return e.Tuple == sc.Value() && e.Index == 2
				case *ssa.Phi:
					mine := false
					for _, x := range e.Edges {
						ex, isE := x.(*ssa.Extract)
						if !isE || ex.Index != 2 || !isScan(ex.Tuple) {
							return false
						}
						if ex.Tuple == sc.Value() {
							mine = true
						}
					}
					return mine
				}
				return false
			}
			cuts := append(eng.CmpEdges(fn, errv, eng.Global("io.EOF"), eng.EQ), eng.CmpEdges(fn, errv, eng.NilConst, eng.EQ)...)
			hasErrors := fn.Signature.Results().Len() > 0
			q := &eng.PathQuery{Fn: fn, FromAfter: []ssa.Instruction{sc.(ssa.Instruction)}, Target: func(x ssa.Instruction) bool {
				r, isRet := x.(*ssa.Return)
				if !isRet {
					return false
				}
				if !hasErrors {
					return true
				}
				return eng.NilConst(eng.RetVals(r)[len(eng.RetVals(r))-1])
			}, CutEdges: cuts, CutInstr: func(x ssa.Instruction) bool {
				if x == sc.(ssa.Instruction) {
					return true
				}
				_, isSend := x.(*ssa.Send) // a worker reports the failure to its caller
				return isSend && !hasErrors
			}}
			if len(cuts) > 0 {
				anyCuts = true
			}
			if w := q.Find(); w != nil || len(cuts) == 0 {
				okAll, bad = false, w
			}
		}
		if at != nil {
			w := bad
			c.Check(okAll && anyCuts, "scan loop of "+ir.FuncKey(fn)+" ends normally only at io.EOF", c.Pos(at), "a Scan error other than io.EOF leaves the function with an error", "a scan that fails (segment closed by a concurrent Close, read error) is taken for the end of the segment ("+w.String()+"): the compactor goes on to replace the segment by what it read so far and the remaining messages — the latest cursor values among them — are deleted")
		}
	}
	if n < 3 {
		c.Unresolved("the compactor's three scan loops")
	}
}

// ruleLeadershipLossCancelsGroupSubscribers (R13.8): the one-member-per-group rule is enforced through the member table of the
// partition object on the leader. A server that stops leading a partition but keeps running therefore has to end the group
// subscriptions it serves — the new leader's table is empty and would accept a second member. Structural condition: on every
// path through becomeFollower a function is called that, holding consumersMu, closes the subscription of every entry of
// p.consumers.
func ruleLeadershipLossCancelsGroupSubscribers(c *eng.Ctx) {
	p := c.P
	fn := c.Fn("server.(*partition).becomeFollower")
	cons := p.Field("server", "partition", "consumers")
	if fn == nil || cons == nil {
		return
	}
	cancelsAll := func(g *ssa.Function) bool {
		// ranges over p.consumers and closes a subscription in the loop, with consumersMu held
		var rng *ssa.Range
		eng.Instrs(g, func(in ssa.Instruction) {
			if r, ok := in.(*ssa.Range); ok && eng.Load(cons, nil)(r.X) {
				rng = r
			}
		})
		if rng == nil {
			return false
		}
		ok := false
		la := eng.LocksOf(p, g, 0)
		eng.Instrs(g, func(in ssa.Instruction) {
			cc, isC := in.(*ssa.Call)
			if !isC {
				return
			}
			f := cc.Common().StaticCallee()
			if f == nil || (ir.FuncKey(f) != "server.(*subscription).Close" && ir.FuncKey(f) != "server.(*subscription).CloseWithStatus") {
				return
			}
			after, _ := eng.PrecededBy(g, in, func(x ssa.Instruction) bool { return x == ssa.Instruction(rng) })
			if after && lockHeld(la.At(in), "consumersMu", 1) {
				ok = true
			}
		})
		return ok
	}
	reaches := map[*ssa.Function]bool{}
	for _, g := range moduleReach(c, fn, 3) {
		if g.Parent() == nil && cancelsAll(g) {
			reaches[g] = true
		}
	}
	// calls in becomeFollower that lead (synchronously, within two hops) to such a function
	isCancel := func(x ssa.Instruction) bool {
		cc, isC := x.(*ssa.Call)
		if !isC {
			return false
		}
		f := cc.Common().StaticCallee()
		if f == nil {
			return false
		}
		for _, g := range moduleReach(c, f, 2) {
			if reaches[g] {
				return true
			}
		}
		return false
	}
	q := &eng.PathQuery{Fn: fn, FromEntry: true, Target: func(x ssa.Instruction) bool { _, isRet := x.(*ssa.Return); return isRet }, CutInstr: isCancel}
	w := q.Find()
	c.Check(len(reaches) > 0 && w == nil, "becoming a follower ends the group subscriptions served here", p.Pos(fn.Pos()), "every path through becomeFollower cancels every entry of p.consumers under consumersMu", "a server that loses the leadership of a partition but keeps running goes on serving its consumer-group subscriptions ("+w.String()+"): the new leader's member table is empty, a second member of the group is accepted there, and both receive every message")
}

// ruleRawPayloadWaivesExpectedOffset (R14.9, shared with C16): a payload that is not an envelope is stored verbatim. It
// cannot carry an expected offset, so the message built for it has to waive the offset condition (Offset = -1, the value the
// log reads as "no expectation"); the zero value would be read as "must land at offset 0" by a stream with optimistic
// concurrency control, and every raw payload but the first would be dropped.
func ruleRawPayloadWaivesExpectedOffset(c *eng.Ctx) {
	p := c.P
	fn := c.Fn("server.natsToProtoMessage")
	if fn == nil {
		return
	}
	env := eng.CmpEdges(fn, eng.Call(0, "server.getMessage"), eng.NilConst, eng.NE)
	if len(env) == 0 {
		c.Unresolved("the envelope / raw payload test in natsToProtoMessage")
		return
	}
	waives := func(x ssa.Instruction) bool {
		st, isSt := x.(*ssa.Store)
		if !isSt {
			return false
		}
		fa, isFA := st.Addr.(*ssa.FieldAddr)
		return isFA && eng.FieldNameOf(fa) == "Offset" && eng.IntConst(-1)(st.Val)
	}
	q := &eng.PathQuery{Fn: fn, FromEntry: true, Target: func(x ssa.Instruction) bool { _, isRet := x.(*ssa.Return); return isRet }, CutInstr: waives, CutEdges: env}
	w := q.Find()
	c.Check(w == nil, "a raw payload waives the expected offset", p.Pos(fn.Pos()), "Offset = -1 on the path that wraps a non-envelope payload", "the message built for a non-envelope payload keeps Offset at its zero value ("+w.String()+"): on a stream with optimistic concurrency control that reads as `must land at offset 0`, so every raw payload after the first fails with ErrIncorrectOffset and is dropped without a nack — the payload is not stored verbatim")
	// ... and an envelope's expectation is the one the publisher sent: on the envelope branch nothing but the decoded
	// message's Offset is stored (a "normalisation" of other negative values to -1 turns a refusal into a waiver: round 12)
	gv := eng.Call(0, "server.getMessage")
	for _, st := range eng.FieldStores(fn, func(fa *ssa.FieldAddr) bool { return eng.FieldNameOf(fa) == "Offset" }) {
		if g, _ := eng.GuardedBy(fn, st, env); !g {
			continue
		}
		f, base := eng.FieldRead(st.Val)
		c.Check(f != nil && f.Name() == "Offset" && gv(base), "an envelope's expected offset is stored as sent", c.Pos(st), "m.Offset = message.Offset and nothing else on the envelope branch", "natsToProtoMessage stores "+eng.Describe(st.Val)+" as the expected offset of an enveloped message: an expectation the log would have refused (any negative value other than -1) is rewritten into one it accepts, and a conditional publish is stored although its condition does not hold")
	}
}

// ruleCreatedStreamUsesLoggedConfig (R06.6 extension, shared with C16 as the "replicated config → stream object" hop of
// R16.8): the stream a CREATE_STREAM entry yields takes its settings from the entry being applied — also when it replaces a
// tombstoned incarnation during replay. The entry itself is read-only on the apply path: every server replays the same bytes,
// so anything written into it from local state (the old incarnation's settings) makes the outcome depend on the history.
func ruleCreatedStreamUsesLoggedConfig(c *eng.Ctx) {
	p := c.P
	fn := c.Fn("server.(*metadataAPI).AddStream")
	if fn == nil {
		return
	}
	op := eng.Param("protoStream")
	fromOp := func(v ssa.Value) bool {
		v = eng.Strip(v)
		if call := eng.AsCall(v); call != nil {
			ref := eng.CalleeRef(&call.Call)
			if strings.HasSuffix(ref, "Stream.GetConfig") && len(call.Call.Args) == 1 && op(call.Call.Args[0]) {
				return true
			}
			return false
		}
		return eng.LoadNamed("Config", op)(v)
	}
	// no store into the logged operation
	bad, badPos := "", p.Pos(fn.Pos())
	eng.Instrs(fn, func(in ssa.Instruction) {
		st, isSt := in.(*ssa.Store)
		if !isSt || bad != "" {
			return
		}
		fa, isFA := st.Addr.(*ssa.FieldAddr)
		if !isFA || !op(eng.Strip(fa.X)) {
			return
		}
		bad, badPos = eng.Describe(st.Val)+" into protoStream."+eng.FieldNameOf(fa), c.Pos(st)
	})
	c.Check(bad == "", "the logged operation is not rewritten in AddStream", badPos, "no store into a field of protoStream", "AddStream stores "+bad+": the operation being applied is what every server replays; overwriting a field of it from local state (e.g. the tombstoned incarnation's settings) gives the re-created stream settings that no CREATE_STREAM entry asked for")
	mk := eng.CallsIn(fn, "server.newStream")
	if len(mk) != 1 {
		c.Unresolved("the newStream call in AddStream")
		return
	}
	a := mk[0].Common().Args
	c.Check(len(a) >= 3 && fromOp(a[2]), "a created stream takes its settings from the logged operation", c.Pos(mk[0]), "newStream(…, protoStream.GetConfig(), …)", "newStream is given "+eng.Describe(a[2])+" as the stream's settings, not the configuration carried by the CREATE_STREAM entry being applied")
	for _, ap := range eng.CallsIn(fn, "server.metadataAPI.addPartition") {
		aa := ap.Common().Args
		c.Check(len(aa) >= 5 && fromOp(aa[4]), "a created stream's partitions take their settings from the logged operation", c.Pos(ap), "addPartition(…, protoStream.GetConfig())", "addPartition is given "+eng.Describe(aa[len(aa)-1])+" as the partition's settings, not the configuration carried by the CREATE_STREAM entry being applied: the commit log is opened with other settings (retention, compaction, concurrency control, encryption) than the stream was created with")
	}
}

// ruleCreatePreconditionKeysOnTheStreamName (R14.5 extension, shared with C06): the existence test that decides whether a
// CREATE_STREAM entry may be logged looks the stream up under the name the entry will be applied under
// (AddStream registers m.streams[protoStream.Name]). A test keyed on anything else in the request — the first partition's
// Stream field — lets an inconsistent request through; its application then fails with ErrStreamExists, and an apply error is
// fatal on every server, on every replay.
func ruleCreatePreconditionKeysOnTheStreamName(c *eng.Ctx) {
	p := c.P
	fn := c.Fn("server.(*metadataAPI).checkCreateStreamPreconditions")
	if fn == nil {
		return
	}
	calls := eng.CallsIn(fn, "server.metadataAPI.GetStream")
	if len(calls) == 0 {
		c.Unresolved("the existence test (GetStream) in checkCreateStreamPreconditions")
		return
	}
	isStreamName := func(v ssa.Value) bool {
		f, base := eng.FieldRead(v)
		if f == nil || f.Name() != "Name" {
			// protoStream.GetName()
			if call := eng.AsCall(eng.Strip(v)); call != nil && strings.HasSuffix(eng.CalleeRef(&call.Call), "Stream.GetName") && len(call.Call.Args) == 1 {
				base = call.Call.Args[0]
			} else {
				return false
			}
		}
		f2, _ := eng.FieldRead(base)
		if f2 != nil && f2.Name() == "Stream" {
			return true
		}
		if call := eng.AsCall(eng.Strip(base)); call != nil && strings.HasSuffix(eng.CalleeRef(&call.Call), "CreateStreamOp.GetStream") {
			return true
		}
		return false
	}
	for _, cs := range calls {
		args := eng.AllArgs(cs.Common())
		arg := args[len(args)-1]
		c.Check(isStreamName(arg), "the create precondition looks the stream up under its own name", c.Pos(cs), "GetStream(op.CreateStreamOp.Stream.Name): the key AddStream registers the stream under", "the existence test of CREATE_STREAM looks up "+eng.Describe(arg)+", not the name the entry is applied under: a request whose partitions name another stream passes the test, is logged, and its application fails with ErrStreamExists — an apply error, which stops every server and recurs on every replay")
	}
	_ = p
}
