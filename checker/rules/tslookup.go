package rules

import (
	"go/token"

	"golang.org/x/tools/go/ssa"

	"lbcheck/eng"
)

// ruleTimestampLookupShapes (R10.8): the value shapes of the two timestamp lookups and of the two binary-search predicates
// they rest on. A subscription that starts or stops at a timestamp starts or stops at the offset these answer; each shape
// below is one of the comparisons / ±1 adjustments the answer depends on.
func ruleTimestampLookupShapes(c *eng.Ctx) {
	p := c.P
	tsOf := eng.LoadNamed("Timestamp", nil)
	tsArg := func(v ssa.Value) bool { return eng.Param("timestamp")(v) || freeVarNamed("timestamp")(v) }

	// the segment search: first segment whose first entry is strictly later than the timestamp
	if pred := c.Fn(cl + "findSegmentIndexByTimestamp$1"); pred != nil {
		n, ok := allReturns(pred, func(rv []ssa.Value) bool { return len(rv) == 1 && !eng.IsConst(rv[0]) },
			func(rv []ssa.Value) bool { return eng.RelVal(tsOf, tsArg, eng.GT)(rv[0]) })
		c.Check(n >= 1 && ok, "segment search predicate", p.Pos(pred.Pos()), "first entry's timestamp > timestamp", "findSegmentIndexByTimestamp does not search for the first segment that starts strictly after the timestamp: the lookups inspect the wrong segment (with >= a message stamped exactly at a segment's first timestamp is looked for in the segment before it)")
		// the entry read is the segment's first one
		first := false
		for _, rc := range eng.CallsIn(pred, cl+"index.ReadEntryAtLogOffset") {
			a := eng.AllArgs(rc.Common())
			if eng.IntConst(0)(a[len(a)-1]) {
				first = true
			}
		}
		c.Check(first, "segment search reads each segment's first entry", p.Pos(pred.Pos()), "ReadEntryAtLogOffset(&entry, 0)", "the segment search does not compare the first entry of each segment")
	}
	// both predicates: the constant answer `true` (stop the search) is given only when reading the entry failed
	for _, k := range []string{"findSegmentIndexByTimestamp$1", "(*segment).findEntryByTimestamp$1"} {
		pred := c.FnQuiet(cl + k)
		if pred == nil {
			continue
		}
		failed := eng.CmpEdges(pred, eng.Call(-1, cl+"index.ReadEntryAtLogOffset"), eng.NilConst, eng.NE)
		okPol := len(failed) > 0
		for _, r := range eng.Returns(pred) {
			rv := eng.RetVals(r)
			if len(rv) != 1 {
				continue
			}
			g, _ := eng.GuardedBy(pred, r, failed)
			if constBool(rv[0], true) != g {
				okPol = false
			}
		}
		c.Check(okPol, "search predicate "+k+" aborts only on a read error", p.Pos(pred.Pos()), "`return true` exactly on the error edge of ReadEntryAtLogOffset, the comparison otherwise", "the search predicate "+k+" answers a constant on a successful read, or compares an entry that was not read")
	}
	// the entry search: first entry at or after the timestamp, ErrEntryNotFound exactly when there is none
	if pred := c.Fn(cl + "(*segment).findEntryByTimestamp$1"); pred != nil {
		n, ok := allReturns(pred, func(rv []ssa.Value) bool { return len(rv) == 1 && !eng.IsConst(rv[0]) },
			func(rv []ssa.Value) bool { return eng.RelVal(tsOf, tsArg, eng.GE)(rv[0]) })
		c.Check(n >= 1 && ok, "entry search predicate", p.Pos(pred.Pos()), "entry timestamp >= timestamp", "findEntryByTimestamp does not search for the first entry at or after the timestamp")
	}
	if fn := c.Fn(cl + "(*segment).findEntryByTimestamp"); fn != nil {
		idx := eng.Call(-1, "sort.Search")
		count := func(v ssa.Value) bool {
			if cv, ok := v.(*ssa.Convert); ok {
				v = cv.X
			}
			return eng.Call(-1, cl+"index.CountEntries")(v)
		}
		c.Check(eng.ExactCmp(fn, idx, count, eng.EQ), "not found exactly when the search ran off the end", p.Pos(fn.Pos()), "idx == n", "findEntryByTimestamp's not-found test is not `idx == n` (n = number of entries)")
		errCell := func(v ssa.Value) bool {
			u, ok := v.(*ssa.UnOp)
			if !ok || u.Op != token.MUL {
				return false
			}
			_, isAlloc := u.X.(*ssa.Alloc)
			return isAlloc && u.Type().String() == "error"
		}
		noErr := eng.CmpEdges(fn, errCell, eng.NilConst, eng.EQ)
		okAfter := len(noErr) > 0
		eng.Instrs(fn, func(in ssa.Instruction) {
			if bo, isBo := in.(*ssa.BinOp); isBo && ((idx(bo.X) && count(bo.Y)) || (idx(bo.Y) && count(bo.X))) {
				if g, _ := eng.GuardedBy(fn, in, noErr); !g {
					okAfter = false
				}
			}
		})
		c.Check(okAfter, "the search result is used only when no read failed during the search", p.Pos(fn.Pos()), "idx is looked at behind err == nil", "findEntryByTimestamp uses the index answered by a search whose predicate hit a read error")
		ranOff := eng.CmpEdges(fn, idx, count, eng.EQ)
		inRange := eng.CmpEdges(fn, idx, count, eng.NE)
		nNF, okNF := allReturns(fn, func(rv []ssa.Value) bool { return len(rv) == 2 && eng.Global(cl+"ErrEntryNotFound")(rv[1]) })
		_ = okNF
		okNFPol := nNF >= 1
		for _, r := range eng.Returns(fn) {
			rv := eng.RetVals(r)
			if len(rv) == 2 && eng.Global(cl+"ErrEntryNotFound")(rv[1]) {
				if g, _ := eng.GuardedBy(fn, r, ranOff); !g {
					okNFPol = false
				}
			}
		}
		for _, rc := range eng.CallsIn(fn, cl+"index.ReadEntryAtLogOffset") {
			if g, _ := eng.GuardedBy(fn, rc.(ssa.Instruction), inRange); !g {
				okNFPol = false
			}
		}
		c.Check(okNFPol, "ErrEntryNotFound on the off-the-end edge, read-back on the other", p.Pos(fn.Pos()), "idx == n → ErrEntryNotFound; idx != n → ReadEntryAtLogOffset(entry, idx)", "findEntryByTimestamp answers ErrEntryNotFound for an index inside the segment, or reads back the entry at index n")
		okRead := false
		for _, rc := range eng.CallsIn(fn, cl+"index.ReadEntryAtLogOffset") {
			a := eng.AllArgs(rc.Common())
			if cv, isCv := a[len(a)-1].(*ssa.Convert); isCv && idx(cv.X) {
				okRead = true
			}
		}
		c.Check(okRead, "the entry returned is the one the search found", p.Pos(fn.Pos()), "ReadEntryAtLogOffset(entry, idx)", "findEntryByTimestamp does not read back the entry at the index the search answered")
	}

	segIdx := eng.Call(0, cl+"findSegmentIndexByTimestamp")
	entryOf := eng.Call(0, cl+"segment.findEntryByTimestamp")
	errOf := eng.Call(1, cl+"segment.findEntryByTimestamp")
	for _, k := range []string{"EarliestOffsetAfterTimestamp", "LatestOffsetBeforeTimestamp"} {
		fn := c.Fn(cl + "(*commitLog)." + k)
		if fn == nil {
			continue
		}
		// the segment inspected first: the one before idx, or the first one when idx == 0
		okSeg := false
		isZero := eng.CmpEdges(fn, segIdx, eng.IntConst(0), eng.EQ)
		notZero := eng.CmpEdges(fn, segIdx, eng.IntConst(0), eng.NE)
		eng.Instrs(fn, func(in ssa.Instruction) {
			ph, ok := in.(*ssa.Phi)
			if !ok || okSeg || len(ph.Edges) != 2 {
				return
			}
			var zeroOK, prevOK bool
			for i, e := range ph.Edges {
				ia := indexOfLoad(e)
				if ia == nil {
					return
				}
				pred := ph.Block().Preds[i]
				last := pred.Instrs[len(pred.Instrs)-1]
				if eng.IntConst(0)(ia.Index) {
					if g, _ := eng.GuardedBy(fn, last, isZero); g && len(isZero) > 0 {
						zeroOK = true
					}
				}
				if eng.Bin(token.SUB, segIdx, eng.IntConst(1))(ia.Index) {
					if g, _ := eng.GuardedBy(fn, last, notZero); g && len(notZero) > 0 {
						prevOK = true
					}
				}
			}
			okSeg = zeroOK && prevOK
		})
		c.Check(okSeg, k+" inspects the segment before the one the search answered", p.Pos(fn.Pos()), "segments[0] when idx == 0, else segments[idx-1]", k+" does not pick segments[idx-1] (segments[0] when idx == 0): the entry search runs in a segment that cannot hold the answer")

		// the entry search runs only when the segment search succeeded
		segOK := eng.CmpEdges(fn, eng.Call(1, cl+"findSegmentIndexByTimestamp"), eng.NilConst, eng.EQ)
		okRun := len(segOK) > 0
		for _, es := range eng.CallsIn(fn, cl+"segment.findEntryByTimestamp") {
			if g, _ := eng.GuardedBy(fn, es.(ssa.Instruction), segOK); !g {
				okRun = false
			}
		}
		c.Check(okRun, k+" searches entries only after a successful segment search", p.Pos(fn.Pos()), "findEntryByTimestamp behind err == nil of findSegmentIndexByTimestamp", k+" goes on to search entries although the segment search failed: the index it uses is meaningless")
		// tolerated search failures: "no such entry" and EOF only — every other error is returned
		tolerated := append(eng.CmpEdges(fn, errOf, eng.Global(cl+"ErrEntryNotFound"), eng.EQ), eng.CmpEdges(fn, errOf, eng.Global("io.EOF"), eng.EQ)...)
		found := eng.CmpEdges(fn, errOf, eng.NilConst, eng.EQ)
		okTol := len(tolerated) >= 2 && len(found) >= 1
		c.Check(okTol, k+" tells a missing entry from a failed read", p.Pos(fn.Pos()), "err == nil / ErrEntryNotFound / io.EOF are told apart", k+" no longer distinguishes `no entry at or after the timestamp` from a read error")
		// polarity: what follows a missing entry (the next segment / the segment's last offset) is reached only over a
		// tolerated error; a wrapped error is returned only over the edges where the error is neither of the two
		notNF := eng.CmpEdges(fn, errOf, eng.Global(cl+"ErrEntryNotFound"), eng.NE)
		notEOF := eng.CmpEdges(fn, errOf, eng.Global("io.EOF"), eng.NE)
		okPol := len(notNF) > 0 && len(notEOF) > 0
		polWhy := ""
		first := eng.CallsIn(fn, cl+"segment.findEntryByTimestamp")
		for _, r := range eng.Returns(fn) {
			rv := eng.RetVals(r)
			if len(rv) != 2 {
				continue
			}
			after, _ := eng.PrecededBy(fn, r, func(x ssa.Instruction) bool { return len(first) > 0 && x == first[0].(ssa.Instruction) })
			if !after {
				continue
			}
			if wc, isCall := eng.Strip(rv[1]).(*ssa.Call); isCall && len(wc.Call.Args) > 0 && errOf(wc.Call.Args[0]) && len(first) > 0 && eng.Call(1, cl+"segment.findEntryByTimestamp")(wc.Call.Args[0]) {
				// wrapped error of the FIRST entry search
				if ex, isEx := eng.Strip(wc.Call.Args[0]).(*ssa.Extract); isEx && ex.Tuple == first[0].(ssa.Value) {
					g1, _ := eng.GuardedBy(fn, r, notNF)
					g2, _ := eng.GuardedBy(fn, r, notEOF)
					if !g1 || !g2 {
						okPol, polWhy = false, "the entry search's error is returned although it is ErrEntryNotFound or io.EOF ("+c.Pos(r)+")"
					}
				}
			}
		}
		// what is reached only after a tolerated failure
		var afterMissing []ssa.Instruction
		if len(first) == 2 {
			afterMissing = append(afterMissing, first[1].(ssa.Instruction))
		}
		for _, lo := range eng.CallsIn(fn, cl+"segment.LastOffset") {
			afterMissing = append(afterMissing, lo.(ssa.Instruction))
		}
		for _, in := range afterMissing {
			if g, _ := eng.GuardedBy(fn, in, tolerated); !g {
				okPol, polWhy = false, "the fall-back for a missing entry is reached although the entry search did not fail with ErrEntryNotFound / io.EOF ("+c.Pos(in)+")"
			}
		}
		if len(afterMissing) == 0 {
			okPol, polWhy = false, "no fall-back for a missing entry found"
		}
		c.Check(okPol, k+" falls back only for a missing entry", p.Pos(fn.Pos()), "next segment / last offset over err ∈ {ErrEntryNotFound, io.EOF}; wrapped error over err ∉ that set", k+": "+polWhy)
	}

	if fn := c.Fn(cl + "(*commitLog).EarliestOffsetAfterTimestamp"); fn != nil {
		errOK := eng.CmpEdges(fn, errOf, eng.NilConst, eng.EQ)
		nextOfLast := func(v ssa.Value) bool {
			call, ok := eng.Strip(v).(*ssa.Call)
			if !ok || eng.CalleeRef(&call.Call) != cl+"segment.NextOffset" {
				return false
			}
			ia := indexOfLoad(call.Call.Args[0])
			return ia != nil && eng.Bin(token.SUB, eng.Len(eng.AnyV), eng.IntConst(1))(ia.Index)
		}
		segErr := eng.Call(1, cl+"findSegmentIndexByTimestamp")
		emptyLog := eng.CmpEdges(fn, segErr, eng.Global("io.EOF"), eng.EQ)
		okEmpty := false
		for _, r := range eng.Returns(fn) {
			rv := eng.RetVals(r)
			if len(rv) == 2 && eng.NilConst(rv[1]) && nextOfLast(rv[0]) {
				if g, _ := eng.GuardedBy(fn, r, emptyLog); g && len(emptyLog) > 0 {
					okEmpty = true
				}
			}
		}
		if okEmpty {
			// ... and that is the early return, before any entry search
			okEmpty = false
			es := eng.CallsIn(fn, cl+"segment.findEntryByTimestamp")
			for _, r := range eng.Returns(fn) {
				rv := eng.RetVals(r)
				if len(rv) == 2 && eng.NilConst(rv[1]) && nextOfLast(rv[0]) {
					g, _ := eng.GuardedBy(fn, r, emptyLog)
					after, _ := eng.PrecededBy(fn, r, func(x ssa.Instruction) bool { return len(es) > 0 && x == es[0].(ssa.Instruction) })
					if g && !after {
						okEmpty = true
					}
				}
			}
		}
		c.Check(okEmpty, "an empty log answers the next assignable offset", p.Pos(fn.Pos()), "segment search failed with io.EOF → NextOffset() of the last segment", "EarliestOffsetAfterTimestamp does not answer the next assignable offset exactly when the segment search reports an empty log")
		nFound, nEnd, bad := 0, 0, ""
		for _, r := range eng.Returns(fn) {
			rv := eng.RetVals(r)
			if len(rv) != 2 || !eng.NilConst(rv[1]) {
				continue
			}
			switch {
			case eng.LoadNamed("Offset", entryOf)(rv[0]):
				nFound++
				// an entry found in the first segment inspected is answered only when that search succeeded
				if g, _ := eng.GuardedBy(fn, r, errOK); !g {
					bad = "an entry offset is returned although the entry search failed (" + c.Pos(r) + ")"
				}
			case nextOfLast(rv[0]):
				nEnd++
			default:
				bad = "a success return answers neither the found entry's offset nor the next assignable offset (" + c.Pos(r) + ")"
			}
		}
		c.Check(bad == "" && nFound >= 2 && nEnd >= 2, "EarliestOffsetAfterTimestamp answers the found entry's offset or the end of the log", p.Pos(fn.Pos()), "entry.Offset on success; NextOffset() of the last segment for an empty log and for a timestamp beyond the end", "EarliestOffsetAfterTimestamp: "+bad+" — a subscription starting at a timestamp starts at another message than the first one at or after it")
	}

	if fn := c.Fn(cl + "(*commitLog).LatestOffsetBeforeTimestamp"); fn != nil {
		// before the beginning: refused exactly when the timestamp is earlier than the first write of the first segment
		before := eng.CmpEdges(fn, tsArg, eng.Call(-1, cl+"segment.FirstWriteTime"), eng.LT)
		okBefore := len(before) > 0 && eng.ExactCmp(fn, tsArg, eng.Call(-1, cl+"segment.FirstWriteTime"), eng.LT)
		if okBefore {
			// polarity: a non-nil error built in place (errors.New) is returned over the `<` edge, and only the first segment is tested
			okPolB := false
			for _, r := range eng.Returns(fn) {
				rv := eng.RetVals(r)
				if len(rv) == 2 && eng.Call(-1, "github.com/pkg/errors.New", "errors.New")(rv[1]) {
					if g, _ := eng.GuardedBy(fn, r, before); g {
						okPolB = true
					}
				}
			}
			okBefore = okPolB
		}
		c.Check(okBefore, "a timestamp before the log is refused", p.Pos(fn.Pos()), "timestamp < first write time of the first segment", "LatestOffsetBeforeTimestamp does not refuse exactly the timestamps earlier than the first message: with <= a stop timestamp equal to the first message's is refused although that message is in range")
		exact := eng.CmpEdges(fn, eng.LoadNamed("Timestamp", entryOf), tsArg, eng.EQ)
		inexact := eng.CmpEdges(fn, eng.LoadNamed("Timestamp", entryOf), tsArg, eng.NE)
		var okExact, okPrev, okLast bool
		bad := ""
		for _, r := range eng.Returns(fn) {
			rv := eng.RetVals(r)
			if len(rv) != 2 || !eng.NilConst(rv[1]) {
				continue
			}
			switch {
			case eng.LoadNamed("Offset", entryOf)(rv[0]):
				gf, _ := eng.GuardedBy(fn, r, eng.CmpEdges(fn, errOf, eng.NilConst, eng.EQ))
				if g, _ := eng.GuardedBy(fn, r, exact); g && len(exact) > 0 && gf {
					okExact = true
				} else {
					bad = "the found entry's own offset is answered although its timestamp is later than the one asked for (" + c.Pos(r) + ")"
				}
			case eng.Bin(token.SUB, eng.LoadNamed("Offset", entryOf), eng.IntConst(1))(rv[0]):
				gf, _ := eng.GuardedBy(fn, r, eng.CmpEdges(fn, errOf, eng.NilConst, eng.EQ))
				if g, _ := eng.GuardedBy(fn, r, inexact); g && len(inexact) > 0 && gf {
					okPrev = true
				} else {
					bad = "offset-1 is answered although the found entry matches the timestamp exactly (" + c.Pos(r) + ")"
				}
			case eng.Call(-1, cl+"segment.LastOffset")(rv[0]):
				okLast = true
			default:
				bad = "a success return answers neither the entry's offset, the offset before it, nor the segment's last offset (" + c.Pos(r) + ")"
			}
		}
		c.Check(bad == "" && okExact && okPrev && okLast, "LatestOffsetBeforeTimestamp answers the last offset at or before the timestamp", p.Pos(fn.Pos()), "entry.Offset on an exact match, entry.Offset-1 otherwise, the segment's last offset when every entry is earlier", "LatestOffsetBeforeTimestamp: "+bad+" — a subscription stopping at a timestamp stops one message early or late")
	}
}
