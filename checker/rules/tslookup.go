package rules

import (
	"go/constant"
	"go/token"

	"golang.org/x/tools/go/ssa"

	"lbcheck/eng"
)

// ruleTimestampLookupShapes (R10.8): the value shapes of the two timestamp lookups and of the two binary-search predicates
// they rest on. A subscription that starts or stops at a timestamp starts or stops at the offset these answer; each shape
// below is one of the comparisons / ±1 adjustments the answer depends on.
func ruleTimestampLookupShapes(c *eng.Ctx) {
	p := c.P
	tsOf := eng.LoadNamed("Timestamp", nil)
	tsArg := func(v ssa.Value) bool { return eng.Param("timestamp")(v) || freeVarNamed("timestamp")(v) }

	// the segment search: first segment whose first entry is strictly later than the timestamp
	if pred := c.Fn(cl + "findSegmentIndexByTimestamp$1"); pred != nil {
		n, ok := allReturns(pred, func(rv []ssa.Value) bool { return len(rv) == 1 && !eng.IsConst(rv[0]) },
			func(rv []ssa.Value) bool { return eng.RelVal(tsOf, tsArg, eng.GT)(rv[0]) })
		c.Check(n >= 1 && ok, "segment search predicate", p.Pos(pred.Pos()), "first entry's timestamp > timestamp", "findSegmentIndexByTimestamp does not search for the first segment that starts strictly after the timestamp: the lookups inspect the wrong segment (with >= a message stamped exactly at a segment's first timestamp is looked for in the segment before it)")
		// the entry read is the segment's first one
		first := false
		for _, rc := range eng.CallsIn(pred, cl+"index.ReadEntryAtLogOffset") {
			a := eng.AllArgs(rc.Common())
			if eng.IntConst(0)(a[len(a)-1]) {
				first = true
			}
		}
		c.Check(first, "segment search reads each segment's first entry", p.Pos(pred.Pos()), "ReadEntryAtLogOffset(&entry, 0)", "the segment search does not compare the first entry of each segment")
	}
	// both predicates: the constant answer `true` (stop the search) is given only when reading the entry failed
	for _, k := range []string{"findSegmentIndexByTimestamp$1", "(*segment).findEntryByTimestamp$1"} {
		pred := c.FnQuiet(cl + k)
		if pred == nil {
			continue
		}
		failed := eng.CmpEdges(pred, eng.Call(-1, cl+"index.ReadEntryAtLogOffset"), eng.NilConst, eng.NE)
		okPol := len(failed) > 0
		for _, r := range eng.Returns(pred) {
			rv := eng.RetVals(r)
			if len(rv) != 1 {
				continue
			}
			g, _ := eng.GuardedBy(pred, r, failed)
			if constBool(rv[0], true) != g {
				okPol = false
			}
		}
		c.Check(okPol, "search predicate "+k+" aborts only on a read error", p.Pos(pred.Pos()), "`return true` exactly on the error edge of ReadEntryAtLogOffset, the comparison otherwise", "the search predicate "+k+" answers a constant on a successful read, or compares an entry that was not read")
	}
	// the entry search: first entry at or after the timestamp, ErrEntryNotFound exactly when there is none
	if pred := c.Fn(cl + "(*segment).findEntryByTimestamp$1"); pred != nil {
		n, ok := allReturns(pred, func(rv []ssa.Value) bool { return len(rv) == 1 && !eng.IsConst(rv[0]) },
			func(rv []ssa.Value) bool { return eng.RelVal(tsOf, tsArg, eng.GE)(rv[0]) })
		c.Check(n >= 1 && ok, "entry search predicate", p.Pos(pred.Pos()), "entry timestamp >= timestamp", "findEntryByTimestamp does not search for the first entry at or after the timestamp")
	}
	if fn := c.Fn(cl + "(*segment).findEntryByTimestamp"); fn != nil {
		idx := eng.Call(-1, "sort.Search")
		count := func(v ssa.Value) bool {
			if cv, ok := v.(*ssa.Convert); ok {
				v = cv.X
			}
			return eng.Call(-1, cl+"index.CountEntries")(v)
		}
		c.Check(eng.ExactCmp(fn, idx, count, eng.EQ), "not found exactly when the search ran off the end", p.Pos(fn.Pos()), "idx == n", "findEntryByTimestamp's not-found test is not `idx == n` (n = number of entries)")
		errCell := func(v ssa.Value) bool {
			u, ok := v.(*ssa.UnOp)
			if !ok || u.Op != token.MUL {
				return false
			}
			_, isAlloc := u.X.(*ssa.Alloc)
			return isAlloc && u.Type().String() == "error"
		}
		noErr := eng.CmpEdges(fn, errCell, eng.NilConst, eng.EQ)
		okAfter := len(noErr) > 0
		eng.Instrs(fn, func(in ssa.Instruction) {
			if bo, isBo := in.(*ssa.BinOp); isBo && ((idx(bo.X) && count(bo.Y)) || (idx(bo.Y) && count(bo.X))) {
				if g, _ := eng.GuardedBy(fn, in, noErr); !g {
					okAfter = false
				}
			}
		})
		c.Check(okAfter, "the search result is used only when no read failed during the search", p.Pos(fn.Pos()), "idx is looked at behind err == nil", "findEntryByTimestamp uses the index answered by a search whose predicate hit a read error")
		ranOff := eng.CmpEdges(fn, idx, count, eng.EQ)
		inRange := eng.CmpEdges(fn, idx, count, eng.NE)
		nNF, okNF := allReturns(fn, func(rv []ssa.Value) bool { return len(rv) == 2 && eng.Global(cl+"ErrEntryNotFound")(rv[1]) })
		_ = okNF
		okNFPol := nNF >= 1
		for _, r := range eng.Returns(fn) {
			rv := eng.RetVals(r)
			if len(rv) == 2 && eng.Global(cl+"ErrEntryNotFound")(rv[1]) {
				if g, _ := eng.GuardedBy(fn, r, ranOff); !g {
					okNFPol = false
				}
			}
		}
		for _, rc := range eng.CallsIn(fn, cl+"index.ReadEntryAtLogOffset") {
			if g, _ := eng.GuardedBy(fn, rc.(ssa.Instruction), inRange); !g {
				okNFPol = false
			}
		}
		c.Check(okNFPol, "ErrEntryNotFound on the off-the-end edge, read-back on the other", p.Pos(fn.Pos()), "idx == n → ErrEntryNotFound; idx != n → ReadEntryAtLogOffset(entry, idx)", "findEntryByTimestamp answers ErrEntryNotFound for an index inside the segment, or reads back the entry at index n")
		okRead := false
		for _, rc := range eng.CallsIn(fn, cl+"index.ReadEntryAtLogOffset") {
			a := eng.AllArgs(rc.Common())
			if cv, isCv := a[len(a)-1].(*ssa.Convert); isCv && idx(cv.X) {
				okRead = true
			}
		}
		c.Check(okRead, "the entry returned is the one the search found", p.Pos(fn.Pos()), "ReadEntryAtLogOffset(entry, idx)", "findEntryByTimestamp does not read back the entry at the index the search answered")
	}

	segIdxCall := eng.Call(0, cl+"findSegmentIndexByTimestamp")
	segIdx := steppedSegIdx()
	entryOf := eng.Call(0, cl+"segment.findEntryByTimestamp")
	errOf := eng.Call(1, cl+"segment.findEntryByTimestamp")
	for _, k := range []string{"EarliestOffsetAfterTimestamp", "LatestOffsetBeforeTimestamp"} {
		fn := c.Fn(cl + "(*commitLog)." + k)
		if fn == nil {
			continue
		}
		// the segment inspected first: the one before idx, or the first one when idx == 0
		okSeg := false
		isZero := eng.CmpEdges(fn, segIdx, eng.IntConst(0), eng.EQ)
		notZero := eng.CmpEdges(fn, segIdx, eng.IntConst(0), eng.NE)
		eng.Instrs(fn, func(in ssa.Instruction) {
			ph, ok := in.(*ssa.Phi)
			if !ok || okSeg || len(ph.Edges) != 2 {
				return
			}
			var zeroOK, prevOK bool
			for i, e := range ph.Edges {
				ia := indexOfLoad(e)
				if ia == nil {
					return
				}
				pred := ph.Block().Preds[i]
				last := pred.Instrs[len(pred.Instrs)-1]
				if eng.IntConst(0)(ia.Index) {
					if g, _ := eng.GuardedBy(fn, last, isZero); g && len(isZero) > 0 {
						zeroOK = true
					}
				}
				if eng.Bin(token.SUB, segIdx, eng.IntConst(1))(ia.Index) {
					if g, _ := eng.GuardedBy(fn, last, notZero); g && len(notZero) > 0 {
						prevOK = true
					}
				}
			}
			okSeg = zeroOK && prevOK
		})
		c.Check(okSeg, k+" inspects the segment before the one the search answered", p.Pos(fn.Pos()), "segments[0] when idx == 0, else segments[idx-1]", k+" does not pick segments[idx-1] (segments[0] when idx == 0): the entry search runs in a segment that cannot hold the answer")

		// the entry search runs only when the segment search succeeded
		segOK := eng.CmpEdges(fn, eng.Call(1, cl+"findSegmentIndexByTimestamp"), eng.NilConst, eng.EQ)
		okRun := len(segOK) > 0
		for _, es := range eng.CallsIn(fn, cl+"segment.findEntryByTimestamp") {
			if g, _ := eng.GuardedBy(fn, es.(ssa.Instruction), segOK); !g {
				okRun = false
			}
		}
		c.Check(okRun, k+" searches entries only after a successful segment search", p.Pos(fn.Pos()), "findEntryByTimestamp behind err == nil of findSegmentIndexByTimestamp", k+" goes on to search entries although the segment search failed: the index it uses is meaningless")
		// tolerated search failures: "no such entry" and EOF only — every other error is returned
		// (one matcher for both sentinels: `err == ErrEntryNotFound || err == io.EOF` computed into a flag is the same test)
		tolerated := eng.CmpEdges(fn, errOf, eng.Or(eng.Global(cl+"ErrEntryNotFound"), eng.Global("io.EOF")), eng.EQ)
		found := eng.CmpEdges(fn, errOf, eng.NilConst, eng.EQ)
		okTol := len(tolerated) >= 1 && len(found) >= 1 && eng.CmpExists(fn, errOf, eng.Global(cl+"ErrEntryNotFound")) && eng.CmpExists(fn, errOf, eng.Global("io.EOF"))
		c.Check(okTol, k+" tells a missing entry from a failed read", p.Pos(fn.Pos()), "err == nil / ErrEntryNotFound / io.EOF are told apart", k+" no longer distinguishes `no entry at or after the timestamp` from a read error")
		// polarity: what follows a missing entry (the next segment / the segment's last offset) is reached only over a
		// tolerated error; a wrapped error is returned only over the edges where the error is neither of the two
		notNF := eng.CmpEdges(fn, errOf, eng.Global(cl+"ErrEntryNotFound"), eng.NE)
		notEOF := eng.CmpEdges(fn, errOf, eng.Global("io.EOF"), eng.NE)
		okPol := len(notNF) > 0 && len(notEOF) > 0
		polWhy := ""
		first := eng.CallsIn(fn, cl+"segment.findEntryByTimestamp")
		for _, r := range eng.Returns(fn) {
			rv := eng.RetVals(r)
			if len(rv) != 2 {
				continue
			}
			after, _ := eng.PrecededBy(fn, r, func(x ssa.Instruction) bool { return len(first) > 0 && x == first[0].(ssa.Instruction) })
			if !after {
				continue
			}
			if wc, isCall := eng.Strip(rv[1]).(*ssa.Call); isCall && len(wc.Call.Args) > 0 && errOf(wc.Call.Args[0]) && len(first) > 0 && eng.Call(1, cl+"segment.findEntryByTimestamp")(wc.Call.Args[0]) {
				// wrapped error of the FIRST entry search
				if ex, isEx := eng.Strip(wc.Call.Args[0]).(*ssa.Extract); isEx && ex.Tuple == first[0].(ssa.Value) {
					g1, _ := eng.GuardedBy(fn, r, notNF)
					g2, _ := eng.GuardedBy(fn, r, notEOF)
					if !g1 || !g2 {
						okPol, polWhy = false, "the entry search's error is returned although it is ErrEntryNotFound or io.EOF ("+c.Pos(r)+")"
					}
				}
			}
		}
		// what is reached only after a tolerated failure
		var afterMissing []ssa.Instruction
		if len(first) == 2 {
			afterMissing = append(afterMissing, first[1].(ssa.Instruction))
		}
		for _, lo := range eng.CallsIn(fn, cl+"segment.LastOffset") {
			afterMissing = append(afterMissing, lo.(ssa.Instruction))
		}
		// … or when no entry CAN follow: the largest timestamp there is
		noneCanFollow := eng.CmpEdges(fn, tsArg, func(v ssa.Value) bool {
			k, isK := eng.Strip(v).(*ssa.Const)
			return isK && k.Value != nil && k.Value.Kind() == constant.Int && k.Int64() == 1<<63-1
		}, eng.EQ)
		for _, in := range afterMissing {
			if g, _ := eng.GuardedBy(fn, in, append(append([]eng.Edge{}, tolerated...), noneCanFollow...)); !g {
				okPol, polWhy = false, "the fall-back for a missing entry is reached although the entry search did not fail with ErrEntryNotFound / io.EOF ("+c.Pos(in)+")"
			}
		}
		if len(afterMissing) == 0 {
			okPol, polWhy = false, "no fall-back for a missing entry found"
		}
		c.Check(okPol, k+" falls back only for a missing entry", p.Pos(fn.Pos()), "next segment / last offset over err ∈ {ErrEntryNotFound, io.EOF}; wrapped error over err ∉ that set", k+": "+polWhy)
	}

	if fn := c.Fn(cl + "(*commitLog).EarliestOffsetAfterTimestamp"); fn != nil {
		errOK := eng.CmpEdges(fn, errOf, eng.NilConst, eng.EQ)
		nextOfLast := func(v ssa.Value) bool {
			call, ok := eng.Strip(v).(*ssa.Call)
			if !ok || eng.CalleeRef(&call.Call) != cl+"segment.NextOffset" {
				return false
			}
			ia := indexOfLoad(call.Call.Args[0])
			return ia != nil && eng.Bin(token.SUB, eng.Len(eng.AnyV), eng.IntConst(1))(ia.Index)
		}
		segErr := eng.Call(1, cl+"findSegmentIndexByTimestamp")
		emptyLog := eng.CmpEdges(fn, segErr, eng.Global("io.EOF"), eng.EQ)
		okEmpty := false
		for _, r := range eng.Returns(fn) {
			rv := eng.RetVals(r)
			if len(rv) == 2 && eng.NilConst(rv[1]) && nextOfLast(rv[0]) {
				if g, _ := eng.GuardedBy(fn, r, emptyLog); g && len(emptyLog) > 0 {
					okEmpty = true
				}
			}
		}
		if okEmpty {
			// ... and that is the early return, before any entry search
			okEmpty = false
			es := eng.CallsIn(fn, cl+"segment.findEntryByTimestamp")
			for _, r := range eng.Returns(fn) {
				rv := eng.RetVals(r)
				if len(rv) == 2 && eng.NilConst(rv[1]) && nextOfLast(rv[0]) {
					g, _ := eng.GuardedBy(fn, r, emptyLog)
					after, _ := eng.PrecededBy(fn, r, func(x ssa.Instruction) bool { return len(es) > 0 && x == es[0].(ssa.Instruction) })
					if g && !after {
						okEmpty = true
					}
				}
			}
		}
		c.Check(okEmpty, "an empty log answers the next assignable offset", p.Pos(fn.Pos()), "segment search failed with io.EOF → NextOffset() of the last segment", "EarliestOffsetAfterTimestamp does not answer the next assignable offset exactly when the segment search reports an empty log")
		// messages can share a timestamp: while the segment that would be searched BEGINS at or after the timestamp, the
		// earliest message carrying it may sit at the end of the segment before — the lookup steps back
		beginsAt := eng.CmpEdges(fn, eng.Call(-1, cl+"segment.FirstWriteTime"), tsArg, eng.GT|eng.EQ)
		okBack := false
		eng.Instrs(fn, func(in ssa.Instruction) {
			b, isB := in.(*ssa.BinOp)
			if !isB || b.Op != token.SUB || !eng.IntConst(1)(b.Y) {
				return
			}
			ph, isPhi := b.X.(*ssa.Phi)
			if !isPhi || !segIdx(ph) || segIdxCall(ph) {
				return
			}
			feeds := false
			for _, e := range ph.Edges {
				if e == ssa.Value(b) {
					feeds = true
				}
			}
			if !feeds {
				return
			}
			g1, _ := eng.GuardedBy(fn, in, beginsAt)
			g2, _ := eng.GuardedBy(fn, in, eng.CmpEdges(fn, func(v ssa.Value) bool { return v == ssa.Value(ph) }, eng.IntConst(1), eng.GT))
			if g1 && g2 && len(beginsAt) > 0 {
				okBack = true
			}
		})
		c.Check(okBack, "EarliestOffsetAfterTimestamp steps back over segments that begin at the timestamp", p.Pos(fn.Pos()), "for idx > 1 && segments[idx-1].FirstWriteTime() >= timestamp { idx-- }", "EarliestOffsetAfterTimestamp searches the last segment that begins at or before the timestamp even when it begins exactly at it: with segments [10 20 30][30 40 50] a start timestamp of 30 answers offset 3, and the message stamped 30 at offset 2 is not delivered")
		nFound, nEnd, bad := 0, 0, ""
		for _, r := range eng.Returns(fn) {
			rv := eng.RetVals(r)
			if len(rv) != 2 || !eng.NilConst(rv[1]) {
				continue
			}
			switch {
			case eng.LoadNamed("Offset", entryOf)(rv[0]):
				nFound++
				// an entry found in the first segment inspected is answered only when that search succeeded
				if g, _ := eng.GuardedBy(fn, r, errOK); !g {
					bad = "an entry offset is returned although the entry search failed (" + c.Pos(r) + ")"
				}
			case nextOfLast(rv[0]):
				nEnd++
			default:
				bad = "a success return answers neither the found entry's offset nor the next assignable offset (" + c.Pos(r) + ")"
			}
		}
		c.Check(bad == "" && nFound >= 2 && nEnd >= 2, "EarliestOffsetAfterTimestamp answers the found entry's offset or the end of the log", p.Pos(fn.Pos()), "entry.Offset on success; NextOffset() of the last segment for an empty log and for a timestamp beyond the end", "EarliestOffsetAfterTimestamp: "+bad+" — a subscription starting at a timestamp starts at another message than the first one at or after it")
	}

	if fn := c.Fn(cl + "(*commitLog).LatestOffsetBeforeTimestamp"); fn != nil {
		// before the beginning: refused exactly when the timestamp is earlier than the first write of the first segment
		before := eng.CmpEdges(fn, tsArg, eng.Call(-1, cl+"segment.FirstWriteTime"), eng.LT)
		okBefore := len(before) > 0 && eng.ExactCmp(fn, tsArg, eng.Call(-1, cl+"segment.FirstWriteTime"), eng.LT)
		if okBefore {
			// polarity: a non-nil error built in place (errors.New) is returned over the `<` edge, and only the first segment is tested
			okPolB := false
			for _, r := range eng.Returns(fn) {
				rv := eng.RetVals(r)
				if len(rv) == 2 && eng.Call(-1, "github.com/pkg/errors.New", "errors.New")(rv[1]) {
					if g, _ := eng.GuardedBy(fn, r, before); g {
						okPolB = true
					}
				}
			}
			okBefore = okPolB
		}
		c.Check(okBefore, "a timestamp before the log is refused", p.Pos(fn.Pos()), "timestamp < first write time of the first segment", "LatestOffsetBeforeTimestamp does not refuse exactly the timestamps earlier than the first message: with <= a stop timestamp equal to the first message's is refused although that message is in range")
		// messages can share a timestamp: the answer is the offset before the first entry STRICTLY after the timestamp
		// (search key timestamp+1, guarded against overflow), never the first entry that matches it
		es := eng.CallsIn(fn, cl+"segment.findEntryByTimestamp")
		okKey := len(es) == 1 && eng.Bin(token.ADD, tsArg, eng.IntConst(1))(es[0].Common().Args[1])
		c.Check(okKey, "LatestOffsetBeforeTimestamp looks for the first entry strictly after the timestamp", p.Pos(fn.Pos()), "findEntryByTimestamp(timestamp + 1)", "LatestOffsetBeforeTimestamp searches for the first entry AT or after the timestamp and takes a match for the answer: with timestamps 10, 20, 20, 30 a stop timestamp of 20 answers offset 1, and the second message stamped 20 is not delivered")
		if okKey {
			isMax := func(v ssa.Value) bool {
				k, isK := eng.Strip(v).(*ssa.Const)
				return isK && k.Value != nil && k.Value.Kind() == constant.Int && k.Int64() == 1<<63-1
			}
			notMax := eng.CmpEdges(fn, tsArg, isMax, eng.NE)
			g, _ := eng.GuardedBy(fn, es[0].(ssa.Instruction), notMax)
			c.Check(g && len(notMax) > 0, "timestamp + 1 cannot overflow", c.Pos(es[0].(ssa.Instruction)), "the search runs behind timestamp != MaxInt64", "for timestamp == MaxInt64 the search key timestamp+1 wraps to the smallest value: the first entry of the segment is found and the offset before it answered")
		}
		var okPrev, okLast bool
		bad := ""
		for _, r := range eng.Returns(fn) {
			rv := eng.RetVals(r)
			if len(rv) != 2 || !eng.NilConst(rv[1]) {
				continue
			}
			switch {
			case eng.LoadNamed("Offset", entryOf)(rv[0]):
				bad = "the found entry's own offset is answered (" + c.Pos(r) + "): it is the first entry past the timestamp, or the first of several that share it"
			case eng.Bin(token.SUB, eng.LoadNamed("Offset", entryOf), eng.IntConst(1))(rv[0]):
				if gf, _ := eng.GuardedBy(fn, r, eng.CmpEdges(fn, errOf, eng.NilConst, eng.EQ)); gf {
					okPrev = true
				} else {
					bad = "offset-1 of an entry is answered although the entry search failed (" + c.Pos(r) + ")"
				}
			case eng.Call(-1, cl+"segment.LastOffset")(rv[0]):
				okLast = true
			default:
				bad = "a success return answers neither the offset before the found entry nor the segment's last offset (" + c.Pos(r) + ")"
			}
		}
		c.Check(bad == "" && okPrev && okLast, "LatestOffsetBeforeTimestamp answers the last offset at or before the timestamp", p.Pos(fn.Pos()), "the offset before the first entry past the timestamp, the segment's last offset when there is none", "LatestOffsetBeforeTimestamp: "+bad+" — a subscription stopping at a timestamp stops one message early or late")
	}
}

// steppedSegIdx matches the segment index the timestamp lookups work with: what findSegmentIndexByTimestamp answered, possibly
// stepped back (idx--) in a loop.
func steppedSegIdx() eng.VM {
	segIdxCall := eng.Call(0, cl+"findSegmentIndexByTimestamp")
	return func(v ssa.Value) bool {
		if segIdxCall(v) {
			return true
		}
		ph, ok := v.(*ssa.Phi)
		if !ok {
			return false
		}
		has := false
		for _, e := range ph.Edges {
			if segIdxCall(e) {
				has = true
				continue
			}
			if b, isB := e.(*ssa.BinOp); isB && b.Op == token.SUB && b.X == ssa.Value(ph) && eng.IntConst(1)(b.Y) {
				continue
			}
			return false
		}
		return has
	}
}
