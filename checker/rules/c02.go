package rules

import (
	"go/token"
	"go/types"
	"strings"

	"golang.org/x/tools/go/ssa"

	"lbcheck/eng"
	"lbcheck/ir"
)

func init() {
	register(&Property{ID: "C02", Level: "other", Run: runC02,
		Technique:   "static analysis: guard dominance, path ordering and who-may-call over go/ssa for the guards the replication protocol argument rests on; lock-copy detection for the leader-loop join",
		LevelText:   "The behavioural statement (all fault sequences × schedules) is a protocol property over replica histories and is not decided. Decided for all paths are the guards the protocol argument rests on: the old leader's loops are really joined before hand-over (the wait group is shared by pointer, close precedes Wait, stop precedes start); a new leader records its epoch before it serves; a follower truncates before it fetches and appends only same-epoch data that continues its log; the leader answers epoch queries from epoch+1 and truncation points are last+1 / hw+1; epoch and replica-progress stores are monotone; ISR shrink/expand decisions have the documented shape.",
		LevelNote:   "Trusted: go/ssa; NATS request/reply delivery; the documented HW-fallback truncation (issue #38 in the code's own comment) is outside the claim.",
		DesignRef:   "DESIGN.md §4 C02",
		Explanation: "Round 12: R05.5 (shared) every entry of the leader-epoch checkpoint enters the history; R05.8 also: the scan for missing epochs goes over the segment list; R02.4 reads the epoch test of a replication request through joined conditions. Round 10: R02.2 also: a follower asks the leader every time it starts following; R02.5 also: every entry of a replicated batch carries its own set's epoch. Round 9: the epochs read from the checkpoint file become the cache. Round 8: R02.2 also: the fallback truncation is skipped only for a log that ends at the watermark; R02.5 also: append records an epoch boundary as one entry's own (epoch, offset) and recognises a new epoch against the epoch cache's own newest epoch; nothing but epoch > latest ∧ offset >= latest controls the append to the epoch list. R02.2 also: the follower truncates to the leader's answer only when the request that produced it succeeded; R02.7 also: a replica re-enters the in-sync set only when its reported offset has reached the high watermark (F103); R04.5 (shared) progress counts only up to the leader's own log end (F99). R02.4 also: the epoch query tells 'found at -1' from 'not found' (F81); R02.8 also: Clean never moves the earliest epoch beyond the newest offset (F82); R02.7 also: the replica health check is armed with the lag period; R04.5 / R04.7 (shared) a new partition knows only its own progress and a term of leadership starts with an empty commit queue. R02.1 join before hand-over, R02.2 epoch recorded / truncate before start, R02.3 follower append guards, R02.4 leader-side guards and truncation points, R02.5 monotone epoch cache / replica offsets, R02.6 (shared R04.2, R07.4), R02.7 ISR shrink/expand shape, R02.8 leader epoch cache shapes (end of an epoch, trims at both ends, rebase, replace), shared R05.5 (epoch cache trimmed at the recovered log end), R04.5 (a re-added replica counts as holding nothing), R07.9 (persisted ISR rebuilt after the in-memory change). R15.8 (shared) clustering.replica.max.lag.time reaches its Config field. R08.8 a cleaning pass excludes every other rewrite of the segment list — log reconciliation's Truncate (known finding K14). NOT decided: replica agreement below the HW under fault sequences, HW-fallback truncation, ISR re-entry timing.",
	})
}

func isSyncType(t types.Type) bool {
	n, ok := t.(*types.Named)
	if !ok || n.Obj().Pkg() == nil || n.Obj().Pkg().Path() != "sync" {
		return false
	}
	switch n.Obj().Name() {
	case "WaitGroup", "Mutex", "RWMutex", "Once", "Cond":
		return true
	}
	return false
}

// ruleJoinBeforeHandover is R02.1 (shared with C01/C16).
func ruleJoinBeforeHandover(c *eng.Ctx) {
	p := c.P
	// (a) no sync object is passed by value to a module function
	n := 0
	for _, fn := range p.Funcs {
		if fn.Parent() != nil {
			continue
		}
		for _, prm := range fn.Params {
			if isSyncType(prm.Type()) {
				n++
				c.Violate("parameter "+prm.Name()+" of "+ir.FuncKey(fn), p.Pos(prm.Pos()), "a "+prm.Type().String()+" is received by value: Add/Done/Lock act on a private copy, so the caller's Wait()/Lock() on the original never synchronises with this function")
			}
		}
	}
	// (b) the object waited on in stopLeading is the one the leader loops are registered with
	shut := p.Field("server", "partition", "shutdown")
	if fn := c.Fn("server.(*partition).stopLeading"); fn != nil {
		waits := eng.CallsIn(fn, "sync.WaitGroup.Wait")
		if len(waits) != 1 {
			c.Unresolved("p.shutdown.Wait() in stopLeading")
		} else {
			fa, ok := waits[0].Common().Args[0].(*ssa.FieldAddr)
			c.Check(ok && fieldIs(fa, shut), "stopLeading waits on p.shutdown", c.Pos(waits[0].(ssa.Instruction)), "Wait() on the partition's shutdown group", "stopLeading does not wait on p.shutdown")
			// close(stopLeader) precedes Wait
			g, w := eng.PrecededBy(fn, waits[0].(ssa.Instruction), func(x ssa.Instruction) bool {
				call, ok := x.(*ssa.Call)
				if !ok {
					return false
				}
				b, ok := call.Call.Value.(*ssa.Builtin)
				return ok && b.Name() == "close" && eng.LoadNamed("stopLeader", nil)(call.Call.Args[0])
			})
			c.Check(g, "stop signal precedes the wait", c.Pos(waits[0].(ssa.Instruction)), "close(p.stopLeader) before p.shutdown.Wait()", "stopLeading waits before telling the loops to stop: dead-lock or no join (path "+w.String()+")")
		}
	}
	// (c) every leader loop is started with a pointer to p.shutdown
	loops := map[string]bool{"server.partition.messageProcessingLoop": false, "server.partition.commitLoop": false, "server.replicator.start": false}
	for _, s := range eng.Index(p).Sites("server.Server.startGoroutineWG", "server.Server.startGoroutineWithArgsWG") {
		call := s.Instr.(*ssa.Call)
		wg := call.Call.Args[2]
		byPtr := false
		if fa, ok := wg.(*ssa.FieldAddr); ok && fieldIs(fa, shut) {
			byPtr = true
		}
		c.Check(byPtr, "leader loop registered with p.shutdown in "+ir.FuncKey(s.Fn), c.Pos(call), "the starter receives &p.shutdown", "the goroutine starter is handed a copy of p.shutdown ("+eng.Describe(wg)+"): the loop started here is not joined by stopLeading, so an old leader can still append while the partition already follows or leads again")
		if f := funcValue(call.Call.Args[1]); f != nil {
			eng.InstrsDeep(f, func(_ *ssa.Function, in ssa.Instruction) {
				if ci, ok := in.(ssa.CallInstruction); ok {
					if _, ok := loops[eng.CalleeRef(ci.Common())]; ok {
						loops[eng.CalleeRef(ci.Common())] = true
					}
				}
			})
		}
	}
	for l, seen := range loops {
		c.Check(seen, "loop "+l+" is started through a joined starter", "-", "started via startGoroutine*WG", "leader loop "+l+" is not started through startGoroutineWG/startGoroutineWithArgsWG: stopLeading cannot join it")
	}
	// (d) stop precedes start
	for _, k := range []string{"server.(*partition).becomeLeader", "server.(*partition).becomeFollower"} {
		fn := c.Fn(k)
		if fn == nil {
			continue
		}
		stop := eng.CallsIn(fn, "server.partition.stopLeadingOrFollowing")
		if len(stop) != 1 {
			c.Violate(fn.Name()+" stops the previous role first", p.Pos(fn.Pos()), fn.Name()+" does not call stopLeadingOrFollowing exactly once")
			continue
		}
		bad := ""
		eng.Instrs(fn, func(in ssa.Instruction) {
			ci, ok := in.(ssa.CallInstruction)
			if !ok {
				return
			}
			ref := eng.CalleeRef(ci.Common())
			if strings.HasPrefix(ref, "server.Server.startGoroutine") || ref == "server.partition.startReplicating" || ref == "server.partition.truncateUncommitted" || strings.HasSuffix(ref, "nats.go.Conn.Subscribe") || strings.HasSuffix(ref, "nats.go.Conn.QueueSubscribe") {
				if g, _ := eng.PrecededBy(fn, in, func(x ssa.Instruction) bool { return x == stop[0].(ssa.Instruction) }); !g {
					bad = ref + " at " + c.Pos(in)
				}
			}
		})
		c.Check(bad == "", fn.Name()+" stops the previous role first", c.Pos(stop[0].(ssa.Instruction)), "stopLeadingOrFollowing precedes every start/subscribe/truncate", "the new role starts ("+bad+") before the previous one was stopped")
	}
	_ = n
}

func runC02(c *eng.Ctx) {
	c.Rule("R05.8", "K2")
	ruleRecoveredEpochStartsAtItsFirstMessage(c)
	c.Rule("R05.5", "K2")
	ruleEpochHistoryIsReadInFileOrder(c)
	c.Rule("R02.4", "K4")
	ruleReplicatorOwnsItsHeaderBuffer(c)
	ruleReplicationRequestCheckedAndServedInOneSection(c)
	c.Rule("R04.7", "K2")
	ruleFreshCommitQueuePerTerm(c)

	p := c.P
	c.Rule("R02.1", "K3")
	ruleJoinBeforeHandover(c)
	c.Floor(8)

	// ---- R02.2
	c.Rule("R02.2", "K2")
	if fn := c.Fn("server.(*partition).becomeLeader"); fn != nil {
		ne := eng.CallsIn(fn, cl+"CommitLog.NewLeaderEpoch")
		recovered := eng.BoolEdges(fn, eng.LoadNamed("recovered", nil), true)
		if len(ne) != 1 {
			c.Violate("new leader records its epoch", p.Pos(fn.Pos()), "becomeLeader does not call log.NewLeaderEpoch exactly once")
		} else {
			c.Check(eng.Param("epoch")(eng.AllArgs(ne[0].Common())[1]), "epoch recorded is the new leader epoch", c.Pos(ne[0].(ssa.Instruction)), "NewLeaderEpoch(epoch)", "the epoch recorded in the log is not becomeLeader's epoch")
			starts := []string{"server.Server.startGoroutineWithArgsWG", "server.partition.startReplicating", natsPkg + ".Conn.QueueSubscribe", natsPkg + ".Conn.Subscribe"}
			for _, s := range eng.CallsIn(fn, starts...) {
				q := &eng.PathQuery{Fn: fn, FromEntry: true, Target: func(x ssa.Instruction) bool { return x == s.(ssa.Instruction) }, CutEdges: recovered, CutInstr: func(x ssa.Instruction) bool { return x == ne[0].(ssa.Instruction) }}
				w := q.Find()
				c.Check(w == nil && len(recovered) > 0, "epoch recorded before "+shortRef(eng.CalleeRef(s.Common())), c.Pos(s.(ssa.Instruction)), "every path to it passes NewLeaderEpoch unless the partition continues a recovered epoch", "a new leader can start serving before its epoch boundary is recorded (path "+w.String()+"): followers cannot find where the previous epoch ended")
			}
		}
	}
	if fn := c.Fn(cl + "(*commitLog).NewLeaderEpoch"); fn != nil {
		as := eng.CallsIn(fn, cl+"leaderEpochCache.Assign")
		ok := len(as) == 1 && eng.Param("epoch")(as[0].Common().Args[1]) && eng.Call(-1, cl+"commitLog.NewestOffset")(as[0].Common().Args[2])
		c.Check(ok, "epoch boundary at the current end of the log", p.Pos(fn.Pos()), "Assign(epoch, NewestOffset())", "NewLeaderEpoch does not assign the epoch at the current end of the log")
	}
	if fn := c.Fn("server.(*partition).becomeFollower"); fn != nil {
		tr := eng.CallsIn(fn, "server.partition.truncateUncommitted")
		st := eng.CallsIn(fn, "server.Server.startGoroutine")
		if len(tr) != 1 || len(st) != 1 {
			c.Unresolved("truncateUncommitted / startGoroutine in becomeFollower")
		} else {
			tv := tr[0].(ssa.Value)
			okEdge := eng.CmpEdges(fn, eng.Same(tv), eng.NilConst, eng.EQ)
			g, w := eng.GuardedBy(fn, st[0].(ssa.Instruction), okEdge)
			c.Check(g && len(okEdge) > 0, "follower truncates before it fetches", c.Pos(st[0].(ssa.Instruction)), "the replication loop starts only after truncateUncommitted succeeded", "a follower can start fetching before (or although) reconciling its log failed (path "+w.String()+")")
		}
	}
	c.Floor(7)

	// ---- R02.3 follower append guards
	c.Rule("R02.3", "K1")
	ruleFollowerAppendGuards(c)
	c.Floor(8)
	c.Rule("R02.2", "K2")
	ruleFallbackTruncationAlwaysTruncates(c)
	c.Rule("R02.5", "K1")
	ruleAppendAssignsEpochsFromTheCache(c)
	ruleAssignAcceptsOnNothingElse(c)
	ruleLoadedEpochsBecomeTheCache(c)
	ruleEveryEntryCarriesItsOwnEpoch(c)
	c.Rule("R02.2", "K2")
	ruleFollowerAlwaysAsksTheLeader(c)

	// ---- R02.4 leader side
	c.Rule("R05.5", "K2")
	ruleEpochTrimAtRecovery(c)
	c.Floor(2)
	c.Rule("R04.5", "K3")
	ruleNewPartitionKnowsOnlyItsOwnProgress(c)
	ruleProgressIsWithinTheLeadersLog(c)
	ruleReplicaProgressSources(c)
	ruleAddedReplicaUnconfirmed(c)
	c.Floor(1)
	c.Rule("R07.9", "K2")
	ruleISRPersisted(c)
	c.Floor(2)
	c.Rule("R02.8", "K5")
	ruleClearEarliestStaysInsideTheLog(c)
	ruleEpochCacheShapes(c)
	c.Floor(9)

	c.Rule("R02.4", "K1")
	ruleEpochQueryTellsNotFoundFromMinusOne(c)
	ruleLeaderServesOwnEpoch(c)
	if fn := c.Fn("server.(*partition).handleLeaderOffsetRequest"); fn != nil {
		lo := eng.CallsIn(fn, cl+"CommitLog.LastOffsetForLeaderEpoch")
		ok := len(lo) == 1 && eng.LoadNamed("LeaderEpoch", eng.Call(0, "server/protocol.UnmarshalLeaderEpochOffsetRequest"))(eng.AllArgs(lo[0].Common())[1])
		c.Check(ok, "epoch query answered for the requested epoch", p.Pos(fn.Pos()), "LastOffsetForLeaderEpoch(req.LeaderEpoch)", "the leader does not answer with the last offset of the epoch the follower asked about")
	}
	if fn := epochQueryFn(c); fn != nil {
		fe := eng.CallsIn(fn, cl+"leaderEpochCache.findEpoch")
		ok := len(fe) == 1 && eng.Bin(token.ADD, eng.Param("epoch"), eng.IntConst(1))(fe[0].Common().Args[1])
		c.Check(ok, "last offset of an epoch = start of the next one", p.Pos(fn.Pos()), "findEpoch(epoch + 1)", "LastOffsetForLeaderEpoch does not look up epoch + 1")
	}
	if fn := c.Fn(cl + "(*leaderEpochCache).findEpoch$1"); fn != nil {
		ok := false
		for _, r := range eng.Returns(fn) {
			ok = eng.RelVal(eng.LoadNamed("leaderEpoch", nil), eng.Param("epoch"), eng.GE)(eng.RetVals(r)[0])
		}
		c.Check(ok, "findEpoch finds the first epoch >= the requested one", p.Pos(fn.Pos()), "epochOffsets[i].leaderEpoch >= epoch", "findEpoch's search predicate is not leaderEpoch >= epoch")
	}
	if fn := c.Fn("server.(*partition).truncateUncommitted"); fn != nil {
		tr := eng.CallsIn(fn, cl+"CommitLog.Truncate")
		ok := len(tr) == 1 && eng.Bin(token.ADD, eng.AnyV, eng.IntConst(1))(eng.AllArgs(tr[0].Common())[1])
		if ok {
			bo := eng.Strip(eng.AllArgs(tr[0].Common())[1]).(*ssa.BinOp)
			ok = len(eng.NewSlicerLeavesCall(p, bo.X, "server.partition.sendLeaderOffsetRequest")) > 0
		}
		c.Check(ok, "follower truncates after the leader's last offset for its epoch", p.Pos(fn.Pos()), "Truncate(lastOffset + 1) with lastOffset from the leader's answer", "truncateUncommitted does not truncate at (leader's last offset for the follower's epoch) + 1")
		le := eng.CallsIn(fn, "server.partition.sendLeaderOffsetRequest")
		ok2 := len(le) == 1 && eng.Call(-1, cl+"CommitLog.LastLeaderEpoch")(le[0].Common().Args[1])
		c.Check(ok2, "follower asks about its own last epoch", p.Pos(fn.Pos()), "sendLeaderOffsetRequest(log.LastLeaderEpoch())", "the follower does not ask the leader about its own last leader epoch")
	}
	if fn := c.Fn("server.(*partition).truncateToHW"); fn != nil {
		tr := eng.CallsIn(fn, cl+"CommitLog.Truncate")
		ok := len(tr) == 1 && eng.Bin(token.ADD, eng.Call(-1, cl+"CommitLog.HighWatermark"), eng.IntConst(1))(eng.AllArgs(tr[0].Common())[1])
		c.Check(ok, "fallback truncation keeps the HW", p.Pos(fn.Pos()), "Truncate(hw + 1)", "truncateToHW does not truncate at hw + 1")
	}
	c.Floor(8)

	// ---- R02.5 monotone stores
	c.Rule("R02.5", "K1m")
	if fn := c.Fn(cl + "(*leaderEpochCache).assign"); fn != nil {
		newer := eng.CmpEdges(fn, eng.Param("epoch"), eng.Call(-1, cl+"leaderEpochCache.latestEpoch"), eng.GT)
		later := eng.CmpEdges(fn, eng.Param("offset"), eng.Call(-1, cl+"leaderEpochCache.latestOffset"), eng.GE)
		eo := p.Field(clPkg, "leaderEpochCache", "epochOffsets")
		n := 0
		for _, st := range eng.FieldStores(fn, func(fa *ssa.FieldAddr) bool { return fieldIs(fa, eo) }) {
			n++
			g1, w := eng.GuardedBy(fn, st, newer)
			g2, _ := eng.GuardedBy(fn, st, later)
			c.Check(g1 && g2 && len(newer) > 0 && len(later) > 0, "epoch boundary appended only for a newer epoch at a later offset", c.Pos(st), "epoch > latestEpoch ∧ offset >= latestOffset", "an epoch boundary can be appended out of order (path "+w.String()+")")
			exact := eng.ExactCmp(fn, eng.Param("epoch"), eng.Call(-1, cl+"leaderEpochCache.latestEpoch"), eng.GT) && eng.ExactCmp(fn, eng.Param("offset"), eng.Call(-1, cl+"leaderEpochCache.latestOffset"), eng.GE)
			c.Check(exact, "epoch boundary accepted exactly on epoch > latest ∧ offset >= latest", c.Pos(st), "the tests are `epoch > latestEpoch` and `offset >= latestOffset`", "the acceptance test of assign is stricter than `epoch > latestEpoch ∧ offset >= latestOffset`: a new leader that takes over without new messages (same offset) cannot record its epoch, so followers cannot find where the previous epoch ended")
		}
		if n == 0 {
			c.Unresolved("store to epochOffsets in assign")
		}
	}
	if fn := c.Fn(cl + "(*leaderEpochCache).ClearLatest"); fn != nil {
		keep := eng.ExactCmp(fn, eng.LoadNamed("startOffset", nil), eng.Param("offset"), eng.LT)
		c.Check(keep, "truncation drops epochs starting at or after the offset", p.Pos(fn.Pos()), "an epoch entry is kept exactly on startOffset < offset", "ClearLatest does not keep exactly the epochs with startOffset < offset: after a truncation the epoch history names offsets that no longer exist (or forgets one that does)")
	}
	eo := p.Field(clPkg, "leaderEpochCache", "epochOffsets")
	for _, a := range eng.StoresToField(p, eo, true) {
		k := ir.FuncKey(a.Fn)
		allowed := map[string]string{
			cl + "(*leaderEpochCache).assign":        "append of a newer epoch (checked above)",
			cl + "(*leaderEpochCache).ClearLatest":   "drops a suffix on truncation",
			cl + "(*leaderEpochCache).ClearEarliest": "drops/rewrites a prefix on retention",
			cl + "(*leaderEpochCache).Replace":       "swap after compaction",
		}
		why, ok := allowed[k]
		c.Check(ok, "store to leaderEpochCache.epochOffsets in "+k, c.Pos(a.Use), why, "the epoch history is rewritten in "+k+", which is not one of the four functions that own it")
	}
	c.CheckFieldLocks(eng.LockRule{Field: eo, Lock: "mu", Exempt: map[string]string{
		cl + "newLeaderEpochCache":       "constructor",
		cl + "newLeaderEpochCacheNoFile": "constructor",
	}}, "leaderEpochCache.epochOffsets")
	c.Floor(12)

	// ---- shared: the watermark can only move through the commit rule when there are followers
	c.Rule("R03.2", "K3")
	ruleFastPathGate(c)
	c.Floor(2)

	// ---- R02.6 shared: commit rule and election candidate
	c.Rule("R04.2", "K1")
	ruleCommitRule(c)
	c.Floor(9)
	c.Rule("R07.4", "K5")
	ruleCandidate(c)
	c.Floor(4)

	// ---- R02.7 ISR shrink/expand shape
	c.Rule("R02.7", "K1")
	ruleHealthCheckPeriod(c)
	ruleRejoiningReplicaHoldsEverythingCommitted(c)
	ruleISROpsAlwaysApply(c)
	if fn := c.Fn("server.(*replicator).tick"); fn != nil {
		inISR := func(pol bool) []eng.Edge { return eng.BoolEdges(fn, eng.Call(-1, "server.partition.inISR"), pol) }
		isLagCmp := func(v ssa.Value) bool {
			return eng.RelVal(eng.Call(-1, "time.Time.Sub"), eng.LoadNamed("maxLagTime", nil), eng.GT)(v)
		}
		// outOfSync := a || b is materialised as a boolean phi: true over the first comparison's true edge, else the second comparison
		isOutOfSync := func(v ssa.Value) bool {
			ph, ok := v.(*ssa.Phi)
			if !ok || len(ph.Edges) != 2 {
				return false
			}
			nCmp, nTrue := 0, 0
			for i, e := range ph.Edges {
				if isLagCmp(e) {
					nCmp++
					continue
				}
				if k, ok := e.(*ssa.Const); ok && k.Value != nil && k.Value.String() == "true" {
					pred := ph.Block().Preds[i]
					if iff, ok := pred.Instrs[len(pred.Instrs)-1].(*ssa.If); ok && isLagCmp(iff.Cond) && pred.Succs[0] == ph.Block() {
						nTrue++
					}
				}
			}
			return nCmp == 1 && nTrue == 1
		}
		lagging := eng.BoolEdges(fn, isOutOfSync, true)
		notLagging := eng.BoolEdges(fn, isOutOfSync, false)
		for _, s := range eng.CallsIn(fn, "server.replicator.shrinkISR") {
			g1, w := eng.GuardedBy(fn, s.(ssa.Instruction), inISR(true))
			g2, _ := eng.GuardedBy(fn, s.(ssa.Instruction), lagging)
			c.Check(g1 && g2 && len(lagging) > 0, "shrink only for a lagging in-sync replica", c.Pos(s.(ssa.Instruction)), "(lastSeen > maxLag ∨ lastCaughtUp > maxLag) ∧ inISR(replica)", "a replica can be removed from the ISR without having exceeded the lag time or without being in the ISR (path "+w.String()+")")
		}
		for _, s := range eng.CallsIn(fn, "server.replicator.expandISR") {
			g1, w := eng.GuardedBy(fn, s.(ssa.Instruction), inISR(false))
			g2, _ := eng.GuardedBy(fn, s.(ssa.Instruction), notLagging)
			c.Check(g1 && g2 && len(notLagging) > 0, "expand only for a caught-up replica outside the ISR", c.Pos(s.(ssa.Instruction)), "¬outOfSync ∧ ¬inISR(replica)", "a lagging replica can be added back to the ISR (path "+w.String()+")")
		}
	}
	lc := p.Field("server", "replicator", "lastCaughtUp")
	for _, a := range eng.StoresToField(p, lc, true) {
		k := ir.FuncKey(a.Fn)
		ok := k == "server.(*replicator).caughtUp" || k == "server.(*replicator).start"
		c.Check(ok, "store to replicator.lastCaughtUp in "+k, c.Pos(a.Use), "only start (initialisation) and caughtUp", "lastCaughtUp is refreshed in "+k+": a lagging replica looks caught up")
	}
	if fn := c.Fn("server.(*replicator).start"); fn != nil {
		for _, cu := range eng.CallsIn(fn, "server.replicator.caughtUp") {
			ge := eng.CmpEdges(fn, eng.LoadNamed("Offset", nil), eng.Call(-1, cl+"CommitLog.NewestOffset"), eng.GE)
			g, w := eng.GuardedBy(fn, cu.(ssa.Instruction), ge)
			c.Check(g && len(ge) > 0, "caught up means req.Offset >= newest", c.Pos(cu.(ssa.Instruction)), "caughtUp only on req.Offset >= log.NewestOffset()", "a replica is treated as caught up although it is behind (path "+w.String()+")")
		}
	}
	ruleISRChangeCarriesTheReplicatorsGeneration(c)
	c.Floor(7)
	// ---- R15.8 (shared) the configuration keys this property's switches hang on reach their fields
	ruleConfigWiring(c, "R15.8")

	// ---- R01.12 (shared) Truncate removes exactly the messages at and above the offset
	c.Rule("R01.12", "K5")
	ruleTruncateShapes(c)
	c.Floor(8)

	// ---- R14.6 (shared) the timeout of the leader-offset request reaches the retry test unwrapped: a follower that does not
	// recognise the timeout gives up after one attempt and truncates to its high watermark, which can lag the committed data
	nSent := ruleSentinelIdentity(c, "R14.6", []string{"server.(*partition).truncateUncommitted"}, "the follower falls back to truncating at its own high watermark after a single lost request and cuts off committed messages")
	c.Check(nSent >= 1, "truncateUncommitted recognises a timed-out offset request", "", "identity comparison with nats.ErrTimeout found", "truncateUncommitted no longer retries a timed-out leader offset request")

	c.Rule("R04.5", "K3")
	ruleLeaderForgetsOldProgress(c)

	// ---- rules whose current findings are recorded as known (see knownrules.go)
	c.Rule("R02.9", "K5")
	ruleEpochBoundaryMeansOneThing(c)
	c.Rule("R02.2", "K1")
	ruleNoBlindHWTruncation(c)
	ruleTruncationPointIsTheLeadersAnswer(c)
	c.Rule("R08.7", "K2")
	ruleCompactionKeepsEpochBoundaries(c)
	c.Rule("R02.4", "K1")
	ruleOffsetRequestFenced(c)

	// ---- known finding K14: log reconciliation (Truncate) against the background cleaner
	c.Rule("R08.8", "K4")
	ruleCleaningPassExcludesListRewrites(c)

}

// ruleLeaderServesOwnEpoch (part of R02.4, shared with C04): a fetch request counts as progress of a replica only when it was
// made in the leader's current epoch (or carries no epoch) and comes from a replica. A request of an earlier epoch reports the
// log end of an untruncated tail; counting it lets the leader acknowledge messages the follower does not hold.
func ruleLeaderServesOwnEpoch(c *eng.Ctx) {
	if fn := c.Fn("server.(*partition).handleReplicationRequest"); fn != nil {
		rq := eng.CallsIn(fn, "server.replicator.request")
		if len(rq) != 1 {
			c.Unresolved("replicator.request in handleReplicationRequest")
		} else {
			reqEpoch := eng.LoadNamed("LeaderEpoch", eng.Call(0, "server/protocol.UnmarshalReplicationRequest"))
			zero := eng.CmpEdges(fn, reqEpoch, eng.IntConst(0), eng.EQ)
			same := eng.CmpEdges(fn, reqEpoch, eng.LoadNamed("LeaderEpoch", eng.Or(eng.Param("p"), eng.LoadNamed("Partition", eng.Param("p")))), eng.EQ)
			pEpoch := eng.LoadNamed("LeaderEpoch", eng.Or(eng.Param("p"), eng.LoadNamed("Partition", eng.Param("p"))))
			// either fact, whichever way a joined condition (`case e != 0 && e != p.LeaderEpoch:`) came to be false
			either := eng.EdgesWhere(fn, func(a eng.AtomView) bool {
				return a.RelHolds(reqEpoch, eng.IntConst(0), eng.EQ) || a.RelHolds(reqEpoch, pEpoch, eng.EQ)
			})
			g, w := eng.GuardedBy(fn, rq[0].(ssa.Instruction), append(append(append([]eng.Edge{}, zero...), same...), either...))
			compared := len(same) > 0
			eng.Instrs(fn, func(in ssa.Instruction) {
				if bo, isB := in.(*ssa.BinOp); isB && (bo.Op == token.EQL || bo.Op == token.NEQ) &&
					(reqEpoch(bo.X) && pEpoch(bo.Y) || reqEpoch(bo.Y) && pEpoch(bo.X)) {
					compared = true
				}
			})
			c.Check(g && compared, "leader serves only requests of its own epoch", c.Pos(rq[0].(ssa.Instruction)), "req.LeaderEpoch == 0 ∨ req.LeaderEpoch == p.LeaderEpoch", "a replication request from another leader epoch is served (path "+w.String()+")")
			isRep := eng.BoolEdges(fn, func(v ssa.Value) bool {
				e, ok := v.(*ssa.Extract)
				if !ok || e.Index != 1 {
					return false
				}
				lk, ok := e.Tuple.(*ssa.Lookup)
				return ok && eng.LoadNamed("replicas", nil)(lk.X)
			}, true)
			g2, w2 := eng.GuardedBy(fn, rq[0].(ssa.Instruction), isRep)
			c.Check(g2 && len(isRep) > 0, "leader serves only its replicas", c.Pos(rq[0].(ssa.Instruction)), "req.ReplicaID ∈ p.replicas", "a replication request from a non-replica is served (path "+w2.String()+")")
		}
	}
}
