package rules

import (
	"go/types"
	"strings"

	"golang.org/x/tools/go/ssa"

	"lbcheck/eng"
	"lbcheck/ir"
)

// isEnforcerHolder: a struct field whose type is a pointer to the server's enforcer wrapper or to the casbin enforcer.
func isEnforcerHolder(f *types.Var) bool {
	if f == nil {
		return false
	}
	pt, ok := f.Type().(*types.Pointer)
	if !ok {
		return false
	}
	nt, ok := pt.Elem().(*types.Named)
	if !ok || nt.Obj().Pkg() == nil {
		return false
	}
	path := nt.Obj().Pkg().Path()
	return (ir.InModule(path) && nt.Obj().Name() == "authzEnforcer") || (strings.HasPrefix(path, "github.com/casbin/casbin") && nt.Obj().Name() == "Enforcer")
}

// ruleReloadReachesDecision (R15.9): the policy a decision is taken with is the one a reload brings in. The enforcer is
// reached from the handler through a chain of fields; a reload either refreshes that very object in place (LoadPolicy on a
// value read through a holder field) or replaces it — and then every holder field on the decision's chain has to be
// replaced with it. A handler that keeps its own copy of the pointer (taken at construction) next to a reload that swaps
// the server's pointer goes on deciding with the start-up policy: a permission removed from the policy file is still granted.
func ruleReloadReachesDecision(c *eng.Ctx) {
	p := c.P
	fn := c.Fn("server.(*apiServer).enforcePolicy")
	if fn == nil {
		return
	}
	calls := eng.CallsIn(fn, "github.com/casbin/casbin/v2.Enforcer.Enforce")
	if len(calls) != 1 {
		c.Unresolved("the Enforce call in enforcePolicy")
		return
	}
	// the chain of fields from the receiver to the enforcer
	chain := map[*types.Var]bool{}
	var chainNames []string
	v := calls[0].Common().Args[0]
	if calls[0].Common().IsInvoke() {
		v = calls[0].Common().Value
	}
	for i := 0; i < 8; i++ {
		f, base := eng.FieldRead(v)
		if f == nil {
			break
		}
		chain[f] = true
		chainNames = append([]string{f.Name()}, chainNames...)
		v = base
	}
	_, fromRecv := eng.Strip(v).(*ssa.Parameter)
	c.Check(fromRecv && len(chain) >= 2, "the decision reads the enforcer through the server's fields at the time of the call", c.Pos(calls[0]), "receiver."+strings.Join(chainNames, "."), "enforcePolicy does not reach the enforcer through fields of its receiver ("+eng.Describe(calls[0].Common().Args[0])+"): which policy decides cannot be established")
	// writers of holder fields outside construction (stores into a freshly allocated object are construction)
	type repl struct {
		fn    *ssa.Function
		field *types.Var
		st    *ssa.Store
	}
	var repls []repl
	for _, g := range p.Funcs {
		if !p.IsModuleFunc(g) {
			continue
		}
		outer := ir.FuncKey(ir.Outermost(g))
		if outer == "server.(*Server).startAPIServer" {
			continue
		}
		for _, st := range eng.FieldStores(g, func(fa *ssa.FieldAddr) bool { return isEnforcerHolder(eng.FieldOfAddr(fa)) }) {
			fa := st.Addr.(*ssa.FieldAddr)
			if _, fresh := eng.Strip(fa.X).(*ssa.Alloc); fresh {
				continue
			}
			repls = append(repls, repl{g, eng.FieldOfAddr(fa), st})
		}
	}
	if len(repls) == 0 {
		// in-place model: some LoadPolicy outside construction works on an object read through a holder field
		n := 0
		for _, s := range eng.Index(p).Sites("github.com/casbin/casbin/v2.Enforcer.LoadPolicy") {
			if s.Outer() == "server.(*Server).startAPIServer" {
				continue
			}
			recv := s.Instr.(ssa.CallInstruction).Common().Args[0]
			f, _ := eng.FieldRead(recv)
			n++
			c.Check(isEnforcerHolder(f), "reload refreshes the enforcer the handlers use ("+s.Outer()+")", c.Pos(s.Instr), "LoadPolicy on the object read from "+holderName(f)+"; no holder field is ever replaced after construction, so every copy of the pointer names this object", "the reload calls LoadPolicy on "+eng.Describe(recv)+", which is not read from a field that holds the server's enforcer: the handlers' enforcer keeps the old policy")
		}
		c.Check(n > 0, "a policy reload exists", "", "LoadPolicy outside construction", "no reload path calls LoadPolicy and no holder field is replaced: SIGHUP does nothing to the policy the handlers decide with")
		return
	}
	// replace model: whoever replaces one holder replaces every holder on the decision's chain
	byFn := map[*ssa.Function]map[*types.Var]bool{}
	for _, r := range repls {
		o := ir.Outermost(r.fn)
		if byFn[o] == nil {
			byFn[o] = map[*types.Var]bool{}
		}
		byFn[o][r.field] = true
	}
	for _, r := range repls {
		o := ir.Outermost(r.fn)
		missing := ""
		for f := range chain {
			if isEnforcerHolder(f) && !byFn[o][f] {
				missing = f.Name()
			}
		}
		c.Check(missing == "" && chain[r.field], "replacing "+r.field.Name()+" in "+ir.FuncKey(o)+" reaches the decision", c.Pos(r.st), "every holder field the decision reads is replaced together", "the enforcer is replaced through "+r.field.Name()+" but enforcePolicy reads it through receiver."+strings.Join(chainNames, ".")+" ("+map[bool]string{true: "field " + missing + " keeps the old object", false: "another field"}[missing != ""]+"): after a reload the handlers go on deciding with the policy loaded at start-up — a permission removed from the policy file is still granted")
	}
}

func holderName(f *types.Var) string {
	if f == nil {
		return "?"
	}
	return f.Name()
}

// ruleAuthzSwitchWriters (R15.10): the operator's authorisation settings are written only where the defaults are built and
// where the configuration is read. Anything else that assigns them — a constructor that "normalises" an incomplete
// configuration by switching authorisation off — turns a server that refuses every call into one that accepts every call.
func ruleAuthzSwitchWriters(c *eng.Ctx) {
	p := c.P
	keys := map[string]string{"TLSClientAuthz": "tls.client.authz.enabled", "TLSClientAuthzModel": "tls.client.authz.model", "TLSClientAuthzPolicy": "tls.client.authz.policy"}
	allowed := map[string]bool{"server.NewDefaultConfig": true}
	for _, fn := range p.Funcs {
		eng.Instrs(fn, func(in ssa.Instruction) {
			call, ok := in.(*ssa.Call)
			if !ok || !strings.HasPrefix(eng.CalleeRef(&call.Call), viperPkg+".Viper.Get") || len(call.Call.Args) == 0 {
				return
			}
			k := eng.Strip(call.Call.Args[len(call.Call.Args)-1])
			for _, key := range keys {
				if eng.StrConst(key)(k) {
					allowed[ir.FuncKey(ir.Outermost(fn))] = true
				}
			}
		})
	}
	n := 0
	for _, name := range []string{"TLSClientAuthz", "TLSClientAuthzModel", "TLSClientAuthzPolicy"} {
		f := p.Field("server", "Config", name)
		if f == nil {
			c.Unresolved("field server.Config." + name)
			continue
		}
		for _, a := range eng.FieldAccesses(p, f) {
			if !a.Write {
				continue
			}
			if _, isStore := a.Use.(*ssa.Store); !isStore {
				continue
			}
			if !p.IsModuleFunc(a.Fn) {
				continue
			}
			n++
			k := ir.FuncKey(ir.Outermost(a.Fn))
			c.Check(allowed[k], "write of Config."+name+" in "+ir.FuncKey(a.Fn), c.Pos(a.Use), "written where the defaults are built or the configuration is read", "the authorisation setting "+name+" is overwritten outside configuration loading: an operator's `enabled` can be switched off (or its policy re-pointed) by the server itself — with authorisation off every call is accepted")
		}
	}
	c.Check(n >= 3, "authorisation setting writers found", "", "the configuration parser stores all three settings", "the writers of Config.TLSClientAuthz* were not found")
}
