package rules

import (
	"fmt"
	"go/token"
	"strings"

	"golang.org/x/tools/go/ssa"

	"lbcheck/eng"
	"lbcheck/ir"
)

const (
	encIface    = "server/encryption.Codec"
	msgLoopKey  = "server.(*partition).messageProcessingLoop"
	natsToProto = "server.natsToProtoMessage"
)

func init() {
	register(&Property{ID: "C17", Level: "other", Run: runC17,
		Technique:   "static analysis: path search over go/ssa CFGs (seal-before-append, open-before-deliver), bounds prover on stored bytes, provenance of nonce and key material",
		LevelText:   "Structural clauses decided for all paths: at each of the three ingest sites no message reaches the batch on an encrypted stream without its Value having been replaced by the result of a successful Seal; the subscribe loop delivers the result of a successful Read on encrypted streams; every index/slice on stored (tamperable) bytes in Read/decryptData is proven in bounds; the GCM nonce is fresh crypto/rand output of NonceSize bytes and Open's error is propagated. Confidentiality of byte strings and cryptographic strength are not decided.",
		LevelNote:   "Trusted: go/ssa, crypto/aes, crypto/cipher and tink's key wrap; the tamper model is 'any stored byte may change'.",
		DesignRef:   "DESIGN.md §4 C17",
		Explanation: "R17.4 also (round 8): the cipher that seals or opens a value is built in that call from the key handed in for that value. R17.5 also: CreateStream records the encryption decision in the stream's configuration on every path to the proposal (F73); R17.4 also: nothing on the read path writes handler state that is not behind a successful key unwrap. R17.1 seal-before-store at the ingest sites of messageProcessingLoop, R17.2 open-before-deliver in the subscribe loop, R17.3 bounds on stored bytes in LocalEncryptionHandler.Read/decryptData/unwrapDEK, R17.4 nonce / key hygiene and error propagation, R17.5 every partition of an encrypted stream gets its handler and nothing replaces it, R16.8 (shared) encryption setting plumbing. R17.4 also requires Read to cut the stored form by its length byte so that every stored byte is integrity-checked; R15.8 (shared) streams.encryption reaches its Config field. NOT decided: that stored bytes never contain the plaintext, cryptographic strength.",
	})
}

func ifaceNilEdges(fn *ssa.Function, field string, isNil bool) []eng.Edge {
	rel := eng.NE
	if isNil {
		rel = eng.EQ
	}
	return eng.CmpEdges(fn, eng.LoadNamed(field, nil), eng.NilConst, rel)
}

func runC17(c *eng.Ctx) {
	c.Rule("R17.6", "K4")
	ruleEveryPartitionGetsItsOwnHandler(c)
	p := c.P

	c.Rule("R17.6", "K4")
	ruleSealedValueIsTheCallers(c)
	c.Rule("R17.4", "K5")
	ruleCipherIsBuiltFromTheValuesKey(c)
	// ---- R17.1 seal before store
	c.Rule("R17.1", "K2")
	if fn := c.Fn(msgLoopKey); fn != nil {
		noEnc := ifaceNilEdges(fn, "encryptionHandler", true)
		if len(noEnc) == 0 {
			c.Unresolved("test of p.encryptionHandler against nil in messageProcessingLoop")
		}
		valField := p.Field("server/commitlog", "Message", "Value")
		eng.Instrs(fn, func(in ssa.Instruction) {
			call, ok := in.(*ssa.Call)
			if !ok {
				return
			}
			b, ok := call.Call.Value.(*ssa.Builtin)
			if !ok || b.Name() != "append" || len(call.Call.Args) != 2 {
				return
			}
			elems := variadicElems(call.Call.Args[1])
			if len(elems) != 1 {
				return
			}
			src, ok := eng.Strip(elems[0]).(*ssa.Call)
			if !ok || eng.CalleeRef(&src.Call) != natsToProto {
				return
			}
			// sealing stores for this m
			var sealStores []ssa.Instruction
			var sealCalls []*ssa.Call
			for _, st := range eng.FieldStores(fn, func(fa *ssa.FieldAddr) bool { return fieldIs(fa, valField) && fa.X == src }) {
				e, ok := st.Val.(*ssa.Extract)
				if !ok || e.Index != 0 {
					continue
				}
				sc, ok := e.Tuple.(*ssa.Call)
				if !ok || eng.CalleeRef(&sc.Call) != encIface+".Seal" {
					continue
				}
				// Seal(m.Value) of the same m
				f, base := eng.FieldRead(sc.Call.Args[0])
				if f != valField || base != src {
					continue
				}
				// the store must be behind err == nil of that Seal
				errNil := eng.CmpEdges(fn, func(v ssa.Value) bool { x, ok := v.(*ssa.Extract); return ok && x.Tuple == sc && x.Index == 1 }, eng.NilConst, eng.EQ)
				q := &eng.PathQuery{Fn: fn, FromAfter: []ssa.Instruction{sc}, Target: func(x ssa.Instruction) bool { return x == st }, CutEdges: errNil}
				if q.Find() != nil {
					continue
				}
				sealStores = append(sealStores, st)
				sealCalls = append(sealCalls, sc)
			}
			q := &eng.PathQuery{Fn: fn, FromAfter: []ssa.Instruction{src}, Target: func(x ssa.Instruction) bool { return x == in },
				CutEdges: noEnc,
				CutInstr: func(x ssa.Instruction) bool {
					if x == src {
						return true // next message: a new m
					}
					for _, s := range sealStores {
						if x == s {
							return true
						}
					}
					return false
				}}
			w := q.Find()
			c.Check(w == nil, "ingest site append(msgBatch, m)", c.Pos(in),
				"on every path from natsToProtoMessage to the append, either the stream has no encryption handler or m.Value was replaced by the result of a successful Seal(m.Value)",
				"a message can be appended to the batch on an encrypted stream without its Value having been sealed (path "+w.String()+")")
			// failure edge: no append of this m
			for _, sc := range sealCalls {
				errNotNil := eng.CmpEdges(fn, func(v ssa.Value) bool { x, ok := v.(*ssa.Extract); return ok && x.Tuple == sc && x.Index == 1 }, eng.NilConst, eng.NE)
				q := &eng.PathQuery{Fn: fn, FromEdges: errNotNil, Target: func(x ssa.Instruction) bool { return x == in }, CutInstr: func(x ssa.Instruction) bool { return x == src }}
				w := q.Find()
				c.Check(w == nil, "Seal failure does not store", c.Pos(sc), "from the error edge of Seal the message is not appended", "after a failed Seal the same message still reaches the batch (path "+w.String()+")")
				// and it is nacked with Ack_ENCRYPTION
				nacked := false
				q2 := &eng.PathQuery{Fn: fn, FromEdges: errNotNil, Target: func(x ssa.Instruction) bool {
					if ci, ok := x.(*ssa.Call); ok && eng.CalleeRef(&ci.Call) == "server.partition.sendAck" {
						nacked = ackErrorConst(ci.Call.Args[1]) == "Ack_ENCRYPTION"
						return true
					}
					return false
				}, CutInstr: func(x ssa.Instruction) bool { return x == src }}
				q2.Find()
				c.Check(nacked, "Seal failure is nacked", c.Pos(sc), "the error edge of Seal sends an ack with AckError = ENCRYPTION", "the error edge of Seal does not send an Ack_ENCRYPTION nack")
			}
		})
	}
	c.Floor(9)

	// ---- R17.2 open before deliver
	c.Rule("R17.2", "K2")
	if fn := c.Fn("server.(*partition).newSubscribeLoop$1"); fn != nil {
		noEnc := ifaceNilEdges(fn, "encryptionHandler", true)
		reads := eng.CallsIn(fn, "server/commitlog.MessageReader.ReadMessage")
		msgVal := p.DepObject(apiPkg, "Message")
		_ = msgVal
		if len(reads) != 1 || len(noEnc) == 0 {
			c.Unresolved("ReadMessage call / encryptionHandler test in the subscribe loop")
		} else {
			rd := reads[0].(*ssa.Call)
			n := 0
			eng.Instrs(fn, func(in ssa.Instruction) {
				st, ok := in.(*ssa.Store)
				if !ok {
					return
				}
				fa, ok := st.Addr.(*ssa.FieldAddr)
				if !ok || fieldName(fa) != "Value" || !strings.HasSuffix(fa.X.Type().String(), "liftbridge-api/v2/go.Message") {
					return
				}
				n++
				// decompose the stored value into its sources (through phi)
				var srcs []ssa.Value
				var preds []*ssa.BasicBlock
				if ph, ok := st.Val.(*ssa.Phi); ok {
					for i, e := range ph.Edges {
						srcs = append(srcs, e)
						preds = append(preds, ph.Block().Preds[i])
					}
				} else {
					srcs = append(srcs, st.Val)
					preds = append(preds, nil)
				}
				for i, v := range srcs {
					var at ssa.Instruction = st
					// a phi operand is "used" on the CFG edge pred -> phi block: target that edge, not an instruction
					target := func(q *eng.PathQuery) {
						if preds[i] == nil {
							q.Target = func(x ssa.Instruction) bool { return x == at }
							return
						}
						pb, phb := preds[i], st.Val.(*ssa.Phi).Block()
						q.TargetEdge = func(e eng.Edge) bool { return e.From == pb && e.To() == phb }
					}
					if e, ok := v.(*ssa.Extract); ok && e.Index == 0 {
						if rc, ok := e.Tuple.(*ssa.Call); ok && eng.CalleeRef(&rc.Call) == encIface+".Read" {
							errNil := eng.CmpEdges(fn, func(x ssa.Value) bool { y, ok := x.(*ssa.Extract); return ok && y.Tuple == rc && y.Index == 1 }, eng.NilConst, eng.EQ)
							q := &eng.PathQuery{Fn: fn, FromAfter: []ssa.Instruction{rc}, CutEdges: errNil, CutInstr: func(x ssa.Instruction) bool { return x == rd }}
							target(q)
							w := q.Find()
							c.Check(w == nil, "delivered Value = result of Read", c.Pos(rc), "used only on the err == nil edge of Read", "the result of a failed Read can be delivered (path "+w.String()+")")
							// Read is applied to the value of the message just read
							argOK := false
							if vc, ok := rc.Call.Args[0].(*ssa.Call); ok && strings.HasSuffix(eng.CalleeRef(&vc.Call), "Message.Value") {
								argOK = true
							}
							c.Check(argOK, "Read applied to the stored value", c.Pos(rc), "Read(m.Value())", "Read is not applied to the stored message value")
							continue
						}
					}
					if vc, ok := v.(*ssa.Call); ok && strings.HasSuffix(eng.CalleeRef(&vc.Call), "Message.Value") {
						q := &eng.PathQuery{Fn: fn, FromAfter: []ssa.Instruction{rd}, CutEdges: noEnc, CutInstr: func(x ssa.Instruction) bool { return x == rd }}
						target(q)
						w := q.Find()
						c.Check(w == nil, "delivered Value = stored value", c.Pos(st), "the stored bytes are delivered as they are only when the stream has no encryption handler", "on an encrypted stream the stored (sealed) bytes can be delivered without Read (path "+w.String()+")")
						continue
					}
					c.Violate("delivered Value source", c.Pos(st), "delivered Value comes from "+eng.Describe(v)+", neither the stored value nor the result of Read")
				}
			})
			if n == 0 {
				c.Unresolved("store of client.Message.Value in the subscribe loop")
			}
		}
	}
	c.Floor(3)

	// ---- R17.5 every partition of an encrypted stream has its handler, whatever its other state (paused, recovered, read-only)
	c.Rule("R17.5", "K2")
	ruleEncryptionDecisionIsRecorded(c)
	if fn := c.Fn("server.(*Server).newPartition"); fn != nil {
		hf := p.Field("server", "partition", "encryptionHandler")
		enc := eng.BoolEdges(fn, eng.LoadNamed("Encryption", nil), true)
		isSet := func(in ssa.Instruction) bool {
			st, ok := in.(*ssa.Store)
			if !ok {
				return false
			}
			fa, ok := st.Addr.(*ssa.FieldAddr)
			return ok && fieldIs(fa, hf) && !eng.NilConst(st.Val)
		}
		okRet := func(in ssa.Instruction) bool {
			r, ok := in.(*ssa.Return)
			if !ok {
				return false
			}
			rv := eng.RetVals(r)
			return len(rv) == 2 && eng.NilConst(rv[1])
		}
		q := &eng.PathQuery{Fn: fn, FromEdges: enc, Target: okRet, CutInstr: isSet}
		w := q.Find()
		c.Check(w == nil && len(enc) > 0, "a partition of an encrypted stream always gets its encryption handler", p.Pos(fn.Pos()), "from streamsConfig.Encryption == true every successful return of newPartition has stored the handler", "newPartition can return a partition of an encrypted stream without an encryption handler (path "+w.String()+"): messages appended through it are stored in clear and stored (sealed) bytes are delivered undecrypted — e.g. a partition created while paused and then resumed")
		// and only one kind of state decides it: the handler store is not behind any other condition of the partition
		n := 0
		eng.Instrs(fn, func(in ssa.Instruction) {
			if isSet(in) {
				n++
			}
		})
		if n == 0 {
			c.Unresolved("store to partition.encryptionHandler in newPartition")
		}
	}
	// nothing else replaces or clears the handler afterwards
	if hf := p.Field("server", "partition", "encryptionHandler"); hf != nil {
		for _, fn := range p.Funcs {
			if ir.FuncKey(fn) == "server.(*Server).newPartition" {
				continue
			}
			for _, st := range eng.FieldStores(fn, func(fa *ssa.FieldAddr) bool { return fieldIs(fa, hf) }) {
				c.Violate("store to partition.encryptionHandler in "+ir.FuncKey(fn), c.Pos(st), "the encryption handler of a live partition is replaced outside newPartition")
			}
		}
	}
	c.Floor(1)

	// ---- R17.3 bounds on stored bytes
	c.Rule("R17.3", "K9")
	if fn := c.Fn("server/encryption.(*LocalEncryptionHandler).Read"); fn != nil {
		t := eng.NewTaint(c)
		t.Add(fn.Params[1])
		t.Run()
		checkTaintedAccesses(c, t, nil)
		bceCrossCheck(c, t, []string{"./server/encryption/"})
	}
	c.Floor(4)

	// ---- R17.4 cipher hygiene
	c.Rule("R17.4", "K5")
	if fn := c.Fn("server/encryption.(*LocalEncryptionHandler).encryptData"); fn != nil {
		seals := eng.CallsIn(fn, "crypto/cipher.AEAD.Seal")
		if len(seals) != 1 {
			c.Unresolved("single gcm.Seal call in encryptData")
		} else {
			sc := seals[0].(*ssa.Call)
			nonce := sc.Call.Args[1] // invoke: Args = (dst, nonce, plaintext, aad)
			ms, isMake := nonce.(*ssa.MakeSlice)
			sized := isMake && eng.Call(-1, "crypto/cipher.AEAD.NonceSize")(ms.Len)
			c.Check(sized, "nonce size", c.Pos(sc), "nonce buffer has gcm.NonceSize() bytes", "the nonce passed to Seal is not a fresh buffer of gcm.NonceSize() bytes: "+eng.Describe(nonce))
			// filled by io.ReadFull(crypto/rand.Reader, nonce), error checked before Seal
			filled := false
			for _, rf := range eng.CallsIn(fn, "io.ReadFull") {
				rc := rf.(*ssa.Call)
				if rc.Call.Args[1] != nonce {
					continue
				}
				rdr := eng.Strip(rc.Call.Args[0])
				okRdr := false
				if u, ok := rdr.(*ssa.UnOp); ok && u.Op == token.MUL {
					if g, ok := u.X.(*ssa.Global); ok && g.Pkg.Pkg.Path() == "crypto/rand" && g.Name() == "Reader" {
						okRdr = true
					}
				}
				errNil := eng.CmpEdges(fn, func(x ssa.Value) bool { y, ok := x.(*ssa.Extract); return ok && y.Tuple == rc && y.Index == 1 }, eng.NilConst, eng.EQ)
				g, _ := eng.GuardedBy(fn, sc, errNil)
				if okRdr && g && len(errNil) > 0 {
					filled = true
				}
			}
			c.Check(filled, "nonce randomness", c.Pos(sc), "nonce filled by io.ReadFull(crypto/rand.Reader, nonce) and its error checked before Seal", "the nonce is not (provably) fresh crypto/rand output on every path to Seal")
			c.Check(sc.Call.Args[0] == nonce, "nonce is prepended to the ciphertext", c.Pos(sc), "Seal(nonce, nonce, …): dst = nonce", "Seal's dst is not the nonce: decryptData expects nonce||ciphertext")
			c.Check(eng.Param("plaintextData")(sc.Call.Args[2]), "plaintext argument", c.Pos(sc), "the data parameter is what is sealed", "Seal is not applied to the plaintext parameter")
		}
	}
	if fn := c.Fn("server/encryption.(*LocalEncryptionHandler).decryptData"); fn != nil {
		opens := eng.CallsIn(fn, "crypto/cipher.AEAD.Open")
		if len(opens) != 1 {
			c.Unresolved("single gcm.Open call in decryptData")
		} else {
			oc := opens[0].(*ssa.Call)
			errNil := eng.CmpEdges(fn, func(x ssa.Value) bool { y, ok := x.(*ssa.Extract); return ok && y.Tuple == oc && y.Index == 1 }, eng.NilConst, eng.EQ)
			for _, r := range eng.Returns(fn) {
				if len(eng.RetVals(r)) == 2 && eng.NilConst(eng.RetVals(r)[1]) {
					g, w := eng.GuardedBy(fn, r, errNil)
					c.Check(g && len(errNil) > 0, "decryptData success return", c.Pos(r), "reached only when gcm.Open returned no error (authentication tag verified)", "decryptData can return success although gcm.Open failed: "+w.String())
					e, ok := eng.RetVals(r)[0].(*ssa.Extract)
					c.Check(ok && e.Tuple == oc && e.Index == 0, "decryptData returns Open's plaintext", c.Pos(r), "the plaintext returned is Open's result", "the value returned is not gcm.Open's result")
				}
			}
		}
	}
	if fn := c.Fn("server/encryption.(*LocalEncryptionHandler).Read"); fn != nil {
		for _, callee := range []string{"server/encryption.LocalEncryptionHandler.unwrapDEK", "server/encryption.LocalEncryptionHandler.decryptData"} {
			cs := eng.CallsIn(fn, callee)
			if len(cs) != 1 {
				c.Unresolved("single call of " + callee + " in Read")
				continue
			}
			cc := cs[0].(*ssa.Call)
			errNil := eng.CmpEdges(fn, func(x ssa.Value) bool { y, ok := x.(*ssa.Extract); return ok && y.Tuple == cc && y.Index == 1 }, eng.NilConst, eng.EQ)
			for _, r := range eng.Returns(fn) {
				if len(eng.RetVals(r)) == 2 && eng.NilConst(eng.RetVals(r)[1]) {
					g, w := eng.GuardedBy(fn, r, errNil)
					c.Check(g && len(errNil) > 0, "Read success requires "+callee[strings.LastIndex(callee, ".")+1:], c.Pos(r), "success return only after err == nil", "Read can return success although "+callee+" failed: "+w.String())
				}
			}
		}
	}
	// reading leaves no trace in the handler unless the stored form was verified: whatever Read (or the two steps it is made
	// of) remembers in the handler — an unwrapped key kept for the next call, the wrapped bytes it belongs to — is stored only
	// behind the unwrap's err == nil. A tag remembered before the check makes the NEXT read of the same tampered bytes succeed.
	{
		nStores, bad, badPos := 0, "", ""
		var readPath []*ssa.Function
		if rd := c.FnQuiet("server/encryption.(*LocalEncryptionHandler).Read"); rd != nil {
			readPath = moduleReach(c, rd, 4)
		}
		for _, fn := range readPath {
			if fn.Signature.Recv() == nil || len(fn.Params) == 0 || fn.Pkg == nil || ir.Short(fn.Pkg.Pkg.Path()) != "server/encryption" {
				continue
			}
			recv := fn.Params[0]
			var okEdges []eng.Edge
			for _, cs := range eng.CallsIn(fn, "server/encryption.LocalEncryptionHandler.unwrapDEK") {
				cc, isCall := cs.(*ssa.Call)
				if !isCall {
					continue
				}
				okEdges = append(okEdges, eng.CmpEdges(fn, func(x ssa.Value) bool { y, ok := x.(*ssa.Extract); return ok && y.Tuple == cc && y.Index == 1 }, eng.NilConst, eng.EQ)...)
			}
			eng.Instrs(fn, func(in ssa.Instruction) {
				var addr ssa.Value
				switch x := in.(type) {
				case *ssa.Store:
					addr = x.Addr
				case *ssa.MapUpdate:
					addr = x.Map
				default:
					return
				}
				// is the written location reached from the receiver?
				root := addr
				for i := 0; i < 6; i++ {
					switch y := root.(type) {
					case *ssa.FieldAddr:
						root = y.X
						continue
					case *ssa.IndexAddr:
						root = y.X
						continue
					case *ssa.UnOp:
						root = y.X
						continue
					}
					break
				}
				if eng.Strip(root) != ssa.Value(recv) {
					return
				}
				nStores++
				if g, _ := eng.GuardedBy(fn, in, okEdges); !g || len(okEdges) == 0 {
					bad, badPos = ir.FuncKey(fn), c.Pos(in)
				}
			})
		}
		c.Check(bad == "", "reading remembers nothing about an unverified stored form", badPos, fmt.Sprintf("%d store(s) into the handler on the read path, each behind a successful unwrap", nStores), bad+" writes handler state that is not behind the key unwrap's err == nil: what a failed (tampered, wrong-key) read leaves behind can make a later read of the same bytes succeed")
	}
	if fn := c.Fn("server/encryption.(*LocalEncryptionHandler).Read"); fn != nil && len(fn.Params) == 2 {
		// every stored byte takes part in an integrity-checked step: byte 0 fixes the split, [1:split] is unwrapped (KWP
		// integrity block), [split:] is opened (GCM tag). A split that does not come from byte 0 leaves that byte unchecked.
		data := fn.Params[1]
		fromByte0 := func(v ssa.Value) bool { return derivesFromIndex0(v, data, 0) }
		var wk, ct *ssa.Slice
		if cs := eng.CallsIn(fn, "server/encryption.LocalEncryptionHandler.unwrapDEK"); len(cs) == 1 {
			wk, _ = eng.Strip(cs[0].Common().Args[len(cs[0].Common().Args)-1]).(*ssa.Slice)
		}
		if cs := eng.CallsIn(fn, "server/encryption.LocalEncryptionHandler.decryptData"); len(cs) == 1 {
			ct, _ = eng.Strip(cs[0].Common().Args[len(cs[0].Common().Args)-1]).(*ssa.Slice)
		}
		if wk == nil || ct == nil {
			c.Unresolved("wrapped-key and ciphertext slices of the stored form in Read")
		} else {
			okWK := wk.X == ssa.Value(data) && wk.Low != nil && eng.IntConst(1)(wk.Low) && wk.High != nil && fromByte0(wk.High)
			if !okWK && wk.X == ssa.Value(data) {
				// equally good: a fixed split with the length byte compared against it before anything is unwrapped
				eq := eng.CmpEdges(fn, func(v ssa.Value) bool { return derivesFromIndex0(v, data, 0) }, func(v ssa.Value) bool { return true }, eng.EQ)
				if g, _ := eng.GuardedBy(fn, wk, eq); g && len(eq) > 0 {
					okWK = true
				}
			}
			c.Check(okWK, "wrapped key is stored[1 : 1+stored[0]]", c.Pos(wk), "the split point is computed from the stored length byte", "the wrapped key is not cut out by the stored length byte: a corrupted byte 0 is not noticed by any integrity check and Read returns data")
			okCT := ct.X == ssa.Value(data) && ct.High == nil && ct.Low != nil && wk.High != nil && (ct.Low == wk.High || sameExpr(ct.Low, wk.High, 0))
			c.Check(okCT, "ciphertext is the rest of the stored form", c.Pos(ct), "stored[split:] with the same split point, to the end", "the ciphertext handed to GCM is not exactly the bytes after the wrapped key: some stored bytes are covered by no integrity check (or by the wrong one)")
		}
	}
	if fn := c.Fn("server/encryption.(*LocalEncryptionHandler).generateDEK"); fn != nil {
		ok := len(eng.CallsIn(fn, "crypto/rand.Read")) == 1
		c.Check(ok, "data key randomness", p.Pos(fn.Pos()), "DEK from crypto/rand.Read", "the data encryption key is not generated by crypto/rand.Read")
	}
	// the master key is read from the environment only in the constructor
	c.WhoMayCall("os.Getenv in server/encryption", []string{"os.Getenv"}, append([]string{"server/encryption.NewLocalEncryptionHandler"}, nonEncryptionGetenvCallers(c)...), []string{"server/encryption.NewLocalEncryptionHandler"})
	c.Floor(10)
	c.Rule("R16.8", "K6")
	ruleStreamConfigPlumbing(c, "Encryption")
	c.Floor(2)
	// ---- R15.8 (shared) the configuration keys this property's switches hang on reach their fields
	ruleConfigWiring(c, "R15.8")

}

// callers of os.Getenv outside server/encryption are not this rule's business; list them so that only new callers
// inside the encryption package are reported.
func nonEncryptionGetenvCallers(c *eng.Ctx) []string {
	var out []string
	for _, s := range eng.Index(c.P).Sites("os.Getenv") {
		if !strings.HasPrefix(s.Outer(), "server/encryption.") {
			out = append(out, s.Outer())
		}
	}
	return out
}

func fieldName(fa *ssa.FieldAddr) string { return eng.FieldNameOf(fa) }

// ackErrorConst returns the name of the constant stored in the AckError field of the Ack literal v, "" when none.
func ackErrorConst(v ssa.Value) string {
	al, ok := v.(*ssa.Alloc)
	if !ok {
		return ""
	}
	name := ""
	for _, r := range *al.Referrers() {
		fa, ok := r.(*ssa.FieldAddr)
		if !ok || eng.FieldNameOf(fa) != "AckError" {
			continue
		}
		for _, rr := range *fa.Referrers() {
			if st, ok := rr.(*ssa.Store); ok {
				if k, ok := st.Val.(*ssa.Const); ok {
					name = ackErrorName(k)
				}
			}
		}
	}
	return name
}

func ackErrorName(k *ssa.Const) string {
	if n := eng.EnumName(k); n != "" {
		return n
	}
	return fmt.Sprintf("Ack_Error(%s)", k.Value)
}

var _ = ir.FuncKey

// derivesFromIndex0: v is computed from data[0] by conversions and arithmetic with constants.
func derivesFromIndex0(v ssa.Value, data ssa.Value, depth int) bool {
	if depth > 5 {
		return false
	}
	v = eng.Strip(v)
	switch x := v.(type) {
	case *ssa.Convert:
		return derivesFromIndex0(x.X, data, depth+1)
	case *ssa.ChangeType:
		return derivesFromIndex0(x.X, data, depth+1)
	case *ssa.BinOp:
		if x.Op != token.ADD {
			return false
		}
		if eng.IsConst(x.Y) {
			return derivesFromIndex0(x.X, data, depth+1)
		}
		if eng.IsConst(x.X) {
			return derivesFromIndex0(x.Y, data, depth+1)
		}
	case *ssa.UnOp:
		if x.Op == token.MUL {
			if ia, ok := x.X.(*ssa.IndexAddr); ok {
				return ia.X == data && eng.IntConst(0)(ia.Index)
			}
		}
	}
	return false
}

// sameExpr: two values are the same expression over the same leaves (go/ssa does not share common subexpressions).
func sameExpr(a, b ssa.Value, depth int) bool {
	if a == b {
		return true
	}
	if depth > 6 {
		return false
	}
	a, b = eng.Strip(a), eng.Strip(b)
	if a == b {
		return true
	}
	switch x := a.(type) {
	case *ssa.Const:
		y, ok := b.(*ssa.Const)
		return ok && sameOperand(x, y)
	case *ssa.Convert:
		y, ok := b.(*ssa.Convert)
		return ok && sameExpr(x.X, y.X, depth+1)
	case *ssa.BinOp:
		y, ok := b.(*ssa.BinOp)
		if !ok || x.Op != y.Op {
			return false
		}
		if sameExpr(x.X, y.X, depth+1) && sameExpr(x.Y, y.Y, depth+1) {
			return true
		}
		return (x.Op == token.ADD || x.Op == token.MUL) && sameExpr(x.X, y.Y, depth+1) && sameExpr(x.Y, y.X, depth+1)
	case *ssa.UnOp:
		y, ok := b.(*ssa.UnOp)
		return ok && x.Op == y.Op && sameExpr(x.X, y.X, depth+1)
	case *ssa.IndexAddr:
		y, ok := b.(*ssa.IndexAddr)
		return ok && sameExpr(x.X, y.X, depth+1) && sameExpr(x.Index, y.Index, depth+1)
	}
	return false
}
