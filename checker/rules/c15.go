package rules

import (
	"fmt"
	"go/types"
	"sort"
	"strings"

	"golang.org/x/tools/go/ssa"

	"lbcheck/eng"
	"lbcheck/ir"
)

const (
	apiPkg   = "github.com/liftbridge-io/liftbridge-api/v2/go"
	authzRef = "server.apiServer.ensureAuthorizationPermission"
)

func init() {
	register(&Property{ID: "C15", Level: "other", Run: runC15,
		Explanation: "R15.9 also (round 10): the enforcer is built on the configured policy FILE, so a reload re-reads it. R15.9 also: every SIGHUP reloads the policy. Decided for all CFG paths: (R15.1) every method of the gRPC interface client.APIServer is implemented on *apiServer and contains (or delegates to a request loop that contains) a call to ensureAuthorizationPermission; R15.2 also requires unary handlers to report success only over the ok-edge; R15.8 the tls.client.auth(z).* keys reach their Config fields; R11.1 (shared) SetCursor remembers nothing before its inner publish — the second permission — succeeded." +
			"(R15.2/R15.3) in every such handler no call that can have an effect (effect analysis over the module SSA: stores/map updates/sends/go on non-local memory, NATS, Raft, gRPC Send, ...) is reachable from the handler entry — or from the request boundary Recv in a streaming loop — without crossing the edge on which the authorisation result is nil, so a denial is terminal and nothing precedes the check; " +
			"(R15.4) the action asked about is the handler's own method name and the resource is a field of the request; (R15.5) the enforcer is used only under its lock and ensureAuthorizationPermission returns nil only when authorisation is off or Enforce said yes without error; (R15.6) config keys tested with IsSet are the keys read. " +
			"NOT decided: casbin's matcher semantics, TLS identity extraction, what the effects do once authorised.",
		Technique:   "static analysis: interface-method coverage + must-cross-edge path search over go/ssa CFGs with an effect (purity) analysis of callees",
		LevelText:   "Structural clause of the property decided for all paths of all 16 gRPC handlers: no effectful call is reachable before the authorisation ok-edge, a denial is terminal, the question asked is the handler's own method and the request's resource, and the decision procedure returns nil only on an Enforce yes. Level other because four group endpoints have no check at all (known finding), so discharged < obligations; behaviour of casbin and of the effects themselves is not decided. A unary handler reports success only over the authorisation ok-edge; the authorisation settings reach their configuration fields.",
		LevelNote:   "Trusted: go/types, go/ssa, the effect classification (module functions by analysis, dependencies by allow-list, 8 table entries with reasons in rules/c15.go), casbin semantics, gRPC interceptors putting the verified client id in the context.",
		DesignRef:   "DESIGN.md §4 C15",
		Assumptions: []string{"effect/pure classification: module functions by effect analysis, dependencies by the allow-list in eng/purity.go", "internal callers of SubscribeInternal (cursor manager) run with the caller's context by design"},
	})
}

// pure by table (each with the reason it is not an effect in the sense of the property)
var c15Pure = map[string]string{
	"server.apiServer.newPublishAsyncSession":              "allocates the per-RPC session object only",
	"server.publishAsyncSession.dispatchAcks":              "subscribes to the session's own freshly generated ack inbox; delivers nothing until a publish was authorised",
	"server.publishAsyncSession.sendPublishAsyncError":     "reports an error to the caller on the caller's own RPC stream; changes no server state",
	"server.publishAsyncSession.waitForInflight":           "waits for acks of already authorised publishes at end of stream",
	"server.publishAsyncSession.close":                     "unsubscribes the session's own ack inbox",
	"server.apiServer.getAckInbox":                         "generates an inbox name",
	"server.subscription.Close":                            "closes the caller's own subscription",
	"google.golang.org/grpc.BidiStreamingServer.Recv":      "request boundary: receives the next request",
	"google.golang.org/grpc.ServerStreamingServer.Context": "reads the RPC context",
	"google.golang.org/grpc.BidiStreamingServer.Context":   "reads the RPC context",
}

func runC15(c *eng.Ctx) {
	c.Rule("R15.9", "K5")
	ruleEnforcerReadsThePolicyFile(c)
	p := c.P
	pur := eng.NewPurity(c)
	for k, v := range c15Pure {
		pur.PureRefs[k] = v
	}

	// ---- R15.1 coverage of the gRPC interface
	c.Rule("R15.1", "K6")
	iface := p.DepNamed(apiPkg, "APIServer")
	if iface == nil {
		c.Unresolved("interface " + apiPkg + ".APIServer")
		return
	}
	it := iface.Underlying().(*types.Interface)
	var handlers []*ssa.Function
	hasAuthz := map[*ssa.Function]bool{}
	var methods []string
	for i := 0; i < it.NumMethods(); i++ {
		m := it.Method(i)
		if !m.Exported() {
			continue
		}
		methods = append(methods, m.Name())
	}
	sort.Strings(methods)
	methodSet := map[string]bool{}
	for _, name := range methods {
		methodSet[name] = true
		fn := p.Func("server.(*apiServer)." + name)
		if fn == nil {
			c.Violate("handler "+name, "-", "gRPC method "+name+" of client.APIServer has no implementation on *apiServer (the embedded Unimplemented stub would answer, or a wrapper hides the handler from the analysis)")
			continue
		}
		handlers = append(handlers, fn)
		// direct authz call, or delegation to a function (same package) that contains one
		direct := len(eng.CallsIn(fn, authzRef)) > 0
		deleg := []string{}
		if !direct {
			eng.Instrs(fn, func(in ssa.Instruction) {
				if ci, ok := in.(ssa.CallInstruction); ok {
					if sc := ci.Common().StaticCallee(); sc != nil && p.IsModuleFunc(sc) && len(eng.CallsIn(sc, authzRef)) > 0 && sc.Name() != "ensureAuthorizationPermission" {
						deleg = append(deleg, ir.FuncKey(sc))
						handlers = append(handlers, sc)
						hasAuthz[sc] = true
					}
				}
			})
		}
		ok := direct || len(deleg) > 0
		hasAuthz[fn] = ok
		c.Check(ok, "handler "+name+" authorises", p.Pos(fn.Pos()),
			map[bool]string{true: "calls ensureAuthorizationPermission", false: "delegates to " + strings.Join(deleg, ",") + " which calls ensureAuthorizationPermission per request"}[direct],
			"handler "+ir.FuncKey(fn)+" never calls ensureAuthorizationPermission (nor delegates to a request loop that does): with ACLs on, any client may call "+name)
	}
	c.Floor(16)

	// ---- R15.2 / R15.3: effects only behind the ok-edge
	c.Rule("R15.2", "K2")
	seenH := map[*ssa.Function]bool{}
	for _, fn := range handlers {
		if seenH[fn] || !hasAuthz[fn] {
			continue
		}
		seenH[fn] = true
		authzCalls := eng.CallsIn(fn, authzRef)
		if len(authzCalls) == 0 {
			continue // pure delegation handler: its own calls are checked below as effects w/o ok-edge
		}
		var okEdges []eng.Edge
		for _, ac := range authzCalls {
			v, _ := ac.(ssa.Value)
			if v == nil {
				continue
			}
			okEdges = append(okEdges, eng.CmpEdges(fn, eng.Same(v), eng.NilConst, eng.EQ)...)
			// the result may be assigned to a multi-store variable (err): match loads of the cell it is stored to
			okEdges = append(okEdges, cellEdges(fn, v)...)
		}
		if len(okEdges) == 0 {
			c.Violate("ok-edge in "+ir.FuncKey(fn), c.Pos(authzCalls[0].(ssa.Instruction)), "the result of ensureAuthorizationPermission is never compared with nil: a denial cannot stop the call")
			continue
		}
		// request boundaries: Recv calls (streaming loops)
		var recvs []ssa.Instruction
		eng.Instrs(fn, func(in ssa.Instruction) {
			if ci, ok := in.(ssa.CallInstruction); ok && strings.HasSuffix(eng.CalleeRef(ci.Common()), "StreamingServer.Recv") {
				recvs = append(recvs, in)
			}
		})
		eng.Instrs(fn, func(in ssa.Instruction) {
			ci, ok := in.(ssa.CallInstruction)
			if !ok {
				return
			}
			ref := eng.CalleeRef(ci.Common())
			if ref == authzRef {
				return
			}
			reason := pur.CallImpure(ci.Common(), fn, 0)
			if reason == "" {
				return
			}
			q := &eng.PathQuery{Fn: fn, FromEntry: len(recvs) == 0, FromAfter: recvs, Target: func(x ssa.Instruction) bool { return x == in }, CutEdges: okEdges}
			if len(recvs) > 0 {
				// a path must not pass through the next Recv: the ok-edge of request i does not vouch for request i+1,
				// and an effect reached only through the next Recv is charged to that request.
				q.CutInstr = func(x ssa.Instruction) bool {
					for _, r := range recvs {
						if x == r {
							return true
						}
					}
					return false
				}
			}
			w := q.Find()
			name := ref
			if name == "" {
				name = "dynamic call"
			}
			c.Check(w == nil, "effect "+name+" in "+ir.FuncKey(fn), c.Pos(in),
				"every path from the "+map[bool]string{true: "request boundary (Recv)", false: "handler entry"}[len(recvs) > 0]+" crosses the authorisation ok-edge first",
				fmt.Sprintf("effect reachable without passing the authorisation ok-edge (path %s): %s", w, reason))
		})
		// the call is rejected: a unary handler reports success only over the ok-edge (a handler whose body has no effects —
		// a metadata query — is otherwise not constrained at all by the rule above)
		if len(recvs) == 0 {
			for _, r := range eng.Returns(fn) {
				vals := eng.RetVals(r)
				if len(vals) == 0 || !eng.NilConst(vals[len(vals)-1]) {
					continue
				}
				g, w := eng.GuardedBy(fn, r, okEdges)
				c.Check(g, "success return of "+ir.FuncKey(fn), c.Pos(r), "reached only over the authorisation ok-edge", "the handler can return success although ensureAuthorizationPermission refused the call (path "+w.String()+"): the unauthorised call is answered instead of rejected")
			}
		}
	}
	// handlers without authz are reported by R15.1 only (one finding per handler, not one per effect)
	c.Floor(14)

	// ---- R15.4 the right question
	c.Rule("R15.4", "K5")
	for _, s := range eng.Index(p).Sites(authzRef) {
		ci := s.Instr.(ssa.CallInstruction)
		args := ci.Common().Args // recv, ctx, stream, apiMethod
		if len(args) != 4 {
			c.Undecided("authz call in "+s.Outer(), c.Pos(s.Instr), "unexpected arity")
			continue
		}
		outer := ir.Outermost(s.Fn)
		want := outer.Name()
		if !methodSet[want] {
			// request loop of a streaming RPC: action must be a method of the API (documented: PublishAsync asks for "Publish")
			want = ""
		}
		ac, isConst := eng.Strip(args[3]).(*ssa.Const)
		action := ""
		if isConst && ac.Value != nil {
			action = strings.Trim(ac.Value.ExactString(), "\"")
		}
		okAction := isConst && ((want != "" && action == want) || (want == "" && methodSet[action]))
		c.Check(okAction, "authz action in "+s.Outer(), c.Pos(s.Instr),
			"action argument is the constant \""+action+"\"",
			fmt.Sprintf("action argument is %s; the handler %s must ask about its own method name", eng.Describe(args[3]), outer.Name()))
		// resource: a field of the request parameter (or the constant "*" for FetchMetadata)
		okRes := false
		if f, base := eng.FieldRead(args[2]); f != nil {
			if isReqValue(base) {
				okRes = f.Name() == "Stream" || f.Name() == "Name" || f.Name() == "Subject"
			}
		} else if eng.StrConst("*")(args[2]) && outer.Name() == "FetchMetadata" {
			okRes = true
		}
		c.Check(okRes, "authz resource in "+s.Outer(), c.Pos(s.Instr),
			"resource argument is "+eng.Describe(args[2]),
			"resource argument "+eng.Describe(args[2])+" is not the Stream/Name/Subject field of the request being authorised")
	}
	c.Floor(24)

	// ---- R15.5 the decision procedure itself
	c.Rule("R15.5", "K1")
	if fn := c.Fn("server.(*apiServer).ensureAuthorizationPermission"); fn != nil {
		cfgOff := eng.BoolEdges(fn, eng.LoadNamed("TLSClientAuthz", nil), false)
		ep := eng.CallsIn(fn, "server.apiServer.enforcePolicy")
		if len(ep) != 1 {
			c.Unresolved("single enforcePolicy call in ensureAuthorizationPermission")
		} else {
			epv := ep[0].(ssa.Value)
			okTrue := eng.BoolEdges(fn, func(v ssa.Value) bool { e, ok := v.(*ssa.Extract); return ok && e.Tuple == epv && e.Index == 0 }, true)
			errNil := eng.CmpEdges(fn, func(v ssa.Value) bool { e, ok := v.(*ssa.Extract); return ok && e.Tuple == epv && e.Index == 1 }, eng.NilConst, eng.EQ)
			idNonEmpty := eng.CmpEdges(fn, func(v ssa.Value) bool {
				e, ok := eng.Strip(v).(*ssa.Extract)
				return ok && e.Index == 0 && isTypeAssertTuple(e.Tuple)
			}, eng.StrConst(""), eng.NE)
			n := 0
			for _, r := range eng.Returns(fn) {
				if len(eng.RetVals(r)) != 1 || !eng.NilConst(eng.RetVals(r)[0]) {
					continue
				}
				n++
				// every path to "return nil": authz off, or (ok && err==nil && clientID != "")
				bad := ""
				if g, w := eng.GuardedBy(fn, r, append(append([]eng.Edge{}, cfgOff...), okTrue...)); !g {
					bad = "a path reaches `return nil` with authorisation on and without Enforce having answered true: " + w.String()
				} else if g, w := eng.GuardedBy(fn, r, append(append([]eng.Edge{}, cfgOff...), errNil...)); !g {
					bad = "a path reaches `return nil` without the Enforce error having been checked: " + w.String()
				} else if g, w := eng.GuardedBy(fn, r, append(append([]eng.Edge{}, cfgOff...), idNonEmpty...)); !g {
					bad = "a path reaches `return nil` without the client id having been checked non-empty: " + w.String()
				}
				c.Check(bad == "", "return nil in ensureAuthorizationPermission", c.Pos(r), "reached only with TLSClientAuthz off, or after clientID != \"\" ∧ err == nil ∧ ok", bad)
			}
			if n == 0 {
				c.Unresolved("`return nil` in ensureAuthorizationPermission")
			}
			// argument order (clientID, stream, apiMethod)
			a := ep[0].Common().Args
			okArgs := len(a) == 4 && eng.Param("stream")(a[2]) && eng.Param("apiMethod")(a[3]) && func() bool {
				e, ok := eng.Strip(a[1]).(*ssa.Extract)
				return ok && isTypeAssertTuple(e.Tuple)
			}()
			c.Check(okArgs, "enforcePolicy arguments", c.Pos(ep[0].(ssa.Instruction)), "called with (client id from the context, stream, apiMethod)", "enforcePolicy is not called with (clientID from ctx, stream, apiMethod) in this order")
		}
	}
	if fn := c.Fn("server.(*apiServer).enforcePolicy"); fn != nil {
		enf := eng.CallsIn(fn, "github.com/casbin/casbin/v2.Enforcer.Enforce")
		if len(enf) != 1 {
			c.Unresolved("single Enforce call in enforcePolicy")
		} else {
			call := enf[0].(*ssa.Call)
			// Enforce(rvals ...interface{}): the variadic slice is built from subject, object, action in order
			got := variadicElems(call.Call.Args[len(call.Call.Args)-1])
			ok := len(got) == 3 && eng.Param("subject")(got[0]) && eng.Param("object")(got[1]) && eng.Param("action")(got[2])
			c.Check(ok, "Enforce arguments", c.Pos(call), "Enforce(subject, object, action)", "Enforce is not called with exactly (subject, object, action)")
			// result returned unchanged
			// every way out answers with what Enforce said for this very question: a return that answers from anywhere else
			// (a remembered decision, a constant) is a decision the current policy did not make
			okRet, nRet := true, 0
			for _, r := range eng.Returns(fn) {
				if len(eng.RetVals(r)) == 2 {
					nRet++
					e0, ok0 := retSource(eng.RetVals(r)[0]).(*ssa.Extract)
					e1, ok1 := retSource(eng.RetVals(r)[1]).(*ssa.Extract)
					if !(ok0 && ok1 && e0.Tuple == call && e1.Tuple == call && e0.Index == 0 && e1.Index == 1) {
						okRet = false
					}
				}
			}
			okRet = okRet && nRet > 0
			c.Check(okRet, "enforcePolicy result", p.Pos(fn.Pos()), "returns Enforce's (bool, error) unchanged", "enforcePolicy does not return Enforce's results unchanged")
		}
	}
	// lock discipline on the enforcer
	lockField := p.Field("server", "authzEnforcer", "authzLock")
	if lockField == nil {
		c.Unresolved("field server.authzEnforcer.authzLock")
	}
	for _, s := range eng.Index(p).Sites("github.com/casbin/casbin/v2.Enforcer.Enforce", "github.com/casbin/casbin/v2.Enforcer.LoadPolicy") {
		if s.Outer() == "server.(*Server).startAPIServer" || s.Outer() == "server.(*Server).Start" {
			// initial load before the enforcer is published
			if !storedAfter(s, "authzEnforcer") {
				continue
			}
		}
		// an enforcer made in this very function (casbin.NewEnforcer's result) is not shared yet: nobody can race with it
		if ci, isCall := s.Instr.(ssa.CallInstruction); isCall && len(ci.Common().Args) > 0 {
			if mk := eng.AsCall(extractTuple(eng.Strip(ci.Common().Args[0]))); mk != nil && strings.HasPrefix(eng.CalleeRef(&mk.Call), "github.com/casbin/casbin/v2.NewEnforcer") {
				continue
			}
		}
		write := strings.HasSuffix(s.Callee, "LoadPolicy")
		held := eng.LockHeldAt(s.Fn, s.Instr, lockField, write)
		c.Check(held, s.Callee+" in "+s.Outer(), c.Pos(s.Instr),
			"authzLock is held ("+map[bool]string{true: "Lock", false: "RLock or Lock"}[write]+") on every path to the call",
			"the enforcer is used without holding authzLock"+map[bool]string{true: " exclusively", false: ""}[write]+": a reload can race with a decision")
	}
	c.WhoMayCall("Enforce", []string{"github.com/casbin/casbin/v2.Enforcer.Enforce"}, []string{"server.(*apiServer).enforcePolicy"}, []string{"server.(*apiServer).enforcePolicy"})
	c.Floor(6) // the six Enforce-side obligations; the reload's LoadPolicy site exists only in the in-place model (R15.9 demands a reload either way)

	// ---- R15.9 a reload reaches the decision; R15.10 the authorisation settings are written only by the configuration loader
	c.Rule("R15.9", "K5")
	ruleReloadReachesDecision(c)
	ruleReloadIsUnconditional(c)
	c.Floor(2)
	c.Rule("R15.10", "K3")
	ruleAuthzSwitchWriters(c)
	c.Floor(4)

	// ---- R15.7 acquire/release pairing of the enforcer lock
	c.Rule("R15.7", "K2")
	ruleLockPairing(c, "server/api.go", "server/signal.go")
	c.Floor(3)

	// ---- R11.1 (shared) storing a cursor needs a second permission, Publish on the cursors stream, checked inside
	// api.Publish: nothing may be remembered before that publish succeeded
	c.Rule("R11.1", "K1")
	ruleCursorPublishThenCache(c)
	c.Floor(4)

	// ---- R15.6 config key agreement
	runConfigKeyAgreement(c, "R15.6")
	// ---- R15.8 (shared) the configuration keys this property's switches hang on reach their fields
	ruleConfigWiring(c, "R15.8")

}

func isReqValue(v ssa.Value) bool {
	v = eng.Strip(v)
	switch x := v.(type) {
	case *ssa.Parameter:
		return strings.HasPrefix(x.Name(), "req")
	case *ssa.Extract:
		// req, err := stream.Recv()
		if c, ok := x.Tuple.(*ssa.Call); ok {
			return strings.HasSuffix(eng.CalleeRef(&c.Call), "StreamingServer.Recv")
		}
	}
	return false
}

func isTypeAssertTuple(v ssa.Value) bool {
	ta, ok := v.(*ssa.TypeAssert)
	return ok && ta.CommaOk
}

// retSource looks through the defer-spill of results.
func retSource(v ssa.Value) ssa.Value {
	if u, ok := v.(*ssa.UnOp); ok {
		if a, ok := u.X.(*ssa.Alloc); ok {
			var st ssa.Value
			n := 0
			for _, r := range *a.Referrers() {
				if s, ok := r.(*ssa.Store); ok && s.Addr == a {
					st = s.Val
					n++
				}
			}
			if n == 1 {
				return st
			}
		}
	}
	return v
}

// variadicElems recovers the elements stored into the backing array of a variadic argument slice.
func variadicElems(v ssa.Value) []ssa.Value {
	sl, ok := v.(*ssa.Slice)
	if !ok {
		return nil
	}
	al, ok := sl.X.(*ssa.Alloc)
	if !ok {
		return nil
	}
	m := map[int64]ssa.Value{}
	for _, r := range *al.Referrers() {
		ia, ok := r.(*ssa.IndexAddr)
		if !ok {
			continue
		}
		idx, ok := eng.ConstVal(ia.Index)
		if !ok {
			return nil
		}
		for _, rr := range *ia.Referrers() {
			if st, ok := rr.(*ssa.Store); ok {
				m[idx] = st.Val
			}
		}
	}
	out := make([]ssa.Value, len(m))
	for i := range out {
		x, ok := m[int64(i)]
		if !ok {
			return nil
		}
		out[i] = x
	}
	return out
}

// cellEdges: when the authz result is stored into a multi-assignment variable (err = authz(...)), the nil test reads the
// cell; return edges on which a load of that cell, dominated by the store and with no other store in between, is nil.
func cellEdges(fn *ssa.Function, v ssa.Value) []eng.Edge {
	var out []eng.Edge
	refs := v.Referrers()
	if refs == nil {
		return nil
	}
	for _, r := range *refs {
		st, ok := r.(*ssa.Store)
		if !ok || st.Val != v {
			continue
		}
		cell := st.Addr
		for _, b := range fn.Blocks {
			if len(b.Instrs) == 0 {
				continue
			}
			iff, ok := b.Instrs[len(b.Instrs)-1].(*ssa.If)
			if !ok {
				continue
			}
			cond, neg := eng.CondPolarity(iff.Cond)
			bo, ok := cond.(*ssa.BinOp)
			if !ok {
				continue
			}
			ld, ok := bo.X.(*ssa.UnOp)
			if !ok || ld.X != cell || !eng.NilConst(bo.Y) {
				continue
			}
			// the load must see this store: no path from another store to the cell reaches the load without passing st
			other := false
			for _, rr := range *cell.Referrers() {
				if s2, ok := rr.(*ssa.Store); ok && s2 != st && s2.Addr == cell {
					q := &eng.PathQuery{Fn: fn, FromAfter: []ssa.Instruction{s2}, Target: func(x ssa.Instruction) bool { return x == ld }, CutInstr: func(x ssa.Instruction) bool { return x == st }}
					if q.Find() != nil {
						other = true
					}
				}
			}
			if other {
				continue
			}
			eq := bo.Op.String() == "=="
			if neg {
				eq = !eq
			}
			if eq {
				out = append(out, eng.Edge{From: b, Succ: 0})
			} else {
				out = append(out, eng.Edge{From: b, Succ: 1})
			}
		}
	}
	return out
}

// storedAfter: whether the enclosing function publishes the enforcer object (stores to a field with that name) — the
// initial LoadPolicy happens on a not yet published enforcer.
func storedAfter(s eng.Site, field string) bool {
	pub := false
	eng.Instrs(s.Fn, func(in ssa.Instruction) {
		if st, ok := in.(*ssa.Store); ok {
			if fa, ok := st.Addr.(*ssa.FieldAddr); ok {
				t := fa.X.Type().Underlying().(*types.Pointer).Elem().Underlying().(*types.Struct)
				if t.Field(fa.Field).Name() == field {
					// published after the call?
					q := &eng.PathQuery{Fn: s.Fn, FromAfter: []ssa.Instruction{in}, Target: func(x ssa.Instruction) bool { return x == s.Instr }}
					if q.Find() != nil {
						pub = true
					}
				}
			}
		}
	})
	return pub
}

// extractTuple returns the tuple a value was extracted from, or the value itself.
func extractTuple(v ssa.Value) ssa.Value {
	if e, ok := v.(*ssa.Extract); ok {
		return e.Tuple
	}
	return v
}
