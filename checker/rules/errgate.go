package rules

import (
	"fmt"
	"go/types"
	"path/filepath"
	"sort"
	"strings"

	"golang.org/x/tools/go/ssa"

	"lbcheck/eng"
	"lbcheck/ir"
)

// ruleErrorGates (R01.13, shared): in the commit log package an error from a callee is never mistaken for success. For
// every call whose last result is an error that the function goes on to test, the function's success returns (`return …,
// nil`) are reachable from the call only across the call's err == nil edge — or across an edge on which the error was
// recognised as one of the package's sentinels (a handled case, e.g. ErrSegmentExists in the roll, io.EOF at the end of a
// scan). A negated or inverted test (`if err == nil { return err }`) makes the failing call look like a success and lets
// the function carry on with a half-written segment, index or list.
func ruleErrorGates(c *eng.Ctx, pkgs ...string) int {
	want := map[string]bool{}
	for _, k := range pkgs {
		want[k] = true
	}
	return ruleErrorGatesWhere(c, fmt.Sprint(pkgs), func(fn *ssa.Function) bool { return fn.Pkg != nil && want[ir.Short(fn.Pkg.Pkg.Path())] })
}

// serverGateExceptions: places in package server where going on after a failed call is the design (function → callee → why).
// "*" stands for every callee of the function.
var serverGateExceptions = map[string]map[string]string{
	"server.(*raftNode).applyOperation":             {"github.com/hashicorp/raft.Future.Error": "the failed barrier future is handed to the caller, which reads its error"},
	"server.(*publishAsyncSession).publishLoop":     {"*": "a failure of one message is reported on the stream and the loop goes on to the next; the function's success return is the end of the client's stream"},
	"server.(*cursorManager).getLatestCursorOffset": {"server/protocol.Cursor.Unmarshal": "an undecodable message in the cursors stream is logged and skipped, the scan goes on"},
	"server.(*Server).Start":                        {"server/telemetry.New": "telemetry is optional: a collector that cannot be set up is logged, the server starts"},
}

// ruleServerErrorGates (R01.13s): the error-gate rule over the functions of package server that live in the files the
// property is anchored in.
func ruleServerErrorGates(c *eng.Ctx, files ...string) int {
	inFile := map[string]bool{}
	for _, f := range files {
		inFile[f] = true
	}
	return ruleErrorGatesWhere(c, "package server, files "+strings.Join(files, ", "), func(fn *ssa.Function) bool {
		if fn.Pkg == nil || ir.Short(fn.Pkg.Pkg.Path()) != "server" {
			return false
		}
		pos := c.P.Fset.Position(fn.Pos())
		return inFile[filepath.Base(pos.Filename)]
	})
}

func ruleErrorGatesWhere(c *eng.Ctx, what string, include func(fn *ssa.Function) bool) int {
	p := c.P
	pkgs := what
	errT := types.Universe.Lookup("error").Type()
	n := 0
	type finding struct{ construct, pos, detail string }
	var bad []finding
	for _, fn := range p.Funcs {
		if !include(fn) {
			continue
		}
		exc := serverGateExceptions[ir.FuncKey(ir.Outermost(fn))]
		// success returns: the error result is the constant nil
		var succ []ssa.Instruction
		idx := errorResultIndex(fn.Signature)
		if idx < 0 {
			continue
		}
		for _, r := range eng.Returns(fn) {
			rv := eng.RetVals(r)
			if idx < len(rv) && eng.NilConst(rv[idx]) {
				succ = append(succ, r)
			}
		}
		if len(succ) == 0 {
			continue
		}
		isSucc := func(x ssa.Instruction) bool {
			for _, s := range succ {
				if x == s {
					return true
				}
			}
			return false
		}
		nFn, badBefore := 0, len(bad)
		eng.Instrs(fn, func(in ssa.Instruction) {
			call, ok := in.(*ssa.Call)
			if !ok {
				return
			}
			sig := call.Call.Signature()
			if sig == nil || sig.Results().Len() == 0 || !types.Identical(sig.Results().At(sig.Results().Len()-1).Type(), errT) {
				return
			}
			errOf := func(v ssa.Value) bool {
				if sig.Results().Len() == 1 {
					return v == ssa.Value(call)
				}
				e, isE := v.(*ssa.Extract)
				return isE && e.Tuple == ssa.Value(call) && e.Index == sig.Results().Len()-1
			}
			switch eng.CalleeRef(&call.Call) {
			case "os.Stat", "os.Lstat":
				return // existence probes: the error is the answer
			}
			if exc != nil && (exc["*"] != "" || exc[eng.CalleeRef(&call.Call)] != "") {
				return // going on after this failure is the design (table above)
			}
			okEdge := eng.CmpEdges(fn, errOf, eng.NilConst, eng.EQ)
			if len(okEdge) == 0 {
				return // the error is not tested against nil here (returned as is, or deliberately dropped: other rules)
			}
			// handled sentinels
			handled := eng.CmpEdges(fn, errOf, func(v ssa.Value) bool { return globalLoad(v) != nil }, eng.EQ)
			// ... and the errors the function classifies as harmless (a file that is already gone)
			handled = append(handled, eng.BoolEdges(fn, func(v ssa.Value) bool {
				cl, isCall := v.(*ssa.Call)
				if !isCall || len(cl.Call.Args) == 0 || !errOf(cl.Call.Args[0]) {
					return false
				}
				switch eng.CalleeRef(&cl.Call) {
				case "os.IsNotExist", "os.IsExist", "errors.Is":
					return true
				}
				return false
			}, true)...)
			n++
			nFn++
			q := &eng.PathQuery{Fn: fn, FromAfter: []ssa.Instruction{call}, Target: isSucc, CutEdges: append(append([]eng.Edge{}, okEdge...), handled...),
				CutInstr: func(x ssa.Instruction) bool { return x == ssa.Instruction(call) }}
			if w := q.Find(); w != nil {
				bad = append(bad, finding{"error of " + eng.CalleeRef(&call.Call) + " gates success in " + ir.FuncKey(fn), c.Pos(call),
					"a success return is reachable although the call failed (path " + w.String() + "): the failure is taken for success and the function carries on with what the failed step left behind"})
			}
		})
		if nFn > 0 && len(bad) == badBefore {
			c.OK("error gates in "+ir.FuncKey(fn), p.Pos(fn.Pos()), fmt.Sprintf("%d tested error result(s): success is reachable only across err == nil or a handled sentinel", nFn))
		}
	}
	sort.Slice(bad, func(i, j int) bool { return bad[i].construct+bad[i].pos < bad[j].construct+bad[j].pos })
	for _, b := range bad {
		c.Violate(b.construct, b.pos, b.detail)
	}
	c.Check(n > 0, "tested error results found", "", "error gates evaluated", "no tested error result found in the packages given")
	c.Note("error gates: %d tested error results in %v, %d failing", n, pkgs, len(bad))
	return n
}

// ErrorGatesProbe runs the error-gate rule over the given packages and returns the findings (used by cmd/dbg).
func ErrorGatesProbe(p *ir.Program, pkgs ...string) []*eng.Obligation {
	c := eng.NewCtx(p, "probe", "quick")
	c.Rule("PROBE", "K1")
	ruleErrorGates(c, pkgs...)
	return c.Obs
}

// LockTableProbe evaluates CheckFieldLocks for one field (used by cmd/dbg).
func LockTableProbe(p *ir.Program, pkg, typ, field, lock string) []*eng.Obligation {
	c := eng.NewCtx(p, "probe", "quick")
	c.Rule("PROBE", "K4")
	c.CheckFieldLocks(eng.LockRule{Field: p.Field(pkg, typ, field), Lock: lock, Exempt: map[string]string{}}, typ+"."+field)
	return c.Obs
}
