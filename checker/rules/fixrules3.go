package rules

import (
	"go/token"
	"go/types"
	"strings"

	"golang.org/x/tools/go/ssa"

	"lbcheck/eng"
	"lbcheck/ir"
)

// Rules that accompany the repairs F84–F88 (second batch of the round-4 defects in the unchanged code).

// isLoopOrExit matches the instructions that end one iteration of a map range (the next Next) or the function.
func isLoopOrExit(x ssa.Instruction) bool {
	switch x.(type) {
	case *ssa.Next, *ssa.Return:
		return true
	}
	return false
}

// ruleWitnessReportsExpire (R07.10, F84): a report counts towards the quorum only for the failover's timeout. The shared
// expiry timer is re-armed by every report — also by one follower repeating its own — so it cannot age individual witnesses:
// report() itself compares the age of each witness's report with Timeout() and forgets the ones that are older, before the
// count.
func ruleWitnessReportsExpire(c *eng.Ctx) {
	p := c.P
	fn := c.Fn("server.(*failoverStatus).report")
	if fn == nil {
		return
	}
	wf := p.Field("server", "failoverStatus", "witnesses")
	age := eng.Call(-1, "time.Time.Sub", "time.Since")
	timeout := eng.Call(-1, "server.failover.Timeout")
	old := append(eng.CmpEdges(fn, age, timeout, eng.GT), eng.CmpEdges(fn, age, timeout, eng.GE)...)
	young := append(eng.CmpEdges(fn, age, timeout, eng.LE), eng.CmpEdges(fn, age, timeout, eng.LT)...)
	var dels []ssa.Instruction
	eng.Instrs(fn, func(in ssa.Instruction) {
		if call, isCall := in.(*ssa.Call); isCall && isBuiltinCall(call, "delete") && eng.Load(wf, nil)(call.Call.Args[0]) {
			dels = append(dels, in)
		}
	})
	isDel := func(x ssa.Instruction) bool {
		for _, d := range dels {
			if d == x {
				return true
			}
		}
		return false
	}
	ok, why := true, ""
	switch {
	case len(old) == 0 && len(young) == 0:
		ok, why = false, "report() never compares the age of a witness's report with Timeout()"
	case len(old) == 0:
		// the age test is one operand of a named condition (`stillCounts := IsWitness(…) && age <= timeout; if !stillCounts`):
		// no edge says "old" for certain, but the edges that say "young" do — an iteration that keeps the witness crosses one
		for _, ml := range eng.MapLoops(fn) {
			if !eng.Load(wf, nil)(ml.Range.X) {
				continue
			}
			var into []eng.Edge
			for k, sc := range ml.Header.Succs {
				if ml.Body[sc] {
					into = append(into, eng.Edge{From: ml.Header, Succ: k})
				}
			}
			q := &eng.PathQuery{Fn: fn, FromEdges: into, CutInstr: isDel, CutEdges: young, Target: isLoopOrExit}
			if w := q.Find(); w != nil {
				ok, why = false, "a witness can stay in the table without its report being known to be younger than Timeout() ("+w.String()+")"
			}
		}
	case len(dels) == 0:
		ok, why = false, "report() never deletes from the witness table"
	default:
		q := &eng.PathQuery{Fn: fn, FromEdges: old, CutInstr: isDel, Target: isLoopOrExit}
		if w := q.Find(); w != nil {
			ok, why = false, "a witness whose report is older than Timeout() can stay in the table ("+w.String()+")"
		}
		// ... and the pruning comes before the count
		eng.Instrs(fn, func(in ssa.Instruction) {
			bo, isBo := in.(*ssa.BinOp)
			if !isBo || !(eng.Len(eng.Load(wf, nil))(bo.X) || eng.Len(eng.Load(wf, nil))(bo.Y)) {
				return
			}
			q := &eng.PathQuery{Fn: fn, FromAfter: []ssa.Instruction{in}, TargetEdge: func(e eng.Edge) bool {
				for _, o := range old {
					if o == e {
						return true
					}
				}
				return false
			}}
			if q.Find() != nil {
				ok, why = false, "the witnesses are counted before the old reports are forgotten"
			}
		})
	}
	c.Check(ok, "a report counts for the failover timeout only", p.Pos(fn.Pos()), "delete(f.witnesses, w) when now.Sub(report time) > Timeout(), before len(f.witnesses) > quorum", why+": the expiry timer is re-armed by every report, so while one follower keeps repeating its report (it does on every fetch round) a report made arbitrarily long ago still counts — two reports that were never made within one timeout window depose a healthy leader")
}

// ruleGroupMembersOnlyWhileLeading (R13.10, F85): the leader check of a group Subscribe is made in the API layer, before
// partition.Subscribe takes consumersMu. cancelGroupSubscribers (run when the leadership is lost) therefore leaves a mark
// under consumersMu, Subscribe refuses to register a member while the mark is set, and becoming the leader clears it.
func ruleGroupMembersOnlyWhileLeading(c *eng.Ctx) {
	p := c.P
	cancel := c.Fn("server.(*partition).cancelGroupSubscribers")
	sub := c.Fn("server.(*partition).Subscribe")
	lead := c.Fn("server.(*partition).becomeLeader")
	if cancel == nil || sub == nil || lead == nil {
		return
	}
	consumers := p.Field("server", "partition", "consumers")
	// the marks: boolean fields of the partition that cancelGroupSubscribers sets to true
	type mark struct {
		name string
		m    eng.VM
		is   func(fa *ssa.FieldAddr) bool
	}
	var marks []mark
	for _, st := range eng.FieldStores(cancel, func(fa *ssa.FieldAddr) bool { return true }) {
		fa := st.Addr.(*ssa.FieldAddr)
		fv := eng.FieldOfAddr(fa)
		if fv == nil || fieldIs(fa, consumers) {
			continue
		}
		if k, isK := eng.Strip(st.Val).(*ssa.Const); !isK || k.Value == nil || k.Value.String() != "true" {
			continue
		}
		fv2 := fv
		marks = append(marks, mark{fv.Name(), eng.Load(fv2, nil), func(fa *ssa.FieldAddr) bool { return fieldIs(fa, fv2) }})
	}
	var regs []ssa.Instruction
	eng.Instrs(sub, func(in ssa.Instruction) {
		if mu, isMU := in.(*ssa.MapUpdate); isMU && eng.Load(consumers, nil)(mu.Map) {
			regs = append(regs, in)
		}
	})
	if len(regs) == 0 {
		c.Unresolved("the registration p.consumers[groupID] = … in partition.Subscribe")
		return
	}
	ok, why := false, "cancelGroupSubscribers leaves no mark that Subscribe could test"
	for _, m := range marks {
		clear := eng.BoolEdges(sub, m.m, false)
		guarded := len(clear) > 0
		// the test and the registration sit in two blocks that are both conditional on the group id: paths on which the id
		// is empty at one test and not at the other do not exist
		noGroup := eng.CmpEdges(sub, eng.AnyV, eng.StrConst(""), eng.EQ)
		for _, r := range regs {
			r := r
			q := &eng.PathQuery{Fn: sub, FromEntry: true, Target: func(x ssa.Instruction) bool { return x == r }, CutEdges: append(append([]eng.Edge{}, clear...), noGroup...)}
			if q.Find() != nil {
				guarded = false
			}
		}
		if !guarded {
			why = "the registration in Subscribe is not guarded by a test of partition." + m.name
			continue
		}
		// becoming the leader clears the mark
		cleared := false
		for _, st := range eng.FieldStores(lead, m.is) {
			if k, isK := eng.Strip(st.Val).(*ssa.Const); isK && k.Value != nil && k.Value.String() == "false" {
				cleared = true
			}
		}
		if !cleared {
			why = "becomeLeader does not clear partition." + m.name + ": a server that led, followed and leads again refuses every group subscriber"
			continue
		}
		ok = true
		n := c.CheckFieldLocks(eng.LockRule{Field: p.Field("server", "partition", m.name), Lock: "consumersMu", Exempt: map[string]string{}}, "partition."+m.name)
		_ = n
	}
	c.Check(ok, "a group member is registered only while the server leads the partition", c.Pos(regs[0]), "cancelGroupSubscribers sets a mark under consumersMu; p.consumers[groupID] = … only when it is clear; becomeLeader clears it", why+": a group subscriber whose request passed the API's leader check just before the leadership was lost is registered after cancelGroupSubscribers ran; nothing cancels it any more, while the new leader admits the group's next subscriber — two members of one group consume the partition")
}

// ruleAppendRechecksReadonlyUnderTheLock (R03.13, F86): SetReadonly publishes the flag and then takes l.mu to tell the
// readers parked at the end of the log that nothing more will come. Append therefore tests the flag again once it holds
// l.mu (read side): an append that passed only the test before the lock can write after the readers were told.
func ruleAppendRechecksReadonlyUnderTheLock(c *eng.Ctx) {
	p := c.P
	if fn := c.Fn(cl + "(*commitLog).Append"); fn != nil {
		locks := eng.CallsIn(fn, "sync.RWMutex.RLock", "sync.RWMutex.Lock")
		writes := eng.IsCallTo(cl+"commitLog.append", cl+"segment.WriteMessageSet")
		if len(locks) == 0 {
			c.Unresolved("l.mu.RLock() in commitLog.Append")
		} else {
			var from []ssa.Instruction
			for _, l := range locks {
				from = append(from, l.(ssa.Instruction))
			}
			writable := eng.BoolEdges(fn, eng.Call(-1, cl+"commitLog.IsReadonly"), false)
			q := &eng.PathQuery{Fn: fn, FromAfter: from, Target: writes, CutEdges: writable}
			w := q.Find()
			c.Check(w == nil && len(writable) > 0, "Append tests readonly while it holds the log lock", p.Pos(fn.Pos()), "between l.mu.RLock() and the write: if l.IsReadonly() { return ErrCommitLogReadonly }", "Append tests IsReadonly() only before it takes l.mu ("+w.String()+"): SetReadonly(true) in between tells the committed readers at the end of the log that it is readonly — their subscriptions end — and the append goes through anyway; the message is committed and the subscribers positioned right before it never receive it")
		}
	}
	if fn := c.Fn(cl + "(*commitLog).SetReadonly"); fn != nil {
		locks := eng.CallsIn(fn, "sync.RWMutex.Lock")
		if len(locks) == 0 {
			c.Unresolved("l.mu.Lock() in commitLog.SetReadonly")
			return
		}
		for _, l := range locks {
			ok, w := eng.PrecededBy(fn, l.(ssa.Instruction), eng.IsCallTo("sync/atomic.StoreInt32", "sync/atomic.Int32.Store", "sync/atomic.Bool.Store"))
			c.Check(ok, "SetReadonly publishes the flag before it takes the log lock", c.Pos(l.(ssa.Instruction)), "atomic store of l.readonly, then l.mu.Lock(); notifyReadonly(); l.mu.Unlock()", "SetReadonly can take l.mu before the flag is stored ("+w.String()+"): an appender that acquires the read lock after the readers were notified still sees a writable log")
		}
	}
}

// readableList matches, in fn, a segment list from which the leading segments marked deleted were dropped: the result of
// readableSegments(), or (inlined / re-written) a phi over l.segments and re-slicings of it in a function that tests IsDeleted.
func readableList(fn *ssa.Function, segF eng.VM) eng.VM {
	tests := len(eng.BoolEdges(fn, eng.Call(-1, cl+"segment.IsDeleted"), true)) > 0
	var m eng.VM
	var leafOK func(v ssa.Value, seen map[ssa.Value]bool) bool
	leafOK = func(v ssa.Value, seen map[ssa.Value]bool) bool {
		if seen[v] {
			return true
		}
		seen[v] = true
		switch x := v.(type) {
		case *ssa.Phi:
			for _, e := range x.Edges {
				if !leafOK(e, seen) {
					return false
				}
			}
			return true
		case *ssa.Slice:
			return leafOK(x.X, seen)
		}
		return segF(v)
	}
	m = func(v ssa.Value) bool {
		if eng.Call(-1, cl+"commitLog.readableSegments")(v) {
			return true
		}
		ph, isPhi := v.(*ssa.Phi)
		return isPhi && tests && leafOK(ph, map[ssa.Value]bool{})
	}
	return m
}

// ruleReadPathSkipsDeletedSegments (R09.9, F87): a retention pass marks the segments it removes and takes them out of
// l.segments only after all of their files are gone, so that a pass which failed part of the way is retried. Until then the
// marked segments are closed (or about to be): what the log hands to readers, and the oldest offset it reports, begin at the
// first segment that is not marked.
func ruleReadPathSkipsDeletedSegments(c *eng.Ctx) {
	p := c.P
	segF := eng.Load(p.Field("server/commitlog", "commitLog", "segments"), nil)
	if fn := c.Fn(cl + "(*commitLog).Segments"); fn != nil {
		rl := readableList(fn, segF)
		ok := len(eng.Returns(fn)) > 0
		for _, r := range eng.Returns(fn) {
			rv := eng.RetVals(r)
			if len(rv) != 1 || !rl(rv[0]) {
				ok = false
			}
		}
		c.Check(ok, "Segments() hands out readable segments only", p.Pos(fn.Pos()), "return l.readableSegments()", "Segments() returns l.segments as it is: after a retention pass that failed part of the way (or while one is running) readers are positioned in segments whose files are closed or removed, and stay there for as long as the fault persists")
	}
	if fn := c.Fn(cl + "(*commitLog).OldestOffset"); fn != nil {
		rl := readableList(fn, segF)
		ok := false
		for _, fo := range eng.CallsIn(fn, cl+"segment.FirstOffset") {
			if ia := indexOfLoad(fo.Common().Args[0]); ia != nil && rl(ia.X) {
				ok = true
			} else {
				ok = false
				break
			}
		}
		c.Check(ok, "OldestOffset() is the first readable segment's", p.Pos(fn.Pos()), "l.readableSegments()[0].FirstOffset()", "OldestOffset() answers the first offset of a segment a retention pass has already marked deleted: the log reports an oldest offset that is gone and cannot be read from it")
	}
	if fn := c.FnQuiet(cl + "(*commitLog).readableSegments"); fn != nil {
		marked := eng.BoolEdges(fn, eng.Call(-1, cl+"segment.IsDeleted"), true)
		several := eng.CmpEdges(fn, eng.Len(eng.AnyV), eng.IntConst(1), eng.GT)
		n, ok := 0, true
		eng.Instrs(fn, func(in ssa.Instruction) {
			sl, isSl := in.(*ssa.Slice)
			if !isSl {
				return
			}
			n++
			g1, _ := eng.GuardedBy(fn, sl, marked)
			g2, _ := eng.GuardedBy(fn, sl, several)
			if !g1 || !g2 || len(marked) == 0 || len(several) == 0 || sl.High != nil || !eng.IntConst(1)(sl.Low) {
				ok = false
			}
		})
		// the segment tested is the first of the list that is about to be shortened
		for _, d := range eng.CallsIn(fn, cl+"segment.IsDeleted") {
			if ia := indexOfLoad(d.Common().Args[0]); ia == nil || !eng.IntConst(0)(ia.Index) {
				ok = false
			}
		}
		c.Check(ok && n > 0, "readableSegments drops exactly the leading marked segments", p.Pos(fn.Pos()), "for len(s) > 1 && s[0].IsDeleted() { s = s[1:] }", "readableSegments shortens the list other than by dropping its first segment while that one is marked deleted and another remains: live segments are hidden from readers, or the list can become empty (OldestOffset indexes it)")
	}
	_ = token.ADD
}

// ruleRestoreDeletesStreamsMissingFromSnapshot (R06.9, F88): a server that learns of a stream deletion through an installed
// snapshot (rather than the DELETE_STREAM entry) must end up where the others are: without the stream's data. Restore hands
// the snapshot's streams to the reset, which deletes — not just closes — every stream the snapshot does not contain.
func ruleRestoreDeletesStreamsMissingFromSnapshot(c *eng.Ctx) {
	p := c.P
	restore := c.Fn("server.(*Server).Restore")
	if restore == nil {
		return
	}
	resets := eng.CallsIn(restore, "server.metadataAPI.Reset", "server.metadataAPI.ResetForRestore")
	if len(resets) != 1 {
		c.Unresolved("the metadata reset in Server.Restore")
		return
	}
	ref := eng.CalleeRef(resets[0].Common())
	okCall := ref == "server.metadataAPI.ResetForRestore"
	if okCall {
		okCall = false
		for _, a := range eng.AllArgs(resets[0].Common()) {
			if fv, _ := eng.FieldRead(eng.Strip(a)); fv != nil && fv.Name() == "Streams" {
				okCall = true
			}
		}
	}
	c.Check(okCall, "Restore tells the reset which streams the snapshot holds", c.Pos(resets[0].(ssa.Instruction)), "s.metadata.ResetForRestore(snap.Streams)", "Restore resets the metadata with "+ref+", which only closes the streams: a stream deleted by an operation the snapshot covers keeps <data>/streams/<name> on this server, and when a stream of that name is created again the messages of the deleted stream are back")
	fn := c.FnQuiet("server.(*metadataAPI).ResetForRestore")
	if fn == nil {
		return
	}
	dels := eng.CallsIn(fn, "server.metadataAPI.deleteStreamData", "server.metadataAPI.deleteStream")
	// a stream is deleted exactly when the lookup in the snapshot's names fails
	missing := eng.BoolEdges(fn, func(v ssa.Value) bool {
		e, isE := v.(*ssa.Extract)
		if !isE || e.Index != 1 {
			return false
		}
		lk, isLk := e.Tuple.(*ssa.Lookup)
		return isLk && lk.CommaOk
	}, false)
	ok := len(dels) > 0 && len(missing) > 0
	for _, d := range dels {
		if g, _ := eng.GuardedBy(fn, d.(ssa.Instruction), missing); !g {
			ok = false
		}
	}
	if ok {
		// every missing stream: from the failed lookup the delete is not skipped
		q := &eng.PathQuery{Fn: fn, FromEdges: missing, CutInstr: eng.IsCallTo("server.metadataAPI.deleteStreamData", "server.metadataAPI.deleteStream"), Target: func(x ssa.Instruction) bool {
			return isLoopOrExit(x) || eng.IsCallTo("server.metadataAPI.reset")(x)
		}}
		if q.Find() != nil {
			ok = false
		}
	}
	// ... and the reset proper still runs
	rs := eng.CallsIn(fn, "server.metadataAPI.reset")
	c.Check(ok && len(rs) > 0, "the reset for a restore deletes the streams the snapshot lacks", p.Pos(fn.Pos()), "for each existing stream not among the snapshot's: deleteStreamData(stream); then reset()", "ResetForRestore does not delete exactly the streams that are missing from the snapshot before it resets the store")
	c.WhoMayCall("deleteStreamData", []string{"server.metadataAPI.deleteStreamData"}, []string{"server.(*metadataAPI).deleteStream", "server.(*metadataAPI).ResetForRestore"}, []string{"server.(*metadataAPI).deleteStream", "server.(*metadataAPI).ResetForRestore"})
}

// ruleCursorScanCoversAcknowledgedTail (R11.8, known finding K15): a cursor is acknowledged under ALL once every in-sync
// replica stores it; a follower learns the leader's high watermark one replication round trip later. The server that takes
// over therefore holds acknowledged cursors ABOVE its own watermark until the in-sync set (which still contains the dead
// leader) has caught up or shrunk. A fetch that scans committed data only has to relate the watermark it scans below to
// the end the log had when leadership was taken — wait for it, or look above it. The rule asks for that relation: a
// comparison of the HighWatermark() answer with something other than a constant on the fetch path.
func ruleCursorScanCoversAcknowledgedTail(c *eng.Ctx) {
	fn := c.Fn("server.(*cursorManager).getLatestCursorOffset")
	if fn == nil {
		return
	}
	hw := eng.Call(-1, "server/commitlog.CommitLog.HighWatermark", "server/commitlog.commitLog.HighWatermark")
	seen, related := false, false
	check := func(f *ssa.Function) {
		eng.Instrs(f, func(in ssa.Instruction) {
			bo, isBo := in.(*ssa.BinOp)
			if !isBo {
				return
			}
			switch bo.Op {
			case token.EQL, token.NEQ, token.LSS, token.LEQ, token.GTR, token.GEQ:
			default:
				return
			}
			for _, pr := range [][2]ssa.Value{{bo.X, bo.Y}, {bo.Y, bo.X}} {
				if hw(pr[0]) {
					seen = true
					if !eng.IsConst(eng.Strip(pr[1])) {
						related = true
					}
				}
			}
		})
	}
	check(fn)
	for _, a := range fn.AnonFuncs {
		check(a)
	}
	if !seen {
		c.Unresolved("the test of partition.log.HighWatermark() in getLatestCursorOffset")
		return
	}
	c.Check(related, "a fetch on a new leader covers the cursors acknowledged above its trailing watermark", c.P.Pos(fn.Pos()), "the watermark the scan stays below is compared with the end the log had when this server became the leader", "getLatestCursorOffset scans committed data below partition.log.HighWatermark() and compares that watermark with constants only")
}

// ruleEmptyBatchIsANoOp (R01.16, F90): the segment's write assumes at least one entry (it indexes the first and the last); an
// Append without messages must not reach it — it assigns no offsets and leaves the log alone.
func ruleEmptyBatchIsANoOp(c *eng.Ctx) {
	fn := c.Fn(cl + "(*commitLog).Append")
	if fn == nil {
		return
	}
	some := append(eng.CmpEdges(fn, eng.Len(eng.Param("msgs")), eng.IntConst(0), eng.NE), eng.CmpEdges(fn, eng.Len(eng.Param("msgs")), eng.IntConst(0), eng.GT)...)
	n := 0
	for _, w := range eng.CallsIn(fn, cl+"commitLog.append", cl+"segment.WriteMessageSet", cl+"commitLog.checkAndPerformSplit") {
		n++
		g, wit := eng.GuardedBy(fn, w.(ssa.Instruction), some)
		c.Check(g && len(some) > 0, "an append without messages does not reach "+shortRef(eng.CalleeRef(w.Common())), c.Pos(w.(ssa.Instruction)), "if len(msgs) == 0 { return []int64{}, nil } before anything is rolled or written", "Append hands an empty batch on ("+wit.String()+"): segment.write indexes entries[0] and entries[len-1] and the process panics — the property quantifies over all batch sizes")
	}
	if n == 0 {
		c.Unresolved("the roll / write calls of commitLog.Append")
	}
}

// ruleKeylessMessagesAreNotTracked (R08.1 extension, F91): messages without a key are always kept, so the key scan has
// nothing to remember for them — and must not remember them under string(nil) == "", which is the entry of messages whose
// key is present and empty: their latest offset would be a key-less message's.
func ruleKeylessMessagesAreNotTracked(c *eng.Ctx) {
	fn := c.Fn(cl + "(*compactCleaner).scanSegments")
	if fn == nil {
		return
	}
	keyed := eng.CmpEdges(fn, eng.Call(-1, cl+"SerializedMessage.Key"), eng.NilConst, eng.NE)
	ls := eng.CallsIn(fn, "sync.Map.LoadOrStore")
	if len(ls) == 0 {
		c.Unresolved("keyOffsets.LoadOrStore in scanSegments")
		return
	}
	for _, l := range ls {
		g, w := eng.GuardedBy(fn, l.(ssa.Instruction), keyed)
		c.Check(g && len(keyed) > 0, "only messages with a key enter the key table", c.Pos(l.(ssa.Instruction)), "key := ms.Message().Key(); if key == nil { continue }", "scanSegments records messages without a key ("+w.String()+"): string(nil) is the entry of the empty, non-nil key too, so the latest message with an empty key is removed as soon as a later key-less message exists")
	}
}

// ruleNothingCommittedMeansWait (R03.14, F92): with a high watermark of -1 nothing is committed, whatever offset is asked
// for. A committed reader is then built on the waiting path (no segment, resumes when the watermark moves): the positioned
// path takes its read limit from getHWPos, which it skips for hw == -1, and would read without a limit.
func ruleNothingCommittedMeansWait(c *eng.Ctx) {
	p := c.P
	fn := c.Fn(cl + "(*commitLog).newReaderCommitted")
	if fn == nil {
		return
	}
	hw := eng.Call(-1, cl+"commitLog.HighWatermark")
	some := append(eng.CmpEdges(fn, hw, eng.IntConst(-1), eng.NE), eng.CmpEdges(fn, hw, eng.IntConst(-1), eng.GT)...)
	some = append(some, eng.CmpEdges(fn, hw, eng.IntConst(0), eng.GE)...)
	// the positioned reader: a committedReader literal whose seg field is stored from a segment lookup
	segF := p.Field(clPkg, "committedReader", "seg")
	n := 0
	for _, st := range eng.FieldStores(fn, func(fa *ssa.FieldAddr) bool { return fieldIs(fa, segF) }) {
		if eng.NilConst(eng.Strip(st.Val)) {
			continue
		}
		n++
		g, w := eng.GuardedBy(fn, st, some)
		c.Check(g && len(some) > 0, "a committed reader is positioned only when something is committed", c.Pos(st), "offset > hw || hw == -1 || OldestOffset() == -1 leads to the waiting reader", "newReaderCommitted positions a reader in a segment although the high watermark is -1 ("+w.String()+"): for a negative start offset on a non-empty log the read limit is never computed and the reader hands out uncommitted messages")
	}
	if n == 0 {
		c.Unresolved("the positioned committedReader built by newReaderCommitted")
	}
}

// ruleFailedSetCursorLeavesNoStaleCache (R11.1 extension, F93): the publish hands the message to NATS before it looks at the
// context; a SetCursor that fails (its deadline fell between publish and ack) may have stored the cursor all the same. The
// cache entry is dropped on that path, so that every later fetch reads the partition and the answer no longer depends on
// eviction, purge or restart; and a request that is already dead publishes nothing.
func ruleFailedSetCursorLeavesNoStaleCache(c *eng.Ctx) {
	fn := c.Fn("server.(*cursorManager).SetCursor")
	if fn == nil {
		return
	}
	pubs := eng.CallsIn(fn, "server.apiServer.Publish")
	if len(pubs) != 1 {
		c.Unresolved("api.Publish call in SetCursor")
		return
	}
	pc := pubs[0].(*ssa.Call)
	failed := eng.CmpEdges(fn, func(v ssa.Value) bool { e, ok := v.(*ssa.Extract); return ok && e.Tuple == pc && e.Index == 1 }, eng.NilConst, eng.NE)
	isRemove := func(in ssa.Instruction) bool {
		ci, ok := in.(ssa.CallInstruction)
		return ok && strings.HasSuffix(eng.CalleeRef(ci.Common()), ".Cache.Remove") && strings.HasPrefix(eng.CalleeRef(ci.Common()), lruPkg)
	}
	q := &eng.PathQuery{Fn: fn, FromEdges: failed, Target: isReturn, CutInstr: isRemove}
	w := q.Find()
	c.Check(w == nil && len(failed) > 0, "a failed SetCursor drops the cached cursor", c.Pos(pc), "on err != nil of api.Publish: c.cache.Remove(key) before the return", "SetCursor returns the publish error with the cache entry untouched ("+w.String()+"): the publish may have stored the cursor (the context is only honoured while waiting for the ack), the cache keeps the old offset, and FetchCursor changes its answer when the entry is evicted, purged or the server restarts")
	alive := eng.CmpEdges(fn, eng.Call(-1, "context.Context.Err"), eng.NilConst, eng.EQ)
	g, w2 := eng.GuardedBy(fn, pc, alive)
	c.Check(g && len(alive) > 0, "a request that is already dead stores nothing", c.Pos(pc), "if err := ctx.Err(); err != nil { return … } before api.Publish", "SetCursor publishes without looking at its context ("+w2.String()+"): publishSync hands the message to NATS first and honours the context only while waiting for the ack, so a call that had already expired stores its cursor and reports failure")
}

// ruleAppendsWakeParkedCommittedReaders (R03.15, known finding K16): on a replica that is catching up the high watermark is
// ahead of the log (the follower learns the leader's watermark before it has the data), so an append at or below it makes
// committed data readable WITHOUT the watermark changing. A committed reader parked at its read limit must therefore wait on
// something the append path signals. The rule looks for a wake-up source common to both: the watermark waiters
// (waitForHW / notifyHWChange) or the segment's data waiters (WaitForData / notifyWaiters).
func ruleAppendsWakeParkedCommittedReaders(c *eng.Ctx) {
	p := c.P
	var app, rd []*ssa.Function
	for _, k := range []string{cl + "(*commitLog).Append", cl + "(*commitLog).AppendMessageSet"} {
		if f := c.Fn(k); f != nil {
			app = append(app, f)
		}
	}
	for _, k := range []string{cl + "(*committedReader).Read"} {
		if f := c.Fn(k); f != nil {
			rd = append(rd, f)
		}
	}
	if len(app) != 2 || len(rd) != 1 {
		return
	}
	has := func(set map[*ssa.Function]bool, key string) bool {
		for f := range set {
			if ir.FuncKey(f) == key {
				return true
			}
		}
		return false
	}
	fromAppend := c.Reachable(app, nil, false)
	fromReader := c.Reachable(rd, nil, false)
	type source struct{ name, wait, notify string }
	common := ""
	for _, s := range []source{
		{"the watermark waiters", cl + "(*commitLog).waitForHW", cl + "(*commitLog).notifyHWChange"},
		{"the segment's data waiters", cl + "(*segment).WaitForData", cl + "(*segment).notifyWaiters"},
	} {
		if has(fromReader, s.wait) && has(fromAppend, s.notify) {
			common = s.name
		}
	}
	c.Check(common != "", "an append at or below the watermark wakes the committed readers parked at the end of the log", p.Pos(rd[0].Pos()), "committedReader.Read waits on a source that Append / AppendMessageSet signal", "committedReader.Read parks on the watermark waiters only, which Append / AppendMessageSet never signal (they signal the segment's data waiters, on which a committed reader does not wait)")
}

// ---- rules for the round-5 misses

// ruleNullMarkerExactlyForNil (R01.17): the encoder writes the null size (-1) for a nil byte slice and only for nil; an
// empty, non-nil slice is stored with size 0 and reads back as empty. The decoder's nil test (R01.11) is the other half.
func ruleNullMarkerExactlyForNil(c *eng.Ctx) {
	fn := c.Fn(cl + "(*byteEncoder).PutBytes")
	if fn == nil {
		return
	}
	isNil := eng.CmpEdges(fn, eng.Param("in"), eng.NilConst, eng.EQ)
	n := 0
	for _, call := range eng.CallsIn(fn, cl+"byteEncoder.PutInt32") {
		args := call.Common().Args
		if !eng.IntConst(-1)(args[len(args)-1]) {
			continue
		}
		n++
		g, w := eng.GuardedBy(fn, call.(ssa.Instruction), isNil)
		c.Check(g && len(isNil) > 0 && eng.ExactCmp(fn, eng.Param("in"), eng.NilConst, eng.EQ), "the null size is written exactly for a nil slice", c.Pos(call.(ssa.Instruction)), "if in == nil { e.PutInt32(-1) }", "byteEncoder.PutBytes writes the null size under another test than in == nil ("+w.String()+"): an empty, non-nil key, value or header value is stored as null and reads back as nil — what is read is not what was appended")
	}
	if n == 0 {
		c.Unresolved("the PutInt32(-1) of byteEncoder.PutBytes")
	}
	if lf := c.Fn(cl + "(*lenEncoder).PutBytes"); lf != nil {
		// the length pass agrees: only a nil slice takes no room beyond its size
		c.Check(len(eng.CmpEdges(lf, eng.Param("in"), eng.NilConst, eng.EQ)) > 0 && eng.ExactCmp(lf, eng.Param("in"), eng.NilConst, eng.EQ), "the length pass skips the data exactly for a nil slice", c.P.Pos(lf.Pos()), "if in == nil { return nil }", "lenEncoder.PutBytes no longer tests in == nil: the buffer sized by the length pass and the bytes written by the encoding pass disagree for empty slices")
	}
}

// ruleTruncationPointIsTheLeadersAnswer (R02.2 extension): the follower truncates to (answer + 1) only when the request
// that produced the answer succeeded — the error tested after the retry loop is the one the loop's requests assigned.
func ruleTruncationPointIsTheLeadersAnswer(c *eng.Ctx) {
	fn := c.Fn("server.(*partition).truncateUncommitted")
	if fn == nil {
		return
	}
	reqs := eng.CallsIn(fn, "server.partition.sendLeaderOffsetRequest")
	trs := eng.CallsIn(fn, "server/commitlog.CommitLog.Truncate")
	if len(reqs) == 0 || len(trs) == 0 {
		c.Unresolved("sendLeaderOffsetRequest / log.Truncate in truncateUncommitted")
		return
	}
	// the error tested is the one the requests of the retry loop assigned (a variable that starts out nil and is assigned by
	// every attempt: a phi of the nil constant and the call's second result)
	answered := eng.CmpEdges(fn, func(v ssa.Value) bool {
		return flowsFromCall(v, "server.partition.sendLeaderOffsetRequest", 1, map[ssa.Value]bool{})
	}, eng.NilConst, eng.EQ)
	for _, t := range trs {
		g, w := eng.GuardedBy(fn, t.(ssa.Instruction), answered)
		c.Check(g && len(answered) > 0, "the log is truncated to the leader's answer only when the request succeeded", c.Pos(t.(ssa.Instruction)), "p.log.Truncate(lastOffset+1) lies behind err == nil of sendLeaderOffsetRequest", "truncateUncommitted reaches log.Truncate without the error of its epoch-offset request having been found nil ("+w.String()+"): when every attempt fails the follower truncates to a value the leader never sent (the zero value: offset 1) and drops committed messages")
		// and the value is the answer
		args := t.Common().Args
		v := args[len(args)-1]
		ok := false
		if bo, isBo := eng.Strip(v).(*ssa.BinOp); isBo && bo.Op == token.ADD {
			ok = flowsFromCall(bo.X, "server.partition.sendLeaderOffsetRequest", 0, map[ssa.Value]bool{})
		}
		c.Check(ok, "the truncation point is the answer + 1", c.Pos(t.(ssa.Instruction)), "Truncate(lastOffset + 1), lastOffset from sendLeaderOffsetRequest", "the offset handed to log.Truncate is not (the leader's answer + 1)")
	}
}

// flowsFromCall: v is the idx-th result of a call to ref, possibly through phis whose other inputs are constants.
func flowsFromCall(v ssa.Value, ref string, idx int, seen map[ssa.Value]bool) bool {
	v = eng.Strip(v)
	if seen[v] {
		return false
	}
	seen[v] = true
	if eng.Call(idx, ref)(v) {
		return true
	}
	if ph, ok := v.(*ssa.Phi); ok {
		found := false
		for _, e := range ph.Edges {
			if eng.IsConst(eng.Strip(e)) {
				continue
			}
			if es := eng.Strip(e); es == ph || seen[es] {
				continue
			}
			if !flowsFromCall(e, ref, idx, seen) {
				return false
			}
			found = true
		}
		return found
	}
	return false
}

// ruleRestoreAlwaysResets (R06.6 extension): Restore replaces the state — every successful return lies behind the reset.
// A snapshot without streams and groups encodes to zero bytes; "nothing to read" is not "nothing to do".
func ruleRestoreAlwaysResets(c *eng.Ctx) {
	fn := c.Fn("server.(*Server).Restore")
	if fn == nil {
		return
	}
	isReset := eng.IsCallTo("server.metadataAPI.ResetForRestore", "server.metadataAPI.Reset")
	n := 0
	for _, r := range eng.Returns(fn) {
		rv := eng.RetVals(r)
		if len(rv) != 1 || !eng.NilConst(rv[0]) {
			continue
		}
		n++
		ok, w := eng.PrecededBy(fn, r, isReset)
		c.Check(ok, "Restore reports success only after it has replaced the state", c.Pos(r), "every return nil lies behind s.metadata.ResetForRestore(…)", "Restore can return nil without having reset the metadata ("+w.String()+"): the snapshot of an emptied cluster encodes to zero bytes, and a server that skips it keeps the streams and groups the snapshot says are gone")
	}
	if n == 0 {
		c.Unresolved("a successful return of Server.Restore")
	}
}

// ruleRecoveredBookkeepingPairs (R01.8 extension): setupIndex re-derives the four bookkeeping fields from the index: first
// offset and first write time from one entry (the first), last offset and last write time from one other entry (the last).
func ruleRecoveredBookkeepingPairs(c *eng.Ctx) {
	p := c.P
	fn := c.Fn(cl + "(*segment).setupIndex")
	if fn == nil {
		return
	}
	base := map[string]ssa.Value{}
	src := map[string]string{}
	for _, f := range []string{"firstOffset", "firstWriteTime", "lastOffset", "lastWriteTime"} {
		fo := p.Field(clPkg, "segment", f)
		for _, st := range eng.FieldStores(fn, func(fa *ssa.FieldAddr) bool { return fieldIs(fa, fo) }) {
			fv, b := eng.FieldRead(eng.Strip(st.Val))
			if fv == nil {
				continue
			}
			base[f], src[f] = eng.Strip(b), fv.Name()
		}
	}
	if len(base) != 4 {
		c.Unresolved("the four bookkeeping stores of segment.setupIndex")
		return
	}
	ok := base["firstOffset"] == base["firstWriteTime"] && base["lastOffset"] == base["lastWriteTime"] && base["firstOffset"] != base["lastOffset"] &&
		src["firstOffset"] == "Offset" && src["lastOffset"] == "Offset" && src["firstWriteTime"] == "Timestamp" && src["lastWriteTime"] == "Timestamp"
	c.Check(ok, "a reopened segment takes first* from its first index entry and last* from its last", p.Pos(fn.Pos()), "firstOffset / firstWriteTime from one entry, lastOffset / lastWriteTime from the other", "setupIndex does not fill (firstOffset, firstWriteTime) from one index entry and (lastOffset, lastWriteTime) from another: after a restart the age of a segment's newest message is wrong, and the age limit removes a segment whose newest message is still inside the window (or keeps an expired one)")
}

// ruleSuccessfulSetCursorTouchesTheCache (R11.1 extension): a SetCursor that succeeded leaves the cache agreeing with the log
// for that key — it stores the new offset or drops the entry. A value-dependent skip leaves the old offset to be served.
func ruleSuccessfulSetCursorTouchesTheCache(c *eng.Ctx) {
	fn := c.Fn("server.(*cursorManager).SetCursor")
	if fn == nil {
		return
	}
	pubs := eng.CallsIn(fn, "server.apiServer.Publish")
	if len(pubs) != 1 {
		return // reported by R11.1
	}
	pc := pubs[0].(*ssa.Call)
	stored := eng.CmpEdges(fn, func(v ssa.Value) bool { e, ok := v.(*ssa.Extract); return ok && e.Tuple == pc && e.Index == 1 }, eng.NilConst, eng.EQ)
	stored = append(stored, cellEdgesIdx(fn, pc, 1)...)
	touches := func(in ssa.Instruction) bool {
		ci, ok := in.(ssa.CallInstruction)
		if !ok {
			return false
		}
		ref := eng.CalleeRef(ci.Common())
		return strings.HasPrefix(ref, lruPkg) && (strings.HasSuffix(ref, ".Cache.Add") || strings.HasSuffix(ref, ".Cache.Remove"))
	}
	q := &eng.PathQuery{Fn: fn, FromEdges: stored, Target: isReturn, CutInstr: touches}
	w := q.Find()
	c.Check(w == nil && len(stored) > 0, "every successful SetCursor updates the cached cursor", c.Pos(pc), "after err == nil of api.Publish every path to the return passes cache.Add (or cache.Remove)", "SetCursor can succeed without touching the cache entry of the key ("+w.String()+"): an earlier offset that is still cached is served until it is evicted, although a later SetCursor succeeded")
}

// ruleCommittedReaderCapsOnlyPastTheEnd (R10.9 extension): a start offset is replaced by "the next committed message" only
// when it lies beyond the next offset to be assigned; the log end itself (newest + 1: NEW_ONLY, or an explicit offset) is a
// position, and everything between the watermark and it must not be delivered.
func ruleCommittedReaderCapsOnlyPastTheEnd(c *eng.Ctx) {
	fn := c.Fn(cl + "(*commitLog).newReaderCommitted")
	if fn == nil {
		return
	}
	newest := eng.Call(-1, cl+"commitLog.NewestOffset")
	next := eng.Bin(token.ADD, newest, eng.IntConst(1))
	past := eng.CmpEdges(fn, eng.Param("offset"), next, eng.GT)
	ok := len(past) > 0 && eng.ExactCmp(fn, eng.Param("offset"), next, eng.GT) && !eng.CmpExists(fn, eng.Param("offset"), newest)
	c.Check(ok, "a start offset is capped only when it is past the next offset to be assigned", c.P.Pos(fn.Pos()), "if offset > l.NewestOffset()+1 { offset = hw + 1 }", "newReaderCommitted replaces the start offset under another test than offset > NewestOffset()+1: a subscription that starts exactly at the log end while the watermark is behind delivers the older messages between the watermark and its start once they commit")
}

// ruleCleanAlwaysRunsAPass (R09.7 extension): every call of commitLog.Clean evaluates the limits — nothing returns before
// the cleaners ran. What a remembered "nothing changed since the last pass" describes includes whatever was appended or
// rolled while that pass was running, which the pass never looked at.
func ruleCleanAlwaysRunsAPass(c *eng.Ctx) {
	fn := c.Fn(cl + "(*commitLog).Clean")
	if fn == nil {
		return
	}
	pass := eng.IsCallTo(cl + "commitLog.clean")
	n := 0
	for _, r := range eng.Returns(fn) {
		n++
		ok, w := eng.PrecededBy(fn, r, pass)
		c.Check(ok, "Clean evaluates the limits on every call", c.Pos(r), "every return lies behind l.clean(segments)", "commitLog.Clean can return without having run the cleaners ("+w.String()+"): a log that exceeded a limit through appends made while the previous pass was running stays over the limit for as long as it is idle")
	}
	if n == 0 {
		c.Unresolved("a return of commitLog.Clean")
	}
}

// ruleBeginningOfLogOnlyAtTheFirstSegment (R10.2 extension): a reverse reader that re-positions itself reports "beginning of
// the log" (io.EOF) only when the segment it found is the first of the list. A found segment that begins above the reader's
// offset says nothing about older segments: compaction can have removed the reader's segment as a whole.
func ruleBeginningOfLogOnlyAtTheFirstSegment(c *eng.Ctx) {
	fn := c.Fn(cl + "(*ReverseReader).reinitialize")
	if fn == nil {
		return
	}
	first := eng.CmpEdges(fn, eng.Call(1, cl+"findSegment"), eng.IntConst(0), eng.EQ)
	n := 0
	for _, r := range eng.Returns(fn) {
		for _, v := range eng.RetVals(r) {
			if !eng.Global("io.EOF")(eng.Strip(v)) {
				continue
			}
			n++
			g, w := eng.GuardedBy(fn, r, first)
			c.Check(g && len(first) > 0, "a re-positioned reverse reader ends only at the first segment", c.Pos(r), "io.EOF only where the found segment's index is 0", "ReverseReader.reinitialize reports the beginning of the log without knowing that the found segment is the first ("+w.String()+"): when compaction removed the reader's segment as a whole, the older segments are never delivered and the subscription ends early")
		}
	}
	if n == 0 {
		c.OK("a re-positioned reverse reader ends only at the first segment", c.P.Pos(fn.Pos()), "reinitialize never answers io.EOF itself; the end is found by the scanner")
	}
}

// ruleKeyScanCoversEverySegment (R08.1 extension): every segment handed to scanKeys reaches a scan worker: the segments are
// fed one by one, in a loop over the whole list. Handing out computed sub-ranges has to prove that the ranges cover the list.
func ruleKeyScanCoversEverySegment(c *eng.Ctx) {
	fn := c.Fn(cl + "(*compactCleaner).scanKeys")
	if fn == nil {
		return
	}
	segs := eng.Param("segments")
	sliced := false
	fed := false
	eng.Instrs(fn, func(in ssa.Instruction) {
		switch x := in.(type) {
		case *ssa.Slice:
			if segs(x.X) {
				sliced = true
			}
		case *ssa.Send:
			if ia := indexOfLoad(eng.Strip(x.X)); ia != nil && segs(ia.X) {
				fed = true
			}
		}
	})
	// the loop counter of a range over the list (go/ssa rotates the loop: the compared value is counter + 1)
	counter := func(v ssa.Value) bool {
		if _, isPhi := v.(*ssa.Phi); isPhi {
			return true
		}
		bo, isBo := v.(*ssa.BinOp)
		if !isBo || bo.Op != token.ADD {
			return false
		}
		_, isPhi := bo.X.(*ssa.Phi)
		return isPhi && eng.IntConst(1)(bo.Y)
	}
	whole := len(eng.CmpEdges(fn, counter, eng.Len(segs), eng.LT)) > 0
	c.Check(fed && whole && !sliced, "the key scan is handed every segment", c.P.Pos(fn.Pos()), "for _, seg := range segments { segmentC <- seg }", "scanKeys does not feed every element of its segment list to the scan workers (sub-ranges computed from len(segments)/workers drop the remainder): keys whose latest message sits in an unscanned segment are compacted away")
}

// ruleNewerMemberAlwaysWins (R13.2 extension): whenever the group already has a member on the partition, the subscriber
// replaces it only across the comparison of the two group epochs — no value of the request (an epoch of 0, "not provided")
// by-passes the fence.
func ruleNewerMemberAlwaysWins(c *eng.Ctx) {
	p := c.P
	fn := c.Fn("server.(*partition).Subscribe")
	if fn == nil {
		return
	}
	consumers := p.Field("server", "partition", "consumers")
	found := eng.BoolEdges(fn, func(v ssa.Value) bool {
		e, isE := v.(*ssa.Extract)
		if !isE || e.Index != 1 {
			return false
		}
		lk, isLk := e.Tuple.(*ssa.Lookup)
		return isLk && lk.CommaOk && eng.Load(consumers, nil)(lk.X)
	}, true)
	ge := func(v ssa.Value) bool { return eng.LoadNamed("groupEpoch", nil)(v) }
	notStale := eng.CmpEdges(fn, ge, eng.AnyV, eng.LE)
	if len(notStale) == 0 {
		// the comparison is one operand of a named condition (`superseded := ok && existing.groupEpoch > groupEpoch; if
		// superseded { refuse }`): on the edge that goes on, every way says "no member" or "not newer" — and a path that
		// started on "member found" cannot have come the first way (the two tests of ok agree)
		isOK := func(v ssa.Value) bool {
			e, isE := v.(*ssa.Extract)
			if !isE || e.Index != 1 {
				return false
			}
			lk, isLk := e.Tuple.(*ssa.Lookup)
			return isLk && lk.CommaOk && eng.Load(consumers, nil)(lk.X)
		}
		notStale = eng.EdgesWhere(fn, func(a eng.AtomView) bool {
			return a.RelHolds(ge, eng.AnyV, eng.LE) || (!a.Cmp && !a.Pol && a.Val != nil && isOK(a.Val))
		})
	}
	if len(found) == 0 || len(notStale) == 0 {
		c.Unresolved("the member lookup / epoch comparison of partition.Subscribe")
		return
	}
	// an edge on which the member was found AND its epoch is known not to be newer carries both facts; start only from the
	// ones that still have the comparison ahead of them
	var from []eng.Edge
	for _, e := range found {
		already := false
		for _, n := range notStale {
			if n == e {
				already = true
			}
		}
		// a second test of "member found" that lies behind the comparison has the comparison behind it, too
		if !already {
			e := e
			q0 := &eng.PathQuery{Fn: fn, FromEntry: true, CutEdges: notStale, TargetEdge: func(x eng.Edge) bool { return x == e }}
			if q0.Find() == nil {
				already = true // no way to this edge that has not crossed the comparison
			}
		}
		if !already {
			from = append(from, e)
		}
	}
	found = from
	q := &eng.PathQuery{Fn: fn, FromEdges: found, CutEdges: notStale, Target: func(x ssa.Instruction) bool {
		if ci, ok := x.(ssa.CallInstruction); ok && eng.CalleeRef(ci.Common()) == "server.subscription.Close" {
			return true
		}
		_, ok := x.(*ssa.MapUpdate)
		return ok
	}}
	// ... and what the member's epoch is compared with is the request's: a value that can be the member's own epoch (an
	// epoch "adopted" from the current member when the request carries none) compares the member with itself
	selfCmp := false
	eng.Instrs(fn, func(in ssa.Instruction) {
		bo, isBo := in.(*ssa.BinOp)
		if !isBo {
			return
		}
		var other ssa.Value
		switch {
		case ge(bo.X) && !ge(bo.Y):
			other = bo.Y
		case ge(bo.Y) && !ge(bo.X):
			other = bo.X
		default:
			return
		}
		var leaves func(v ssa.Value, seen map[ssa.Value]bool)
		leaves = func(v ssa.Value, seen map[ssa.Value]bool) {
			if seen[v] {
				return
			}
			seen[v] = true
			if ph, isPhi := v.(*ssa.Phi); isPhi {
				for _, e := range ph.Edges {
					leaves(e, seen)
				}
				return
			}
			if fv, _ := eng.FieldRead(v); fv != nil && fv.Name() == "groupEpoch" {
				selfCmp = true
			}
		}
		leaves(other, map[ssa.Value]bool{})
	})
	c.Check(!selfCmp, "the member's epoch is compared with the request's", p.Pos(fn.Pos()), "existing.groupEpoch > (the epoch the request carries)", "partition.Subscribe compares the current member's group epoch with a value that can be that very epoch (adopted from the member when the request carries 0): such a request is never stale, takes the partition from a member of a newer group epoch and inherits its epoch")
	w := q.Find()
	c.Check(w == nil, "an existing member is replaced only across the epoch comparison", p.Pos(fn.Pos()), "from 'the group has a member here' the cancel / registration is reachable only over existing.groupEpoch <= groupEpoch", "partition.Subscribe can cancel or replace the group's current member without having compared the group epochs ("+w.String()+"): a request that by-passes the comparison (an epoch of 0) takes the partition from a member of a newer group epoch")
}

// ruleResumeAtTheFirstRetainedEntry (R18.3 extension): when the entry to publish next was compacted away the dispatcher
// continues AT the first index of the log — that entry is retained and may be an operation that was never published.
func ruleResumeAtTheFirstRetainedEntry(c *eng.Ctx) {
	fn := c.Fn("server.(*activityManager).dispatch")
	if fn == nil {
		return
	}
	firstIdx := eng.Call(0, "github.com/hashicorp/raft.LogStore.FirstIndex", "github.com/hashicorp/raft-boltdb/v2.BoltStore.FirstIndex")
	uses, exact := 0, 0
	eng.Instrs(fn, func(in ssa.Instruction) {
		ph, isPhi := in.(*ssa.Phi)
		if !isPhi {
			return
		}
		for _, e := range ph.Edges {
			es := eng.Strip(e)
			if firstIdx(es) {
				uses++
				exact++
				continue
			}
			// a local that is the first index on one way and something else on another (`resume := first; if … { resume =
			// snapshot + 1 }`) is not the first index
			if inner, isPhi := es.(*ssa.Phi); isPhi && inner != ph {
				hasFirst, other := false, false
				for _, src := range phiSources(inner) {
					if firstIdx(eng.Strip(src)) {
						hasFirst = true
					} else if src != ssa.Value(ph) {
						other = true
					}
				}
				if hasFirst {
					uses++
					if !other {
						exact++
					}
					continue
				}
			}
			// an index COMPUTED from the first index (first + 1, first - 1); a comparison with it (`index < first` bound to a
			// flag) is a test, not a place to resume at
			if bo, isBo := es.(*ssa.BinOp); isBo && (firstIdx(eng.Strip(bo.X)) || firstIdx(eng.Strip(bo.Y))) {
				switch bo.Op {
				case token.ADD, token.SUB, token.MUL, token.QUO, token.REM, token.SHL, token.SHR, token.AND, token.OR, token.XOR:
					uses++
				}
			}
		}
	})
	if uses == 0 {
		c.Unresolved("the index the dispatcher resumes at after a compacted entry")
		return
	}
	c.Check(uses == exact, "after compaction the dispatcher resumes at the first retained entry", c.P.Pos(fn.Pos()), "index = first (the answer of FirstIndex())", "dispatch resumes at an index computed from FirstIndex() rather than at it: the first retained entry — an operation that may never have been published — is skipped and its event is lost")
}

// ruleEveryBatchedMessageWasValidated (R14.5 / R04.4 extension): a message enters the batch that is appended as a whole only
// after Validate() accepted it. Append fails for the whole batch on a message the encoder refuses, so one oversized header key
// silently drops the ordinary publishes batched with it.
func ruleEveryBatchedMessageWasValidated(c *eng.Ctx) {
	fn := c.Fn("server.(*partition).messageProcessingLoop")
	if fn == nil {
		return
	}
	valid := eng.CmpEdges(fn, eng.Call(-1, "server/commitlog.Message.Validate"), eng.NilConst, eng.EQ)
	n := 0
	eng.Instrs(fn, func(in ssa.Instruction) {
		call, isCall := in.(*ssa.Call)
		if !isCall || !isBuiltinCall(call, "append") || len(call.Call.Args) < 2 {
			return
		}
		st, isSlice := call.Type().Underlying().(*types.Slice)
		if !isSlice || !strings.HasSuffix(st.Elem().String(), "commitlog.Message") {
			return
		}
		n++
		g, w := eng.GuardedBy(fn, in, valid)
		c.Check(g && len(valid) > 0, "a message joins the batch only after Validate() accepted it", c.Pos(in), "msgBatch = append(msgBatch, m) lies behind m.Validate() == nil", "messageProcessingLoop batches a message that was not validated ("+w.String()+"): a publish the log encoding refuses (a header key beyond the 16-bit length) makes Append fail for the whole batch — the ordinary publishes batched with it are neither stored nor nacked")
	})
	if n == 0 {
		c.Unresolved("the batch appends of messageProcessingLoop")
	}
}

// ruleReloadIsUnconditional (R15.9 extension): a SIGHUP always reloads the policy — whatever the file holds is the policy.
// An emptied file is how the last permissions are revoked.
func ruleReloadIsUnconditional(c *eng.Ctx) {
	var fn *ssa.Function
	for _, f := range c.P.Funcs {
		k := ir.FuncKey(f)
		if strings.HasPrefix(k, "server.(*Server).handleSignals") && len(eng.CallsIn(f, "github.com/casbin/casbin/v2.Enforcer.LoadPolicy", "github.com/casbin/casbin/v2.SyncedEnforcer.LoadPolicy", "github.com/casbin/casbin/v2.CoreApi.LoadPolicy")) > 0 {
			fn = f
		}
	}
	if fn == nil {
		c.Unresolved("the SIGHUP branch of handleSignals that calls LoadPolicy")
		return
	}
	// the branch taken for SIGHUP: from the comparison of the received signal with SIGHUP every path to the next receive
	// passes LoadPolicy
	isHup := func(v ssa.Value) bool {
		k, ok := eng.Strip(v).(*ssa.Const)
		if !ok || k.Value == nil {
			return false
		}
		n, isInt := eng.ConstVal(k)
		return isInt && n == 1 // syscall.SIGHUP
	}
	hup := eng.EdgesWhere(fn, func(av eng.AtomView) bool { return av.RelHolds(eng.AnyV, isHup, eng.EQ) })
	if len(hup) == 0 {
		c.Unresolved("the test for SIGHUP in handleSignals")
		return
	}
	reload := eng.IsCallTo("github.com/casbin/casbin/v2.Enforcer.LoadPolicy", "github.com/casbin/casbin/v2.SyncedEnforcer.LoadPolicy", "github.com/casbin/casbin/v2.CoreApi.LoadPolicy")
	q := &eng.PathQuery{Fn: fn, FromEdges: hup, CutInstr: reload, Target: func(x ssa.Instruction) bool {
		switch y := x.(type) {
		case *ssa.Return:
			return true
		case *ssa.UnOp:
			return y.Op == token.ARROW
		case *ssa.Select:
			return true
		}
		return false
	}}
	// and whatever the reload answers, the handler stays: the next SIGHUP (the repaired file) and the interrupt are still served
	qe := &eng.PathQuery{Fn: fn, FromEdges: hup, CutInstr: func(x ssa.Instruction) bool {
		switch y := x.(type) {
		case *ssa.UnOp:
			return y.Op == token.ARROW
		case *ssa.Select:
			return true
		}
		return false
	}, Target: isReturn}
	we := qe.Find()
	c.Check(we == nil, "a SIGHUP never ends the signal handler", c.P.Pos(fn.Pos()), "from the SIGHUP case every path leads back to the receive", "the signal handler goroutine can return while handling a SIGHUP ("+we.String()+"): after one failed reload no later SIGHUP reloads the policy — revocations written to the policy file never take effect — and the interrupt is no longer handled either")
	w := q.Find()
	c.Check(w == nil, "every SIGHUP reloads the policy", c.P.Pos(fn.Pos()), "from the SIGHUP case every path to the next signal passes LoadPolicy", "handleSignals can skip the reload for a SIGHUP ("+w.String()+"): a state of the policy file — an emptied one is how the last permissions are revoked — leaves everybody who was authorised authorised")
}

// ruleRebuiltIndexStartsEmpty (R05.8 extension): an index is rebuilt into a file that holds nothing of the old index — the
// file is removed (or cut to nothing) and created anew before the first rebuilt entry is written. Entries of the old index
// that lie behind the rebuilt ones would otherwise survive: after a crash between the two renames of Replace the replacement's
// log is shorter than the old index, and recovery would report messages that are gone.
func ruleRebuiltIndexStartsEmpty(c *eng.Ctx) {
	fn := c.Fn(cl + "(*segment).rebuildIndex")
	if fn == nil {
		return
	}
	ws := eng.CallsIn(fn, cl+"index.writeEntries", cl+"index.writeEntry", cl+"index.writeAt")
	if len(ws) == 0 {
		c.Unresolved("the index writes of segment.rebuildIndex")
		return
	}
	emptied := eng.IsCallTo("os.Remove", "os.File.Truncate", "os.Truncate")
	created := eng.IsCallTo(cl + "newIndex")
	for _, w := range ws {
		ok1, w1 := eng.PrecededBy(fn, w.(ssa.Instruction), emptied)
		ok2, _ := eng.PrecededBy(fn, w.(ssa.Instruction), created)
		c.Check(ok1 && ok2, "the index is rebuilt into an empty file", c.Pos(w.(ssa.Instruction)), "os.Remove(indexPath) and newIndex(…) on every path to the first rebuilt entry", "rebuildIndex writes rebuilt entries into an index file that was not emptied first ("+w1.String()+"): entries of the old index behind the rebuilt ones survive, so after a crash between the two renames of segment.Replace the recovered segment reports messages its log no longer holds")
	}
}
