package rules

import (
	"lbcheck/eng"
)

// serverLockTable (R20.1): fields of package server that, on the reference tree, are read and written only while the named
// mutex of the same object is held (the table was produced by the discovery query "accesses per field with / without each
// mutex of its struct", evaluated with the inter-procedural lock states of eng.LocksOf — callers that hold the lock count —
// and every entry was read; fields with even one unlocked access outside a constructor are not in it). Each property checks
// the entries that guard state it depends on. A dropped Lock, an access moved out of its critical section, or a new
// unlocked reader is reported.
type lockEntry struct {
	typ, field, lock string
	props            []string
}

var serverLockTable = []lockEntry{
	// replication and leadership state of a partition
	{"partition", "isr", "mu", []string{"C02", "C04", "C07"}},
	{"partition", "isLeading", "mu", []string{"C02", "C07", "C13"}},
	{"partition", "isFollowing", "mu", []string{"C02", "C07"}},
	{"partition", "replicators", "mu", []string{"C02", "C04"}},
	{"partition", "belowMinISR", "mu", []string{"C04"}},
	{"partition", "recovered", "mu", []string{"C02", "C06"}},
	{"partition", "paused", "mu", []string{"C06"}},
	{"partition", "pause", "mu", []string{"C06"}},
	{"partition", "subscriberCount", "mu", []string{"C13"}},
	{"partition", "groupsCanceled", "consumersMu", []string{"C13"}},
	{"partition", "sub", "mu", []string{"C02", "C14"}},
	{"partition", "leaderReplSub", "mu", []string{"C02"}},
	{"partition", "leaderOffsetSub", "mu", []string{"C02"}},
	{"replica", "offset", "mu", []string{"C02", "C04"}},
	{"replicator", "lastCaughtUp", "mu", []string{"C02", "C04"}},
	{"replicator", "lastSeen", "mu", []string{"C02", "C04"}},
	{"replicator", "waiter", "mu", []string{"C02", "C03"}},
	{"subscription", "status", "mu", []string{"C10", "C13"}},
	// metadata tables
	{"metadataAPI", "streams", "mu", []string{"C06"}},
	{"metadataAPI", "consumerGroups", "consumerGroupsMu", []string{"C06", "C12"}},
	{"metadataAPI", "partitionFailovers", "mu", []string{"C07"}},
	{"metadataAPI", "groupFailovers", "consumerGroupsMu", []string{"C07", "C12"}},
	{"stream", "partitions", "mu", []string{"C06"}},
	{"stream", "resumeAll", "mu", []string{"C06"}},
	{"stream", "tombstone", "mu", []string{"C06"}},
	{"failoverStatus", "timer", "mu", []string{"C07"}},
	{"failoverStatus", "witnesses", "mu", []string{"C07"}},
	// consumer groups
	{"consumerGroup", "members", "mu", []string{"C12", "C06"}},
	{"consumerGroup", "subscribers", "mu", []string{"C12"}},
	{"consumerGroup", "coordinator", "mu", []string{"C12"}},
	{"consumerGroup", "epoch", "mu", []string{"C12", "C06"}},
	{"consumerGroup", "recovered", "mu", []string{"C12"}},
	// activity stream, acks of the async publish session
	{"activityManager", "lastPublishedRaftIndex", "mu", []string{"C18"}},
	{"publishAsyncSession", "inflight", "mu", []string{"C04", "C16"}},
	{"timeoutFuture", "responded", "mu", []string{"C06"}},
	{"timeoutFuture", "err", "mu", []string{"C06"}},
}

func ruleServerLockTable(c *eng.Ctx, prop string) {
	p := c.P
	n := 0
	for _, e := range serverLockTable {
		in := false
		for _, q := range e.props {
			if q == prop {
				in = true
			}
		}
		if !in {
			continue
		}
		n += c.CheckFieldLocks(eng.LockRule{Field: p.Field("server", e.typ, e.field), Lock: e.lock, Exempt: map[string]string{}}, e.typ+"."+e.field)
	}
	if n > 0 {
		c.Note("lock table (R20.1): %d accesses of %s's entries checked", n, prop)
	}
}
