package rules

import (
	"go/token"
	"go/types"
	"strings"

	"golang.org/x/tools/go/ssa"

	"lbcheck/eng"
	"lbcheck/ir"
)

// Rules for the round-9 misses.

// ruleRestoreReadsTheWholeSnapshot (R06.6 extension): the snapshot arrives through an io.Reader that may answer a Read with
// less than was asked for (raft's file snapshot store reads through a 4 KiB bufio.Reader). Server.Restore therefore never
// calls Read on it directly: a short read that happens to end on a protobuf field boundary decodes, and the server restores a
// prefix of the streams and deletes the data of the rest.
func ruleRestoreReadsTheWholeSnapshot(c *eng.Ctx) {
	fn := c.Fn("server.(*Server).Restore")
	if fn == nil {
		return
	}
	bad := ""
	full := 0
	eng.Instrs(fn, func(in ssa.Instruction) {
		call, ok := in.(*ssa.Call)
		if !ok {
			return
		}
		if call.Call.IsInvoke() && call.Call.Method.Name() == "Read" && eng.Param("snapshot")(call.Call.Value) {
			bad = c.Pos(in)
		}
		switch eng.CalleeRef(&call.Call) {
		case "io.ReadFull", "io.ReadAll", "io/ioutil.ReadAll":
			full++
		}
	})
	if bad == "" && full == 0 {
		c.Unresolved("the reads of the snapshot stream in Server.Restore")
		return
	}
	c.Check(bad == "", "Restore reads the snapshot with reads that fill their buffer", c.P.Pos(fn.Pos()), "io.ReadFull for the size and for the payload", "Server.Restore calls Read on the snapshot stream directly ("+bad+"): a single Read may return fewer bytes than the payload (raft's snapshot reader is a 4096-byte bufio.Reader), and a prefix that ends on a field boundary unmarshals without error — the server restores the first streams only, no groups, and ResetForRestore deletes the data of the streams that were cut off")
}

// rulePauseDecidesOnTheRuntimeFlag (R06.4 extension): Partition.Paused is the persisted copy of "paused" — a partition rebuilt
// from a snapshot arrives with it set and is paused again by addPartition so that its log is closed. Pause therefore never
// leaves early because the persisted flag is already set.
func rulePauseDecidesOnTheRuntimeFlag(c *eng.Ctx) {
	fn := c.Fn("server.(*partition).Pause")
	if fn == nil {
		return
	}
	closes := eng.IsCallTo("server.partition.close")
	persisted := eng.BoolEdges(fn, func(v ssa.Value) bool {
		f, _ := eng.FieldRead(eng.Strip(v))
		return f != nil && f.Name() == "Paused"
	}, true)
	q := &eng.PathQuery{Fn: fn, FromEdges: persisted, Target: isReturn, CutInstr: closes}
	w := q.Find()
	c.Check(len(persisted) == 0 || w == nil, "Pause closes the partition whatever the persisted flag says", c.P.Pos(fn.Pos()), "no return before p.close() on the edge Partition.Paused == true", "partition.Pause returns without closing the partition when the persisted flag Partition.Paused is already set ("+w.String()+"): a partition rebuilt from a snapshot carries that flag, so the re-pause of addPartition is skipped, its commit log stays open and it starts in finishedRecovery — a later resume is a no-op and the flag stays true for ever")
	all := &eng.PathQuery{Fn: fn, FromEntry: true, Target: func(x ssa.Instruction) bool {
		r, ok := x.(*ssa.Return)
		return ok && len(eng.RetVals(r)) == 1 && eng.NilConst(eng.RetVals(r)[0])
	}, CutInstr: closes}
	w2 := all.Find()
	c.Check(w2 == nil, "Pause reports success only after closing the partition", c.P.Pos(fn.Pos()), "every return nil lies behind p.close()", "partition.Pause can return nil without having closed the partition ("+w2.String()+")")
}

// ruleAckInboxIsNotLimitedToOneMessage (R16.5 extension): two streams can share a NATS subject, and both leaders ack to the
// inbox of a publish; publishSync skips the acks of other streams. The subscription on the inbox is therefore ended by
// Unsubscribe only — an AutoUnsubscribe(1) lets the foreign ack use up the one delivery and the publisher never sees the
// (possibly INCORRECT_OFFSET) answer of the stream it published to.
func ruleAckInboxIsNotLimitedToOneMessage(c *eng.Ctx) {
	fn := c.Fn("server.(*apiServer).publishSync")
	if fn == nil {
		return
	}
	subs := eng.CallsIn(fn, "github.com/nats-io/nats.go.Conn.SubscribeSync")
	if len(subs) == 0 {
		c.Unresolved("the SubscribeSync of the ack inbox in publishSync")
		return
	}
	limits := eng.CallsIn(fn, "github.com/nats-io/nats.go.Subscription.AutoUnsubscribe")
	pos := c.Pos(subs[0].(ssa.Instruction))
	if len(limits) > 0 {
		pos = c.Pos(limits[0].(ssa.Instruction))
	}
	c.Check(len(limits) == 0, "the ack inbox of a synchronous publish takes as many messages as arrive", pos, "the subscription ends with Unsubscribe, not after a fixed number of messages", "publishSync limits the ack inbox subscription with AutoUnsubscribe: when another stream attached to the same subject acks first, that ack — which the loop skips — uses up the delivery, and the ack of the stream published to (an INCORRECT_OFFSET refusal included) never arrives: the publisher gets `maximum messages delivered` instead of the verdict on its expected offset")
}

// ruleRepeatedJoinIsRefused (R12.5 extension): consumerGroup.addMember assumes the id is new — it overwrites c.members[id] and
// pushes a new object onto the heaps. The only thing that keeps an existing member from reaching it is the precondition of
// the join proposal: a join of an id that IsMember answers ErrConsumerAlreadyMember, whatever streams it names.
func ruleRepeatedJoinIsRefused(c *eng.Ctx) {
	fn := c.Fn("server.(*metadataAPI).checkJoinConsumerGroupPreconditions")
	if fn == nil {
		return
	}
	member := eng.BoolEdges(fn, eng.Call(-1, "server.consumerGroup.IsMember"), true)
	if len(member) == 0 {
		// accepted alternative: AddMember itself refuses an existing id
		if am := c.FnQuiet("server.(*consumerGroup).AddMember"); am != nil {
			for _, r := range eng.Returns(am) {
				for _, v := range eng.RetVals(r) {
					if eng.Global("server.ErrConsumerAlreadyMember")(eng.Strip(v)) {
						c.OK("a join of an existing member is refused", c.Pos(r), "AddMember answers ErrConsumerAlreadyMember")
						return
					}
				}
			}
		}
		c.Violate("a join of an existing member is refused", c.P.Pos(fn.Pos()), "the join precondition no longer asks group.IsMember(consumer id): a member that joins again (with other streams) reaches addMember, which overwrites its entry in c.members and pushes a second object onto the subscriber heaps — the replaced object keeps competing for partitions that no live member receives, and RemoveMember can never reach it")
		return
	}
	q := &eng.PathQuery{Fn: fn, FromEdges: member, Target: func(x ssa.Instruction) bool {
		r, ok := x.(*ssa.Return)
		if !ok {
			return false
		}
		rv := eng.RetVals(r)
		return len(rv) == 1 && !eng.Global("server.ErrConsumerAlreadyMember")(eng.Strip(rv[0]))
	}}
	w := q.Find()
	c.Check(w == nil, "a join of an existing member is refused", c.P.Pos(fn.Pos()), "IsMember(id) ⇒ ErrConsumerAlreadyMember", "a join of an id that is already a member can pass the precondition ("+w.String()+"): addMember then replaces the member object without removing the old one from the heaps")
}

// ruleNotExistTestsSeeTheOSError (R05.5 / R14.6 extension): os.IsNotExist and os.IsExist do not look through pkg/errors
// wrappers. Where the recovery scan decides "this index has lost its log" by os.IsNotExist, the error it looks at is the
// one the os call returned.
func ruleNotExistTestsSeeTheOSError(c *eng.Ctx) {
	p := c.P
	n := 0
	for _, fn := range p.Funcs {
		if fn.Pkg == nil || !strings.HasSuffix(fn.Pkg.Pkg.Path(), "/server/commitlog") {
			continue
		}
		for _, call := range eng.CallsIn(fn, "os.IsNotExist", "os.IsExist") {
			n++
			arg := call.Common().Args[0]
			bad := ""
			for _, src := range phiSources(arg) {
				if k, isC := src.(*ssa.Const); isC && k.IsNil() {
					continue
				}
				ex, isE := src.(*ssa.Extract)
				var cc *ssa.Call
				if isE {
					cc, _ = ex.Tuple.(*ssa.Call)
				} else {
					cc, _ = src.(*ssa.Call)
				}
				if cc == nil {
					continue // a parameter or a field: not decided here
				}
				ref := eng.CalleeRef(&cc.Call)
				if strings.HasPrefix(ref, "github.com/pkg/errors.") || ref == "fmt.Errorf" {
					bad = ref
				}
			}
			c.Check(bad == "", "the not-exist test in "+fn.Name()+" looks at the error the os call returned", c.Pos(call.(ssa.Instruction)), "os.IsNotExist(err) with err straight from os.Stat / os.Open / os.Remove", fn.Name()+" hands os.IsNotExist an error that went through "+bad+": the test does not look through the wrapper and is false for a missing file — after a crash between the removal of a segment's log and of its index the orphaned index is no longer dropped and the log cannot be opened")
		}
	}
	if n == 0 {
		c.Unresolved("an os.IsNotExist test in server/commitlog (commitLog.open)")
	}
}

// ruleReverseReaderIsNotCreatedBelowZero (R10.2 extension): for NewReverseReader a start offset of -1 means "from the high
// watermark". A reverse subscription whose resolved start is negative — every message is newer than the start time — has
// nothing to deliver and gets the reader that reports the beginning of the partition; it never reaches NewReverseReader.
func ruleReverseReaderIsNotCreatedBelowZero(c *eng.Ctx) {
	fn := c.Fn("server.(*partition).Subscribe")
	if fn == nil {
		return
	}
	mk := eng.CallsIn(fn, cl+"CommitLog.NewReverseReader")
	if len(mk) == 0 {
		c.Unresolved("the NewReverseReader call of partition.Subscribe")
		return
	}
	for _, m := range mk {
		m := m
		start := eng.AllArgs(m.Common())[1]
		// the decision is written `if req.Reverse && startOffset < 0 { beginning } else if req.Reverse { reverse reader }`: what
		// is demanded is that the negative side of a test of the start offset exists and does not lead to the call
		neg := eng.CmpEdges(fn, eng.Same(eng.Strip(start)), eng.IntConst(0), eng.LT)
		q := &eng.PathQuery{Fn: fn, FromEdges: neg, Target: func(x ssa.Instruction) bool { return x == m.(ssa.Instruction) }}
		w := q.Find()
		c.Check(len(neg) > 0 && w == nil, "a reverse reader is created only for a start offset that is not negative", c.Pos(m.(ssa.Instruction)), "req.Reverse && startOffset < 0 ⇒ the beginning-of-partition reader", "partition.Subscribe hands NewReverseReader a start offset that can be negative ("+map[bool]string{true: "the start offset is never tested against 0", false: w.String()}[len(neg) == 0]+"): -1 means `from the high watermark` there, so a reverse subscription whose start time precedes the oldest message delivers the whole log instead of nothing")
	}
}

// ruleResolvedPositionIsTheOneReturned (R10.8 extension): whatever lookup getStartOffset / getStopOffset make, the offset it
// answers can be the offset the function returns on success. An answer that is assigned to a variable of an inner scope
// (`stopOffset, err := …` in a branch) only reaches the error return, and the caller gets the zero value.
func ruleResolvedPositionIsTheOneReturned(c *eng.Ctx) {
	for _, name := range []string{"getStartOffset", "getStopOffset"} {
		fn := c.Fn("server.(*partition)." + name)
		if fn == nil {
			continue
		}
		lookups := eng.CallsIn(fn, cl+"CommitLog.EarliestOffsetAfterTimestamp", cl+"CommitLog.LatestOffsetBeforeTimestamp", "server.partition.getReverseStartOffset")
		for i, l := range lookups {
			reaches := false
			for _, r := range eng.Returns(fn) {
				rv := eng.RetVals(r)
				if len(rv) != 2 || !eng.NilConst(rv[1]) {
					// a tuple handed on as it is (return p.getReverseStartOffset(…)) carries the answer too
					if len(rv) == 2 {
						e0, ok0 := eng.Strip(rv[0]).(*ssa.Extract)
						e1, ok1 := eng.Strip(rv[1]).(*ssa.Extract)
						if ok0 && ok1 && e0.Tuple == l.Value() && e1.Tuple == l.Value() && e0.Index == 0 && e1.Index == 1 {
							reaches = true
						}
					}
					continue
				}
				for _, s := range phiSources(rv[0]) {
					b, _ := linearOf(s)
					if e, ok := b.(*ssa.Extract); ok && e.Tuple == l.Value() && e.Index == 0 {
						reaches = true
					}
				}
			}
			c.Check(reaches, "the offset a timestamp lookup answers in "+name+" can be the one returned"+map[bool]string{true: "", false: " #" + string(rune('1'+i))}[i == 0], c.Pos(l.(ssa.Instruction)), "the lookup's answer flows into the successful return", name+" makes a timestamp lookup whose answer never reaches its successful return (assigned to a variable of an inner scope): the caller gets 0 — a reverse subscription with a stop time reads past it down to offset 0")
		}
	}
}

// ruleCreateStampsEpochs (R07.5, shared into C06): the CREATE_STREAM case of apply stamps (leader epoch, epoch) = Raft index on
// the partitions before applyCreateStream, for live applies and replays alike; Restore rebuilds partitions through
// applyCreateStream with the epochs the snapshot carries.
func ruleCreateStampsEpochs(c *eng.Ctx) {
	p := c.P
	fn := c.Fn("server.(*Server).apply")
	if fn == nil {
		return
	}
	cs := eng.CallsIn(fn, "server.Server.applyCreateStream")
	n := 0
	for _, f := range []string{"LeaderEpoch", "Epoch"} {
		fo := p.Field("server/protocol", "Partition", f)
		for _, st := range eng.FieldStores(fn, func(fa *ssa.FieldAddr) bool { return fieldIs(fa, fo) }) {
			if eng.Param("index")(st.Val) && len(cs) == 1 {
				q := &eng.PathQuery{Fn: fn, FromAfter: []ssa.Instruction{cs[0].(ssa.Instruction)}, Target: func(x ssa.Instruction) bool { return x == st }}
				if q.Find() == nil {
					n++
				}
			}
		}
	}
	c.Check(n == 2, "CREATE_STREAM stamps leader and partition epoch with the Raft index", p.Pos(fn.Pos()), "partition.LeaderEpoch = index; partition.Epoch = index before applyCreateStream", "a created stream's partitions do not start at (leader epoch, epoch) = Raft index: later operations with smaller indices are not fenced, and a path that builds partitions without the stamp (a restore from a snapshot) gives them other epochs than the servers that applied the log")
	// nothing below the apply switch re-stamps: AddStream keeps the epochs it is handed
	if as := c.FnQuiet("server.(*metadataAPI).AddStream"); as != nil {
		for _, f := range []string{"LeaderEpoch", "Epoch"} {
			fo := p.Field("server/protocol", "Partition", f)
			for _, st := range eng.FieldStores(as, func(fa *ssa.FieldAddr) bool { return fieldIs(fa, fo) }) {
				c.Violate("AddStream keeps the epochs of the partitions it is handed", c.Pos(st), "metadataAPI.AddStream stores Partition."+f+": AddStream also runs for every stream of a restored snapshot (applyCreateStream(stream, true, 0)), whose partitions carry their epochs — overwriting them gives a restored server other epochs than the servers that applied the log")
			}
		}
	}
}

var _ = types.Typ

// ruleLoadedEpochsBecomeTheCache (R05.5 / R02.5 extension): what readLeaderEpochOffsets answers when the checkpoint file is opened
// is what the new cache starts with. An answer assigned to a variable of an inner scope leaves the cache empty after every
// reopen; recovery then rebuilds the history from the messages (first message of each epoch), which is one higher than what
// an election recorded — a restarted leader answers epoch queries one too high.
func ruleLoadedEpochsBecomeTheCache(c *eng.Ctx) {
	p := c.P
	fn := c.Fn(cl + "newLeaderEpochCache")
	if fn == nil {
		return
	}
	var reads []ssa.Value
	for _, cs := range eng.CallsIn(fn, cl+"readLeaderEpochOffsets") {
		reads = append(reads, cs.Value())
	}
	eo := p.Field(clPkg, "leaderEpochCache", "epochOffsets")
	sts := eng.FieldStores(fn, func(fa *ssa.FieldAddr) bool { return fieldIs(fa, eo) })
	if len(reads) == 0 || len(sts) == 0 {
		c.Unresolved("readLeaderEpochOffsets call / store of leaderEpochCache.epochOffsets in newLeaderEpochCache")
		return
	}
	ok := false
	for _, st := range sts {
		for _, s := range phiSources(st.Val) {
			if e, isE := s.(*ssa.Extract); isE && e.Index == 0 {
				for _, r := range reads {
					if e.Tuple == r {
						ok = true
					}
				}
			}
		}
	}
	c.Check(ok, "the epochs read from the checkpoint file are what the cache starts with", c.Pos(sts[0]), "epochOffsets: the answer of readLeaderEpochOffsets", "newLeaderEpochCache reads the checkpoint file and drops the answer (assigned to a variable of an inner scope): every reopened log starts with an empty epoch history, recovery rebuilds it from the first message of each epoch — one higher than an election recorded — and a restarted leader tells a returning replica to keep its uncommitted message at a committed offset")
}

// ruleStreamKeepsTheConfigItWasHanded (R16.8 / R11.x extension): metadataAPI.AddStream creates the partitions of a stream from the
// very StreamConfig object it handed to newStream; the retention overrides of the reserved streams (the cursors stream keeps
// everything until compaction) reach the partitions because newStream applies them to that object. newStream therefore keeps
// the pointer; with a copy the partitions of the cursors stream open their logs with the retention limits of ordinary streams.
func ruleStreamKeepsTheConfigItWasHanded(c *eng.Ctx) {
	fn := c.Fn("server.newStream")
	if fn == nil {
		return
	}
	n := 0
	for _, st := range eng.FieldStores(fn, func(fa *ssa.FieldAddr) bool {
		return eng.FieldNameOf(fa) == "config" && strings.HasSuffix(fa.X.Type().String(), "server.stream")
	}) {
		n++
		c.Check(eng.Param("config")(st.Val), "a stream keeps the configuration object it was created with", c.Pos(st), "stream.config = config (the caller's object)", "newStream stores a configuration other than the object it was handed ("+eng.Describe(st.Val)+"): AddStream goes on to create the partitions from its own pointer, so the reserved-stream overrides applied to the copy never reach them — the cursors partitions are opened with the retention limits of ordinary streams, the delete cleaner removes the only copy of old cursors, and FetchCursor answers -1")
	}
	if n == 0 {
		c.Unresolved("the store of stream.config in newStream")
	}
}

// ruleISRChangeCarriesTheReplicatorsGeneration (R02.7, shared into C07): the (leader, epoch) a ShrinkISR / ExpandISR request
// carries are the replicator's own — the generation it was started for — so that the controller's fence refuses the request
// of a deposed leader's replicator that is still running during the step-down window.
func ruleISRChangeCarriesTheReplicatorsGeneration(c *eng.Ctx) {
	p := c.P
	_ = p
	for _, k := range []string{"server.(*replicator).shrinkISR", "server.(*replicator).expandISR"} {
		fn := c.Fn(k)
		if fn == nil {
			continue
		}
		ok := 0
		eng.Instrs(fn, func(in ssa.Instruction) {
			if st, isSt := in.(*ssa.Store); isSt {
				if fa, isFA := st.Addr.(*ssa.FieldAddr); isFA {
					switch eng.FieldNameOf(fa) {
					case "Leader":
						if eng.LoadNamed("leader", eng.Param("r"))(st.Val) {
							ok++
						}
					case "LeaderEpoch":
						if eng.LoadNamed("epoch", eng.Param("r"))(st.Val) {
							ok++
						}
					}
				}
			}
		})
		c.Check(ok == 2, fn.Name()+" carries the replicator's (leader, epoch)", p.Pos(fn.Pos()), "Leader: r.leader, LeaderEpoch: r.epoch", "the ISR change request does not carry the replicator's own leader and epoch: the controller's staleness fence is bypassed or always fails")
	}
}

// ruleInternalPublishResumesThePartition (R18.3 extension): the activity dispatcher publishes through apiServer.publishInternal.
// The activity stream is a stream like any other: with streams.auto.pause.time it pauses itself when idle, and only a publish
// that resumes the partition first can ever be acknowledged. So on the way from publishInternal to the publish itself, the
// partition is resumed (in publishInternal or in the function it hands the request to).
func ruleInternalPublishResumesThePartition(c *eng.Ctx) {
	p := c.P
	entry := c.Fn("server.(*apiServer).publishInternal")
	if entry == nil {
		return
	}
	// follow publishInternal into the module functions it calls (two levels): the function that publishes
	seen := map[*ssa.Function]bool{}
	var walk func(fn *ssa.Function, resumed bool, depth int) (found, ok bool)
	walk = func(fn *ssa.Function, resumed bool, depth int) (found, ok bool) {
		if seen[fn] || depth > 3 {
			return false, true
		}
		seen[fn] = true
		ok = true
		pubs := eng.CallsIn(fn, "server.apiServer.publish", "server.apiServer.publishSync", "github.com/nats-io/nats.go.Conn.Publish", "github.com/nats-io/nats.go.Conn.PublishMsg")
		for _, pc := range pubs {
			found = true
			if resumed {
				continue
			}
			g, _ := eng.PrecededBy(fn, pc.(ssa.Instruction), eng.IsCallTo("server.apiServer.resumeStream"))
			if !g {
				ok = false
			}
		}
		if found {
			return found, ok
		}
		eng.Instrs(fn, func(in ssa.Instruction) {
			call, isCall := in.(*ssa.Call)
			if !isCall {
				return
			}
			g := call.Call.StaticCallee()
			if g == nil || !p.IsModuleFunc(g) || g.Pkg != fn.Pkg || len(g.Blocks) == 0 {
				return
			}
			r := resumed
			if !r {
				r, _ = eng.PrecededBy(fn, in, eng.IsCallTo("server.apiServer.resumeStream"))
			}
			f2, ok2 := walk(g, r, depth+1)
			if f2 {
				found = true
				if !ok2 {
					ok = false
				}
			}
		})
		return found, ok
	}
	found, ok := walk(entry, false, 0)
	if !found {
		c.Unresolved("the publish reached from apiServer.publishInternal")
		return
	}
	c.Check(ok, "an internal publish resumes the partition before it publishes", p.Pos(entry.Pos()), "resumeStream(stream, partition) on every way from publishInternal to the publish", "apiServer.publishInternal reaches the publish without resuming the partition: when the activity stream has paused itself (streams.auto.pause.time and an idle period) the dispatcher's publish is never acknowledged, it retries the same event for ever, and nothing committed afterwards is ever listed")
}

// ruleInstanceIDComesFromTheIDFile (R19.3 extension): the instance id a report carries is the one loadOrCreateInstanceID
// answers (random, or read back from the id file) — the collector is never handed an id from outside. The server's own id is
// operator-chosen (clustering.server.id, usually a host or pod name): sending it names the deployment.
func ruleInstanceIDComesFromTheIDFile(c *eng.Ctx) {
	fn := c.Fn("server/telemetry.New")
	if fn == nil {
		return
	}
	n := 0
	for _, st := range eng.FieldStores(fn, func(fa *ssa.FieldAddr) bool {
		return eng.FieldNameOf(fa) == "instanceID" && strings.HasSuffix(fa.X.Type().String(), "telemetry.Collector")
	}) {
		n++
		bad := ""
		for _, s := range phiSources(st.Val) {
			e, ok := s.(*ssa.Extract)
			if !ok || e.Index != 0 || !eng.Call(-1, "server/telemetry.loadOrCreateInstanceID")(e.Tuple) {
				bad = eng.Describe(s)
			}
		}
		c.Check(bad == "", "the collector's instance id is the one the id file yields", c.Pos(st), "instanceID: the answer of loadOrCreateInstanceID(cfg.DataDir)", "telemetry.New can take the instance id from "+bad+" instead of the id file: whatever the caller passes — the server's own id is an operator-chosen name, typically a host or pod name — leaves the server with every report")
	}
	if n == 0 {
		c.Unresolved("the store of Collector.instanceID in telemetry.New")
	}
}

// ruleRestoredGroupReplaysTheJoins (R12.5 / R06.6 extension): the assignments of a group depend on the order in which its members
// joined (each join pushes one consumer and rebalances its streams). A group rebuilt from a snapshot therefore re-adds the
// members one by one through addMember — the very path a logged join takes — in the order Snapshot recorded them; pushing
// all of them first and balancing once gives a restored server other assignments, at the same epoch, than the servers that
// applied the log.
func ruleRestoredGroupReplaysTheJoins(c *eng.Ctx) {
	fn := c.Fn("server.newConsumerGroup")
	if fn == nil {
		return
	}
	adds := eng.CallsIn(fn, "server.consumerGroup.addMember")
	direct := eng.CallsIn(fn, "container/heap.Push", "server.consumerGroup.balanceAssignmentsForStream", "server.consumerGroup.addConsumer")
	pos := c.P.Pos(fn.Pos())
	if len(direct) > 0 {
		pos = c.Pos(direct[0].(ssa.Instruction))
	}
	c.Check(len(adds) > 0 && len(direct) == 0, "a group restored from a snapshot re-adds its members the way a join does", pos, "group.addMember(member.Id, member.Streams) per recorded member, nothing else touches the heaps", "newConsumerGroup fills the subscriber heaps or balances on its own instead of re-adding each recorded member through addMember: the assignments a join-by-join history produced are not reproduced, so a server restored from a snapshot hands out other assignments for the same group epoch than the servers that applied the joins from the log")
}

// Rules for the round-10 misses.

// ruleFollowerAlwaysAsksTheLeader (R02.2 extension): a server that starts following reconciles its log with the leader every
// time — also when its newest messages already carry the current leader epoch: the leader may have lost the unflushed tail of
// that very epoch in a crash and gone on in it, and only its answer tells the follower that its own tail is no longer there.
func ruleFollowerAlwaysAsksTheLeader(c *eng.Ctx) {
	fn := c.Fn("server.(*partition).truncateUncommitted")
	if fn == nil {
		return
	}
	// the request sits in a bounded retry loop (`for i := 0; i < 3; i++`): the loop is entered at least once, so the exit
	// edge of a counting loop whose counter starts below its constant bound is not a way around the request (paths that
	// did pass the request end there anyway)
	zeroTrip := func(e eng.Edge) bool {
		iff, ok := e.From.Instrs[len(e.From.Instrs)-1].(*ssa.If)
		if !ok || e.Succ != 1 {
			return false
		}
		bo, ok := iff.Cond.(*ssa.BinOp)
		if !ok {
			return false
		}
		// counter OP bound, either way round (`i < 3`, `remaining > 0`, `3 > i`): true for the counter's constant start
		holds := func(a int64, op token.Token, b int64) bool {
			switch op {
			case token.LSS:
				return a < b
			case token.LEQ:
				return a <= b
			case token.GTR:
				return a > b
			case token.GEQ:
				return a >= b
			case token.NEQ:
				return a != b
			}
			return false
		}
		try := func(counter, bound ssa.Value, swapped bool) bool {
			ph, isPhi := counter.(*ssa.Phi)
			b, okB := eng.ConstVal(bound)
			if !isPhi || !okB {
				return false
			}
			for _, in := range ph.Edges {
				if k, okK := eng.ConstVal(in); okK {
					if (!swapped && holds(k, bo.Op, b)) || (swapped && holds(b, bo.Op, k)) {
						return true
					}
				}
			}
			return false
		}
		return try(bo.X, bo.Y, false) || try(bo.Y, bo.X, true)
	}
	q := &eng.PathQuery{Fn: fn, FromEntry: true, Target: isReturn, CutInstr: eng.IsCallTo("server.partition.sendLeaderOffsetRequest"), CutEdgeFn: zeroTrip}
	w := q.Find()
	c.Check(w == nil, "a follower asks the leader where its epoch ends every time it starts following", c.P.Pos(fn.Pos()), "every way out of truncateUncommitted passes sendLeaderOffsetRequest", "truncateUncommitted can return without having asked the leader ("+w.String()+"): a follower that skips the request because its log already ends in the current leader epoch keeps a tail the leader lost in a crash and went on without — it appends the leader's new messages behind its stale ones and the replicas differ below the high watermark")
}

// ruleEveryEntryCarriesItsOwnEpoch (R02.5 / R01.1 extension): a replicated batch can cross a leader-epoch boundary; the entry
// entriesForMessageSet builds for a message set takes offset, timestamp AND leader epoch from that set's own header.
func ruleEveryEntryCarriesItsOwnEpoch(c *eng.Ctx) {
	fn := c.Fn(cl + "entriesForMessageSet")
	if fn == nil {
		return
	}
	recv := func(ref string) ssa.Value {
		for _, cs := range eng.CallsIn(fn, ref) {
			if a := cs.Common().Args; len(a) > 0 {
				return eng.Strip(a[0])
			}
		}
		return nil
	}
	off, ep := recv(cl+"messageSet.Offset"), recv(cl+"messageSet.LeaderEpoch")
	if off == nil || ep == nil {
		c.Unresolved("the messageSet.Offset / messageSet.LeaderEpoch reads of entriesForMessageSet")
		return
	}
	c.Check(off == ep, "an entry's leader epoch is read from the message set its offset is read from", c.P.Pos(fn.Pos()), "m.Offset() and m.LeaderEpoch() of the same m, per message set", "entriesForMessageSet reads the leader epoch from another value ("+eng.Describe(ep)+") than the message set it reads the offset from ("+eng.Describe(off)+"): every entry of a replicated batch gets the epoch of the first set, the follower never records the newer epoch of a batch that crosses a leader change, and once it leads it answers LastOffsetForLeaderEpoch too high — a returning replica keeps part of its divergent tail")
}

// ruleEnforcerReadsThePolicyFile (R15.9 extension): SIGHUP revokes permissions by having the enforcer load its policy again.
// That only works while the enforcer is built on the policy FILE (casbin.NewEnforcer(model path, policy path)): an enforcer
// built on text captured at start-up (a string adapter, an expanded copy) reloads that same text and reports success.
func ruleEnforcerReadsThePolicyFile(c *eng.Ctx) {
	p := c.P
	n := 0
	for _, fn := range p.Funcs {
		if !p.IsModuleFunc(fn) {
			continue
		}
		for _, cs := range eng.CallsIn(fn, "github.com/casbin/casbin/v2.NewEnforcer") {
			n++
			elems := variadicElems(cs.Common().Args[len(cs.Common().Args)-1])
			ok := len(elems) == 2
			for i, want := range []string{"TLSClientAuthzModel", "TLSClientAuthzPolicy"} {
				if !ok {
					break
				}
				v := elems[i]
				if mi, isMI := v.(*ssa.MakeInterface); isMI {
					v = mi.X
				}
				ok = eng.LoadNamed(want, nil)(eng.Strip(v))
			}
			c.Check(ok, "the policy enforcer is built on the configured model and policy files", c.Pos(cs.(ssa.Instruction)), "casbin.NewEnforcer(config.TLSClientAuthzModel, config.TLSClientAuthzPolicy)", "the enforcer in "+fn.Name()+" is not built on the configured policy file path: LoadPolicy on SIGHUP then re-reads whatever it was built on — text captured at start-up — and a permission removed from the policy file stays granted until the server is restarted")
		}
	}
	for _, fn := range p.Funcs {
		if !p.IsModuleFunc(fn) {
			continue
		}
		for _, cs := range eng.CallsIn(fn, "github.com/casbin/casbin/v2.NewCachedEnforcer", "github.com/casbin/casbin/v2.NewSyncedCachedEnforcer") {
			n++
			c.Violate("authorisation decisions are made by the policy as it is now, not remembered", c.Pos(cs.(ssa.Instruction)), fn.Name()+" builds a caching enforcer: a decision evaluated while a reload is under way is written back into the cache after the cache was cleared, so a permission the new policy no longer grants stays granted for that (client, resource, action) for ever")
		}
	}
	if n == 0 {
		c.Unresolved("a casbin.NewEnforcer call in the module")
	}
}

// ruleRetentionDeletesWhatItWasHanded (R09.5 extension): deleteSegments is handed the segments a pass dropped from the log and
// removes the files of every one of them, oldest first, until a removal fails. Segments an EARLIER pass already marked (its
// removal failed part of the way) are in the list again precisely so that this pass retries them: a list filtered by "newly
// marked" never retries, their files stay, and the next open finds a log with a hole.
func ruleRetentionDeletesWhatItWasHanded(c *eng.Ctx) {
	fn := c.Fn(cl + "(*deleteCleaner).deleteSegments")
	if fn == nil {
		return
	}
	dels := eng.CallsIn(fn, cl+"segment.Delete")
	if len(dels) == 0 {
		c.Unresolved("the segment.Delete call of deleteSegments")
		return
	}
	for _, d := range dels {
		recv := eng.Strip(d.Common().Args[0])
		ok := false
		if u, isLoad := recv.(*ssa.UnOp); isLoad {
			if ia, isIA := u.X.(*ssa.IndexAddr); isIA && eng.Param("segments")(eng.Strip(ia.X)) {
				ok = true
			}
		}
		c.Check(ok, "the files of every segment handed to deleteSegments are removed", c.Pos(d.(ssa.Instruction)), "seg.Delete() for seg ranging over the parameter list itself", "deleteSegments calls Delete on the elements of another list ("+eng.Describe(recv)+") than the one it was handed: segments that an earlier, partly failed pass already marked are handed in again to be retried — a list of the newly marked ones skips them, their files stay on disk while newer ones go, and a reopened log begins with a hole")
	}
}

// ruleLastWriteTimeFollowsTheLastEntry (R01.8 / R09.1 extension): a segment's lastWriteTime is the timestamp of its last entry —
// that is what setupIndex derives when the segment is reopened, and what the age limit compares. segment.write therefore
// stores it on every successful write, whatever the previous value was (timestamps can step back after a leader change).
func ruleLastWriteTimeFollowsTheLastEntry(c *eng.Ctx) {
	p := c.P
	fn := c.Fn(cl + "(*segment).write")
	if fn == nil {
		return
	}
	lw := p.Field(clPkg, "segment", "lastWriteTime")
	stores := func(in ssa.Instruction) bool {
		st, ok := in.(*ssa.Store)
		if !ok {
			return false
		}
		fa, ok := st.Addr.(*ssa.FieldAddr)
		return ok && fieldIs(fa, lw)
	}
	n := 0
	eng.Instrs(fn, func(in ssa.Instruction) {
		if stores(in) {
			n++
		}
	})
	if n == 0 {
		c.Unresolved("the store of segment.lastWriteTime in segment.write")
		return
	}
	// an empty batch writes nothing and may leave early: only returns behind the file write count
	wrote := eng.IsCallTo("os.File.Write", "os.File.WriteAt", "io.Writer.Write")
	q := &eng.PathQuery{Fn: fn, FromEntry: true, Target: func(x ssa.Instruction) bool {
		r, ok := x.(*ssa.Return)
		if !ok {
			return false
		}
		rv := eng.RetVals(r)
		if len(rv) == 0 || !eng.NilConst(rv[len(rv)-1]) {
			return false
		}
		g, _ := eng.PrecededBy(fn, x, wrote)
		return g
	}, CutInstr: stores}
	w := q.Find()
	c.Check(w == nil, "every successful write moves lastWriteTime to the last entry's timestamp", p.Pos(fn.Pos()), "s.lastWriteTime = last.Timestamp unconditionally", "segment.write can succeed without storing lastWriteTime ("+w.String()+"): a running segment then reports another write time than the same segment after a reopen (setupIndex takes the last entry's timestamp) — the age limit keeps an expired segment on one server and removes it on another, or after a restart")
}

// ruleEncodeWritesTheKeyAsItIs (R01.17 extension): nil and empty are different keys on the wire (PutBytes writes -1 for nil and
// 0 for empty) and for compaction (messages without a key are never dropped, the empty key is a key). Message.Encode hands
// PutBytes the Key field itself.
func ruleEncodeWritesTheKeyAsItIs(c *eng.Ctx) {
	fn := c.Fn(cl + "(*Message).Encode")
	if fn == nil {
		return
	}
	ok, n := false, 0
	for _, cs := range eng.CallsIn(fn, cl+"packetEncoder.PutBytes", cl+"PacketEncoder.PutBytes") {
		n++
		args := eng.AllArgs(cs.Common())
		if eng.LoadNamed("Key", eng.Param("m"))(eng.Strip(args[len(args)-1])) {
			ok = true
		}
	}
	if n == 0 {
		eng.Instrs(fn, func(in ssa.Instruction) {
			if call, isCall := in.(*ssa.Call); isCall && call.Call.IsInvoke() && call.Call.Method.Name() == "PutBytes" {
				n++
				if eng.LoadNamed("Key", eng.Param("m"))(eng.Strip(call.Call.Args[0])) {
					ok = true
				}
			}
		})
	}
	if n == 0 {
		c.Unresolved("the PutBytes calls of Message.Encode")
		return
	}
	c.Check(ok, "Encode writes the message key as it is", c.P.Pos(fn.Pos()), "e.PutBytes(m.Key)", "Message.Encode does not hand PutBytes the Key field itself (a normalised copy instead): a key that is empty but not nil is stored as `no key` — what is read back differs from what was appended, and compaction, which never drops keyless messages, stops compacting that key")
}

// ruleRecoveredEpochStartsAtItsFirstMessage (R05.8 / R02.5 extension): recoverLeaderEpochs scans the log backwards; every message of
// an epoch the cache does not know leaves its offset as that epoch's start, so the oldest one wins. A collection that keeps
// the first offset it sees per epoch keeps the NEWEST message's offset.
func ruleRecoveredEpochStartsAtItsFirstMessage(c *eng.Ctx) {
	fn := c.Fn(cl + "(*commitLog).recoverLeaderEpochs")
	if fn == nil {
		return
	}
	ruleEpochRecoveryWalksEverySegment(c, fn)
	var eps []ssa.Instruction
	for _, cs := range eng.CallsIn(fn, cl+"messageSet.LeaderEpoch") {
		eps = append(eps, cs.(ssa.Instruction))
	}
	scans := eng.CallsIn(fn, cl+"reverseSegmentScanner.Scan")
	if len(eps) == 0 || len(scans) == 0 {
		c.Unresolved("the reverse scan and the messageSet.LeaderEpoch read of recoverLeaderEpochs")
		return
	}
	off := eng.Call(-1, cl+"messageSet.Offset")
	records := func(in ssa.Instruction) bool {
		switch x := in.(type) {
		case *ssa.Store:
			return off(eng.Strip(x.Val))
		case *ssa.MapUpdate:
			return off(eng.Strip(x.Value))
		}
		return false
	}
	known := eng.CmpEdges(fn, eng.Call(-1, cl+"messageSet.LeaderEpoch"), eng.Call(-1, cl+"leaderEpochCache.LastLeaderEpoch"), eng.LE)
	next := func(in ssa.Instruction) bool {
		for _, s := range scans {
			if in == s.(ssa.Instruction) {
				return true
			}
		}
		return false
	}
	q := &eng.PathQuery{Fn: fn, FromAfter: eps, Target: next, CutInstr: records, CutEdges: known}
	w := q.Find()
	c.Check(w == nil && len(known) > 0, "every message of a recovered epoch moves the epoch's start to its own offset", c.Pos(eps[0]), "the backward scan stores ms.Offset() for each message of an epoch the cache does not know", "recoverLeaderEpochs can go on to the next (older) message without recording this one's offset ("+w.String()+"): the start recorded for a recovered epoch is then the offset of its NEWEST message, the epoch before it seems to reach further than it does, and a follower that asks where that epoch ended keeps messages the leader does not have")
}

// ruleChangeLeaderPreconditionLooksThePartitionUp (R07.10 extension): the precondition of a proposed leader change runs later,
// under the Raft proposal lock; it asks whether the new leader is in the in-sync set of the partition object the metadata
// store holds THEN. A partition object captured when the election started may have been replaced since (pause → resume).
func ruleChangeLeaderPreconditionLooksThePartitionUp(c *eng.Ctx) {
	outer := c.Fn("server.(*metadataAPI).checkChangeLeaderPreconditions")
	if outer == nil {
		return
	}
	n := 0
	for _, g := range append([]*ssa.Function{outer}, outer.AnonFuncs...) {
		for _, cs := range eng.CallsIn(g, "server.partition.inISR") {
			n++
			recv := eng.Strip(cs.Common().Args[0])
			c.Check(eng.Call(-1, "server.metadataAPI.GetPartition")(recv), "the leader-change precondition asks the partition the store holds when it runs", c.Pos(cs.(ssa.Instruction)), "m.GetPartition(req.Stream, req.Partition).inISR(req.Leader)", "the precondition of a leader change tests the in-sync set of "+eng.Describe(recv)+" instead of looking the partition up when it runs: after pause → resume the election still holds the replaced object, whose in-sync set no longer changes — a replica that was shrunk out since is accepted as the new leader")
		}
	}
	if n == 0 {
		c.Unresolved("the inISR test of checkChangeLeaderPreconditions")
	}
}

// ruleGroupMemberSubscribesAsGroupMember (R13.2 extension): whether a subscribe request belongs to a consumer group is decided
// by its consumer field alone. Nothing else in the request (direction, start position) takes a member's subscription out of
// the one-member-at-a-time bookkeeping.
func ruleGroupMemberSubscribesAsGroupMember(c *eng.Ctx) {
	fn := c.Fn("server.(*partition).Subscribe")
	if fn == nil {
		return
	}
	// the group id the bookkeeping is keyed by is the request's, or "" when the request names no consumer: an empty id that
	// arrives in the key over any other edge takes a member out of the bookkeeping
	noConsumer := eng.CmpEdges(fn, eng.LoadNamed("Consumer", nil), eng.NilConst, eng.EQ)
	noConsumer = append(noConsumer, eng.CmpEdges(fn, eng.Call(-1, "github.com/liftbridge-io/liftbridge-api/v2/go.SubscribeRequest.GetConsumer"), eng.NilConst, eng.EQ)...)
	onNoConsumer := func(pred, to *ssa.BasicBlock) bool {
		for _, e := range noConsumer {
			if e.From == pred && e.To() == to {
				return true
			}
		}
		if len(pred.Instrs) == 0 {
			return false
		}
		g, _ := eng.GuardedBy(fn, pred.Instrs[len(pred.Instrs)-1], noConsumer)
		return g
	}
	bad := ""
	seenPhi := map[*ssa.Phi]bool{}
	var walk func(v ssa.Value, at ssa.Instruction)
	walk = func(v ssa.Value, at ssa.Instruction) {
		ph, ok := eng.Strip(v).(*ssa.Phi)
		if !ok || seenPhi[ph] {
			return
		}
		seenPhi[ph] = true
		for i, e := range ph.Edges {
			if k, isC := eng.Strip(e).(*ssa.Const); isC && k.Value != nil && k.Value.String() == `""` {
				if !onNoConsumer(ph.Block().Preds[i], ph.Block()) {
					bad = "an empty group id set at " + c.P.InstrPos(ph.Block().Preds[i].Instrs[0])
				}
				continue
			}
			walk(e, at)
		}
	}
	eng.Instrs(fn, func(in ssa.Instruction) {
		switch x := in.(type) {
		case *ssa.MapUpdate:
			if eng.LoadNamed("consumers", nil)(x.Map) {
				walk(x.Key, in)
			}
		case *ssa.Lookup:
			if eng.LoadNamed("consumers", nil)(x.X) {
				walk(x.Index, in)
			}
		}
	})
	if len(noConsumer) == 0 {
		c.Unresolved("the test of the request's consumer in partition.Subscribe")
		return
	}
	c.Check(bad == "", "the group a subscription is booked under is the request's, whatever else the request asks for", c.P.Pos(fn.Pos()), "p.consumers is keyed by the request's group id on every path", "partition.Subscribe can key the group bookkeeping by "+bad+" although the request names a consumer: a member whose request carries some other option (a reverse subscription) is not checked against the current member's epoch, does not cancel it and is not registered — two members of one group consume the partition at the same time")
}

// ruleForeignAckNeverCompletesAPublish (R16.5 extension): two streams can be attached to one NATS subject and both leaders ack to
// the publisher's inbox. publishSync hands back an ack only when it is known to be the ack of the stream published to (or
// when no stream is known): whatever else an ack matches — a correlation id is chosen by the client and the same on both —
// an ack of another stream says nothing about the expected offset on this one.
func ruleForeignAckNeverCompletesAPublish(c *eng.Ctx) {
	fn := c.Fn("server.(*apiServer).publishSync")
	if fn == nil {
		return
	}
	dec := eng.CallsIn(fn, "server/protocol.UnmarshalAck")
	if len(dec) == 0 {
		c.Unresolved("the UnmarshalAck call of publishSync")
		return
	}
	ackStream := func(v ssa.Value) bool { f, _ := eng.FieldRead(eng.Strip(v)); return f != nil && f.Name() == "Stream" }
	mine := eng.EdgesWhere(fn, func(a eng.AtomView) bool {
		return a.RelHolds(ackStream, eng.Param("stream"), eng.EQ) || a.RelHolds(eng.Param("stream"), eng.StrConst(""), eng.EQ)
	})
	var from []ssa.Instruction
	for _, d := range dec {
		from = append(from, d.(ssa.Instruction))
	}
	q := &eng.PathQuery{Fn: fn, FromAfter: from, CutEdges: mine, Target: func(x ssa.Instruction) bool {
		r, ok := x.(*ssa.Return)
		if !ok {
			return false
		}
		rv := eng.RetVals(r)
		return len(rv) == 2 && !eng.NilConst(rv[0]) && eng.NilConst(rv[1])
	}, CutInstr: func(x ssa.Instruction) bool {
		for _, d := range dec {
			if x == d.(ssa.Instruction) {
				return true
			}
		}
		return false
	}}
	w := q.Find()
	c.Check(w == nil && len(mine) > 0, "an ack is handed back only when it names the stream published to", c.Pos(from[0]), "every way from decoding an ack to returning it crosses ack.Stream == stream (or stream == \"\")", "publishSync can return an ack without having compared its stream with the stream published to ("+w.String()+"): when two streams share the subject, the other stream's ack — it carries the same client-chosen correlation id — completes the publish, and a conditional publish whose expected offset was refused here is reported as stored")
}

// ruleAPublishGoesOnTheWireOnce (R16.x): apiServer.publish sends a message once. A copy sent again while the first is still
// waiting for its commit carries the same expected offset: the second is refused, its refusal arrives first, and the
// publisher is told its expected offset was wrong although its message is stored at exactly that offset.
func ruleAPublishGoesOnTheWireOnce(c *eng.Ctx) {
	fn := c.Fn("server.(*apiServer).publish")
	if fn == nil {
		return
	}
	sends := eng.CallsIn(fn, "server.apiServer.publishSync", "github.com/nats-io/nats.go.Conn.Publish", "github.com/nats-io/nats.go.Conn.PublishRequest")
	if len(sends) == 0 {
		c.Unresolved("the send (publishSync / Conn.Publish) of apiServer.publish")
		return
	}
	for _, s := range sends {
		s := s
		q := &eng.PathQuery{Fn: fn, FromAfter: []ssa.Instruction{s.(ssa.Instruction)}, Target: func(x ssa.Instruction) bool { return x == s.(ssa.Instruction) }}
		w := q.Find()
		c.Check(w == nil, "a publish is sent once per call", c.Pos(s.(ssa.Instruction)), "no way back to the send after it", "apiServer.publish can send the same message again ("+w.String()+"): the copy carries the same expected offset as the original, which is still waiting to be committed — it is refused, the refusal overtakes the ack, and the publisher of a conditional publish is told `incorrect offset` about a message that was stored where it asked")
	}
}

// ruleStreamConfigCopiesAreComplete (R16.8 / R06.x extension): a StreamConfig that is built field by field from another one
// carries every field of the message (the optional settings are what a stream was created with: concurrency control,
// encryption, retention, compaction …). A field the copy leaves out is the default again wherever the copy is used — in a
// snapshot, for every server that restores from it.
func ruleStreamConfigCopiesAreComplete(c *eng.Ctx) {
	p := c.P
	pp := p.ByPath["server/protocol"]
	if pp == nil || pp.Types == nil {
		c.Unresolved("package server/protocol")
		return
	}
	obj := pp.Types.Scope().Lookup("StreamConfig")
	if obj == nil {
		c.Unresolved("type server/protocol.StreamConfig")
		return
	}
	st, ok := obj.Type().Underlying().(*types.Struct)
	if !ok {
		c.Unresolved("struct server/protocol.StreamConfig")
		return
	}
	isCfg := func(t types.Type) bool {
		if pt, ok := t.Underlying().(*types.Pointer); ok {
			t = pt.Elem()
		}
		return types.Identical(t, obj.Type())
	}
	seen := 0
	for _, fn := range p.Funcs {
		if !p.IsModuleFunc(fn) || fn.Pkg == nil || fn.Pkg.Pkg == pp.Types {
			continue
		}
		seen++
		byAlloc := map[*ssa.Alloc]map[string]bool{}
		copies := map[*ssa.Alloc]bool{}
		eng.Instrs(fn, func(in ssa.Instruction) {
			s, isSt := in.(*ssa.Store)
			if !isSt {
				return
			}
			fa, isFA := s.Addr.(*ssa.FieldAddr)
			if !isFA {
				return
			}
			al, isAl := fa.X.(*ssa.Alloc)
			if !isAl || !al.Heap || !isCfg(al.Type()) {
				return
			}
			if byAlloc[al] == nil {
				byAlloc[al] = map[string]bool{}
			}
			byAlloc[al][eng.FieldNameOf(fa)] = true
			// is the value taken from (a field of) another StreamConfig — directly or through a copying helper?
			var fromCfg func(v ssa.Value, d int) bool
			fromCfg = func(v ssa.Value, d int) bool {
				v = eng.Strip(v)
				if d > 3 || v == nil {
					return false
				}
				if f, b := eng.FieldRead(v); f != nil && b != nil && isCfg(b.Type()) {
					return true
				}
				if call := eng.AsCall(v); call != nil {
					for _, a := range call.Call.Args {
						if fromCfg(a, d+1) {
							return true
						}
					}
				}
				return false
			}
			if fromCfg(s.Val, 0) {
				copies[al] = true
			}
		})
		for al, set := range byAlloc {
			if !copies[al] {
				continue
			}
			missing := ""
			for i := 0; i < st.NumFields(); i++ {
				n := st.Field(i).Name()
				if strings.HasPrefix(n, "XXX_") || !st.Field(i).Exported() {
					continue
				}
				if !set[n] {
					missing += " " + n
				}
			}
			c.Check(missing == "", "a StreamConfig copied field by field in "+fn.Name()+" carries every field", c.Pos(al), "every exported field of proto.StreamConfig is set from the source", fn.Name()+" builds a StreamConfig from another one and leaves out field(s)"+missing+": wherever the copy is used the omitted setting is the server default again — in a snapshot every server that restores from it runs the stream without the setting it was created with (a stream created with optimistic concurrency control stores stale conditional publishes)")
		}
	}
	if seen == 0 {
		c.Unresolved("module functions")
	}
}

// ruleValidAcceptsTheNullMarkerEverywhere (R01.11 / R14.x extension): Message.Encode writes a nil key, value or header value as the
// size -1, and the readers (Key, Value, Headers) read -1 back as nil. SerializedMessage.valid — what a follower checks a
// replicated message with — therefore accepts -1 for every size-prefixed field: a size of -1 never reaches the `size < 0`
// rejection. Otherwise a message the leader stored and serves is refused by every follower, and replication of the
// partition stalls for good.
func ruleValidAcceptsTheNullMarkerEverywhere(c *eng.Ctx) {
	fn := c.Fn(cl + "(SerializedMessage).valid")
	if fn == nil {
		fn = c.FnQuiet(cl + "SerializedMessage.valid")
	}
	if fn == nil {
		return
	}
	isSize := func(v ssa.Value) bool {
		call := eng.AsCall(eng.Strip(v))
		if call == nil {
			return false
		}
		if call.Call.IsInvoke() {
			return call.Call.Method.Name() == "Uint32"
		}
		return strings.HasSuffix(eng.CalleeRef(&call.Call), ".Uint32")
	}
	var decodes []ssa.Instruction
	eng.Instrs(fn, func(in ssa.Instruction) {
		if v, ok := in.(ssa.Value); ok && isSize(v) {
			if _, isCall := in.(*ssa.Call); isCall {
				decodes = append(decodes, in)
			}
		}
	})
	neg := eng.CmpEdges(fn, isSize, eng.IntConst(0), eng.LT)
	notNull := eng.CmpEdges(fn, isSize, eng.IntConst(-1), eng.NE)
	if len(decodes) == 0 || len(neg) == 0 {
		c.Unresolved("the size reads and the `size < 0` rejections of SerializedMessage.valid")
		return
	}
	isNeg := func(e eng.Edge) bool {
		for _, n := range neg {
			if n.From == e.From && n.Succ == e.Succ {
				return true
			}
		}
		return false
	}
	q := &eng.PathQuery{Fn: fn, FromAfter: decodes, TargetEdge: isNeg, CutEdges: notNull, CutInstr: func(x ssa.Instruction) bool {
		for _, d := range decodes {
			if x == d {
				return true
			}
		}
		return false
	}}
	w := q.Find()
	c.Check(w == nil && len(notNull) > 0, "valid() accepts the null marker -1 for every size-prefixed field", c.P.Pos(fn.Pos()), "size == -1 is accepted before `size < 0` rejects, for the key, the value and every header value", "SerializedMessage.valid can reject a size of -1 ("+w.String()+"): Encode writes a nil header value (an envelope whose headers entry has no value) as -1 and the leader stores and serves the message, but every follower refuses every replication response that contains it — replication of the partition stalls permanently")
}

// ruleHWCheckpointIsReplacedAtomically (R05.2, shared into C03): the high-watermark checkpoint is what a restarted server takes
// for "committed". It is replaced as a whole (atomic.WriteFile): a checkpoint overwritten in place keeps the tail of a longer
// earlier value ("-1" overwritten by "5" reads back as 51), and committed readers are handed the uncommitted tail of the log.
func ruleHWCheckpointIsReplacedAtomically(c *eng.Ctx) {
	fn := c.Fn(cl + "(*commitLog).checkpointHW")
	if fn == nil {
		return
	}
	aw := eng.CallsIn(fn, "github.com/natefinch/atomic.WriteFile")
	raw := eng.CallsIn(fn, "os.WriteFile", "os.Create", "os.OpenFile", "io/ioutil.WriteFile", "os.File.Write", "os.File.WriteString", "os.File.WriteAt")
	c.Check(len(aw) == 1 && len(raw) == 0, "checkpointHW replaces the high-watermark checkpoint atomically", c.P.Pos(fn.Pos()), "atomic.WriteFile and no other write", "checkpointHW does not replace its checkpoint as a whole: written in place, a shorter value leaves the tail of a longer earlier one behind (\"-1\" then \"5\" is read back as 51), so after a restart the log takes uncommitted messages for committed and hands them to subscribers")
}

// ruleACursorStructIsDecodedIntoOnce (R11.3 extension): the generated Unmarshal of proto.Cursor does not reset its receiver, and
// proto3 leaves zero values (offset 0, partition 0) off the wire. A struct that has been decoded into successfully is not
// decoded into again: the second cursor would inherit the first one's offset wherever its own is 0.
func ruleACursorStructIsDecodedIntoOnce(c *eng.Ctx) {
	p := c.P
	n := 0
	for _, fn := range p.Funcs {
		if !p.IsModuleFunc(fn) || fn.Pkg == nil || fn.Pkg.Pkg.Path() != ir.ModulePath+"/server" {
			continue
		}
		decs := eng.CallsIn(fn, "server/protocol.Cursor.Unmarshal")
		for _, d := range decs {
			n++
			d := d
			recv := eng.Strip(d.Common().Args[0])
			ok := eng.CmpEdges(fn, eng.Same(d.Value()), eng.NilConst, eng.EQ)
			if len(ok) == 0 {
				continue
			}
			q := &eng.PathQuery{Fn: fn, FromEdges: ok, Target: func(x ssa.Instruction) bool {
				ci, isCall := x.(ssa.CallInstruction)
				if !isCall || eng.CalleeRef(ci.Common()) != "server/protocol.Cursor.Unmarshal" {
					return false
				}
				return eng.Strip(ci.Common().Args[0]) == recv
			}, CutInstr: func(x ssa.Instruction) bool {
				ci, isCall := x.(ssa.CallInstruction)
				return isCall && eng.CalleeRef(ci.Common()) == "server/protocol.Cursor.Reset" && eng.Strip(ci.Common().Args[0]) == recv
			}}
			w := q.Find()
			c.Check(w == nil, "a Cursor struct that was decoded into is not decoded into again ("+fn.Name()+")", c.Pos(d.(ssa.Instruction)), "one successful Unmarshal per struct (or Reset in between)", fn.Name()+" decodes a second cursor into a struct that already holds one ("+w.String()+"): Unmarshal does not reset its receiver and a zero offset is not on the wire, so a cursor stored at offset 0 takes over the offset of the cursor decoded before it — FetchCursor answers (and caches) another consumer's position")
		}
	}
	if n == 0 {
		c.Unresolved("a proto.Cursor Unmarshal call in package server")
	}
}

// Rules for the round-11 misses.

// ruleNewPartitionCopiesTheServerDefaults (R16.7 extension, shared into C09): newPartition applies a stream's overrides to ITS OWN
// copy of the server's StreamsConfig (a local filled field by field). A pointer to the server's configuration itself lets
// ApplyOverrides write one stream's limits into the defaults every later stream starts from.
func ruleNewPartitionCopiesTheServerDefaults(c *eng.Ctx) {
	fn := c.Fn("server.(*Server).newPartition")
	if fn == nil {
		return
	}
	n := 0
	for _, cs := range eng.CallsIn(fn, "server.StreamsConfig.ApplyOverrides") {
		n++
		recv := eng.Strip(cs.Common().Args[0])
		_, fresh := recv.(*ssa.Alloc)
		c.Check(fresh, "the per-stream overrides are applied to the partition's own copy of the defaults", c.Pos(cs.(ssa.Instruction)), "ApplyOverrides on a StreamsConfig allocated in newPartition", "newPartition applies a stream's overrides to "+eng.Describe(recv)+", not to a copy made in the call: the server-wide defaults are rewritten, and every stream created afterwards runs under the previous stream's retention limits, compaction and concurrency-control settings")
	}
	if n == 0 {
		c.Unresolved("the ApplyOverrides call of newPartition")
	}
}

// ruleMinISRIsTheConfiguredOne (R04.2 extension): the commit rule compares the in-sync set with the CONFIGURED minimum. A
// minimum "capped at the number of replicas" acknowledges ALL-policy messages on a stream whose replication factor is
// below the minimum the operator asked for.
func ruleMinISRIsTheConfiguredOne(c *eng.Ctx) {
	p := c.P
	fn := c.Fn("server.(*Server).newPartition")
	if fn == nil {
		return
	}
	mf := p.Field("server", "partition", "minISR")
	n := 0
	for _, st := range eng.FieldStores(fn, func(fa *ssa.FieldAddr) bool { return fieldIs(fa, mf) }) {
		n++
		ok := true
		what := ""
		for _, s := range phiSources(st.Val) {
			if !eng.LoadNamed("MinISR", nil)(eng.Strip(s)) {
				ok, what = false, eng.Describe(s)
			}
		}
		c.Check(ok, "a partition's minimum in-sync size is the configured one", c.Pos(st), "minISR: streamsConfig.MinISR", "newPartition derives the minimum ISR size from "+what+" instead of taking the configured value as it is: with a replication factor below the configured minimum the commit rule is satisfied by fewer replicas than the operator demanded, and ALL-policy messages are acknowledged")
	}
	if n == 0 {
		c.Unresolved("the store of partition.minISR in newPartition")
	}
}

// ruleReplicatorOwnsItsHeaderBuffer (R02.x ownership): every replicator goroutine writes the header of the message it is
// sending into its own scratch buffer. A buffer shared by the replicators of a partition lets one follower be sent a
// message under the header (offset, epoch, size) of another.
func ruleReplicatorOwnsItsHeaderBuffer(c *eng.Ctx) {
	fn := c.Fn("server.newReplicator")
	if fn == nil {
		fn = c.FnQuiet("server.(*partition).newReplicator")
	}
	if fn == nil {
		return
	}
	n := 0
	for _, st := range eng.FieldStores(fn, func(fa *ssa.FieldAddr) bool { return eng.FieldNameOf(fa) == "headersBuf" }) {
		n++
		c.Check(freshSlice(c.P, st.Val, map[ssa.Value]bool{}), "a replicator's header scratch buffer is its own", c.Pos(st), "headersBuf: make([]byte, …) per replicator", "newReplicator gives the replicator a header buffer it did not make ("+eng.Describe(st.Val)+"): the replicators of a partition run concurrently, so one follower can be sent message X under the header of message Y — it stores the payload at another offset and epoch than the leader")
	}
	if n == 0 {
		// an array field (headersBuf [N]byte) is owned by construction
		c.OK("a replicator's header scratch buffer is its own", c.P.Pos(fn.Pos()), "no slice is handed in")
	}
}

// ruleBarrierUnderTheProposalLock (R07.10 extension): applyOperation validates a proposal against the FSM. The barrier that
// brings the FSM up to date, the precondition check and the enqueue of the proposal lie in ONE critical section of the
// proposal mutex: a barrier taken before the lock can be followed by another proposal's commit that the check never sees.
func ruleBarrierUnderTheProposalLock(c *eng.Ctx) {
	fn := c.Fn("server.(*raftNode).applyOperation")
	if fn == nil {
		return
	}
	bars := eng.CallsIn(fn, "github.com/hashicorp/raft.Raft.Barrier")
	if len(bars) == 0 {
		c.Unresolved("the Barrier call of applyOperation")
		return
	}
	locks := func(in ssa.Instruction) bool {
		ci, ok := in.(ssa.CallInstruction)
		if !ok {
			return false
		}
		r := eng.CalleeRef(ci.Common())
		return r == "sync.Mutex.Lock" || r == "sync.RWMutex.Lock"
	}
	for _, b := range bars {
		b := b
		q := &eng.PathQuery{Fn: fn, FromEntry: true, CutInstr: locks, Target: func(x ssa.Instruction) bool { return x == b.(ssa.Instruction) }}
		w := q.Find()
		c.Check(w == nil, "the FSM barrier of a proposal is issued under the proposal lock", c.Pos(b.(ssa.Instruction)), "r.Lock() before r.Barrier(…)", "applyOperation can issue the barrier before it holds the proposal mutex ("+w.String()+"): an ISR shrink committed between the barrier and the lock is not applied yet when the precondition of a leader change is checked — a replica that is no longer in sync is elected")
	}
}

// ruleReplicationRequestCheckedAndServedInOneSection (R02.4 extension, shared into C14): handleReplicationRequest compares the
// request's leader epoch with the partition's and looks the replicator up under one hold of p.mu. Two sections hand an
// epoch-N request to the replicator of epoch N+1.
func ruleReplicationRequestCheckedAndServedInOneSection(c *eng.Ctx) {
	fn := c.Fn("server.(*partition).handleReplicationRequest")
	if fn == nil {
		return
	}
	n := 0
	eng.Instrs(fn, func(in ssa.Instruction) {
		ci, ok := in.(ssa.CallInstruction)
		if !ok {
			return
		}
		switch eng.CalleeRef(ci.Common()) {
		case "sync.RWMutex.Lock", "sync.RWMutex.RLock", "sync.Mutex.Lock":
			if _, isDefer := in.(*ssa.Defer); !isDefer {
				n++
			}
		}
	})
	c.Check(n == 1, "a replication request is checked and handed to its replicator under one hold of the partition lock", c.P.Pos(fn.Pos()), "one Lock in handleReplicationRequest", "handleReplicationRequest takes the partition lock "+map[bool]string{true: "more than once", false: "never"}[n > 1]+": a leader change between the epoch check and the replicator lookup hands a request made for one leader epoch to the replicator of the next")
}

// ruleEmptinessIsReadAfterTheLogEnd (R10.10 extension): Subscribe tells "the log was emptied by retention" from "nothing has been
// published yet" by two reads, the log end first and the oldest offset second: a publish that lands between them can only
// make the log look non-empty. Read the other way round it makes a log that just received its first message look emptied.
func ruleEmptinessIsReadAfterTheLogEnd(c *eng.Ctx) {
	fn := c.Fn("server.(*partition).Subscribe")
	if fn == nil {
		return
	}
	olds := eng.CallsIn(fn, cl+"CommitLog.OldestOffset")
	news := eng.CallsIn(fn, cl+"CommitLog.NewestOffset")
	if len(olds) == 0 || len(news) == 0 {
		return
	}
	empt := eng.CmpEdges(fn, eng.Call(-1, cl+"CommitLog.OldestOffset"), eng.IntConst(-1), eng.EQ)
	for _, o := range olds {
		o := o
		// the OldestOffset read that feeds an `== -1` test
		feeds := false
		for _, e := range empt {
			if iff, ok := e.From.Instrs[len(e.From.Instrs)-1].(*ssa.If); ok {
				if bo, isB := iff.Cond.(*ssa.BinOp); isB && (eng.Strip(bo.X) == o.Value() || eng.Strip(bo.Y) == o.Value()) {
					feeds = true
				}
			}
		}
		if !feeds {
			continue
		}
		q := &eng.PathQuery{Fn: fn, FromAfter: []ssa.Instruction{o.(ssa.Instruction)}, Target: func(x ssa.Instruction) bool {
			for _, nw := range news {
				if x == nw.(ssa.Instruction) {
					// only a NewestOffset read that is compared with the stop offset in the same decision: the one right behind
					return x.Block() == o.(ssa.Instruction).Block() || len(x.Block().Preds) == 1 && x.Block().Preds[0] == o.(ssa.Instruction).Block()
				}
			}
			return false
		}}
		w := q.Find()
		c.Check(w == nil, "the `emptied by retention` test reads the log end before the oldest offset", c.Pos(o.(ssa.Instruction)), "stopOffset <= NewestOffset() && OldestOffset() == -1, in this order", "partition.Subscribe reads OldestOffset() before the NewestOffset() it is combined with ("+w.String()+"): a first publish landing between the two reads makes a log that has never been cleaned look emptied by retention, and a bounded subscription is refused with `Stream is empty`")
	}
}

// ruleAllPolicyAlwaysGoesThroughTheCommitQueue (R04.1, shared into C11): a message published with the ALL policy — a SetCursor is one —
// is acknowledged from the commit loop, after the high watermark moved. processPendingMessage acks directly only for LEADER
// and returns before the queue only when the policy is not ALL; a fast path that acks ALL itself answers before the
// watermark moves, and a FetchCursor in that window reads (and caches) the previous cursor.
func ruleAllPolicyAlwaysGoesThroughTheCommitQueue(c *eng.Ctx) {
	fn := c.Fn("server.(*partition).processPendingMessage")
	if fn == nil {
		return
	}
	puts := eng.CallsIn(fn, "github.com/Workiva/go-datastructures/queue.Queue.Put")
	if len(puts) == 0 {
		c.Unresolved("the commitQueue.Put of processPendingMessage")
		return
	}
	isALL := func(v ssa.Value) bool {
		k, ok := eng.Strip(v).(*ssa.Const)
		return ok && eng.EnumName(k) == "AckPolicy_ALL"
	}
	isLEADER := func(v ssa.Value) bool {
		k, ok := eng.Strip(v).(*ssa.Const)
		return ok && eng.EnumName(k) == "AckPolicy_LEADER"
	}
	pol := eng.LoadNamed("AckPolicy", nil)
	notAll := eng.EdgesWhere(fn, func(a eng.AtomView) bool {
		return a.RelHolds(pol, isALL, eng.NE) || a.RelHolds(pol, isLEADER, eng.EQ)
	})
	isPut := func(in ssa.Instruction) bool {
		for _, pc := range puts {
			if in == pc.(ssa.Instruction) {
				return true
			}
		}
		return false
	}
	q := &eng.PathQuery{Fn: fn, FromEntry: true, Target: isReturn, CutInstr: isPut, CutEdges: notAll}
	w := q.Find()
	c.Check(w == nil && len(notAll) > 0, "an ALL-policy message always enters the commit queue", c.P.Pos(fn.Pos()), "every way out of processPendingMessage that skips commitQueue.Put crosses AckPolicy != ALL", "processPendingMessage can return without queueing a message whose policy may be ALL ("+w.String()+"): acknowledged on a fast path, its ack leaves before the high watermark moves — a FetchCursor right after a successful SetCursor reads the previous cursor and caches it")
}

// ruleEveryPartitionGetsItsOwnHandler (R17.x ownership): a LocalEncryptionHandler carries state that Seal fills in lazily (the
// data key, and with it what the stored record looks like) and is used without a lock by the partition that owns it. The
// constructor answers with an object made in the call; a handler shared through a registry is used by several message
// loops at once.
func ruleEveryPartitionGetsItsOwnHandler(c *eng.Ctx) {
	fn := c.Fn("server/encryption.NewLocalEncryptionHandler")
	if fn == nil {
		return
	}
	n := 0
	for _, r := range eng.Returns(fn) {
		rv := eng.RetVals(r)
		if len(rv) != 2 || !eng.NilConst(rv[1]) {
			continue
		}
		n++
		ok := true
		for _, s := range phiSources(rv[0]) {
			if _, isAlloc := eng.Strip(s).(*ssa.Alloc); !isAlloc {
				ok = false
			}
		}
		c.Check(ok, "NewLocalEncryptionHandler answers with a handler made in the call", c.Pos(r), "&LocalEncryptionHandler{…} per call", "NewLocalEncryptionHandler can hand out a handler it did not just make (a shared one looked up by master key): the handler's lazily generated data key and its buffers are used without a lock by the message loop of every partition that got it — concurrent Seal calls race on the key, and a value can be stored under a wrapped key that does not open it")
	}
	if n == 0 {
		c.Unresolved("a successful return of NewLocalEncryptionHandler")
	}
}

// ruleActivityEventsArePublishedWithAFreshRequest (R18.x): apiServer.publishToStream fills in the request it is handed (the ack
// inbox, when empty). publishActivityEvent therefore builds a new PublishRequest for every event: a request kept on the
// manager carries the first event's ack inbox into every later publish, and an ack that arrives late for event k is taken
// for the ack of event k+1 — which is then recorded as published although it never was.
func ruleActivityEventsArePublishedWithAFreshRequest(c *eng.Ctx) {
	fn := c.Fn("server.(*activityManager).publishActivityEvent")
	if fn == nil {
		return
	}
	pubs := eng.CallsIn(fn, "server.apiServer.publishInternal")
	if len(pubs) == 0 {
		c.Unresolved("the publishInternal call of publishActivityEvent")
		return
	}
	for _, pc := range pubs {
		args := eng.AllArgs(pc.Common())
		req := eng.Strip(args[len(args)-1])
		_, fresh := req.(*ssa.Alloc)
		c.Check(fresh, "every activity event is published with a request of its own", c.Pos(pc.(ssa.Instruction)), "publishInternal(ctx, &client.PublishRequest{…}) built in the call", "publishActivityEvent hands publishInternal a request it did not build in this call ("+eng.Describe(req)+"): the publish path fills the request's ack inbox in when it is empty, so a kept request makes every event wait on the first event's inbox — a late ack for one event completes the publish of the next, whose index is then recorded although the event was never stored")
	}
}

// ruleServerKeepsTheCallersConfig (R19.5 extension, programmatic route): an embedding application switches telemetry off by
// setting Config.Telemetry.Enabled = false on the Config it handed to New, any time before Start. That reaches Start only
// because the server keeps the caller's object: with a private copy taken in New the later opt-out is never seen.
func ruleServerKeepsTheCallersConfig(c *eng.Ctx) {
	fn := c.Fn("server.New")
	if fn == nil {
		return
	}
	n := 0
	for _, st := range eng.FieldStores(fn, func(fa *ssa.FieldAddr) bool {
		return eng.FieldNameOf(fa) == "config" && strings.HasSuffix(fa.X.Type().String(), "server.Server")
	}) {
		n++
		c.Check(eng.Param("config")(eng.Strip(st.Val)), "the server reads the Config object its caller holds", c.Pos(st), "Server.config = config (the caller's pointer)", "server.New keeps "+eng.Describe(st.Val)+" instead of the caller's Config: an application that creates the server and then sets Telemetry.Enabled = false on its Config before Start is reported on all the same")
	}
	if n == 0 {
		c.Unresolved("the store of Server.config in server.New")
	}
}

// ruleRecoveryCutsThePartialTail (R05.8 extension, shared with C01; round 12): the log file is opened in append mode, so a write
// lands at the end of the FILE, whatever the segment's position field says. When the index was rebuilt at open and bytes are
// left behind the last complete message set (a partial write), those bytes have to leave the file — setting the position back
// is not enough: the next append lands behind the garbage while its index entry points at the garbage.
func ruleRecoveryCutsThePartialTail(c *eng.Ctx) {
	fn := c.Fn(cl + "(*segment).setupIndex")
	if fn == nil {
		return
	}
	p := c.P
	rb := eng.CallsIn(fn, cl+"segment.rebuildIndex")
	if len(rb) == 0 {
		c.Unresolved("the rebuildIndex call of setupIndex")
		return
	}
	posF := p.Field(clPkg, "segment", "position")
	end := func(v ssa.Value) bool {
		v = eng.Strip(v)
		return eng.Call(-1, cl+"indexedEnd")(v) || eng.BinComm(token.ADD, eng.LoadNamed("Position", nil), eng.LoadNamed("Size", nil))(v)
	}
	noTail := eng.CmpEdges(fn, eng.Load(posF, nil), end, eng.LT|eng.EQ)
	var from []ssa.Instruction
	for _, r := range rb {
		from = append(from, r.(ssa.Instruction))
	}
	q := &eng.PathQuery{Fn: fn, FromAfter: from, Target: func(x ssa.Instruction) bool {
		r, isR := x.(*ssa.Return)
		if !isR {
			return false
		}
		rv := eng.RetVals(r)
		return len(rv) == 1 && eng.NilConst(rv[0])
	}, CutInstr: eng.IsCallTo("os.File.Truncate"), CutEdges: noTail}
	w := q.Find()
	// the cut is made at the end of the last indexed message set
	okArg := false
	for _, tc := range eng.CallsIn(fn, "os.File.Truncate") {
		if a := eng.AllArgs(tc.Common()); len(a) == 2 && end(a[1]) {
			okArg = true
		}
	}
	c.Check(w == nil && okArg, "a partial write found when the index is rebuilt is cut off the log file", p.Pos(fn.Pos()), "after rebuildIndex: position ≤ indexed end, or s.log.Truncate(indexed end), before setupIndex succeeds", "setupIndex can succeed after a rebuild with bytes left behind the last complete message set (path "+w.String()+"): the log is opened in append mode, so the next append lands behind that garbage while its index entry points at the garbage — readers meet a torn message where an acknowledged one should be")
}

// rulePublishWaitsForTheMessagesOwnStream (R16.5 extension, shared with C18; round 12): the stream publishSync compares acks
// with is, at every call, the Stream field of the message being published — not a value that can be "" for a message that
// does name a stream (publishSync takes "" for "any ack will do", which is right only for a publish to a bare subject).
func rulePublishWaitsForTheMessagesOwnStream(c *eng.Ctx) {
	ps := c.Fn("server.(*apiServer).publishSync")
	if ps == nil {
		return
	}
	isMsgStream := func(v ssa.Value) bool {
		v = eng.Strip(v)
		if call := eng.AsCall(v); call != nil {
			// the generated getter: msg.GetStream() is msg.Stream for a message that is there
			return strings.HasSuffix(eng.CalleeRef(&call.Call), "Message.GetStream")
		}
		f, _ := eng.FieldRead(v)
		return f != nil && f.Name() == "Stream"
	}
	named := func(n string) bool { return strings.Contains(strings.ToLower(n), "stream") }
	n := 0
	for _, fn := range c.P.Funcs {
		for _, call := range eng.CallsIn(fn, "server.apiServer.publishSync") {
			n++
			// the values handed over: the arguments, and the fields of a parameter struct built for the call; the one that is
			// the stream goes by the name of the parameter / field it lands in
			var stream, all []ssa.Value
			args := eng.AllArgs(call.Common())
			callee := call.Common().StaticCallee()
			for k, a := range args {
				if _, isStr := a.Type().Underlying().(*types.Basic); isStr {
					all = append(all, a)
					if callee != nil && k < len(callee.Params) && named(callee.Params[k].Name()) {
						stream = append(stream, a)
					}
					continue
				}
				var box ssa.Value = a
				if ld, isLd := a.(*ssa.UnOp); isLd && ld.Op == token.MUL {
					box = ld.X
				}
				if al, isAl := box.(*ssa.Alloc); isAl {
					for _, st := range eng.FieldStores(fn, func(fa *ssa.FieldAddr) bool { return fa.X == ssa.Value(al) }) {
						all = append(all, st.Val)
						if named(eng.FieldNameOf(st.Addr.(*ssa.FieldAddr))) {
							stream = append(stream, st.Val)
						}
					}
				}
			}
			ok := false
			if len(stream) > 0 {
				ok = true
				for _, v := range stream {
					ok = ok && isMsgStream(v)
				}
			} else {
				for _, v := range all {
					ok = ok || isMsgStream(v)
				}
			}
			c.Check(ok, "publishSync is told the stream of the message it publishes", c.Pos(call.(ssa.Instruction)), "publishSync(ctx, subject, msg.Stream, …)", ir.FuncKey(fn)+" hands publishSync a stream name that is not (always) the published message's Stream: with \"\" any ack on the inbox completes the publish — when a second stream is attached to the subject (the activity subject included) its ack stands in for a message this stream never stored")
		}
	}
	if n == 0 {
		c.Unresolved("a call of publishSync")
	}
}

// ruleSteppingDownAlwaysStopsTheDispatcher (R18.3 extension; round 12): leadershipLost follows every leadershipAcquired, also
// one that failed half-way — after BecomeLeader started the dispatcher and before the leader flag was set. Whatever the
// flags say, a successful leadershipLost has gone through activityManager.BecomeFollower; else the dispatcher of the failed
// term runs next to the one the next term starts and both publish the same range of the Raft log.
func ruleSteppingDownAlwaysStopsTheDispatcher(c *eng.Ctx) {
	fn := c.Fn("server.(*Server).leadershipLost")
	if fn == nil {
		return
	}
	q := &eng.PathQuery{Fn: fn, FromEntry: true, Target: func(x ssa.Instruction) bool {
		r, isR := x.(*ssa.Return)
		if !isR {
			return false
		}
		rv := eng.RetVals(r)
		return len(rv) == 1 && eng.NilConst(rv[0])
	}, CutInstr: eng.IsCallTo("server.activityManager.BecomeFollower")}
	w := q.Find()
	c.Check(w == nil, "a completed step-down has stopped the activity dispatcher", c.P.Pos(fn.Pos()), "every successful return of leadershipLost passes activity.BecomeFollower()", "leadershipLost can succeed without BecomeFollower (path "+w.String()+"): after a promotion that failed behind BecomeLeader the dispatcher of that term keeps running, the next term starts a second one, and the two publish the same Raft log range concurrently — duplicates out of commit order")
}

// ruleEpochRecoveryWalksEverySegment (R05.8 / R02.5 extension; round 12): the checkpoint file can be missing or stale by more
// than the active segment (deleted, or never written because each append's checkpoint failed), so the backward scan for
// epochs the cache lacks goes over the segments of the list, newest to oldest, until it meets a known epoch — not over the
// active segment alone.
func ruleEpochRecoveryWalksEverySegment(c *eng.Ctx, fn *ssa.Function) {
	mk := eng.CallsIn(fn, cl+"newReverseSegmentScannerFromEnd")
	if len(mk) == 0 {
		c.Unresolved("the newReverseSegmentScannerFromEnd call of recoverLeaderEpochs")
		return
	}
	for _, m := range mk {
		in := m.(ssa.Instruction)
		ok := false
		if args := eng.AllArgs(m.Common()); len(args) == 1 {
			if ld, isLd := eng.Strip(args[0]).(*ssa.UnOp); isLd && ld.Op == token.MUL {
				if ia, isIA := ld.X.(*ssa.IndexAddr); isIA && eng.LoadNamed("segments", nil)(ia.X) {
					if _, isConst := ia.Index.(*ssa.Const); !isConst {
						for h := in.Block(); h != nil; h = h.Idom() {
							if isLoopHeader(h) {
								ok = true
							}
						}
					}
				}
			}
		}
		c.Check(ok, "the scan for missing epochs goes over the segment list", c.Pos(in), "newReverseSegmentScannerFromEnd(l.segments[i]) inside a loop over the segments", "recoverLeaderEpochs scans "+eng.Describe(eng.AllArgs(m.Common())[0])+" only: epochs whose first message lies in an older segment are not recovered when the checkpoint file is missing or stale, the leader answers a later boundary for them, and a follower keeps messages of a deposed leader")
	}
}

// ruleEveryCountedReportIsVetted (R07.2 extension; round 13): the quorum is counted over reports that were each checked against
// the parties that may report now (in-sync follower, current leader epoch, age). ReportLeader validates a report outside
// the status lock, so an ISR shrink or a leader change can land between that validation and report(): the pruning walk
// therefore comes after the new report is stored — the newest report is vetted like every older one.
func ruleEveryCountedReportIsVetted(c *eng.Ctx) {
	fn := c.Fn("server.(*failoverStatus).report")
	if fn == nil {
		return
	}
	wit := eng.LoadNamed("witnesses", nil)
	var stores, walks, counts []ssa.Instruction
	eng.Instrs(fn, func(in ssa.Instruction) {
		switch x := in.(type) {
		case *ssa.MapUpdate:
			if wit(x.Map) && eng.Param("witness")(x.Key) {
				stores = append(stores, in)
			}
		case *ssa.Range:
			if wit(x.X) {
				walks = append(walks, in)
			}
		case *ssa.BinOp:
			for _, o := range []ssa.Value{x.X, x.Y} {
				if call, isCall := eng.Strip(o).(*ssa.Call); isCall && isBuiltinCall(call, "len") && wit(call.Call.Args[0]) {
					counts = append(counts, in)
				}
			}
		}
	})
	if len(stores) == 0 || len(walks) == 0 || len(counts) == 0 {
		c.Unresolved("the store of the new report, the pruning walk and the quorum count of failoverStatus.report")
		return
	}
	q := &eng.PathQuery{Fn: fn, FromAfter: stores, Target: func(x ssa.Instruction) bool {
		for _, k := range counts {
			if x == k {
				return true
			}
		}
		return false
	}, CutInstr: func(x ssa.Instruction) bool {
		for _, k := range walks {
			if x == k {
				return true
			}
		}
		return false
	}}
	w := q.Find()
	c.Check(w == nil, "the report just received is vetted before it is counted", c.Pos(stores[0]), "f.witnesses[witness] = …; then the walk that drops who may not report; then len(f.witnesses) > quorum", "failoverStatus.report counts the witnesses without having walked them after it stored the new report (path "+w.String()+"): ReportLeader validates a report outside the status lock, so the report of a replica that was shrunk out of the ISR meanwhile (or one for a replaced leader epoch) completes a quorum — a leader is replaced although no majority of the in-sync followers reported it")
}
