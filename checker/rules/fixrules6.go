package rules

import (
	"go/ast"
	"go/token"
	"go/types"
	"strings"

	"golang.org/x/tools/go/ssa"

	"lbcheck/eng"
	"lbcheck/ir"
)

// Rules for the round-8 misses.

// phiSources collects the values a value can be, looking through phis, conversions and the single-store cells go/ssa makes
// of captured or address-taken locals.
func phiSources(v ssa.Value) []ssa.Value {
	var out []ssa.Value
	seen := map[ssa.Value]bool{}
	var walk func(v ssa.Value)
	walk = func(v ssa.Value) {
		v = eng.Strip(v)
		if v == nil || seen[v] {
			return
		}
		seen[v] = true
		if ph, ok := v.(*ssa.Phi); ok {
			for _, e := range ph.Edges {
				walk(e)
			}
			return
		}
		out = append(out, v)
	}
	walk(v)
	return out
}

// ruleReverseStartIsNotClamped (R10.8 extension): getReverseStartOffset answers -1 when no message lies at or before the
// timestamp, and partition.Subscribe gives such a reverse subscription the reader that ends at once. The "empty log: start at
// 0" clamp of getStartOffset is for the forward positions; a reverse answer that runs through it starts at offset 0 and
// delivers a message newer than the requested time.
func ruleReverseStartIsNotClamped(c *eng.Ctx) {
	fn := c.Fn("server.(*partition).getStartOffset")
	if fn == nil {
		return
	}
	revCalls := eng.CallsIn(fn, "server.partition.getReverseStartOffset")
	if len(revCalls) == 0 {
		c.Unresolved("the call of getReverseStartOffset in getStartOffset")
		return
	}
	neg := eng.CmpEdges(fn, eng.AnyV, eng.IntConst(0), eng.LT)
	if len(neg) == 0 {
		c.Unresolved("the `startOffset < 0` clamp of getStartOffset")
		return
	}
	isNeg := func(e eng.Edge) bool {
		for _, n := range neg {
			if n.From == e.From && n.Succ == e.Succ {
				return true
			}
		}
		return false
	}
	var from []ssa.Instruction
	for _, rc := range revCalls {
		from = append(from, rc.(ssa.Instruction))
	}
	q := &eng.PathQuery{Fn: fn, FromAfter: from, TargetEdge: isNeg, CutEdges: eng.BoolEdges(fn, eng.LoadNamed("Reverse", nil), false)}
	w := q.Find()
	c.Check(w == nil, "a reverse timestamp start is handed on as resolved, -1 included", c.Pos(from[0]), "the answer of getReverseStartOffset does not run through the `< 0 ⇒ 0` clamp", "the start offset resolved for a reverse subscription runs through the empty-log clamp of getStartOffset ("+w.String()+"): -1 — no message at or before the timestamp — becomes 0, and a reverse subscription whose start time precedes the first message delivers the message at offset 0 instead of nothing")
}

// ruleEnvelopeMinimumLengthTestsAgree (R14.1 sibling agreement): a payload of exactly envelopeMinHeaderLen bytes is a complete
// envelope (header only: every field of the message at its default). Every test of a length against that constant puts the
// equal case on the accepting side, as checkEnvelope does; a pre-filter that asks for more treats such an envelope as a plain
// payload and stores its header bytes as a message value.
func ruleEnvelopeMinimumLengthTestsAgree(c *eng.Ctx) {
	p := c.P
	pp := p.ByPath["server/protocol"]
	if pp == nil || pp.Types == nil {
		c.Unresolved("package server/protocol")
		return
	}
	obj := pp.Types.Scope().Lookup("envelopeMinHeaderLen")
	if obj == nil {
		c.Unresolved("constant server/protocol.envelopeMinHeaderLen")
		return
	}
	n := 0
	for _, pkg := range p.Pkgs {
		if pkg.TypesInfo == nil {
			continue
		}
		isMin := func(e ast.Expr) bool {
			id, ok := ast.Unparen(e).(*ast.Ident)
			if sel, isSel := ast.Unparen(e).(*ast.SelectorExpr); isSel {
				id, ok = sel.Sel, true
			}
			return ok && pkg.TypesInfo.Uses[id] == obj
		}
		isLen := func(e ast.Expr) bool {
			call, ok := ast.Unparen(e).(*ast.CallExpr)
			if !ok {
				return false
			}
			id, ok := call.Fun.(*ast.Ident)
			if !ok || id.Name != "len" {
				return false
			}
			_, isBuiltin := pkg.TypesInfo.Uses[id].(*types.Builtin)
			return isBuiltin
		}
		for _, f := range pkg.Syntax {
			ast.Inspect(f, func(nd ast.Node) bool {
				be, ok := nd.(*ast.BinaryExpr)
				if !ok {
					return true
				}
				op := be.Op
				switch {
				case isLen(be.X) && isMin(be.Y):
				case isMin(be.X) && isLen(be.Y):
					// mirror: min OP len  ==  len OP' min
					switch op {
					case token.LSS:
						op = token.GTR
					case token.GTR:
						op = token.LSS
					case token.LEQ:
						op = token.GEQ
					case token.GEQ:
						op = token.LEQ
					}
				default:
					return true
				}
				n++
				ok2 := op == token.LSS || op == token.GEQ
				c.Check(ok2, "a length is tested against the minimum envelope length with the equal case accepted", p.Pos(be.Pos()), "len(x) < envelopeMinHeaderLen rejects / len(x) >= envelopeMinHeaderLen accepts", "a length is compared with envelopeMinHeaderLen by `"+op.String()+"`: a payload of exactly the minimum length — a header-only envelope, which checkEnvelope accepts — falls on the other side here, so the same bytes are an envelope for one function and a plain payload for another (stored as an 8-byte message value instead of being decoded)")
				return true
			})
		}
	}
	if n == 0 {
		c.Unresolved("a comparison of a length with envelopeMinHeaderLen (checkEnvelope)")
	}
}

// ruleRecoveredEntryIsTheLastAnswer (R01.8 / R05.8 extension): setupIndex asks the index for its last entry up to three times
// (fresh, after rebuilding a corrupt index, after rebuilding one that was out of step with the log). The entry the segment's
// bookkeeping is filled from can be any of those answers — one that is asked for and then dropped (a shadowed variable)
// leaves lastOffset describing the index as it was before the rebuild.
func ruleRecoveredEntryIsTheLastAnswer(c *eng.Ctx) {
	p := c.P
	fn := c.Fn(cl + "(*segment).setupIndex")
	if fn == nil {
		return
	}
	lo := p.Field(clPkg, "segment", "lastOffset")
	var base ssa.Value
	for _, st := range eng.FieldStores(fn, func(fa *ssa.FieldAddr) bool { return fieldIs(fa, lo) }) {
		if fv, b := eng.FieldRead(eng.Strip(st.Val)); fv != nil {
			base = b
		}
	}
	inits := eng.CallsIn(fn, cl+"index.InitializePosition")
	if base == nil || len(inits) == 0 {
		c.Unresolved("the store of segment.lastOffset from the last index entry / the InitializePosition calls in setupIndex")
		return
	}
	srcs := phiSources(base)
	for i, ic := range inits {
		found := false
		for _, s := range srcs {
			if e, ok := s.(*ssa.Extract); ok && e.Tuple == ic.Value() && e.Index == 0 {
				found = true
			}
		}
		c.Check(found, "every answer of InitializePosition can be the entry the bookkeeping is filled from"+map[bool]string{true: "", false: " #" + string(rune('1'+i))}[i == 0], c.Pos(ic.(ssa.Instruction)), "lastEntry is assigned, not re-declared, after each rebuild", "setupIndex asks the rebuilt index for its last entry and drops the answer (the variable is re-declared in an inner scope): lastOffset / lastWriteTime are filled from the entry read before the rebuild, so after a crash between a log write and its index write NextOffset() is one short of the log — the next append, a conditional publish included, lands on an offset that is taken")
	}
}

// ruleTelemetrySwitchSkippedOnlyWhenKeyAbsent (R19.5 extension): parseTelemetryConfig leaves Config.Telemetry.Enabled alone only
// when the key telemetry.enabled itself is not set (file, or LIFTBRIDGE_TELEMETRY_ENABLED bound to it). A test of the section
// as a whole does not see the environment binding of a nested key.
func ruleTelemetrySwitchSkippedOnlyWhenKeyAbsent(c *eng.Ctx) {
	fn := c.Fn("server.parseTelemetryConfig")
	if fn == nil {
		return
	}
	isSetKey := func(v ssa.Value) bool {
		call := eng.AsCall(v)
		if call == nil || eng.CalleeRef(&call.Call) != viperPkg+".Viper.IsSet" {
			return false
		}
		k, _ := constString(call.Call.Args[len(call.Call.Args)-1])
		return k == "telemetry.enabled"
	}
	absent := eng.BoolEdges(fn, isSetKey, false)
	stores := func(in ssa.Instruction) bool {
		st, ok := in.(*ssa.Store)
		if !ok {
			return false
		}
		fa, ok := st.Addr.(*ssa.FieldAddr)
		return ok && eng.FieldNameOf(fa) == "Enabled"
	}
	q := &eng.PathQuery{Fn: fn, FromEntry: true, Target: isReturn, CutInstr: stores, CutEdges: absent}
	w := q.Find()
	c.Check(w == nil && len(absent) > 0, "the telemetry switch is left at its default only when its own key is absent", c.P.Pos(fn.Pos()), "every path that skips the store of Telemetry.Enabled crosses !v.IsSet(\"telemetry.enabled\")", "parseTelemetryConfig can return without storing Telemetry.Enabled for another reason than the key telemetry.enabled being unset ("+w.String()+"): a test of the section as a whole is false when only LIFTBRIDGE_TELEMETRY_ENABLED (or a flat key) carries the opt-out, so the server reports although it was told not to")
}

// ruleCancelGroupSubscribersAlwaysCloses (R13.8 extension): whatever the partition's role was, cancelGroupSubscribers leaves
// the gate closed (groupsCanceled) and the member table empty. A shortcut on the server's own view of its role misses members
// registered while that view was stale (a subscribe accepted during the replay of the Raft log).
func ruleCancelGroupSubscribersAlwaysCloses(c *eng.Ctx) {
	fn := c.Fn("server.(*partition).cancelGroupSubscribers")
	if fn == nil {
		return
	}
	closes := func(in ssa.Instruction) bool {
		st, ok := in.(*ssa.Store)
		if !ok {
			return false
		}
		fa, ok := st.Addr.(*ssa.FieldAddr)
		return ok && eng.FieldNameOf(fa) == "groupsCanceled"
	}
	n := 0
	eng.Instrs(fn, func(in ssa.Instruction) {
		if closes(in) {
			n++
		}
	})
	if n == 0 {
		c.Unresolved("the store of partition.groupsCanceled in cancelGroupSubscribers")
		return
	}
	q := &eng.PathQuery{Fn: fn, FromEntry: true, Target: isReturn, CutInstr: closes}
	w := q.Find()
	c.Check(w == nil, "cancelGroupSubscribers closes the gate on every path", c.P.Pos(fn.Pos()), "groupsCanceled = true unconditionally", "cancelGroupSubscribers can return without closing the gate for group subscribers ("+w.String()+"): a member that registered while this server's own role flag was stale is never cancelled and later members are not refused — two members of one group consume the partition, one here and one at the real leader")
}

// ruleAppendAssignsEpochsFromTheCache (R02.5 / R05.5 extension): commitLog.append records a leader-epoch boundary for every entry
// whose epoch is newer than the newest one known — known to the epoch cache itself (which Truncate and the cleaner trim), or
// to an earlier entry of the same batch. The boundary is that entry's own (epoch, offset).
func ruleAppendAssignsEpochsFromTheCache(c *eng.Ctx) {
	fn := c.Fn(cl + "(*commitLog).append")
	if fn == nil {
		return
	}
	assigns := eng.CallsIn(fn, cl+"leaderEpochCache.Assign")
	if len(assigns) == 0 {
		c.Unresolved("the leaderEpochCache.Assign call of commitLog.append")
		return
	}
	for _, as := range assigns {
		args := eng.AllArgs(as.Common())
		if len(args) < 3 {
			continue
		}
		f1, b1 := eng.FieldRead(eng.Strip(args[1]))
		f2, b2 := eng.FieldRead(eng.Strip(args[2]))
		same := f1 != nil && f2 != nil && f1.Name() == "LeaderEpoch" && f2.Name() == "Offset" && eng.Strip(b1) == eng.Strip(b2)
		c.Check(same, "the epoch boundary recorded is one entry's own (epoch, offset)", c.Pos(as.(ssa.Instruction)), "Assign(entry.LeaderEpoch, entry.Offset) of the same entry", "commitLog.append hands Assign an epoch and a start offset that are not read from the same entry: for a batch that spans two leader changes the epochs in between are never recorded (or recorded at another entry's offset), LastOffsetForLeaderEpoch answers past the real end of such an epoch, and a follower keeps a tail the leader does not have")
		// the gate: entry.LeaderEpoch > X, X from the cache or from an earlier entry
		okGate, bad := false, ""
		for _, blk := range fn.Blocks {
			for _, in := range blk.Instrs {
				bo, isBin := in.(*ssa.BinOp)
				if !isBin || (bo.Op != token.GTR && bo.Op != token.LSS && bo.Op != token.LEQ && bo.Op != token.GEQ) {
					continue
				}
				// whichever way the order test is written (`e > last`, `last < e`, `!(e <= last)`), the side that is not the
				// entry's epoch is what the entry is measured against
				x, y := bo.X, bo.Y
				fx, bx := eng.FieldRead(eng.Strip(x))
				if fx == nil || fx.Name() != "LeaderEpoch" || eng.Strip(bx) != eng.Strip(b1) {
					x, y = y, x
					fx, bx = eng.FieldRead(eng.Strip(x))
				}
				if fx == nil || fx.Name() != "LeaderEpoch" || eng.Strip(bx) != eng.Strip(b1) {
					continue
				}
				okGate = true
				for _, s := range phiSources(y) {
					if eng.Call(-1, cl+"leaderEpochCache.LastLeaderEpoch")(s) {
						continue
					}
					if fs, bs := eng.FieldRead(s); fs != nil && fs.Name() == "LeaderEpoch" && bs != nil && namedStruct(bs.Type()) == "entry" {
						continue // an (earlier) entry's epoch; a field of the log itself is not
					}
					okGate, bad = false, eng.Describe(s)
				}
			}
		}
		c.Check(okGate, "a new epoch is recognised against the epoch cache's own newest epoch", c.Pos(as.(ssa.Instruction)), "entry.LeaderEpoch > lastLeaderEpoch, lastLeaderEpoch from leaderEpochCache.LastLeaderEpoch() or an earlier entry", "commitLog.append decides whether an entry starts a new leader epoch against "+map[bool]string{true: "nothing it reads from the epoch cache", false: bad}[bad == ""]+": a copy of the newest epoch kept beside the cache is not trimmed when Truncate trims the cache, so an epoch that was truncated away and replicated again is never recorded — after a restart the epoch history has a hole and the follower truncation point for that epoch is wrong")
	}
}

// namedStruct names the struct type behind a (pointer to a) named type.
func namedStruct(t types.Type) string {
	if pt, ok := t.Underlying().(*types.Pointer); ok {
		t = pt.Elem()
	}
	if nt, ok := t.(*types.Named); ok {
		return nt.Obj().Name()
	}
	return ""
}

// controllingConds lists the branch conditions (negations peeled) on whose outcome reaching the instruction depends: the
// conditions of the dominators of its block exactly one of whose successors dominates (or is) the block.
func controllingConds(fn *ssa.Function, in ssa.Instruction) []ssa.Value {
	var out []ssa.Value
	b := in.Block()
	for d := b.Idom(); d != nil; d = d.Idom() {
		iff, ok := d.Instrs[len(d.Instrs)-1].(*ssa.If)
		if !ok {
			continue
		}
		n := 0
		for _, s := range d.Succs {
			if (s == b || s.Dominates(b)) && len(s.Preds) == 1 {
				n++
			}
		}
		if n == 1 {
			cond, _ := eng.CondPolarity(iff.Cond)
			out = append(out, cond)
		}
	}
	return out
}

// ruleAssignAcceptsOnNothingElse (R02.5 extension): the epoch cache accepts a boundary exactly for a newer epoch at an offset
// that is not earlier — nothing the cache remembers beside its list takes part: an epoch that was cleared by a truncation
// is learnt again when the data is replicated again.
func ruleAssignAcceptsOnNothingElse(c *eng.Ctx) {
	p := c.P
	fn := c.Fn(cl + "(*leaderEpochCache).assign")
	if fn == nil {
		return
	}
	eo := p.Field(clPkg, "leaderEpochCache", "epochOffsets")
	newer := eng.RelVal(eng.Param("epoch"), eng.Call(-1, cl+"leaderEpochCache.latestEpoch"), eng.GT)
	later := eng.RelVal(eng.Param("offset"), eng.Call(-1, cl+"leaderEpochCache.latestOffset"), eng.GE)
	notNewer := eng.RelVal(eng.Param("epoch"), eng.Call(-1, cl+"leaderEpochCache.latestEpoch"), eng.LE)
	earlier := eng.RelVal(eng.Param("offset"), eng.Call(-1, cl+"leaderEpochCache.latestOffset"), eng.LT)
	for _, st := range eng.FieldStores(fn, func(fa *ssa.FieldAddr) bool { return fieldIs(fa, eo) }) {
		extra := ""
		for _, cond := range controllingConds(fn, st) {
			for _, s := range phiSources(cond) {
				if k, isC := s.(*ssa.Const); isC && k.Value != nil {
					continue
				}
				if newer(s) || later(s) || notNewer(s) || earlier(s) {
					continue
				}
				extra = eng.Describe(s)
			}
		}
		c.Check(extra == "", "an epoch boundary is accepted on epoch > latest ∧ offset >= latest and on nothing else", c.Pos(st), "no further condition controls the append to epochOffsets", "assign makes the acceptance of an epoch boundary depend on "+extra+" as well: state the cache keeps beside its list survives ClearLatest, so an epoch whose data was truncated and is replicated again is refused — the follower's history skips it, LastOffsetForLeaderEpoch of the epoch before it answers the end of the re-fetched data, and a later truncation keeps a tail the leader does not have")
	}
}

// ruleFallbackTruncationAlwaysTruncates (R02.2 extension): truncateToHW — the fallback when the leader does not answer the
// epoch request — leaves the log untouched only when it already ends at the watermark. A watermark of -1 means nothing is
// known to be committed: everything goes (Truncate(0)); keeping the tail keeps the former leader's uncommitted messages
// under the new leader's offsets.
func ruleFallbackTruncationAlwaysTruncates(c *eng.Ctx) {
	fn := c.Fn("server.(*partition).truncateToHW")
	if fn == nil {
		return
	}
	tr := eng.IsCallTo(cl + "CommitLog.Truncate")
	atHW := eng.CmpEdges(fn, eng.Call(-1, cl+"CommitLog.NewestOffset"), eng.Call(-1, cl+"CommitLog.HighWatermark"), eng.EQ)
	q := &eng.PathQuery{Fn: fn, FromEntry: true, Target: isReturn, CutInstr: tr, CutEdges: atHW}
	w := q.Find()
	c.Check(w == nil && len(atHW) > 0, "the fallback truncation is skipped only for a log that ends at the watermark", c.P.Pos(fn.Pos()), "every path that avoids Truncate(hw + 1) crosses newestOffset == hw", "truncateToHW can return without truncating although the log does not end at the high watermark ("+w.String()+"): with no watermark known (-1) a former leader keeps its uncommitted tail, then appends the new leader's data behind it or drops it as already present, and adopts the leader's watermark over messages the leader never had")
}

var _ = ir.FuncKey

// ruleRetentionLooksUpThisMessagesKey (R08.1 extension): whether a keyed message is the latest one of its key is decided by a
// lookup of THAT message's key in the scanned key offsets, made for that message. A lookup that is skipped for some keyed
// messages (a remembered "same key as the previous message") decides them by another message's answer.
func ruleRetentionLooksUpThisMessagesKey(c *eng.Ctx) {
	fn := c.Fn(cl + "(*compactCleaner).cleanSegment")
	if fn == nil {
		return
	}
	scans := eng.CallsIn(fn, cl+"segmentScanner.Scan")
	loads := eng.CallsIn(fn, "sync.Map.Load")
	if len(scans) == 0 || len(loads) == 0 {
		c.Unresolved("the Scan call and the keyOffsets.Load lookup of cleanSegment")
		return
	}
	key := eng.Call(-1, cl+"SerializedMessage.Key")
	noKey := eng.CmpEdges(fn, key, eng.NilConst, eng.EQ)
	noKey = append(noKey, eng.CmpEdges(fn, eng.Len(key), eng.IntConst(0), eng.EQ)...)
	var from []ssa.Instruction
	for _, s := range scans {
		from = append(from, s.(ssa.Instruction))
	}
	decided := func(in ssa.Instruction) bool {
		if eng.IsCallTo(cl + "segment.WriteMessageSet")(in) {
			return true
		}
		for _, s := range scans {
			if in == s.(ssa.Instruction) {
				return true // back at the scan: the message was dropped
			}
		}
		return false
	}
	// error exits of the scan are not decisions about a message
	var scanFailed []eng.Edge
	for _, s := range scans {
		s := s
		errv := func(v ssa.Value) bool {
			for _, x := range phiSources(v) {
				if e, ok := x.(*ssa.Extract); ok && e.Tuple == s.Value() && e.Index == 2 {
					return true
				}
			}
			return false
		}
		scanFailed = append(scanFailed, eng.CmpEdges(fn, errv, eng.NilConst, eng.NE)...)
		scanFailed = append(scanFailed, eng.CmpEdges(fn, errv, eng.Global("io.EOF"), eng.EQ)...)
	}
	q := &eng.PathQuery{Fn: fn, FromAfter: from, Target: decided, CutInstr: eng.IsCallTo("sync.Map.Load"), CutEdges: append(noKey, scanFailed...)}
	w := q.Find()
	c.Check(w == nil, "every keyed message is kept or dropped after a lookup of its own key", c.Pos(from[0]), "keyOffsets.Load(string(key)) on every path from the scan to the keep / drop decision (messages without a key excepted)", "cleanSegment can keep or drop a message that has a key without having looked that key up for it ("+w.String()+"): the answer remembered from the previous message is used — a nil \"previous key\" equals the empty key, so the newest message of the empty key is dropped when it comes first in its segment")
}

// ruleJoiningConsumerEntersEachStreamOnce (R12.5 extension): a consumer is pushed onto the subscriber heap of each stream of
// its stream SET. The list a join request carries may name a stream twice; iterating that list pushes the consumer twice,
// and the entry that stays behind when it leaves keeps taking partitions for a member that no longer exists.
func ruleJoiningConsumerEntersEachStreamOnce(c *eng.Ctx) {
	fn := c.Fn("server.(*consumerGroup).addConsumer")
	if fn == nil {
		return
	}
	set := eng.LoadNamed("streams", eng.Param("cons"))
	ok := false
	for _, rc := range eng.CallsIn(fn, "server.rangeStreamsOrdered") {
		if a := rc.Common().Args; len(a) > 0 && set(a[0]) {
			ok = true
		}
	}
	for _, ml := range eng.MapLoops(fn) {
		if set(ml.Range.X) {
			ok = true
		}
	}
	eng.Instrs(fn, func(in ssa.Instruction) {
		if call, isCall := in.(*ssa.Call); isCall {
			if g := call.Call.StaticCallee(); g != nil && g.Pkg != nil && (g.Pkg.Pkg.Path() == "maps" || strings.HasSuffix(g.Pkg.Pkg.Path(), "/exp/maps")) {
				for _, a := range call.Call.Args {
					if set(a) {
						ok = true
					}
				}
			}
		}
	})
	c.Check(ok, "a joining consumer is pushed once per stream of its stream set", c.P.Pos(fn.Pos()), "the streams iterated are the keys of cons.streams", "addConsumer does not iterate the consumer's stream set (cons.streams): a list taken from the join request can name a stream twice, the consumer then sits twice in that stream's heap, and the entry left behind when it leaves is still handed partitions — partitions assigned to nobody who is a member")
}

// ruleRebuildDoesNotBoundSizesBySegmentLimit (R05.8 extension): a batch is appended whole after the roll check, so one
// message set can be larger than the segment's size limit. The index rebuild's plausibility test on a decoded size is
// therefore never a comparison with that limit (a valid oversized set would be taken for garbage and the log cut there).
func ruleRebuildDoesNotBoundSizesBySegmentLimit(c *eng.Ctx) {
	fn := c.Fn(cl + "(*segment).rebuildIndex")
	if fn == nil {
		return
	}
	limit := eng.Or(eng.LoadNamed("maxBytes", nil), eng.LoadNamed("MaxSegmentBytes", nil))
	var sizes []ssa.Value
	for _, cs := range eng.CallsIn(fn, cl+"messageSet.Size") {
		if v, isV := cs.(ssa.Value); isV {
			sizes = append(sizes, v)
		}
	}
	if len(sizes) == 0 {
		c.Unresolved("the decoded size of a message set (messageSet.Size) in rebuildIndex")
		return
	}
	isSize := func(v ssa.Value) bool {
		for _, s := range phiSources(v) {
			for _, z := range sizes {
				if eng.Strip(s) == z {
					return true
				}
			}
		}
		return false
	}
	bad := ""
	eng.Instrs(fn, func(in ssa.Instruction) {
		bo, ok := in.(*ssa.BinOp)
		if !ok {
			return
		}
		switch bo.Op {
		case token.LSS, token.GTR, token.LEQ, token.GEQ:
		default:
			return
		}
		if (isSize(bo.X) && limit(eng.Strip(bo.Y))) || (isSize(bo.Y) && limit(eng.Strip(bo.X))) {
			bad = c.Pos(in)
		}
	})
	c.Check(bad == "", "the index rebuild does not take the segment size limit for a bound on one message set", c.P.Pos(fn.Pos()), "a decoded size is tested against constants and what is left of the file only", "rebuildIndex compares the decoded size of a message set with the segment's size limit ("+bad+"): a batch is appended whole once the roll check has passed, so a valid set can exceed that limit — a rebuild after a crash stops at it and setupIndex cuts the log there, destroying the message and everything behind it in the segment")
}

// ruleCipherIsBuiltFromTheValuesKey (R17.4 extension): the AEAD that seals or opens a value is built, in that call, from the
// data key handed in for that value. A cipher kept on the handler belongs to whichever key came first: a handler that has
// read a value sealed under an earlier data key seals new values under that old key while storing the new wrapped key
// beside them — nothing can open them again.
func ruleCipherIsBuiltFromTheValuesKey(c *eng.Ctx) {
	n := 0
	for _, name := range []string{"encryptData", "decryptData"} {
		fn := c.Fn("server/encryption.(*LocalEncryptionHandler)." + name)
		if fn == nil {
			continue
		}
		eng.Instrs(fn, func(in ssa.Instruction) {
			call, ok := in.(*ssa.Call)
			if !ok || !call.Call.IsInvoke() {
				return
			}
			m := call.Call.Method.Name()
			if m != "Seal" && m != "Open" {
				return
			}
			n++
			okChain := false
			for _, src := range phiSources(call.Call.Value) {
				gcm, isE := src.(*ssa.Extract)
				if !isE || gcm.Index != 0 || !eng.Call(-1, "crypto/cipher.NewGCM")(gcm.Tuple) {
					okChain = false
					break
				}
				blk, isB := eng.Strip(eng.AsCall(gcm.Tuple).Call.Args[0]).(*ssa.Extract)
				if !isB || blk.Index != 0 || !eng.Call(-1, "crypto/aes.NewCipher")(blk.Tuple) {
					okChain = false
					break
				}
				okChain = eng.Param("dek")(eng.AsCall(blk.Tuple).Call.Args[0])
				if !okChain {
					break
				}
			}
			c.Check(okChain, "the cipher that does "+m+" in "+name+" is built from the key of this value", c.Pos(in), "cipher.NewGCM(aes.NewCipher(dek)) in the same call", name+" runs "+m+" on a cipher that is not built in this call from the data key it was handed ("+eng.Describe(call.Call.Value)+"): a cipher remembered on the handler belongs to the first key it met — after a restart a handler that first opens an old value seals every new value under the old key next to the new wrapped key, and those values can never be opened")
		})
	}
	if n < 2 {
		c.Unresolved("the Seal / Open calls of encryptData and decryptData")
	}
}

// ruleElectionIsForTheReportedLeaderEpoch (R07.11, F104): a quorum of witnesses reports ONE leader generation. Between the
// moment failoverStatus.report decides and the moment electNewPartitionLeader reads the partition's leader, another election
// for the same reports may have installed a new leader; the election must then refuse instead of deposing a leader nobody
// reported. So (a) report hands the epoch the quorum was counted for to Failover, and (b) electNewPartitionLeader proposes
// the change only when the leader epoch it reads equals the one it was handed.
func ruleElectionIsForTheReportedLeaderEpoch(c *eng.Ctx) {
	if fn := c.Fn("server.(*failoverStatus).report"); fn != nil {
		ok, n := false, 0
		eng.Instrs(fn, func(in ssa.Instruction) {
			call, isCall := in.(*ssa.Call)
			if !isCall || !call.Call.IsInvoke() || call.Call.Method.Name() != "Failover" {
				return
			}
			n++
			for _, a := range call.Call.Args {
				if eng.Param("epoch")(a) {
					ok = true
				}
			}
		})
		if n == 0 {
			c.Unresolved("the Failover call of failoverStatus.report")
		} else {
			c.Check(ok, "the election is told which leader epoch the quorum reported", c.P.Pos(fn.Pos()), "f.failover.Failover(ctx, epoch)", "failoverStatus.report starts the election without saying which leader epoch the quorum reported: the election reads the partition's leader on its own, later, when it may already have been replaced")
		}
	}
	fn := c.Fn("server.(*metadataAPI).electNewPartitionLeader")
	if fn == nil {
		return
	}
	props := eng.CallsIn(fn, "server.raftNode.applyOperation")
	if len(props) == 0 {
		c.Unresolved("the applyOperation call of electNewPartitionLeader")
		return
	}
	readEpoch := eng.Call(1, "server.partition.GetLeader")
	handed := func(v ssa.Value) bool {
		pr, ok := eng.Strip(v).(*ssa.Parameter)
		if !ok {
			return false
		}
		b, isB := pr.Type().Underlying().(*types.Basic)
		return isB && b.Kind() == types.Uint64
	}
	same := eng.CmpEdges(fn, readEpoch, handed, eng.EQ)
	for _, pc := range props {
		g, w := eng.GuardedBy(fn, pc.(ssa.Instruction), same)
		c.Check(g && len(same) > 0, "a new partition leader is elected only for the leader epoch the witnesses reported", c.Pos(pc.(ssa.Instruction)), "the leader epoch read by the election equals the reported one, else FailedPrecondition", "electNewPartitionLeader proposes a leader change without comparing the leader epoch it reads with the one the witnesses reported ("+w.String()+"): when two quorums form for the same failed leader (an in-sync set of four or more, reports repeated while the first change is still in Raft), the second election takes the freshly installed leader for the old one and deposes it although nobody reported it — an extra leader change, a second epoch bump and another truncation on every follower")
	}
}

// ruleLeadershipChannelIsClosedOnce (R18.3 extension, F105): leadershipLost can follow a leadershipAcquired that failed before
// activity.BecomeLeader replaced the channel (the Raft barrier answered ErrLeadershipLost). BecomeFollower then sees the channel
// it closed at the end of the previous term; closing it again is a panic that kills the server. So whatever BecomeFollower
// closes it forgets, and — because the field is nil between terms — the dispatcher waits on the channel of its own term,
// handed to it when it is started, not on the field.
func ruleLeadershipChannelIsClosedOnce(c *eng.Ctx) {
	isField := func(fa *ssa.FieldAddr) bool { return eng.FieldNameOf(fa) == "leadershipLostCh" }
	if fn := c.Fn("server.(*activityManager).BecomeFollower"); fn != nil {
		var closes []ssa.Instruction
		eng.Instrs(fn, func(in ssa.Instruction) {
			if call, ok := in.(*ssa.Call); ok && isBuiltinCall(call, "close") && eng.LoadNamed("leadershipLostCh", nil)(call.Call.Args[0]) {
				closes = append(closes, in)
			}
		})
		if len(closes) == 0 {
			c.Unresolved("the close of leadershipLostCh in BecomeFollower")
		} else {
			forgets := func(in ssa.Instruction) bool {
				st, ok := in.(*ssa.Store)
				if !ok {
					return false
				}
				fa, ok := st.Addr.(*ssa.FieldAddr)
				return ok && isField(fa) && eng.NilConst(st.Val)
			}
			q := &eng.PathQuery{Fn: fn, FromAfter: closes, Target: isReturn, CutInstr: forgets}
			w := q.Find()
			c.Check(w == nil, "the channel BecomeFollower closes is forgotten", c.Pos(closes[0]), "close(a.leadershipLostCh); a.leadershipLostCh = nil", "BecomeFollower closes leadershipLostCh and keeps it ("+w.String()+"): when the next promotion fails before BecomeLeader replaces the channel (raft.Barrier answers ErrLeadershipLost), the following leadershipLost closes the same channel again — `close of closed channel` kills the server, and with it the dispatcher of every later term")
		}
	}
	// ... and what BecomeLeader hands the dispatcher is the channel it made in this call: `dispatch(a.leadershipLostCh)` inside
	// the goroutine's literal reads the field when the goroutine gets to run — by then a quick step-down may have set it to
	// nil (a dispatcher that never stops) and the next term may have replaced it
	if bl := c.FnQuiet("server.(*activityManager).BecomeLeader"); bl != nil {
		for _, g := range append([]*ssa.Function{bl}, bl.AnonFuncs...) {
			for _, dc := range eng.CallsIn(g, "server.activityManager.dispatch") {
				args := eng.AllArgs(dc.Common())
				if len(args) < 2 {
					continue
				}
				c.Check(!eng.LoadNamed("leadershipLostCh", nil)(eng.Strip(args[1])), "the dispatcher is handed the channel BecomeLeader made for this term", c.Pos(dc.(ssa.Instruction)), "dispatch(leadershipLostCh) with the local made in this call", "BecomeLeader starts the dispatcher with a read of the field leadershipLostCh made when the goroutine runs, not with the channel of this term: after a quick step-down the field is nil (the dispatcher never stops and publishes as a deposed controller) or already the next term's")
			}
		}
	}
	if fn := c.Fn("server.(*activityManager).dispatch"); fn != nil {
		reads := 0
		eng.Instrs(fn, func(in ssa.Instruction) {
			if fa, ok := in.(*ssa.FieldAddr); ok && isField(fa) {
				reads++
			}
		})
		c.Check(reads == 0, "the dispatcher waits on the channel of its own term", c.P.Pos(fn.Pos()), "dispatch selects on the channel it was started with, not on the activityManager field", "dispatch reads the field leadershipLostCh at every select: the field is rewritten by the next BecomeLeader (unsynchronised), so a dispatcher that was busy while leadership was lost and regained never sees its term end and runs beside the new one — events published twice and out of order")
	}
}
