package rules

import (
	"go/constant"
	"go/token"
	"go/types"
	"strings"

	"golang.org/x/tools/go/ssa"

	"lbcheck/eng"
	"lbcheck/ir"
)

// ruleLengthFieldWidths (R14.2 extension): a length the message encoder accepts fits the way the readers of the stored form
// interpret the field. The encoder bounds a string length by a constant before writing it as 16 bits (a byte slice as 32
// bits); a reader that takes those bits as a SIGNED number sees every length above the signed maximum as negative and
// slices backwards. So the writers' bound must not exceed the smallest maximum any reader of that width can represent.
func ruleLengthFieldWidths(c *eng.Ctx) {
	p := c.P
	// writers: the constant K of `len(in) > K` in the length pass of the encoder
	bound := func(ref string) (int64, string, bool) {
		fn := c.Fn(ref)
		if fn == nil {
			return 0, "", false
		}
		var k int64
		found, pos := false, ""
		eng.Instrs(fn, func(in ssa.Instruction) {
			b, ok := in.(*ssa.BinOp)
			if !ok || found {
				return
			}
			var cst *ssa.Const
			var other ssa.Value
			if x, isC := b.Y.(*ssa.Const); isC {
				cst, other = x, b.X
			} else if x, isC := b.X.(*ssa.Const); isC {
				cst, other = x, b.Y
			}
			if cst == nil || cst.Value == nil || cst.Value.Kind() != constant.Int {
				return
			}
			if call, isCall := eng.Strip(other).(*ssa.Call); !isCall || !isBuiltin(call, "len") {
				return
			}
			v, exact := constant.Int64Val(cst.Value)
			if !exact {
				return
			}
			switch b.Op {
			case token.GTR, token.LEQ: // len > K refused / len <= K accepted
				k, found = v, true
			case token.GEQ, token.LSS: // len >= K refused / len < K accepted
				k, found = v-1, true
			}
			pos = c.Pos(b)
		})
		return k, pos, found
	}
	// the bound may sit in a helper of the same encoder that the writer hands its slice to (PutBytes reusing PutRawBytes)
	direct := bound
	bound = func(ref string) (int64, string, bool) {
		if k, pos, ok := direct(ref); ok {
			return k, pos, ok
		}
		fn := c.FnQuiet(ref)
		if fn == nil {
			return 0, "", false
		}
		var k int64
		pos, found := "", false
		eng.Instrs(fn, func(in ssa.Instruction) {
			call, isCall := in.(*ssa.Call)
			if !isCall || found {
				return
			}
			callee := call.Call.StaticCallee()
			if callee == nil || !p.IsModuleFunc(callee) {
				return
			}
			passes := false
			for _, a := range call.Call.Args {
				if _, isParam := eng.Strip(a).(*ssa.Parameter); isParam {
					passes = true
				}
			}
			if !passes {
				return
			}
			if kk, pp, ok := direct(ir.FuncKey(callee)); ok {
				k, pos, found = kk, pp, true
			}
		})
		return k, pos, found
	}
	type width struct {
		name   string
		writer string
		reader string // method name of binary.ByteOrder
		signed types.BasicKind
		sMax   int64
		uMax   int64
		why    string
	}
	for _, w := range []width{
		{"16-bit string length", "server/commitlog.(*lenEncoder).PutString", "Uint16", types.Int16, 1<<15 - 1, 1<<16 - 1, "a header key"},
		{"32-bit byte-slice length", "server/commitlog.(*lenEncoder).PutBytes", "Uint32", types.Int32, 1<<31 - 1, 1<<32 - 1, "a key, value or header value"},
	} {
		k, kpos, ok := bound(w.writer)
		if !ok {
			c.Unresolved("the length bound in " + w.writer)
			continue
		}
		// readers: every decode of that width in the stored-message accessors of package commitlog
		minMax, where, n := w.uMax, "", 0
		for _, fn := range p.Funcs {
			if fn.Pkg == nil || ir.Short(fn.Pkg.Pkg.Path()) != "server/commitlog" || !p.IsModuleFunc(fn) {
				continue
			}
			eng.Instrs(fn, func(in ssa.Instruction) {
				call, isCall := in.(*ssa.Call)
				if !isCall || !strings.HasSuffix(eng.CalleeRef(&call.Call), "ByteOrder."+w.reader) && !strings.HasSuffix(eng.CalleeRef(&call.Call), "."+w.reader) {
					return
				}
				n++
				if readAsSigned(call, w.signed, 0) && w.sMax < minMax {
					minMax, where = w.sMax, ir.FuncKey(fn)+" at "+c.Pos(call)
				}
			})
		}
		if n == 0 {
			c.Unresolved("readers of a " + w.name + " in package server/commitlog")
			continue
		}
		c.Check(k <= minMax, "the encoder's bound on a "+w.name+" fits every reader", kpos, "the largest accepted length is within what each reader of the field can represent", "the encoder accepts "+w.why+" of up to "+itoa(k)+" bytes, but "+where+" reads the stored length as a signed number (at most "+itoa(minMax)+"): a longer one is stored, read back as a negative length, and the reader slices out of range — one published message makes every subscriber of the stream crash the server")
	}
}

func isBuiltin(call *ssa.Call, name string) bool {
	b, ok := call.Call.Value.(*ssa.Builtin)
	return ok && b.Name() == name
}

// readAsSigned: does the decoded value pass through a conversion to the signed type of the same width?
func readAsSigned(v ssa.Value, kind types.BasicKind, depth int) bool {
	if depth > 4 || v.Referrers() == nil {
		return false
	}
	for _, r := range *v.Referrers() {
		cv, ok := r.(*ssa.Convert)
		if !ok {
			continue
		}
		if b, isB := cv.Type().Underlying().(*types.Basic); isB && b.Kind() == kind {
			return true
		}
		if readAsSigned(cv, kind, depth+1) {
			return true
		}
	}
	return false
}

func itoa(n int64) string { return constant.MakeInt64(n).String() }

// ruleStoredMessageIsFresh (R14.4 extension): the message natsToProtoMessage hands to the log is built from this NATS message
// alone. Either the object is allocated in the function, or — when it comes from anywhere else (a free list, a pool, a
// field) — every field of it is assigned on every path: a recycled object otherwise keeps the key, ack inbox, correlation id,
// ack policy or expected offset of an earlier message, and a raw payload is stored with them.
// ruleRecycledMessagesAreRefilled (R14.4 extension): wherever the server fills a commit log Message it did not allocate on the
// spot — one handed in, taken from a free list, answered by a helper — every field is assigned on every path between getting
// hold of the object and handing it on. A field that only the envelope branch assigns keeps, for a raw payload, what the
// previous publish put there.
func ruleRecycledMessagesAreRefilled(c *eng.Ctx) {
	p := c.P
	valField := p.Field("server/commitlog", "Message", "Value")
	if valField == nil {
		c.Unresolved("field server/commitlog.Message.Value")
		return
	}
	st, ok := valField.Pkg().Scope().Lookup("Message").Type().Underlying().(*types.Struct)
	if !ok {
		c.Unresolved("struct server/commitlog.Message")
		return
	}
	seen := 0
	for _, fn := range p.Funcs {
		if fn.Pkg == nil || fn.Pkg.Pkg.Path() != ir.ModulePath+"/server" || ir.FuncKey(fn) == "server.natsToProtoMessage" {
			continue
		}
		bases := map[ssa.Value]bool{}
		for _, s := range eng.FieldStores(fn, func(fa *ssa.FieldAddr) bool { return fieldIs(fa, valField) }) {
			seen++
			base := eng.Strip(s.Addr.(*ssa.FieldAddr).X)
			if al, fresh := base.(*ssa.Alloc); fresh && al.Heap {
				continue
			}
			// a value that is not sealed / converted in place: only objects that are FILLED here matter, i.e. the raw payload
			// or a decoded field is stored; `m.Value = encrypted` on a message natsToProtoMessage just built is not a fill
			if call := eng.AsCall(base); call != nil && eng.CalleeRef(&call.Call) == "server.natsToProtoMessage" {
				continue
			}
			bases[base] = true
		}
		for base := range bases {
			def, isInstr := base.(ssa.Instruction)
			handsOn := func(x ssa.Instruction) bool {
				if x == def {
					return false
				}
				switch y := x.(type) {
				case *ssa.Return:
					return true
				case ssa.CallInstruction:
					for _, a := range y.Common().Args {
						if eng.Strip(a) == base {
							return true
						}
					}
				case *ssa.Store:
					if eng.Strip(y.Val) == base {
						return true
					}
				}
				return false
			}
			missing := ""
			for i := 0; i < st.NumFields(); i++ {
				f := st.Field(i)
				set := func(x ssa.Instruction) bool {
					s, isSt := x.(*ssa.Store)
					if !isSt {
						return false
					}
					fa, isFA := s.Addr.(*ssa.FieldAddr)
					return isFA && fieldIs(fa, f) && eng.Strip(fa.X) == base
				}
				q := &eng.PathQuery{Fn: fn, Target: handsOn, CutInstr: set}
				if isInstr {
					q.FromAfter = []ssa.Instruction{def}
				} else {
					q.FromEntry = true
				}
				if w := q.Find(); w != nil {
					missing += " " + f.Name()
				}
			}
			c.Check(missing == "", "a message object that is filled in "+fn.Name()+" without being allocated there has every field assigned", p.Pos(fn.Pos()), "every field of commitlog.Message is stored on every path from obtaining the object to handing it on", fn.Name()+" fills a commit log message it did not allocate ("+eng.Describe(base)+") and leaves field(s)"+missing+" untouched on some path: a recycled message keeps what an earlier publish put there — a raw payload is acked to a stranger's inbox with a stranger's correlation id, or checked against a stranger's expected offset")
		}
	}
	_ = seen
}

func ruleStoredMessageIsFresh(c *eng.Ctx) {
	p := c.P
	fn := c.Fn("server.natsToProtoMessage")
	if fn == nil {
		return
	}
	valField := p.Field("server/commitlog", "Message", "Value")
	sts := eng.FieldStores(fn, func(fa *ssa.FieldAddr) bool { return fieldIs(fa, valField) })
	if len(sts) == 0 {
		c.Unresolved("stores to Message.Value in natsToProtoMessage")
		return
	}
	base := eng.Strip(sts[0].Addr.(*ssa.FieldAddr).X)
	if al, fresh := base.(*ssa.Alloc); fresh && al.Heap {
		c.OK("the stored message is built from this NATS message alone", c.Pos(al), "allocated in natsToProtoMessage: no field can carry over from an earlier message")
		return
	}
	st, ok := valField.Pkg().Scope().Lookup("Message").Type().Underlying().(*types.Struct)
	if !ok {
		c.Unresolved("struct server/commitlog.Message")
		return
	}
	missing := ""
	for i := 0; i < st.NumFields(); i++ {
		f := st.Field(i)
		set := func(x ssa.Instruction) bool {
			s, isSt := x.(*ssa.Store)
			if !isSt {
				return false
			}
			fa, isFA := s.Addr.(*ssa.FieldAddr)
			return isFA && fieldIs(fa, f) && eng.Strip(fa.X) == base
		}
		q := &eng.PathQuery{Fn: fn, FromEntry: true, Target: func(x ssa.Instruction) bool { _, isRet := x.(*ssa.Return); return isRet }, CutInstr: set}
		if w := q.Find(); w != nil {
			missing += " " + f.Name()
		}
	}
	c.Check(missing == "", "the stored message is built from this NATS message alone", p.Pos(fn.Pos()), "the object is not allocated here, but every field is assigned on every path", "natsToProtoMessage fills an object it did not allocate ("+eng.Describe(base)+") and leaves field(s)"+missing+" untouched on some path: a recycled message keeps what an earlier publish put there — a raw payload is stored with a stranger's key, acked to a stranger's inbox, or checked against a stranger's expected offset")
}
