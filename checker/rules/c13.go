package rules

import (
	"go/token"
	"go/types"

	"golang.org/x/tools/go/ssa"

	"lbcheck/eng"
	"lbcheck/ir"
)

func init() {
	register(&Property{ID: "C13", Level: "other", Run: runC13,
		Technique:   "static analysis: must-lockset with correlated conditional locks, guard dominance on the epoch comparison, path ordering of close-before-replace, identity-based de-registration (go/ssa)",
		LevelText:   "Structural clauses decided for all paths: every access to the partition's group-subscriber table holds consumersMu; an older group epoch is refused before anything happens to the existing subscription; on replacement the previous subscription is closed before the new entry is stored and every early return in between leaves the table untouched; a subscription loop that ends may remove the table entry only after comparing something unique to its own subscription (pointer identity), not a copyable id. The interleavings themselves are not decided.",
		LevelNote:   "Trusted: go/ssa; the correlated-condition reasoning (a lock taken on the true edge of a pure condition is held wherever the true edge of a structurally equal condition over the same SSA operands dominates).",
		DesignRef:   "DESIGN.md §4 C13",
		Explanation: "R13.2 also (round 10): an empty group id reaches the bookkeeping only for a request without a consumer. R13.8 also (round 8): cancelGroupSubscribers closes the gate on every path, whatever the server believes its role was. R13.2 also: the member's epoch is compared with the request's own. R13.2 also: no value of the request by-passes the epoch comparison. R13.9 after a successful group Subscribe the member record carries this call's id, epoch and subscription; R13.10 members are registered only while a mark that cancelGroupSubscribers sets under consumersMu is clear (F85). R13.1 consumersMu held at every access of partition.consumers, R13.2 stale epoch refused first, R13.3 close-before-store and untouched table on early returns, R13.4 de-registration by identity, R13.5 lock pairing, R13.6 Close signals once, R13.7 check → replace → register is one critical section. NOT decided: the interleavings.",
	})
}

func runC13(c *eng.Ctx) {
	c.Rule("R13.2", "K5")
	ruleGroupMemberSubscribesAsGroupMember(c)
	c.Rule("R13.9", "K2")
	ruleRegisteredMemberIsThisCall(c)
	c.Rule("R13.10", "K2")
	ruleGroupMembersOnlyWhileLeading(c)
	c.Rule("R13.2", "K1")
	ruleNewerMemberAlwaysWins(c)
	p := c.P
	cons := p.Field("server", "partition", "consumers")
	if cons == nil {
		c.Rule("R13.1", "K4")
		c.Unresolved("field server.partition.consumers")
		return
	}

	// ---- R13.1 lock held (with the correlated conditional lock of Subscribe)
	c.Rule("R13.1", "K4")
	for _, a := range eng.FieldAccesses(p, cons) {
		if strings_HasPrefix(ir.FuncKey(a.Fn), "server.(*Server).newPartition") || ir.FuncKey(a.Fn) == "server.(*metadataAPI).newPartition" {
			continue // constructor
		}
		if isFresh(a.Base) {
			continue
		}
		kind := map[bool]string{true: "write", false: "read"}[a.Write]
		construct := kind + " of partition.consumers in " + ir.FuncKey(a.Fn)
		la := eng.LocksOf(p, a.Fn, 0)
		want := eng.Path(a.Base) + ".consumersMu"
		held := la.At(a.Use)[want] == 2
		how := "consumersMu held"
		if !held {
			// correlated conditional lock: Lock() on the true edge of cond; access on the true edge of an equal cond
			if ok, desc := correlatedLock(a.Fn, a.Use, want); ok {
				held, how = true, desc
			}
		}
		c.Check(held, construct, c.Pos(a.Use), how, kind+" of the group-subscriber table without consumersMu: two group subscribers can both register")
	}
	c.Floor(5)

	// ---- R13.2 / R13.3 in Subscribe
	if fn := c.Fn("server.(*partition).Subscribe"); fn != nil {
		c.Rule("R13.2", "K1")
		ge := func(v ssa.Value) bool { return eng.LoadNamed("groupEpoch", nil)(v) }
		stale := eng.CmpEdges(fn, ge, eng.AnyV, eng.GT) // existing.groupEpoch > groupEpoch
		if len(stale) == 0 {
			c.Violate("stale group epoch refused", p.Pos(fn.Pos()), "Subscribe no longer compares the existing subscriber's group epoch with the new one")
		}
		// from the stale edge: return without touching the existing subscription or the table
		q := &eng.PathQuery{Fn: fn, FromEdges: stale, Target: func(x ssa.Instruction) bool {
			if ci, ok := x.(ssa.CallInstruction); ok && eng.CalleeRef(ci.Common()) == "server.subscription.Close" {
				return true
			}
			_, ok := x.(*ssa.MapUpdate)
			return ok
		}}
		w := q.Find()
		c.Check(w == nil && len(stale) > 0, "stale group epoch refused and existing subscriber untouched", p.Pos(fn.Pos()), "from existing.groupEpoch > groupEpoch only the FailedPrecondition return is reachable", "a subscriber with an older group epoch can disturb the current one (path "+w.String()+")")
		// the refusal happens before any reader is created
		for _, nr := range eng.CallsIn(fn, cl+"CommitLog.NewReader", cl+"CommitLog.NewReverseReader") {
			notStale := eng.CmpEdges(fn, ge, eng.AnyV, eng.LE)
			_ = notStale
			q := &eng.PathQuery{Fn: fn, FromEdges: stale, Target: func(x ssa.Instruction) bool { return x == nr.(ssa.Instruction) }}
			c.Check(q.Find() == nil, "no reader for a refused subscriber", c.Pos(nr.(ssa.Instruction)), "unreachable from the stale edge", "a refused subscriber still gets a reader")
		}
		c.Floor(3)

		c.Rule("R13.3", "K2")
		var store *ssa.MapUpdate
		eng.Instrs(fn, func(in ssa.Instruction) {
			if mu, ok := in.(*ssa.MapUpdate); ok && eng.Load(cons, nil)(mu.Map) {
				store = mu
			}
		})
		closes := eng.CallsIn(fn, "server.subscription.Close")
		if store == nil || len(closes) != 1 {
			c.Unresolved("p.consumers[groupID] = … / previousSubscriber.sub.Close() in Subscribe")
		} else {
			// if there was a previous subscriber, its Close precedes the store
			prev := eng.CmpEdges(fn, isPrevSubscriber, eng.NilConst, eng.NE)
			q := &eng.PathQuery{Fn: fn, FromEdges: prev, Target: func(x ssa.Instruction) bool { return x == store }, CutInstr: func(x ssa.Instruction) bool { return x == closes[0].(ssa.Instruction) }}
			w := q.Find()
			noPrev := eng.CmpEdges(fn, isPrevSubscriber, eng.NilConst, eng.EQ)
			g, _ := eng.GuardedBy(fn, store, append(append([]eng.Edge{}, prev...), noPrev...))
			c.Check(w == nil && len(prev) > 0 && g, "previous subscriber closed before the new one is registered", c.Pos(store), "every path with a previous subscriber passes previousSubscriber.sub.Close() before the store", "the new group subscriber is registered while the previous one is still running (path "+w.String()+")")
			// an entry found in the table is either refused against or closed before being replaced
			found := eng.BoolEdges(fn, func(v ssa.Value) bool {
				e, ok := v.(*ssa.Extract)
				if !ok || e.Index != 1 {
					return false
				}
				lk, ok := e.Tuple.(*ssa.Lookup)
				return ok && lk.CommaOk && eng.Load(cons, nil)(lk.X)
			}, true)
			// value flow instead of paths (the later `previousSubscriber != nil` test is correlated with this one): the variable
			// that decides about Close must not be nil on any path that found an entry
			bad := ""
			nPhi := 0
			eng.Instrs(fn, func(in ssa.Instruction) {
				ph, ok := in.(*ssa.Phi)
				if !ok || !isPrevSubscriber(ph) {
					return
				}
				nPhi++
				for i, e := range ph.Edges {
					if !eng.NilConst(e) {
						continue
					}
					pred := ph.Block().Preds[i]
					q3 := &eng.PathQuery{Fn: fn, FromEdges: found, TargetEdge: func(ed eng.Edge) bool { return ed.From == pred && ed.To() == ph.Block() }}
					if w3 := q3.Find(); w3 != nil {
						bad = w3.String()
					}
					for _, fe := range found {
						if fe.From == pred && fe.To() == ph.Block() {
							bad = fe.String()
						}
					}
				}
			})
			c.Check(bad == "" && len(found) > 0 && nPhi > 0, "an existing group subscriber is never silently overwritten", c.Pos(store), "on every path that found an entry for the group, previousSubscriber is that entry (so it is closed before the store) or the call is refused", "when a subscriber of the group already exists, previousSubscriber can stay nil (path "+bad+"): the new subscriber is registered without the old one being closed and two members of the group consume the partition at the same time")
			// what is closed is the subscription of the entry that was found
			okClose := false
			if f, b := eng.FieldRead(closes[0].Common().Args[0]); f != nil && f.Name() == "sub" && isPrevSubscriber(b) {
				okClose = true
			}
			c.Check(okClose, "the subscription closed is the previous subscriber's", c.Pos(closes[0].(ssa.Instruction)), "previousSubscriber.sub.Close()", "Close is not applied to the previous subscriber's subscription")
			// the entry stored carries the new subscription and epoch
			okVal := false
			if al, ok := store.Value.(*ssa.Alloc); ok {
				fields := map[string]ssa.Value{}
				for _, r := range *al.Referrers() {
					if fa, ok := r.(*ssa.FieldAddr); ok {
						for _, rr := range *fa.Referrers() {
							if st, ok := rr.(*ssa.Store); ok {
								fields[eng.FieldNameOf(fa)] = st.Val
							}
						}
					}
				}
				_, subIsNew := eng.Strip(fields["sub"]).(*ssa.Alloc)
				okVal = subIsNew && fields["groupEpoch"] != nil && fields["consumerID"] != nil
			}
			c.Check(okVal, "registered entry names the new subscription", c.Pos(store), "groupMember{consumerID, groupEpoch, sub: the subscription created here}", "the entry stored in p.consumers does not carry the new subscription / epoch")
			// early returns between lookup and store leave the table untouched: only one MapUpdate, and it is after the last error return
			nMU := 0
			eng.Instrs(fn, func(in ssa.Instruction) {
				if mu, ok := in.(*ssa.MapUpdate); ok && eng.Load(cons, nil)(mu.Map) {
					nMU++
				}
			})
			bad = ""
			for _, r := range eng.Returns(fn) {
				rv := eng.RetVals(r)
				if len(rv) == 2 && !eng.NilConst(rv[1]) {
					q := &eng.PathQuery{Fn: fn, FromAfter: []ssa.Instruction{store}, Target: func(x ssa.Instruction) bool { return x == r }}
					if q.Find() != nil {
						bad = "an error return is reachable after the table was updated"
					}
				}
			}
			c.Check(nMU == 1 && bad == "", "failed subscribes leave the table untouched", c.Pos(store), "single update of the table, after the last error return", "the group-subscriber table is updated on a path that still fails: "+bad)
			// group key used for the store is the request's group id, under groupID != ""
			g2, _ := eng.GuardedBy(fn, store, eng.CmpEdges(fn, eng.AnyV, eng.StrConst(""), eng.NE))
			c.Check(g2, "only group subscribers are registered", c.Pos(store), "store under groupID != \"\"", "a non-group subscriber is written into the group table")
		}
		c.Floor(6)
	}

	// ---- R13.5 acquire/release pairing
	c.Rule("R13.5", "K2")
	ruleLockPairing(c, "server/partition.go")
	c.Floor(30)

	// ---- R13.8 the group's registry lives on the partition leader: a member may only subscribe there
	c.Rule("R13.8", "K1")
	if fn := c.Fn("server.(*apiServer).SubscribeInternal"); fn != nil {
		subs := eng.CallsIn(fn, "server.apiServer.subscribe")
		onLeader := eng.CmpEdges(fn, eng.Call(0, "server.partition.GetLeader"), eng.LoadNamed("ServerID", nil), eng.EQ)
		noGroup := eng.CmpEdges(fn, eng.AnyV, eng.StrConst(""), eng.EQ)
		// keep only the comparison of the request's group id
		var ng []eng.Edge
		for _, e := range noGroup {
			iff := e.From.Instrs[len(e.From.Instrs)-1].(*ssa.If)
			cond, _ := eng.CondPolarity(iff.Cond)
			if bo, ok := cond.(*ssa.BinOp); ok {
				isGroup := func(v ssa.Value) bool {
					if ph, ok := v.(*ssa.Phi); ok {
						for _, pe := range ph.Edges {
							if eng.LoadNamed("GroupId", nil)(pe) {
								return true
							}
						}
					}
					return eng.LoadNamed("GroupId", nil)(v)
				}
				if isGroup(bo.X) || isGroup(bo.Y) {
					ng = append(ng, e)
				}
			}
		}
		if len(subs) != 1 {
			c.Unresolved("a.subscribe call in SubscribeInternal")
		} else {
			// one of the two, whichever way a joined condition (`case notLeader && group != "":`) came to be false
			groupV := func(v ssa.Value) bool {
				if ph, isPhi := v.(*ssa.Phi); isPhi {
					for _, pe := range ph.Edges {
						if eng.LoadNamed("GroupId", nil)(pe) {
							return true
						}
					}
				}
				return eng.LoadNamed("GroupId", nil)(v)
			}
			leaderV := eng.Call(0, "server.partition.GetLeader")
			either := eng.EdgesWhere(fn, func(a eng.AtomView) bool {
				return a.RelHolds(leaderV, eng.LoadNamed("ServerID", nil), eng.EQ) || a.RelHolds(groupV, eng.StrConst(""), eng.EQ)
			})
			compared := func(x, y eng.VM) bool {
				found := false
				eng.Instrs(fn, func(in ssa.Instruction) {
					if bo, isB := in.(*ssa.BinOp); isB && (bo.Op == token.EQL || bo.Op == token.NEQ) && (x(bo.X) && y(bo.Y) || x(bo.Y) && y(bo.X)) {
						found = true
					}
				})
				return found
			}
			g, w := eng.GuardedBy(fn, subs[0].(ssa.Instruction), append(append(append([]eng.Edge{}, onLeader...), ng...), either...))
			c.Check(g && (len(onLeader) > 0 || compared(leaderV, eng.LoadNamed("ServerID", nil))) && (len(ng) > 0 || compared(groupV, eng.StrConst(""))), "a consumer-group subscription is only set up on the partition leader", c.Pos(subs[0].(ssa.Instruction)), "a.subscribe is reached only when this server leads the partition or the request carries no group", "a group member can subscribe on a follower (path "+w.String()+"): the follower's own group registry is empty, so no epoch check and no cancellation happens there and two members of the group consume the partition at the same time")
		}
	}
	c.Floor(1)

	// ---- R13.7 check, replace and register are one critical section
	c.Rule("R13.7", "K4")
	if fn := c.Fn("server.(*partition).Subscribe"); fn != nil {
		consF := p.Field("server", "partition", "consumers")
		muF := p.Field("server", "partition", "consumersMu")
		var lookups, updates, unlocks []ssa.Instruction
		eng.Instrs(fn, func(in ssa.Instruction) {
			switch x := in.(type) {
			case *ssa.Lookup:
				if eng.Load(consF, nil)(x.X) {
					lookups = append(lookups, in)
				}
			case *ssa.MapUpdate:
				if eng.Load(consF, nil)(x.Map) {
					updates = append(updates, in)
				}
			case *ssa.Call:
				if sc := x.Call.StaticCallee(); sc != nil && (sc.Name() == "Unlock" || sc.Name() == "RUnlock") && len(x.Call.Args) > 0 {
					if fa, ok := x.Call.Args[0].(*ssa.FieldAddr); ok && fieldIs(fa, muF) {
						unlocks = append(unlocks, in)
					}
				}
			}
		})
		if len(lookups) == 0 || len(updates) == 0 {
			c.Unresolved("lookup / update of p.consumers in partition.Subscribe")
		} else {
			bad := ""
			for _, u := range unlocks {
				u := u
				// released after the look-up ...
				q1 := &eng.PathQuery{Fn: fn, FromAfter: lookups, Target: func(x ssa.Instruction) bool { return x == u }, CutInstr: func(x ssa.Instruction) bool {
					for _, m := range updates {
						if x == m {
							return true
						}
					}
					return false
				}}
				if q1.Find() == nil {
					continue
				}
				// ... and the registration still follows
				q2 := &eng.PathQuery{Fn: fn, FromAfter: []ssa.Instruction{u}, Target: func(x ssa.Instruction) bool {
					for _, m := range updates {
						if x == m {
							return true
						}
					}
					return false
				}}
				if q2.Find() != nil {
					bad = c.Pos(u)
				}
			}
			c.Check(bad == "", "group subscriber check and registration are atomic", c.Pos(updates[0]), "consumersMu is held from the look-up of p.consumers[groupID] to the store of the new entry", "consumersMu is released at "+bad+" between looking up the group's current subscriber and registering the new one: two subscribers of the group can both pass the epoch check and both start a loop, and an older epoch can overtake a newer one")
		}
	}
	c.Floor(1)

	// ---- R13.6 cancelling a subscription really signals its loop, once
	c.Rule("R13.6", "K2")
	if fn := c.Fn("server.(*subscription).Close"); fn != nil {
		closedF := p.Field("server", "subscription", "closed")
		// Close may hand over to a sibling method (Close → CloseWithStatus(nil)): the rule is decided where the channel is closed
		for hop := 0; hop < 2; hop++ {
			has := false
			eng.Instrs(fn, func(in ssa.Instruction) {
				if call, ok := in.(*ssa.Call); ok {
					if b, ok := call.Call.Value.(*ssa.Builtin); ok && b.Name() == "close" {
						has = true
					}
				}
			})
			if has {
				break
			}
			var next *ssa.Function
			eng.Instrs(fn, func(in ssa.Instruction) {
				if call, ok := in.(*ssa.Call); ok {
					if f := call.Common().StaticCallee(); f != nil && f.Signature.Recv() != nil && strings_HasPrefix(ir.FuncKey(f), "server.(*subscription).") {
						next = f
					}
				}
			})
			if next == nil {
				break
			}
			fn = next
		}
		var closes []ssa.Instruction
		eng.Instrs(fn, func(in ssa.Instruction) {
			if call, ok := in.(*ssa.Call); ok {
				if b, ok := call.Call.Value.(*ssa.Builtin); ok && b.Name() == "close" && eng.Load(closedF, nil)(call.Call.Args[0]) {
					closes = append(closes, in)
				}
			}
		})
		ok := len(closes) == 1
		// the close is skipped when the channel is already closed: it is not reachable from the edge on which the receive succeeded
		if ok {
			var sel *ssa.Select
			eng.Instrs(fn, func(in ssa.Instruction) {
				if s, isS := in.(*ssa.Select); isS {
					sel = s
				}
			})
			ok = sel != nil && !sel.Blocking
			if ok {
				got := eng.CmpEdges(fn, func(v ssa.Value) bool {
					ex, isE := v.(*ssa.Extract)
					return isE && ex.Tuple == ssa.Value(sel) && ex.Index == 0
				}, eng.IntConst(0), eng.EQ)
				q := &eng.PathQuery{Fn: fn, FromEdges: got, Target: func(x ssa.Instruction) bool { return x == closes[0] }}
				ok = len(got) > 0 && q.Find() == nil
			}
		}
		c.Check(ok, "Close signals the subscription's loop exactly once", p.Pos(fn.Pos()), "close(s.closed) unless it is already closed", "subscription.Close does not close s.closed (the replaced subscriber keeps consuming) or can close it twice (panic when a replaced subscriber also ends by itself)")
	}
	c.Floor(1)

	// ---- R13.4 identity de-registration
	c.Rule("R13.4", "K1")
	n := 0
	for _, fn := range p.Funcs {
		if fn.Pkg == nil || ir.Short(fn.Pkg.Pkg.Path()) != "server" {
			continue
		}
		eng.Instrs(fn, func(in ssa.Instruction) {
			call, ok := in.(*ssa.Call)
			if !ok {
				return
			}
			b, ok := call.Call.Value.(*ssa.Builtin)
			if !ok || b.Name() != "delete" || !eng.Load(cons, nil)(call.Call.Args[0]) {
				return
			}
			n++
			// a dominating equality on a pointer / channel unique to the subscription
			ident := false
			desc := "no equality guard"
			for _, blk := range fn.Blocks {
				if len(blk.Instrs) == 0 {
					continue
				}
				iff, ok := blk.Instrs[len(blk.Instrs)-1].(*ssa.If)
				if !ok {
					continue
				}
				cond, neg := eng.CondPolarity(iff.Cond)
				bo, ok := cond.(*ssa.BinOp)
				if !ok || (bo.Op != token.EQL && bo.Op != token.NEQ) {
					continue
				}
				eqEdge := eng.Edge{From: blk, Succ: 0}
				if (bo.Op == token.NEQ) != neg {
					eqEdge = eng.Edge{From: blk, Succ: 1}
				}
				if g, _ := eng.GuardedBy(fn, call, []eng.Edge{eqEdge}); !g {
					continue
				}
				switch bo.X.Type().Underlying().(type) {
				case *types.Pointer, *types.Chan:
					if !eng.NilConst(bo.X) && !eng.NilConst(bo.Y) {
						ident = true
					}
				default:
					desc = "guarded only by equality of " + eng.Describe(bo.X) + " and " + eng.Describe(bo.Y) + " (a copyable value)"
				}
			}
			if !ident {
				// … or the entry's subscription is cancelled right here, under the table's lock, before the entry goes: nobody can
				// have registered a successor in between
				closedHere, _ := eng.PrecededBy(fn, call, func(x ssa.Instruction) bool {
					cc, isC := x.(*ssa.Call)
					if !isC {
						return false
					}
					f := cc.Common().StaticCallee()
					return f != nil && (ir.FuncKey(f) == "server.(*subscription).Close" || ir.FuncKey(f) == "server.(*subscription).CloseWithStatus")
				})
				la := eng.LocksOf(p, fn, 0)
				if closedHere && lockHeld(la.At(call), "consumersMu", 2) {
					ident = true
				}
			}
			c.Check(ident, "de-registration in "+ir.FuncKey(fn), c.Pos(call), "guarded by identity of the subscription (or the subscription is cancelled in the same critical section)", "the loop that ends removes the group entry "+desc+": when the same consumer id re-subscribed, the old loop's exit deletes its successor's entry and a third subscriber is no longer serialised against it")
		})
	}
	if n == 0 {
		c.Unresolved("delete(p.consumers, …)")
	}
	c.Floor(1)
	// ---- extensions from round 3
	c.Rule("R13.4", "K1")
	ruleIdentityCheckAndDeleteAtomic(c)
	c.Rule("R13.1", "K4")
	ruleConsumersTableNeverReset(c)
	c.Rule("R13.8", "K2")
	ruleLeadershipLossCancelsGroupSubscribers(c)
	ruleCancelGroupSubscribersAlwaysCloses(c)

}

func isPrevSubscriber(v ssa.Value) bool {
	// the phi that carries `previousSubscriber` (nil or the existing entry)
	ph, ok := v.(*ssa.Phi)
	if !ok {
		return false
	}
	pt, ok := ph.Type().(*types.Pointer)
	if !ok {
		return false
	}
	n, ok := pt.Elem().(*types.Named)
	return ok && n.Obj().Name() == "groupMember"
}

func strings_HasPrefix(s, p string) bool { return len(s) >= len(p) && s[:len(p)] == p }

func isFresh(v ssa.Value) bool {
	_, ok := v.(*ssa.Alloc)
	return ok
}

// correlatedLock: the mutex `want` is acquired (and its unlock only deferred) on the true edge of a pure condition C in
// fn, and instruction `at` is dominated by the true edge of a condition structurally equal to C over the same operands.
func correlatedLock(fn *ssa.Function, at ssa.Instruction, want string) (bool, string) {
	var found bool
	var desc string
	eng.Instrs(fn, func(in ssa.Instruction) {
		if found {
			return
		}
		call, ok := in.(*ssa.Call)
		if !ok {
			return
		}
		ref := eng.CalleeRef(&call.Call)
		if ref != "sync.Mutex.Lock" && ref != "sync.RWMutex.Lock" {
			return
		}
		if eng.Path(call.Call.Args[0]) != want {
			return
		}
		// no explicit Unlock of it in the function (deferred unlock only)
		explicit := false
		eng.Instrs(fn, func(x ssa.Instruction) {
			if c2, ok := x.(*ssa.Call); ok {
				r := eng.CalleeRef(&c2.Call)
				if (r == "sync.Mutex.Unlock" || r == "sync.RWMutex.Unlock") && eng.Path(c2.Call.Args[0]) == want {
					explicit = true
				}
			}
		})
		if explicit {
			return
		}
		// the condition under which the lock is taken
		for _, blk := range fn.Blocks {
			if len(blk.Instrs) == 0 {
				continue
			}
			_, ok := blk.Instrs[len(blk.Instrs)-1].(*ssa.If)
			if !ok {
				continue
			}
			for succ := 0; succ < 2; succ++ {
				e := eng.Edge{From: blk, Succ: succ}
				if g, _ := eng.GuardedBy(fn, call, []eng.Edge{e}); !g {
					continue
				}
				lockFact, ok := eng.FactOn(e)
				if !ok {
					continue
				}
				// find an edge stating the same fact that guards `at`
				for _, b2 := range fn.Blocks {
					if len(b2.Instrs) == 0 {
						continue
					}
					if _, ok := b2.Instrs[len(b2.Instrs)-1].(*ssa.If); !ok {
						continue
					}
					for succ2 := 0; succ2 < 2; succ2++ {
						e2 := eng.Edge{From: b2, Succ: succ2}
						f2, ok := eng.FactOn(e2)
						if !ok || !eng.SameFact(lockFact, f2, sameOperandOrCond) {
							continue
						}
						if g, _ := eng.GuardedBy(fn, at, []eng.Edge{e2}); g {
							found = true
							desc = "consumersMu taken (unlock deferred) under the same condition, over the same operands, that guards this access"
						}
					}
				}
			}
		}
	})
	return found, desc
}

// sameCond: structural equality of two boolean SSA values (go/ssa performs no CSE).
func sameCond(a, b ssa.Value) bool {
	if a == b {
		return true
	}
	ba, ok1 := a.(*ssa.BinOp)
	bb, ok2 := b.(*ssa.BinOp)
	if ok1 && ok2 {
		return ba.Op == bb.Op && sameOperand(ba.X, bb.X) && sameOperand(ba.Y, bb.Y)
	}
	ua, ok1 := a.(*ssa.UnOp)
	ub, ok2 := b.(*ssa.UnOp)
	if ok1 && ok2 {
		return ua.Op == ub.Op && sameCond(ua.X, ub.X)
	}
	return false
}

func sameOperandOrCond(a, b ssa.Value) bool { return sameOperand(a, b) || sameCond(a, b) }

func sameOperand(a, b ssa.Value) bool {
	if a == b {
		return true
	}
	ca, ok1 := a.(*ssa.Const)
	cb, ok2 := b.(*ssa.Const)
	if ok1 && ok2 {
		return ca.Value == cb.Value || (ca.Value != nil && cb.Value != nil && ca.Value.ExactString() == cb.Value.ExactString())
	}
	return false
}
