package rules

import (
	"go/constant"
	"go/token"
	"go/types"

	"golang.org/x/tools/go/ssa"

	"lbcheck/eng"
)

// ruleLogShapes (R01.8): arithmetic and bookkeeping shapes of the segment / index code that the contract of the log
// rests on. Each is a necessary condition found by reading and by the mutant audit (a mutant that changes it compiles,
// passes the suite and breaks reads, rolls or truncation).
func ruleLogShapes(c *eng.Ctx) {
	p := c.P
	call := func(ref string) eng.VM { return eng.Call(-1, ref) }

	// a rolled segment starts at the next offset
	if fn := c.Fn(cl + "(*commitLog).split"); fn != nil {
		ns := eng.CallsIn(fn, cl+"newSegment")
		ok := len(ns) == 1 && eng.Bin(token.ADD, call(cl+"commitLog.NewestOffset"), eng.IntConst(1))(ns[0].Common().Args[1])
		okNew := len(ns) == 1 && boolConst(ns[0].Common().Args[3], true)
		c.Check(ok && okNew, "rolled segment starts at the next offset", p.Pos(fn.Pos()), "newSegment(path, NewestOffset()+1, …, isNew=true)", "a rolled segment's base offset is not NewestOffset()+1 (or it is not created as new): offsets are duplicated or skipped across the roll")
		// CAS failure deletes the loser's segment and reports ErrSegmentExists
		cas := eng.CallsIn(fn, "sync/atomic.CompareAndSwapPointer")
		c.Check(len(cas) == 1, "active segment replaced by compare-and-swap", p.Pos(fn.Pos()), "CompareAndSwapPointer(&vActiveSegment, old, new)", "split no longer installs the new active segment with a compare-and-swap")
		// the new segment is appended to l.segments under the lock
		segF := p.Field(clPkg, "commitLog", "segments")
		okApp := false
		for _, st := range eng.FieldStores(fn, func(fa *ssa.FieldAddr) bool { return fieldIs(fa, segF) }) {
			if ac := eng.AsCall(st.Val); ac != nil {
				if b, isB := ac.Call.Value.(*ssa.Builtin); isB && b.Name() == "append" && eng.Load(segF, nil)(ac.Call.Args[0]) {
					okApp = true
				}
			}
		}
		c.Check(okApp, "rolled segment is appended to the segment list", p.Pos(fn.Pos()), "l.segments = append(l.segments, segment)", "split does not append the new segment to l.segments")
	}
	if fn := c.Fn(cl + "newSegment"); fn != nil {
		isNew := eng.BoolEdges(fn, eng.Param("isNew"), true)
		notNew := eng.BoolEdges(fn, eng.Param("isNew"), false)
		okRet := false
		for _, r := range eng.Returns(fn) {
			if len(eng.RetVals(r)) == 2 && eng.Global(cl+"ErrSegmentExists")(eng.RetVals(r)[1]) {
				g1, _ := eng.GuardedBy(fn, r, isNew)
				okRet = g1 && len(isNew) > 0
			}
		}
		c.Check(okRet, "a new segment refuses an existing file", p.Pos(fn.Pos()), "ErrSegmentExists only when asked for a new segment", "newSegment does not refuse (only) an existing log file when asked for a new segment")
		// The existence test and the creation must be one atomic step: split() runs concurrently in the appender and in the
		// cleaner loop, and the loser of the compare-and-swap deletes "its" files. If both opened the same files, the
		// winner's log and index are unlinked under it.
		excl := int64(0)
		if o, ok := p.DepObject("os", "O_EXCL").(*types.Const); ok && o != nil {
			excl, _ = constant.Int64Val(o.Val())
		}
		var hasBit func(v ssa.Value, blk *ssa.BasicBlock, depth int) bool
		hasBit = func(v ssa.Value, blk *ssa.BasicBlock, depth int) bool {
			if depth > 6 {
				return false
			}
			switch x := v.(type) {
			case *ssa.Const:
				if x.Value == nil {
					return false
				}
				n, ok := constant.Int64Val(x.Value)
				return ok && n&excl != 0
			case *ssa.BinOp:
				if x.Op == token.OR {
					return hasBit(x.X, blk, depth+1) || hasBit(x.Y, blk, depth+1)
				}
			case *ssa.Convert:
				return hasBit(x.X, blk, depth+1)
			case *ssa.Phi:
				for i, e := range x.Edges {
					pred := x.Block().Preds[i]
					onlyNotNew := false
					for _, ne := range notNew {
						if ne.From == pred && ne.To() == x.Block() {
							onlyNotNew = true
						}
					}
					if !onlyNotNew && len(pred.Instrs) > 0 {
						if g, _ := eng.GuardedBy(fn, pred.Instrs[len(pred.Instrs)-1], notNew); g {
							onlyNotNew = true
						}
					}
					if onlyNotNew {
						continue // this value only reaches the call when an existing segment is reopened
					}
					if !hasBit(e, pred, depth+1) {
						return false
					}
				}
				return true
			}
			return false
		}
		opens := eng.CallsIn(fn, "os.OpenFile")
		okExcl := excl != 0 && len(opens) > 0 && len(notNew) > 0
		pos := p.Pos(fn.Pos())
		for _, oc := range opens {
			if g, _ := eng.GuardedBy(fn, oc, notNew); g {
				continue // reached only when reopening
			}
			pos = p.InstrPos(oc)
			if !hasBit(oc.Common().Args[1], oc.Block(), 0) {
				okExcl = false
			}
		}
		c.Check(okExcl, "a new segment's log file is created exclusively", pos, "os.OpenFile(…|O_EXCL) whenever isNew may be true", "newSegment tests for the file and creates it in two steps (no O_EXCL on the isNew path): two concurrent split() calls — the appender and the cleaner loop both roll segments — can open the same log and index files, and the loser of the compare-and-swap then deletes the files the new active segment is writing to")
	}
	// index bounds: an entry is readable iff it lies entirely below the write position
	if fn := c.Fn(cl + "(*index).ReadAt"); fn != nil {
		posF := p.Field(clPkg, "index", "position")
		beyond := eng.CmpEdges(fn, eng.Load(posF, nil), eng.Bin(token.ADD, eng.Param("offset"), eng.AnyV), eng.LT)
		exact := exactRel(fn, eng.Load(posF, nil), eng.Bin(token.ADD, eng.Param("offset"), eng.AnyV), eng.LT)
		c.Check(len(beyond) > 0 && exact, "index read bound", p.Pos(fn.Pos()), "EOF exactly when position < offset + entryWidth", "index.ReadAt's end-of-index test is not `position < offset+entryWidth`: the last entry becomes unreadable or an empty slot is read")
	}
	if fn := c.Fn(cl + "(*index).writeAt"); fn != nil {
		sizeF := p.Field(clPkg, "index", "size")
		end := eng.Bin(token.ADD, eng.Param("offset"), eng.Len(eng.Param("p")))
		grow := eng.CmpEdges(fn, end, eng.Load(sizeF, nil), eng.GE)
		ok := len(grow) > 0 && exactRel(fn, end, eng.Load(sizeF, nil), eng.GE)
		// no other size test decides the growth
		if n, all := allCmpExact(fn, eng.AnyV, eng.Load(sizeF, nil), eng.GE); !all || n != 1 {
			ok = false
		}
		// the copy into the mapping is reached either after growing or with the whole write inside the file
		fits := eng.CmpEdges(fn, end, eng.Load(sizeF, nil), eng.LT)
		eng.Instrs(fn, func(in ssa.Instruction) {
			if call, isC := in.(*ssa.Call); isC {
				if b, isB := call.Call.Value.(*ssa.Builtin); isB && b.Name() == "copy" {
					if g, _ := eng.GuardedBy(fn, in, append(append([]eng.Edge{}, grow...), fits...)); !g {
						ok = false
					}
				}
			}
		})
		c.Check(ok, "the index is grown whenever a write reaches its end", p.Pos(fn.Pos()), "expand exactly when offset + len(p) >= size", "index.writeAt decides whether to grow the index file from something other than the end of the whole write (offset + len(p)): a multi-entry batch that crosses the end of the pre-allocated index is silently cut off by copy(), the missing entries read as zero and readers started in that range land on the wrong messages")
	}
	if fn := c.Fn(cl + "(*segment).findLastEntryIndex"); fn != nil {
		nRet, ok := allReturns(fn, errNil(1), func(rv []ssa.Value) bool {
			return eng.Bin(token.SUB, call("sort.Search"), eng.IntConst(1))(rv[0])
		})
		ok = ok && nRet > 0
		pred := c.FnQuiet(cl + "(*segment).findLastEntryIndex$1")
		okPred := false
		if pred != nil {
			for _, r := range eng.Returns(pred) {
				if eng.RelVal(eng.LoadNamed("Offset", nil), eng.Param("offset"), eng.GT)(eng.RetVals(r)[0]) {
					okPred = true
				}
			}
		}
		c.Check(ok && okPred, "reverse start slot = (first entry with Offset > start) - 1", p.Pos(fn.Pos()), "sort.Search(entry.Offset > offset) - 1", "findLastEntryIndex does not return the slot of the last entry with Offset <= offset")
	}
	if fn := c.Fn(cl + "newReverseIndexScannerFromEnd"); fn != nil {
		ok := false
		eng.Instrs(fn, func(in ssa.Instruction) {
			if bo, isB := in.(*ssa.BinOp); isB && eng.Bin(token.SUB, call(cl+"index.CountEntries"), eng.IntConst(1))(bo) {
				ok = true
			}
		})
		c.Check(ok, "reverse scan from the end starts at the last entry", p.Pos(fn.Pos()), "CountEntries() - 1", "the reverse scanner does not start at entry count - 1")
	}
	if fn := c.Fn(cl + "newReverseIndexScannerFromEnd"); fn != nil {
		_, ok := allCmpExact(fn, eng.AnyV, eng.IntConst(0), eng.LT)
		c.Check(ok, "reverse scan from the end clamps only an empty index", p.Pos(fn.Pos()), "start slot replaced only when it is < 0", "the start slot of the reverse scanner is clamped by a test other than `< 0`: a one-entry index is treated as empty")
	}
	stepBy := func(fn *ssa.Function, typ string, op token.Token) bool {
		f := p.Field(clPkg, typ, "offset")
		for _, st := range eng.FieldStores(fn, func(fa *ssa.FieldAddr) bool { return fieldIs(fa, f) }) {
			if eng.Bin(op, eng.Load(f, nil), eng.IntConst(1))(st.Val) {
				return true
			}
		}
		return false
	}
	if fn := c.Fn(cl + "(*reverseIndexScanner).Scan"); fn != nil {
		f := p.Field(clPkg, "reverseIndexScanner", "offset")
		done := eng.CmpEdges(fn, eng.Load(f, nil), eng.IntConst(0), eng.LT)
		_, exact := allCmpExact(fn, eng.Load(f, nil), eng.IntConst(0), eng.LT)
		more := eng.CmpEdges(fn, eng.Load(f, nil), eng.IntConst(0), eng.GE)
		ok := len(done) > 0 && exact && stepBy(fn, "reverseIndexScanner", token.SUB)
		for _, rd := range eng.CallsIn(fn, cl+"index.ReadEntryAtLogOffset") {
			if g, _ := eng.GuardedBy(fn, rd.(ssa.Instruction), more); !g {
				ok = false
			}
		}
		c.Check(ok, "reverse index scan visits slots start, start-1, …, 0", p.Pos(fn.Pos()), "EOF exactly on offset < 0; read then offset--", "reverseIndexScanner.Scan does not end exactly below slot 0 or does not step back by one: the oldest entry is skipped or an entry is delivered twice")
	}
	if fn := c.Fn(cl + "(*indexScanner).Scan"); fn != nil {
		c.Check(stepBy(fn, "indexScanner", token.ADD), "forward index scan advances by one slot", p.Pos(fn.Pos()), "offset++ after a successful read", "indexScanner.Scan does not advance by exactly one slot")
	}
	// first write initialises firstOffset / firstWriteTime; every write updates lastOffset / lastWriteTime
	if fn := c.Fn(cl + "(*segment).write"); fn != nil {
		// "nothing written yet" is firstOffset == -1 (what newSegment and setupIndex leave for an empty segment and what IsEmpty
		// tests) — a value no write can store. A timestamp is no such mark: messages may carry timestamp 0 (F89).
		fw := p.Field(clPkg, "segment", "firstOffset")
		first := eng.CmpEdges(fn, eng.Load(fw, nil), eng.IntConst(-1), eng.EQ)
		for _, f := range []string{"firstOffset", "firstWriteTime"} {
			fo := p.Field(clPkg, "segment", f)
			sts := eng.FieldStores(fn, func(fa *ssa.FieldAddr) bool { return fieldIs(fa, fo) })
			ok := len(sts) == 1
			if ok {
				g, _ := eng.GuardedBy(fn, sts[0], first)
				ok = g && len(first) > 0 && exactRel(fn, eng.Load(fw, nil), eng.IntConst(-1), eng.EQ)
			}
			c.Check(ok, "segment."+f+" set by the first write only", p.Pos(fn.Pos()), "stored exactly on firstOffset == -1", "segment."+f+" is not set exactly when the segment is still empty (firstOffset == -1): with a mark that a message can reproduce — a zero timestamp — every later write moves the first offset, and OldestOffset / timestamp lookups report a wrong first message until the next restart")
		}
		// which entry of the batch feeds which field: first* from entries[0], last* from entries[len(entries)-1]
		fromEntry := func(v ssa.Value, field string, last bool) bool {
			f, b := eng.FieldRead(v)
			if f == nil || f.Name() != field {
				return false
			}
			ia := indexOfLoad(eng.Strip(b))
			if ia == nil || !eng.Param("entries")(ia.X) {
				return false
			}
			if last {
				return eng.Bin(token.SUB, eng.Len(eng.Param("entries")), eng.IntConst(1))(ia.Index)
			}
			return eng.IntConst(0)(ia.Index)
		}
		for _, x := range []struct {
			f, src string
			last   bool
		}{{"firstOffset", "Offset", false}, {"firstWriteTime", "Timestamp", false}, {"lastOffset", "Offset", true}, {"lastWriteTime", "Timestamp", true}} {
			fo := p.Field(clPkg, "segment", x.f)
			ok := false
			for _, st := range eng.FieldStores(fn, func(fa *ssa.FieldAddr) bool { return fieldIs(fa, fo) }) {
				ok = fromEntry(st.Val, x.src, x.last)
			}
			which := map[bool]string{true: "last", false: "first"}[x.last]
			c.Check(ok, "segment."+x.f+" comes from the "+which+" entry of the batch", p.Pos(fn.Pos()), "s."+x.f+" = entries["+map[bool]string{true: "len-1", false: "0"}[x.last]+"]."+x.src, "segment.write fills "+x.f+" from another entry or field than the "+which+" entry's "+x.src+": with multi-message batches the segment's bookkeeping (next offset, age of its newest message) is wrong — e.g. the age limit removes a segment whose newest message is still inside the window")
		}
		for _, f := range []string{"lastOffset", "lastWriteTime"} {
			fo := p.Field(clPkg, "segment", f)
			sts := eng.FieldStores(fn, func(fa *ssa.FieldAddr) bool { return fieldIs(fa, fo) })
			c.Check(len(sts) == 1, "segment."+f+" updated by every write", p.Pos(fn.Pos()), "stored from the last entry of the batch", "segment.write does not update "+f+": NextOffset() repeats an offset")
		}
		c.Check(len(eng.CallsIn(fn, cl+"segment.notifyWaiters")) == 1, "write wakes readers waiting for data", p.Pos(fn.Pos()), "notifyWaiters() after the write", "segment.write does not wake uncommitted readers / replication waiters")
	}
	if fn := c.Fn(cl + "(*segment).NextOffset"); fn != nil {
		nRet, ok := allReturns(fn, nil, func(rv []ssa.Value) bool {
			return eng.Bin(token.ADD, eng.LoadNamed("lastOffset", nil), eng.IntConst(1))(rv[0])
		}, func(rv []ssa.Value) bool { return eng.LoadNamed("BaseOffset", nil)(rv[0]) })
		ok = ok && nRet >= 2
		empty := eng.CmpEdges(fn, eng.LoadNamed("lastOffset", nil), eng.IntConst(-1), eng.EQ)
		for _, r := range eng.Returns(fn) {
			if eng.LoadNamed("BaseOffset", nil)(eng.RetVals(r)[0]) {
				if g, _ := eng.GuardedBy(fn, r, empty); !g {
					ok = false
				}
			}
		}
		c.Check(ok && len(empty) > 0, "next offset = last offset + 1 (base offset when empty)", p.Pos(fn.Pos()), "lastOffset == -1 ? BaseOffset : lastOffset + 1", "segment.NextOffset is not lastOffset+1 / BaseOffset for an empty segment")
	}
	// Truncate bookkeeping
	if fn := c.Fn(cl + "(*commitLog).Truncate"); fn != nil {
		segF := p.Field(clPkg, "commitLog", "segments")
		okList := len(eng.FieldStores(fn, func(fa *ssa.FieldAddr) bool { return fieldIs(fa, segF) })) == 1
		c.Check(okList, "Truncate installs the new segment list", p.Pos(fn.Pos()), "l.segments = segments", "Truncate does not install the truncated segment list")
		rep := eng.CallsIn(fn, cl+"segment.Replace")
		okRep := len(rep) == 1
		if okRep {
			// the replacement takes the old segment's slot
			stored := false
			eng.Instrs(fn, func(in ssa.Instruction) {
				if st, isSt := in.(*ssa.Store); isSt {
					if _, isIA := st.Addr.(*ssa.IndexAddr); isIA && eng.Strip(st.Val) == eng.Strip(rep[0].Common().Args[0]) {
						stored = true
					}
				}
			})
			okRep = stored
		}
		c.Check(okRep, "truncated segment takes the old segment's place", p.Pos(fn.Pos()), "segments[idx] = newSegment after Replace", "Truncate does not put the rewritten segment into the segment list")
		okAct := len(eng.CallsIn(fn, "sync/atomic.StorePointer")) == 1
		c.Check(okAct, "Truncate re-points the active segment", p.Pos(fn.Pos()), "StorePointer(&vActiveSegment, last segment)", "Truncate does not update the active segment: appends go to a deleted segment")
		// following segments are deleted from idx+1
		okDel := false
		eng.Instrs(fn, func(in ssa.Instruction) {
			if ph, isPhi := in.(*ssa.Phi); isPhi {
				for _, e := range ph.Edges {
					if eng.Bin(token.ADD, call(cl+"findSegment"), eng.IntConst(1))(e) {
						okDel = true
					}
				}
			}
		})
		if !okDel {
			// or, newest first: the counter starts at len(l.segments)-1 and the body runs while it is above idx
			startsAtEnd := false
			eng.Instrs(fn, func(in ssa.Instruction) {
				if ph, isPhi := in.(*ssa.Phi); isPhi {
					for _, e := range ph.Edges {
						if eng.Bin(token.SUB, eng.Len(eng.AnyV), eng.IntConst(1))(e) {
							startsAtEnd = true
						}
					}
				}
			})
			above, exact := aboveIndex(fn, func(v ssa.Value) bool { _, isPhi := v.(*ssa.Phi); return isPhi }, call(cl+"findSegment"))
			okDel = startsAtEnd && len(above) > 0 && exact
		}
		c.Check(okDel, "Truncate drops every later segment", p.Pos(fn.Pos()), "the delete loop covers idx+1 … len-1 (from idx+1 upwards, or from len-1 down to idx+1)", "the loop deleting later segments does not cover exactly the segments after idx")
	}
	if fn := c.Fn(cl + "(*segment).Replace"); fn != nil {
		rep := p.Field(clPkg, "segment", "replaced")
		ok := false
		for _, st := range eng.FieldStores(fn, func(fa *ssa.FieldAddr) bool { return fieldIs(fa, rep) }) {
			if boolConst(st.Val, true) && eng.Param("old")(st.Addr.(*ssa.FieldAddr).X) {
				ok = true
			}
		}
		c.Check(ok, "Replace marks the old segment replaced", p.Pos(fn.Pos()), "old.replaced = true", "Replace does not flag the old segment as replaced: readers positioned in it get ErrSegmentClosed instead of re-initialising")
		sfx := p.Field(clPkg, "segment", "suffix")
		okS := false
		for _, st := range eng.FieldStores(fn, func(fa *ssa.FieldAddr) bool { return fieldIs(fa, sfx) }) {
			if eng.StrConst("")(st.Val) {
				okS = true
			}
		}
		c.Check(okS, "Replace adopts the final file names", p.Pos(fn.Pos()), "s.suffix = \"\" before reopening", "the replacement keeps its temporary suffix: it reopens (and later deletes) the wrong files")
		// close() seals; the replacement takes over the sealed state that the replaced segment had BEFORE it was closed here
		// (an active segment that is truncated must stay unsealed, so that its later roll wakes the readers parked in it)
		sealedF := p.Field(clPkg, "segment", "sealed")
		okSeal := false
		closes := eng.CallsIn(fn, cl+"segment.close")
		for _, st := range eng.FieldStores(fn, func(fa *ssa.FieldAddr) bool { return fieldIs(fa, sealedF) }) {
			if !eng.Param("s")(st.Addr.(*ssa.FieldAddr).X) {
				continue
			}
			if eng.Load(sealedF, eng.Param("old"))(st.Val) {
				// the load precedes every close() call
				ld := eng.Strip(st.Val).(ssa.Instruction)
				okSeal = true
				for _, cc := range closes {
					q := &eng.PathQuery{Fn: fn, FromAfter: []ssa.Instruction{cc.(ssa.Instruction)}, Target: func(x ssa.Instruction) bool { return x == ld }}
					if q.Find() != nil {
						okSeal = false
					}
				}
			}
		}
		c.Check(okSeal && len(closes) >= 2, "Replace carries over whether the replaced segment was sealed", p.Pos(fn.Pos()), "s.sealed = (old.sealed read before old.close())", "Replace leaves the replacement sealed (close() seals it) whatever the replaced segment was: after a tail truncation the active segment counts as sealed, so when it is rolled Seal() does nothing and the readers parked at its end (replication's uncommitted readers among them) are never woken")
	}
	if fn := c.Fn(cl + "(*segment).waitForData"); fn != nil {
		q := &eng.PathQuery{Fn: fn, FromEntry: true, Target: isReturn, CutInstr: func(x ssa.Instruction) bool {
			switch y := x.(type) {
			case *ssa.MapUpdate:
				return true
			case *ssa.Call:
				if b, ok := y.Call.Value.(*ssa.Builtin); ok && b.Name() == "close" {
					return true
				}
			case *ssa.Return:
				return false
			}
			return false
		}}
		// the early return for an already registered waiter is allowed: cut at the lookup-ok edge
		reg := eng.BoolEdges(fn, func(v ssa.Value) bool {
			e, ok := v.(*ssa.Extract)
			if !ok || e.Index != 1 {
				return false
			}
			_, isLk := e.Tuple.(*ssa.Lookup)
			return isLk
		}, true)
		q.CutEdges = reg
		w := q.Find()
		c.Check(w == nil, "data waiter is closed or registered", p.Pos(fn.Pos()), "every path returns a channel that is already closed or registered in s.waiters", "waitForData can return a channel nobody will close (path "+w.String()+")")
	}
}

func boolConst(v ssa.Value, want bool) bool {
	k, ok := eng.Strip(v).(*ssa.Const)
	if !ok || k.Value == nil {
		return false
	}
	return k.Value.String() == map[bool]string{true: "true", false: "false"}[want]
}

// exactRel: fn contains a test of a against b whose true edge carries exactly rel (not a stronger or weaker relation).
func exactRel(fn *ssa.Function, a, b eng.VM, rel eng.Rel) bool {
	return eng.ExactCmp(fn, a, b, rel)
}

// allReturns: among the returns of fn selected by pick (nil = all), every one satisfies at least one of the shapes.
// Rules on returned values quantify over ALL returns: an extra early return with another value must not hide behind a
// later one that has the expected shape.
func allReturns(fn *ssa.Function, pick func(rv []ssa.Value) bool, shapes ...func(rv []ssa.Value) bool) (int, bool) {
	n, ok := 0, true
	for _, r := range eng.Returns(fn) {
		rv := eng.RetVals(r)
		if pick != nil && !pick(rv) {
			continue
		}
		n++
		matched := false
		for _, sh := range shapes {
			if sh(rv) {
				matched = true
			}
		}
		if !matched {
			ok = false
		}
	}
	return n, ok
}

func errNil(i int) func(rv []ssa.Value) bool {
	return func(rv []ssa.Value) bool { return len(rv) > i && eng.NilConst(rv[i]) }
}

func constBool(v ssa.Value, want bool) bool {
	k, ok := v.(*ssa.Const)
	return ok && k.Value != nil && k.Value.String() == map[bool]string{true: "true", false: "false"}[want]
}
