package rules

import (
	"go/constant"
	"go/token"
	"go/types"
	"sort"
	"strings"

	"golang.org/x/tools/go/ssa"

	"lbcheck/eng"
	"lbcheck/ir"
)

func init() {
	register(&Property{ID: "C05", Level: "other", Run: runC05,
		Technique:   "static analysis: path ordering of file-system effects, effect ownership for the checkpoint files, exhaustiveness of the recovery scan over the file kinds the package can create, lock-region checks (go/ssa)",
		LevelText:   "Crash points are a runtime quantity; enumerating them is fault injection, a different technique family. Decided for all paths are ordering and ownership clauses without which no crash point can recover: log bytes are written before their index entries and a failed log write leaves the index untouched; the two checkpoint files are only ever replaced atomically; segment replacement closes both segments before the first rename, renames log then index, stops at the first error and re-derives the index afterwards; every kind of file the package can create is handled by the recovery scan (loaded, removed, or ignored with a reason); the epoch cache is trimmed to the log after open and before anything runs; truncate and the clean swap hold the log lock throughout.",
		LevelNote:   "Trusted: go/ssa; natefinch/atomic's rename-based replacement; process-crash model (the OS keeps what was written).",
		DesignRef:   "DESIGN.md §4 C05",
		Explanation: "Round 12: R05.8 also: a partial write found at the rebuild is cut off the file; the epoch scan walks every segment; R05.5 also: every checkpoint entry enters the history. Round 10: R05.8 also: every message of a recovered epoch moves the epoch's start to its own offset. Round 9: not-exist tests see the os error; loaded epochs become the cache. Round 8: R05.5 also: append recognises a new leader epoch against the epoch cache itself (no copy beside it); R05.8 also: a rebuilt index's last entry is the one the bookkeeping uses, and the rebuild does not bound a message set by the segment limit. R01.1 (shared) offsets and positions come from the segment that is written. R05.8 also: the index is rebuilt into a file that was removed and created anew. R05.7 also: Truncate deletes the later segments newest first (F77); R05.8 also: epoch recovery assigns every missing epoch and the index rebuild accepts offset gaps. R05.1 log-then-index, R05.2 atomic checkpoints, R05.3 Replace ordering, R05.4 recovery exhaustiveness over file kinds, R05.5 epoch cache trimmed after open, R05.6 lock regions, R05.7 crash-safe ordering (log removed before index, epoch cache trimmed after the log, repeatable Delete), R05.8 a log ahead of its index is repaired at open, R02.8 (shared) epoch cache trims; R05.5 also fixes the shapes of open(). R14.6 (shared) errIndexCorrupt arrives unwrapped at setupIndex's identity test. NOT decided: the state reached from each individual crash point; index/log agreement after a torn write; the two-rename window of Replace.",
	})
}

func runC05(c *eng.Ctx) {
	c.Rule("R01.15", "K4")
	ruleRollExcludesAppend(c)
	p := c.P
	// (shared with C01) what recovery reads back is what the append assigned: offsets and positions come from the segment
	// that is written, resolved under the lock that excludes a roll
	c.Rule("R01.1", "K5")
	ruleOffsetIdentity(c)
	c.Rule("R05.5", "K2")
	ruleEpochHistoryIsReadInFileOrder(c)
	ruleAppendAssignsEpochsFromTheCache(c)
	ruleNotExistTestsSeeTheOSError(c)
	ruleLoadedEpochsBecomeTheCache(c)
	c.Rule("R05.8", "K2")
	ruleRecoveredEpochStartsAtItsFirstMessage(c)
	c.Rule("R05.8", "K5")
	ruleRecoveredEntryIsTheLastAnswer(c)
	// ---- R05.1
	c.Rule("R05.1", "K2")
	ruleLogThenIndex(c)

	// ---- R05.2 atomic checkpoints
	c.Rule("R05.2", "K3")
	checkpointNames := map[string]bool{"replication-offset-checkpoint": true, "leader-epoch-checkpoint": true}
	writers := []string{"os.WriteFile", "os.Create", "os.OpenFile", "io/ioutil.WriteFile", "os.File.Write", "os.File.WriteString", "os.Rename"}
	n := 0
	for _, fn := range p.Funcs {
		if fn.Pkg == nil || ir.Short(fn.Pkg.Pkg.Path()) != clPkg {
			continue
		}
		uses := ""
		eng.Instrs(fn, func(in ssa.Instruction) {
			var ops []*ssa.Value
			for _, op := range in.Operands(ops) {
				if k, ok := (*op).(*ssa.Const); ok && k.Value != nil && k.Value.Kind() == constant.String && checkpointNames[constant.StringVal(k.Value)] {
					uses = constant.StringVal(k.Value)
				}
			}
		})
		if uses == "" {
			continue
		}
		for _, w := range eng.CallsIn(fn, writers...) {
			n++
			c.Violate("non-atomic write next to "+uses+" in "+ir.FuncKey(fn), c.Pos(w.(ssa.Instruction)), "the function that names checkpoint file "+uses+" uses "+eng.CalleeRef(w.Common())+": a crash mid-write leaves a torn checkpoint")
		}
	}
	for _, k := range []string{cl + "(*commitLog).checkpointHW", cl + "(*leaderEpochCache).flush"} {
		fn := c.Fn(k)
		if fn == nil {
			continue
		}
		aw := eng.CallsIn(fn, "github.com/natefinch/atomic.WriteFile")
		c.Check(len(aw) == 1, fn.Name()+" replaces its checkpoint atomically", p.Pos(fn.Pos()), "atomic.WriteFile", fn.Name()+" does not write its checkpoint with atomic.WriteFile")
	}
	// nobody else writes these files: checkpointFile / hw path flow only into atomic.WriteFile (file ownership R01.3 covers other writers)
	c.Floor(2)

	// ---- R05.3 Replace ordering
	c.Rule("R05.3", "K2")
	ruleReplaceOrdering(c)

	// ---- R05.4 recovery exhaustiveness
	c.Rule("R05.4", "K6")
	// kinds: suffix constants that can reach newSegment's suffix parameter (through helpers), with the call site facts
	type site struct {
		pos   string
		fresh bool // created with isNew = true after removing stale files of that name
		outer string
	}
	suffixes := map[string][]site{}
	slc := &eng.Slicer{P: p, MaxDepth: 3}
	for _, s := range eng.Index(p).Sites(cl + "newSegment") {
		call := s.Instr.(ssa.CallInstruction)
		a := call.Common().Args
		isNew := false
		if k, ok := eng.Strip(a[len(a)-2]).(*ssa.Const); ok && k.Value != nil && k.Value.String() == "true" {
			isNew = true
		}
		// isNew=true makes newSegment refuse an existing file, so stale contents can never be appended to; the removal of
		// leftovers before it (reachable, not necessarily on every CFG path: it sits in a loop over the two file names) lets the retry succeed
		removed := false
		for _, rm := range eng.CallsIn(s.Fn, "os.Remove") {
			q := &eng.PathQuery{Fn: s.Fn, FromAfter: []ssa.Instruction{rm.(ssa.Instruction)}, Target: func(x ssa.Instruction) bool { return x == s.Instr }}
			if q.Find() != nil {
				removed = true
			}
		}
		for _, lf := range slc.Leaves(a[len(a)-1]) {
			if lf.Kind != "const" {
				continue
			}
			if k, ok := constString(lf.V); ok && k != "" {
				suffixes[k] = append(suffixes[k], site{c.Pos(s.Instr), isNew && removed, s.Outer()})
			}
		}
	}
	// what the recovery path looks at: string constants in open() and functions it calls before the log is returned
	seenConsts := map[string]bool{}
	var recFns []*ssa.Function
	for _, k := range []string{cl + "(*commitLog).open", cl + "New", cl + "(*commitLog).init", cl + "(*commitLog).removeLeftovers", cl + "(*commitLog).cleanupLeftovers"} {
		if f := c.FnQuiet(k); f != nil {
			recFns = append(recFns, f)
		}
	}
	for f := range c.Reachable(recFns, map[string]bool{cl + "newSegment": true, cl + "(*commitLog).checkpointHWLoop": true, cl + "(*commitLog).cleanerLoop": true}, false) {
		eng.Instrs(f, func(in ssa.Instruction) {
			var ops []*ssa.Value
			for _, op := range in.Operands(ops) {
				if k, ok := (*op).(*ssa.Const); ok && k.Value != nil && k.Value.Kind() == constant.String {
					seenConsts[constant.StringVal(k.Value)] = true
				}
			}
		})
	}
	for _, base := range []string{".log", ".index"} {
		c.Check(seenConsts[base], "file kind *"+base+" handled at recovery", p.Pos(recFns[0].Pos()), "open() recognises it", "open() no longer recognises *"+base+" files")
	}
	var sfx []string
	for s := range suffixes {
		sfx = append(sfx, s)
	}
	sort.Strings(sfx)
	for _, s := range sfx {
		recognised := seenConsts[s] || seenConsts[".log"+s] || seenConsts[".index"+s]
		allFresh := true
		where := ""
		for _, st := range suffixes[s] {
			where = st.pos
			if !st.fresh {
				allFresh = false
			}
		}
		how := "the recovery scan recognises (loads or removes) it"
		if !recognised && allFresh {
			how = "every creation site removes files of that name first and creates the segment as new: leftovers of a crash can never be appended to"
		}
		c.Check(recognised || allFresh, "file kind *"+s+" handled at recovery", where, how, "segments are created with suffix \""+s+"\" (at "+where+") but the recovery scan in open() never looks for it and the creation site reopens an existing file (isNew=false, O_APPEND): files left by a crash mid-clean/truncate are neither loaded nor removed, and the next Cleaned()/Truncated() appends after the stale contents")
	}
	for _, n := range []string{"replication-offset-checkpoint", "leader-epoch-checkpoint"} {
		h := seenConsts[n]
		if !h {
			if f := c.FnQuiet(cl + "newLeaderEpochCache"); f != nil {
				eng.Instrs(f, func(in ssa.Instruction) {
					var ops []*ssa.Value
					for _, op := range in.Operands(ops) {
						if k, ok := (*op).(*ssa.Const); ok && k.Value != nil && k.Value.Kind() == constant.String && constant.StringVal(k.Value) == n {
							h = true
						}
					}
				})
			}
		}
		c.Check(h, "checkpoint "+n+" loaded at recovery", "-", "read back when the log is opened", "checkpoint file "+n+" is never read back")
	}
	c.Floor(5)

	// ---- R05.5 epoch cache trimmed after open
	c.Rule("R05.5", "K2")
	if fn := c.Fn(cl + "New"); fn != nil {
		op := eng.CallsIn(fn, cl+"commitLog.open")
		clr := eng.CallsIn(fn, cl+"leaderEpochCache.ClearLatest")
		cle := eng.CallsIn(fn, cl+"leaderEpochCache.ClearEarliest")
		if len(op) != 1 || len(clr) != 1 || len(cle) != 1 {
			c.Violate("epoch cache trimmed to the log", p.Pos(fn.Pos()), "commitlog.New does not call open, ClearLatest and ClearEarliest exactly once each")
		} else {
			for _, x := range []ssa.CallInstruction{clr[0], cle[0]} {
				g, _ := eng.PrecededBy(fn, x.(ssa.Instruction), func(i ssa.Instruction) bool { return i == op[0].(ssa.Instruction) })
				c.Check(g, shortRef(eng.CalleeRef(x.Common()))+" after open()", c.Pos(x.(ssa.Instruction)), "runs on the recovered segments", "the epoch cache is trimmed before the segments were recovered")
			}
			c.Check(eng.Call(-1, cl+"segment.NextOffset")(clr[0].Common().Args[1]), "ClearLatest at the log end", c.Pos(clr[0].(ssa.Instruction)), "ClearLatest(activeSegment().NextOffset())", "ClearLatest is not given the recovered log end offset")
			c.Check(eng.Call(-1, cl+"commitLog.OldestOffset")(cle[0].Common().Args[1]), "ClearEarliest at the log start", c.Pos(cle[0].(ssa.Instruction)), "ClearEarliest(OldestOffset())", "ClearEarliest is not given the recovered oldest offset")
			eng.Instrs(fn, func(in ssa.Instruction) {
				if g, ok := in.(*ssa.Go); ok {
					gd, w := eng.PrecededBy(fn, g, func(i ssa.Instruction) bool { return i == cle[0].(ssa.Instruction) })
					gd2, _ := eng.PrecededBy(fn, g, func(i ssa.Instruction) bool { return i == clr[0].(ssa.Instruction) })
					c.Check(gd && gd2, "background loops start after the epoch cache was trimmed", c.Pos(g), "go … after ClearLatest/ClearEarliest", "a background loop (cleaner / checkpoint) starts before recovery finished (path "+w.String()+")")
				}
			})
		}
	}
	if fn := c.Fn(cl + "(*commitLog).open"); fn != nil {
		rm := eng.CallsIn(fn, "os.Remove")
		missing := eng.BoolEdges(fn, eng.Call(-1, "os.IsNotExist"), true)
		for _, r := range rm {
			g, w := eng.GuardedBy(fn, r.(ssa.Instruction), missing)
			c.Check(g && len(missing) > 0, "only an index without a log is removed at open", c.Pos(r.(ssa.Instruction)), "os.Remove behind os.IsNotExist(stat(log))", "open() can remove a file whose log exists (path "+w.String()+")")
		}
		// every *.log file becomes a segment that is re-opened (never created as new), at the base offset in its name
		segF := p.Field(clPkg, "commitLog", "segments")
		isLog := eng.BoolEdges(fn, func(v ssa.Value) bool {
			call := eng.AsCall(v)
			return call != nil && eng.CalleeRef(&call.Call) == "strings.HasSuffix" && (eng.Global(cl+"logFileSuffix")(call.Call.Args[1]) || eng.StrConst(".log")(call.Call.Args[1]))
		}, true)
		var reopen, fresh []ssa.CallInstruction
		for _, ns := range eng.CallsIn(fn, cl+"newSegment") {
			if boolConst(ns.Common().Args[3], false) {
				reopen = append(reopen, ns)
			} else {
				fresh = append(fresh, ns)
			}
		}
		okRe := len(reopen) == 1 && len(isLog) > 0
		if okRe {
			g, _ := eng.GuardedBy(fn, reopen[0].(ssa.Instruction), isLog)
			base := eng.Call(0, "strconv.Atoi", "strconv.ParseInt")
			okRe = g && base(reopen[0].Common().Args[1]) && appendedTo(fn, segF, reopen[0].Value())
		}
		pos := p.Pos(fn.Pos())
		if len(reopen) == 1 {
			pos = c.Pos(reopen[0].(ssa.Instruction))
		}
		c.Check(okRe, "each log file is recovered as an existing segment at the offset in its name", pos, "newSegment(path, Atoi(name without suffix), …, isNew=false, \"\") appended to l.segments, for *.log files only", "open() does not re-open every *.log file as an existing segment at the base offset its name carries: recovered offsets shift, or a recovered file is refused / truncated as if new")
		// a first segment is created only for a log without any segment
		none := eng.CmpEdges(fn, eng.Len(eng.Load(segF, nil)), eng.IntConst(0), eng.EQ)
		okFresh := len(fresh) == 1 && len(none) > 0 && exactRel(fn, eng.Len(eng.Load(segF, nil)), eng.IntConst(0), eng.EQ)
		if okFresh {
			g, _ := eng.GuardedBy(fn, fresh[0].(ssa.Instruction), none)
			okFresh = g && eng.IntConst(0)(fresh[0].Common().Args[1]) && boolConst(fresh[0].Common().Args[3], true) && appendedTo(fn, segF, fresh[0].Value())
		}
		c.Check(okFresh, "a first segment is created only when nothing was recovered", pos, "newSegment(path, 0, …, isNew=true) exactly on len(l.segments) == 0", "open() creates a fresh base segment although segments were recovered (or does not create one for an empty directory)")
		// appends continue in the newest recovered segment
		okAct := false
		for _, sp := range eng.CallsIn(fn, "sync/atomic.StorePointer") {
			if ia := indexOfLoad(eng.Strip(sp.Common().Args[1])); ia != nil && eng.Load(segF, nil)(ia.X) && eng.Bin(token.SUB, eng.Len(eng.Load(segF, nil)), eng.IntConst(1))(ia.Index) {
				okAct = true
			}
		}
		c.Check(okAct, "the newest recovered segment becomes the active one", pos, "vActiveSegment = l.segments[len(l.segments)-1]", "after recovery the active segment is not the last (newest) one: appends go into the middle of the log")
		// the recovered high watermark comes from the checkpoint file
		hwF := p.Field(clPkg, "commitLog", "hw")
		okHW := false
		for _, st := range eng.FieldStores(fn, func(fa *ssa.FieldAddr) bool { return fieldIs(fa, hwF) }) {
			if eng.Call(0, "strconv.ParseInt")(st.Val) {
				okHW = true
			}
		}
		c.Check(okHW, "the high watermark is recovered from its checkpoint", pos, "l.hw = ParseInt(contents of the checkpoint file)", "open() does not restore l.hw from the replication-offset checkpoint: after a restart committed data is invisible until the watermark is re-learned, or uncommitted data is visible")
	}
	c.Floor(10)

	// recovery trims the epoch cache at both ends (R05.5 above): the trimming itself
	c.Rule("R02.8", "K5")
	ruleEpochCacheShapes(c)
	c.Floor(9)

	// ---- R05.8 recovery reconciles the log with its index
	c.Rule("R05.8", "K2")
	ruleRebuiltIndexStartsEmpty(c)
	ruleEpochRecoveryAssignsEveryMissingEpoch(c)
	ruleRebuildIndexAcceptsGaps(c)
	ruleRecoveryCutsThePartialTail(c)
	ruleRebuildDoesNotBoundSizesBySegmentLimit(c)
	if fn := c.Fn(cl + "(*segment).setupIndex"); fn != nil {
		// An append writes the log, then the index. A crash in between leaves log bytes the index does not describe: the write
		// position comes from the file size, the next offset from the index, so the next append re-uses the orphan's offset
		// and sequential readers deliver both. Recovery has to notice (position beyond the end of the last indexed message
		// set) and repair (re-index the tail or cut it off) before the segment is used.
		posF := p.Field(clPkg, "segment", "position")
		end := func(v ssa.Value) bool {
			v = eng.Strip(v)
			if eng.Call(-1, cl+"indexedEnd")(v) {
				return true
			}
			return eng.BinComm(token.ADD, eng.LoadNamed("Position", nil), eng.LoadNamed("Size", nil))(v)
		}
		// the edges on which the log and its index may disagree: every edge of a comparison of the two except those on which
		// they are known to be equal. (Log ahead: a crash between the log write and the index write of an append. Index
		// ahead or simply different: a crash between the two renames of Replace, which leaves the rewritten log of a
		// truncated / compacted segment next to the old index.)
		anyCmp := eng.CmpEdges(fn, eng.Load(posF, nil), end, eng.LT|eng.EQ|eng.GT)
		equal := map[eng.Edge]bool{}
		for _, e := range eng.CmpEdges(fn, eng.Load(posF, nil), end, eng.EQ) {
			equal[e] = true
		}
		var ahead []eng.Edge
		for _, e := range anyCmp {
			if equal[e] {
				continue
			}
			// a comparison made after the index was rebuilt (is a partial message set left at the end?) is part of the repair
			last := e.From.Instrs[len(e.From.Instrs)-1]
			if after, _ := eng.PrecededBy(fn, last, eng.IsCallTo(cl+"segment.rebuildIndex")); after {
				continue
			}
			ahead = append(ahead, e)
		}
		ok := len(ahead) > 0
		var w *eng.Witness
		if ok {
			q := &eng.PathQuery{Fn: fn, FromEdges: ahead, Target: func(x ssa.Instruction) bool {
				r, isR := x.(*ssa.Return)
				if !isR {
					return false
				}
				rv := eng.RetVals(r)
				return len(rv) == 1 && eng.NilConst(rv[0])
			}, CutInstr: eng.IsCallTo(cl+"segment.rebuildIndex", "os.File.Truncate")}
			w = q.Find()
			ok = w == nil
		}
		if ok {
			// ... and no successful return of setupIndex is taken before that comparison was made (an early `return nil` for
			// an empty index skips exactly the case of a crash during the first append to a fresh segment)
			compared := anyCmp
			for _, r := range eng.Returns(fn) {
				rv := eng.RetVals(r)
				if len(rv) == 1 && eng.NilConst(rv[0]) {
					if g, wr := eng.GuardedBy(fn, r, compared); !g {
						ok, w = false, wr
					}
				}
			}
		}
		c.Check(ok, "a log and an index that disagree are reconciled when the segment is opened", p.Pos(fn.Pos()), "position != end of the last indexed message set ⇒ rebuildIndex / truncate before the segment is used", "setupIndex can succeed although the log does not end where its index ends (path "+w.String()+"): after a crash between the log write and the index write of an append the next append re-uses the orphan's offset; after a crash between the two renames of Replace the old index is applied to the rewritten log — phantom offsets after a truncation, other messages than the ones asked for after a compaction")
	}
	// the leader-epoch history is brought back in step with the log in BOTH directions at open: entries beyond the log end are
	// trimmed (R05.5), and epochs the log holds but the checkpoint file lacks (a crash between the index write and the
	// checkpoint replace of an append) are re-assigned from the messages — or cannot be missing in the first place because
	// append records a new epoch before it writes the message
	{
		okRecover, how := false, ""
		if nw := c.Fn(cl + "New"); nw != nil {
			for _, f := range moduleReach(c, nw, 3) {
				if len(eng.CallsIn(f, cl+"messageSet.LeaderEpoch")) > 0 && len(eng.CallsIn(f, cl+"leaderEpochCache.Assign")) > 0 {
					okRecover, how = true, "New reaches "+ir.FuncKey(f)+", which reads the epochs of the messages and assigns the missing ones"
				}
			}
		}
		if ap := c.Fn(cl + "(*commitLog).append"); ap != nil && !okRecover {
			as := eng.CallsIn(ap, cl+"leaderEpochCache.Assign")
			wr := eng.CallsIn(ap, cl+"segment.WriteMessageSet")
			if len(as) >= 1 && len(wr) == 1 {
				// every Assign precedes the write
				first := true
				for _, a := range as {
					q := &eng.PathQuery{Fn: ap, FromAfter: []ssa.Instruction{wr[0].(ssa.Instruction)}, Target: func(x ssa.Instruction) bool { return x == a.(ssa.Instruction) }}
					if q.Find() != nil {
						first = false
					}
				}
				if first {
					okRecover, how = true, "append assigns a new epoch before it writes the message set"
				}
			}
		}
		c.Check(okRecover, "the epoch history cannot stay behind the log", "-", how, "append writes the message set before it records a new leader epoch, and opening the log only trims the epoch history: after a crash in between the history lacks the newest epoch, the next message of that epoch records it one offset late, and LastOffsetForLeaderEpoch — what replicas truncate to — answers one too high")
	}
	// a replacement segment (.cleaned / .truncated) starts from nothing: both files a crashed attempt left behind are removed
	if fn := c.Fn(cl + "(*segment).newReplacement"); fn != nil {
		removed := map[string]bool{}
		record := func(v ssa.Value) {
			if call, isCall := eng.Strip(v).(*ssa.Call); isCall {
				switch eng.CalleeRef(&call.Call) {
				case cl + "segment.logPath":
					removed["log"] = true
				case cl + "segment.indexPath":
					removed["index"] = true
				}
			}
		}
		for _, rm := range eng.CallsIn(fn, "os.Remove") {
			a := rm.Common().Args[0]
			record(a)
			if ia := indexOfLoad(a); ia != nil {
				// element of a slice literal that is ranged over
				base := ia.X
				if sl, isSl := base.(*ssa.Slice); isSl {
					base = sl.X
				}
				if al, isAl := base.(*ssa.Alloc); isAl && al.Referrers() != nil {
					for _, r := range *al.Referrers() {
						if ea, isEA := r.(*ssa.IndexAddr); isEA && ea.Referrers() != nil {
							for _, rr := range *ea.Referrers() {
								if st, isSt := rr.(*ssa.Store); isSt {
									record(st.Val)
								}
							}
						}
					}
				}
			}
		}
		c.Check(removed["log"] && removed["index"], "a replacement segment starts without leftovers", p.Pos(fn.Pos()), "stale <base>.log.<suffix> and <base>.index.<suffix> are both removed before the replacement is created", "newReplacement does not remove both files a crashed clean / truncate left behind: the next attempt adopts stale index entries (or stale log bytes) and writes the real ones behind them — duplicated offsets on disk after the rewrite after next")
	}
	c.Floor(3)

	// ---- R05.7 crash-safe ordering of destructive steps
	c.Rule("R05.7", "K2")
	ruleTruncateDeletesNewestFirst(c)
	ruleSegmentDelete(c)
	if fn := c.Fn(cl + "(*commitLog).Truncate"); fn != nil {
		// the epoch cache is trimmed after the log: recovery trims epochs beyond the log end (ClearLatest in New), but has no
		// way to restore epochs that were dropped while the messages they describe are still in the log
		cls := eng.CallsIn(fn, cl+"leaderEpochCache.ClearLatest")
		ok := len(cls) == 1
		var w *eng.Witness
		if ok {
			q := &eng.PathQuery{Fn: fn, FromAfter: []ssa.Instruction{cls[0].(ssa.Instruction)}, Target: func(x ssa.Instruction) bool {
				if eng.IsCallTo(cl+"segment.Delete", cl+"segment.Replace", cl+"segment.WriteMessageSet")(x) {
					return true
				}
				st, isSt := x.(*ssa.Store)
				if !isSt {
					return false
				}
				fa, isFA := st.Addr.(*ssa.FieldAddr)
				return isFA && eng.FieldNameOf(fa) == "segments" && ownerName(fa) == "commitLog"
			}}
			w = q.Find()
			ok = w == nil
		}
		c.Check(ok, "Truncate trims the epoch cache after the log itself", p.Pos(fn.Pos()), "ClearLatest(offset) is the last destructive step", "Truncate trims (and flushes) the leader epoch cache before the segments are deleted / rewritten (path "+w.String()+"): a crash in between leaves messages in the log whose epoch boundary is gone, and the follower later truncates to the wrong offset")
	}
	c.Floor(3)

	// ---- R05.6 lock regions
	c.Rule("R05.6", "K4")
	if fn := c.Fn(cl + "(*commitLog).Truncate"); fn != nil {
		la := eng.LocksOf(p, fn, 0)
		bad := ""
		eng.Instrs(fn, func(in ssa.Instruction) {
			ci, ok := in.(ssa.CallInstruction)
			if !ok {
				return
			}
			ref := eng.CalleeRef(ci.Common())
			if strings.HasPrefix(ref, cl+"segment.") || ref == cl+"leaderEpochCache.ClearLatest" || ref == cl+"findSegment" {
				if !lockHeld(la.At(in), ".mu", 2) {
					bad = ref + " at " + c.Pos(in)
				}
			}
		})
		c.Check(bad == "", "Truncate holds the log lock throughout", p.Pos(fn.Pos()), "every segment / epoch-cache operation runs with l.mu write-held", "Truncate performs "+bad+" without the log's write lock: appends or cleans can interleave with a half-truncated log")
	}
	c.Floor(1)
	// ---- R14.6 the corrupt-index error reaches setupIndex's identity test unwrapped (else open fails instead of rebuilding)
	nSent := ruleSentinelIdentity(c, "R14.6", []string{cl + "(*segment).setupIndex", cl + "(*commitLog).recoverLeaderEpochs"}, "a corrupt index is no longer rebuilt: opening the log fails, or the segment keeps an index that does not describe its log")
	c.Check(nSent >= 1, "setupIndex tells a corrupt index apart", "", "identity comparison with errIndexCorrupt found", "setupIndex no longer recognises a corrupt index")
	// ---- R01.12 (shared) Truncate removes exactly the messages at and above the offset
	c.Rule("R01.12", "K5")
	ruleTruncateShapes(c)
	c.Floor(8)

	// ---- R01.13 (shared) error gates in the commit log package: recovery does not take a failed step for success
	c.Rule("R01.13", "K2")
	ruleErrorGates(c, "server/commitlog")
	c.Floor(20)

}

// appendedTo: fn stores append(<field>, v) (possibly after conversion) into the field.
func appendedTo(fn *ssa.Function, f *types.Var, v ssa.Value) bool {
	ok := false
	for _, st := range eng.FieldStores(fn, func(fa *ssa.FieldAddr) bool { return fieldIs(fa, f) }) {
		ac := eng.AsCall(st.Val)
		if ac == nil {
			continue
		}
		if b, isB := ac.Call.Value.(*ssa.Builtin); !isB || b.Name() != "append" || !eng.Load(f, nil)(ac.Call.Args[0]) {
			continue
		}
		for _, e := range variadicElems(ac.Call.Args[1]) {
			if e == v || eng.Strip(e) == eng.Strip(v) {
				ok = true
			}
			if ex, isE := eng.Strip(e).(*ssa.Extract); isE && ex.Index == 0 && ex.Tuple == v {
				ok = true
			}
		}
	}
	return ok
}

// ruleEpochTrimAtRecovery (part of R05.5, shared with C02): when a log is opened the epoch cache is trimmed to exactly the
// recovered log: entries starting at or beyond the next assignable offset go, the earliest entry moves to the oldest offset.
func ruleEpochTrimAtRecovery(c *eng.Ctx) {
	fn := c.Fn(cl + "New")
	if fn == nil {
		return
	}
	clr := eng.CallsIn(fn, cl+"leaderEpochCache.ClearLatest")
	cle := eng.CallsIn(fn, cl+"leaderEpochCache.ClearEarliest")
	if len(clr) != 1 || len(cle) != 1 {
		c.Unresolved("ClearLatest / ClearEarliest in commitlog.New")
		return
	}
	c.Check(eng.Call(-1, cl+"segment.NextOffset")(clr[0].Common().Args[1]), "epoch cache trimmed at the recovered log end", c.Pos(clr[0].(ssa.Instruction)), "ClearLatest(activeSegment().NextOffset())", "ClearLatest at open is not given the next assignable offset: an epoch that a newly elected leader recorded before writing its first message (start = next offset) is dropped on every reopen, or entries beyond the log survive")
	c.Check(eng.Call(-1, cl+"commitLog.OldestOffset")(cle[0].Common().Args[1]), "epoch cache trimmed at the recovered log start", c.Pos(cle[0].(ssa.Instruction)), "ClearEarliest(OldestOffset())", "ClearEarliest at open is not given the recovered oldest offset")
}

// ruleSegmentDelete (part of R05.7, shared with C09): segment.Delete removes the log before the index and can be repeated.
func ruleSegmentDelete(c *eng.Ctx) {
	p := c.P
	if fn := c.Fn(cl + "(*segment).Delete"); fn != nil {
		// recovery knows how to deal with an index that has no log (open() removes it); a log without its index is re-opened
		// as a segment whose messages are not indexed. So the log goes first.
		var rmLog, rmIdx []ssa.Instruction
		for _, r := range eng.CallsIn(fn, "os.Remove") {
			a := r.Common().Args[0]
			switch {
			case eng.Call(-1, cl+"index.Name")(a):
				rmIdx = append(rmIdx, r.(ssa.Instruction))
			case eng.Call(-1, "os.File.Name")(a):
				rmLog = append(rmLog, r.(ssa.Instruction))
			}
		}
		ok := len(rmLog) == 1 && len(rmIdx) == 1
		if ok {
			g, _ := eng.PrecededBy(fn, rmIdx[0], func(x ssa.Instruction) bool { return x == rmLog[0] })
			// allowed alternative: the log did not exist (exists(log) false) — then nothing needs to precede
			noLog := eng.BoolEdges(fn, eng.Call(-1, cl+"exists"), false)
			if !g {
				q := &eng.PathQuery{Fn: fn, FromEntry: true, Target: func(x ssa.Instruction) bool { return x == rmIdx[0] }, CutInstr: func(x ssa.Instruction) bool { return x == rmLog[0] }, CutEdges: noLog}
				g = q.Find() == nil
			}
			ok = g
		}
		// Delete is retried by the next clean when an earlier attempt failed half way: removing a file that is already gone must
		// not be an error
		okRep := true
		present := eng.BoolEdges(fn, eng.Call(-1, cl+"exists"), true)
		for _, r := range append(append([]ssa.Instruction{}, rmLog...), rmIdx...) {
			g, _ := eng.GuardedBy(fn, r, present)
			tolerant := len(eng.CallsIn(fn, "os.IsNotExist")) > 0
			if !(g && len(present) > 0) && !tolerant {
				okRep = false
			}
		}
		c.Check(okRep && len(rmLog)+len(rmIdx) >= 2, "deleting a segment twice is not an error", p.Pos(fn.Pos()), "each os.Remove is guarded by exists() (or tolerates IsNotExist)", "segment.Delete fails when one of its files is already gone: after a deletion that failed half way, every retry by the cleaner fails with ENOENT, retention for that log is stuck and the limits never hold again")
		c.Check(ok, "a segment's log file is removed before its index", p.Pos(fn.Pos()), "os.Remove(log) precedes os.Remove(index)", "segment.Delete can remove the index while the log file still exists: a crash in between leaves a log without index, which recovery re-opens as a segment whose stored messages are unreachable (an orphan index, by contrast, is cleaned up by open())")
	}
}

// ruleLogThenIndex (R05.1, shared with C01 and C16): index entries only after the log bytes; bookkeeping only after a successful write.
func ruleLogThenIndex(c *eng.Ctx) {
	p := c.P
	_ = p
	if fn := c.Fn(cl + "(*segment).WriteMessageSet"); fn != nil {
		wr := eng.CallsIn(fn, cl+"segment.write")
		ix := eng.CallsIn(fn, cl+"index.writeEntries")
		if len(wr) != 1 || len(ix) != 1 {
			c.Unresolved("s.write / Index.writeEntries in WriteMessageSet")
		} else {
			wv := wr[0].(*ssa.Call)
			okEdge := eng.CmpEdges(fn, func(v ssa.Value) bool { e, ok := v.(*ssa.Extract); return ok && e.Tuple == wv && e.Index == 1 }, eng.NilConst, eng.EQ)
			g, w := eng.GuardedBy(fn, ix[0].(ssa.Instruction), okEdge)
			c.Check(g && len(okEdge) > 0, "index entries written only after the log bytes", c.Pos(ix[0].(ssa.Instruction)), "writeEntries is reached only over err == nil of s.write", "index entries can be written before / without the log bytes (path "+w.String()+"): after a crash the index points at data that is not there")
			c.Check(wv.Call.Args[2] == ix[0].Common().Args[1], "same entries for log and index", c.Pos(ix[0].(ssa.Instruction)), "write(ms, entries) then writeEntries(entries)", "the entries indexed are not the entries of the bytes just written")
		}
	}
	if fn := c.Fn(cl + "(*segment).write"); fn != nil {
		// position/offset bookkeeping only after a successful write
		ww := eng.CallsIn(fn, "io.Writer.Write")
		if len(ww) == 1 {
			wv := ww[0].(*ssa.Call)
			okEdge := eng.CmpEdges(fn, func(v ssa.Value) bool { e, ok := v.(*ssa.Extract); return ok && e.Tuple == wv && e.Index == 1 }, eng.NilConst, eng.EQ)
			okEdge = append(okEdge, cellEdgesIdx(fn, wv, 1)...)
			for _, f := range []string{"position", "lastOffset"} {
				fo := p.Field(clPkg, "segment", f)
				for _, st := range eng.FieldStores(fn, func(fa *ssa.FieldAddr) bool { return fieldIs(fa, fo) }) {
					g, w := eng.GuardedBy(fn, st, okEdge)
					c.Check(g && len(okEdge) > 0, "segment."+f+" advanced only after a successful write", c.Pos(st), "behind err == nil of writer.Write", "segment."+f+" advances although the write failed (path "+w.String()+")")
				}
			}
		} else {
			c.Unresolved("writer.Write in segment.write")
		}
	}
	// the write position is the file size at open and advances only by bytes written
	posF := p.Field(clPkg, "segment", "position")
	for _, a := range eng.StoresToField(p, posF, false) {
		st := a.Use.(*ssa.Store)
		k := ir.FuncKey(a.Fn)
		switch k {
		case cl + "newSegment":
			ok := eng.Call(-1, "io/fs.FileInfo.Size", "os.FileInfo.Size")(st.Val)
			c.Check(ok, "segment.position at open = size of the log file", c.Pos(st), "position = Stat().Size()", "the write position of a recovered segment is "+eng.Describe(st.Val)+", not the size of the log file: after a crash between the log write and the index write, new index entries point at the wrong bytes")
		case cl + "(*segment).write":
			ok := eng.BinComm(token.ADD, eng.Load(posF, nil), eng.AnyV)(st.Val)
			c.Check(ok, "segment.position advances by the bytes written", c.Pos(st), "position += n", "segment.write sets the position to "+eng.Describe(st.Val))
		case cl + "(*segment).setupIndex":
			// recovery may cut a partial / un-indexed tail off the log: the position then is the size the file was truncated to
			ok := false
			for _, tr := range eng.CallsIn(a.Fn, "os.File.Truncate") {
				args := eng.AllArgs(tr.Common())
				if len(args) == 2 && (args[1] == st.Val || eng.Strip(args[1]) == eng.Strip(st.Val)) {
					if g, _ := eng.PrecededBy(a.Fn, st, func(x ssa.Instruction) bool { return x == tr.(ssa.Instruction) }); g {
						ok = true
					}
				}
			}
			if !ok {
				// once the log has been reconciled with the index (R05.8: position compared with the indexed end on every path to
				// this store, repaired where it was ahead), the indexed end IS the file size: storing it changes nothing
				isEnd := func(v ssa.Value) bool {
					v = eng.Strip(v)
					return eng.Call(-1, cl+"indexedEnd")(v) || eng.BinComm(token.ADD, eng.LoadNamed("Position", nil), eng.LoadNamed("Size", nil))(v)
				}
				if isEnd(st.Val) {
					cmp := eng.CmpEdges(a.Fn, eng.Load(posF, nil), isEnd, eng.LT|eng.EQ|eng.GT)
					if g, _ := eng.GuardedBy(a.Fn, st, cmp); g && len(cmp) > 0 {
						ok = true
					}
				}
			}
			c.Check(ok, "segment.position follows the size the log was truncated to at recovery", c.Pos(st), "log.Truncate(end); position = end", "setupIndex sets the write position to "+eng.Describe(st.Val)+" without truncating the log file to that size: the position no longer is the size of the file that O_APPEND writes to")
		default:
			c.Violate("store to segment.position in "+k, c.Pos(st), "the write position is set outside newSegment (file size) and write (+= n): recovery no longer takes the position from the file, so index entries written after a crash can point at the wrong bytes")
		}
	}
	c.Floor(6)
}

// ruleReplaceOrdering (R05.3, shared with C01): the ordering of segment.Replace.
func ruleReplaceOrdering(c *eng.Ctx) {
	p := c.P
	_ = p
	if fn := c.Fn(cl + "(*segment).Replace"); fn != nil {
		closes := eng.CallsIn(fn, cl+"segment.close")
		renames := eng.CallsIn(fn, "os.Rename")
		setup := eng.CallsIn(fn, cl+"segment.setupIndex")
		open := eng.CallsIn(fn, "os.OpenFile")
		if len(closes) != 2 || len(renames) != 2 || len(setup) != 1 || len(open) != 1 {
			c.Unresolved("two close(), two Rename, OpenFile and setupIndex in segment.Replace")
		} else {
			sort.Slice(renames, func(i, j int) bool { return renames[i].Pos() < renames[j].Pos() })
			for _, cc := range closes {
				cv := cc.(ssa.Value)
				okEdge := eng.CmpEdges(fn, eng.Same(cv), eng.NilConst, eng.EQ)
				g, w := eng.GuardedBy(fn, renames[0].(ssa.Instruction), okEdge)
				c.Check(g && len(okEdge) > 0, "segments closed before the first rename", c.Pos(cc.(ssa.Instruction)), "both close() calls succeeded before os.Rename", "a rename can happen while a segment is still open or after its close failed (path "+w.String()+")")
			}
			r0 := renames[0].(ssa.Value)
			ok0 := eng.CmpEdges(fn, eng.Same(r0), eng.NilConst, eng.EQ)
			g, w := eng.GuardedBy(fn, renames[1].(ssa.Instruction), ok0)
			c.Check(g && len(ok0) > 0, "index renamed only after the log rename succeeded", c.Pos(renames[1].(ssa.Instruction)), "second rename behind err == nil of the first", "the index can be renamed although the log rename failed (path "+w.String()+")")
			isLog := eng.Call(-1, cl+"segment.logPath")
			isIdx := eng.Call(-1, cl+"segment.indexPath")
			c.Check(isLog(renames[0].Common().Args[0]) && isLog(renames[0].Common().Args[1]) && isIdx(renames[1].Common().Args[0]) && isIdx(renames[1].Common().Args[1]), "log renamed first, then index", c.Pos(renames[0].(ssa.Instruction)), "Rename(log→log) then Rename(index→index)", "the two renames are not log-then-index between matching paths")
			r1 := renames[1].(ssa.Value)
			ok1 := eng.CmpEdges(fn, eng.Same(r1), eng.NilConst, eng.EQ)
			g2, w2 := eng.GuardedBy(fn, open[0].(ssa.Instruction), ok1)
			c.Check(g2 && len(ok1) > 0, "reopen only after both renames", c.Pos(open[0].(ssa.Instruction)), "OpenFile behind err == nil of the second rename", "the segment is reopened although a rename failed (path "+w2.String()+")")
			g3, _ := eng.PrecededBy(fn, setup[0].(ssa.Instruction), func(x ssa.Instruction) bool { return x == open[0].(ssa.Instruction) })
			c.Check(g3, "index re-derived after the reopen", c.Pos(setup[0].(ssa.Instruction)), "setupIndex follows OpenFile", "setupIndex does not follow the reopen")
		}
	}
	c.Floor(6)
}
