package rules

import (
	"go/constant"
	"strings"

	"golang.org/x/tools/go/ssa"

	"lbcheck/eng"
	"lbcheck/ir"
)

const viperPkg = "github.com/spf13/viper"

func constString(v ssa.Value) (string, bool) {
	c, ok := eng.Strip(v).(*ssa.Const)
	if !ok || c.Value == nil || c.Value.Kind() != constant.String {
		return "", false
	}
	return constant.StringVal(c.Value), true
}

// runConfigKeyAgreement: inside `if v.IsSet(K) { ... v.Get*(K') ... }` the keys agree.
func runConfigKeyAgreement(c *eng.Ctx, rule string) {
	c.Rule(rule, "K6")
	p := c.P
	n := 0
	for _, fn := range p.Funcs {
		if fn.Pkg == nil || ir.Short(fn.Pkg.Pkg.Path()) != "server" {
			continue
		}
		type isset struct {
			key   string
			edges []eng.Edge
		}
		var sets []isset
		var all []eng.Edge
		eng.Instrs(fn, func(in ssa.Instruction) {
			call, ok := in.(*ssa.Call)
			if !ok || eng.CalleeRef(&call.Call) != viperPkg+".Viper.IsSet" {
				return
			}
			k, ok := constString(call.Call.Args[1])
			if !ok {
				return
			}
			e := eng.BoolEdges(fn, eng.Same(call), true)
			sets = append(sets, isset{k, e})
			all = append(all, e...)
		})
		if len(sets) == 0 {
			continue
		}
		eng.Instrs(fn, func(in ssa.Instruction) {
			call, ok := in.(*ssa.Call)
			if !ok {
				return
			}
			ref := eng.CalleeRef(&call.Call)
			if !strings.HasPrefix(ref, viperPkg+".Viper.Get") || len(call.Call.Args) < 2 {
				return
			}
			k, ok := constString(call.Call.Args[1])
			if !ok {
				return
			}
			if g, _ := eng.GuardedBy(fn, in, all); !g {
				return // unconditional read
			}
			var same []eng.Edge
			var others []string
			for _, s := range sets {
				if s.key == k {
					same = append(same, s.edges...)
				} else if g, _ := eng.GuardedBy(fn, in, s.edges); g {
					others = append(others, s.key)
				}
			}
			g, _ := eng.GuardedBy(fn, in, same)
			n++
			c.Check(g, "read of config key "+k+" in "+ir.FuncKey(fn), c.Pos(in),
				"guarded by IsSet of the same key",
				"value for key \""+k+"\" is read under IsSet(\""+strings.Join(others, "\", \"")+"\"): the setting that was tested is not the one that is read")
		})
	}
	c.Floor(55)
}

// configWire is one configuration key and the Config field (by owner type and name) it is read into.
type configWire struct{ key, owner, field string }

// The repository's own wiring, read off server/config.go and frozen: the documented key on the left must end up in the
// field on the right, on the branch where the key is set. A key read into another field, read under the negated test, or
// not read at all leaves the setting at its default — for the switches below that means the feature the property is
// about is silently off (or on).
var configWires = map[string][]configWire{
	"C15": {
		{"tls.client.auth.enabled", "Config", "TLSClientAuth"}, {"tls.client.auth.ca", "Config", "TLSClientAuthCA"},
		{"tls.client.authz.enabled", "Config", "TLSClientAuthz"}, {"tls.client.authz.model", "Config", "TLSClientAuthzModel"}, {"tls.client.authz.policy", "Config", "TLSClientAuthzPolicy"},
	},
	"C19": {{"telemetry.enabled", "TelemetryConfig", "Enabled"}, {"telemetry.interval.seconds", "TelemetryConfig", "IntervalSeconds"}},
	"C18": {{"activity.stream.enabled", "ActivityStreamConfig", "Enabled"}, {"activity.stream.publish.timeout", "ActivityStreamConfig", "PublishTimeout"}},
	"C16": {{"streams.concurrency.control", "StreamsConfig", "ConcurrencyControl"}},
	"C17": {{"streams.encryption", "StreamsConfig", "Encryption"}},
	"C09": {
		{"streams.retention.max.bytes", "StreamsConfig", "RetentionMaxBytes"}, {"streams.retention.max.messages", "StreamsConfig", "RetentionMaxMessages"},
		{"streams.retention.max.age", "StreamsConfig", "RetentionMaxAge"}, {"streams.cleaner.interval", "StreamsConfig", "CleanerInterval"},
		{"streams.segment.max.bytes", "StreamsConfig", "SegmentMaxBytes"}, {"streams.segment.max.age", "StreamsConfig", "SegmentMaxAge"},
	},
	"C08": {{"streams.compact.enabled", "StreamsConfig", "Compact"}, {"streams.compact.max.goroutines", "StreamsConfig", "CompactMaxGoroutines"}},
	"C04": {{"clustering.min.insync.replicas", "ClusteringConfig", "MinISR"}, {"clustering.replication.max.bytes", "ClusteringConfig", "ReplicationMaxBytes"}},
	"C02": {{"clustering.replica.max.lag.time", "ClusteringConfig", "ReplicaMaxLagTime"}},
	"C11": {{"cursors.stream.partitions", "CursorsStreamConfig", "Partitions"}, {"cursors.stream.replication.factor", "CursorsStreamConfig", "ReplicationFactor"}},
	"C12": {{"groups.consumer.timeout", "GroupsConfig", "ConsumerTimeout"}, {"groups.coordinator.timeout", "GroupsConfig", "CoordinatorTimeout"}},
}

// ruleConfigWiring: for each wire of the property, some function of package server reads the key with a viper getter on the
// true edge of IsSet(<same key>) and stores the value (conversions allowed) into the named field.
func ruleConfigWiring(c *eng.Ctx, rule string) {
	c.Rule(rule, "K6")
	p := c.P
	for _, w := range configWires[c.Prop] {
		ok, where, why := false, "", "no viper getter reads the key"
		for _, fn := range p.Funcs {
			if fn.Pkg == nil || ir.Short(fn.Pkg.Pkg.Path()) != "server" {
				continue
			}
			var set []eng.Edge
			eng.Instrs(fn, func(in ssa.Instruction) {
				if call, isCall := in.(*ssa.Call); isCall && eng.CalleeRef(&call.Call) == viperPkg+".Viper.IsSet" {
					if k, isK := constString(call.Call.Args[1]); isK && k == w.key {
						set = append(set, eng.BoolEdges(fn, eng.Same(call), true)...)
					}
				}
			})
			eng.Instrs(fn, func(in ssa.Instruction) {
				call, isCall := in.(*ssa.Call)
				if !isCall || ok || !strings.HasPrefix(eng.CalleeRef(&call.Call), viperPkg+".Viper.Get") || len(call.Call.Args) < 2 {
					return
				}
				if k, isK := constString(call.Call.Args[1]); !isK || k != w.key {
					return
				}
				where = c.Pos(call)
				// follow the value through conversions to a field store
				var stored []*ssa.Store
				var walk func(v ssa.Value, depth int)
				walk = func(v ssa.Value, depth int) {
					if depth > 3 || v.Referrers() == nil {
						return
					}
					for _, r := range *v.Referrers() {
						switch x := r.(type) {
						case *ssa.Store:
							if x.Val == v {
								stored = append(stored, x)
							}
						case *ssa.Convert:
							walk(x, depth+1)
						case *ssa.ChangeType:
							walk(x, depth+1)
						case *ssa.BinOp:
							walk(x, depth+1)
						}
					}
				}
				walk(call, 0)
				why = "the value read for the key is not stored into " + w.owner + "." + w.field
				for _, st := range stored {
					fa, isFA := st.Addr.(*ssa.FieldAddr)
					if !isFA || eng.FieldNameOf(fa) != w.field || ownerName(fa) != w.owner {
						continue
					}
					if g, _ := eng.GuardedBy(fn, st, set); g && len(set) > 0 {
						ok = true
					} else {
						why = "the store into " + w.owner + "." + w.field + " is not on the branch where the key is set"
					}
				}
			})
		}
		c.Check(ok, "configuration key "+w.key+" reaches "+w.owner+"."+w.field, where, "read under IsSet(key) and stored into the field", why+": the documented setting `"+w.key+"` has no effect and the server runs with the default")
	}
}
