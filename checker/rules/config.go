package rules

import (
	"go/constant"
	"strings"

	"golang.org/x/tools/go/ssa"

	"lbcheck/eng"
	"lbcheck/ir"
)

const viperPkg = "github.com/spf13/viper"

func constString(v ssa.Value) (string, bool) {
	c, ok := eng.Strip(v).(*ssa.Const)
	if !ok || c.Value == nil || c.Value.Kind() != constant.String {
		return "", false
	}
	return constant.StringVal(c.Value), true
}

// runConfigKeyAgreement: inside `if v.IsSet(K) { ... v.Get*(K') ... }` the keys agree.
func runConfigKeyAgreement(c *eng.Ctx, rule string) {
	c.Rule(rule, "K6")
	p := c.P
	n := 0
	for _, fn := range p.Funcs {
		if fn.Pkg == nil || ir.Short(fn.Pkg.Pkg.Path()) != "server" {
			continue
		}
		type isset struct {
			key   string
			edges []eng.Edge
		}
		var sets []isset
		var all []eng.Edge
		eng.Instrs(fn, func(in ssa.Instruction) {
			call, ok := in.(*ssa.Call)
			if !ok || eng.CalleeRef(&call.Call) != viperPkg+".Viper.IsSet" {
				return
			}
			k, ok := constString(call.Call.Args[1])
			if !ok {
				return
			}
			e := eng.BoolEdges(fn, eng.Same(call), true)
			sets = append(sets, isset{k, e})
			all = append(all, e...)
		})
		if len(sets) == 0 {
			continue
		}
		eng.Instrs(fn, func(in ssa.Instruction) {
			call, ok := in.(*ssa.Call)
			if !ok {
				return
			}
			ref := eng.CalleeRef(&call.Call)
			if !strings.HasPrefix(ref, viperPkg+".Viper.Get") || len(call.Call.Args) < 2 {
				return
			}
			k, ok := constString(call.Call.Args[1])
			if !ok {
				return
			}
			if g, _ := eng.GuardedBy(fn, in, all); !g {
				return // unconditional read
			}
			var same []eng.Edge
			var others []string
			for _, s := range sets {
				if s.key == k {
					same = append(same, s.edges...)
				} else if g, _ := eng.GuardedBy(fn, in, s.edges); g {
					others = append(others, s.key)
				}
			}
			g, _ := eng.GuardedBy(fn, in, same)
			n++
			c.Check(g, "read of config key "+k+" in "+ir.FuncKey(fn), c.Pos(in),
				"guarded by IsSet of the same key",
				"value for key \""+k+"\" is read under IsSet(\""+strings.Join(others, "\", \"")+"\"): the setting that was tested is not the one that is read")
		})
	}
	c.Floor(55)
}
