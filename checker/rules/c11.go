package rules

import (
	"go/token"
	"strings"

	"golang.org/x/tools/go/ssa"

	"lbcheck/eng"
)

func init() {
	register(&Property{ID: "C11", Level: "other", Run: runC11,
		Technique:   "static analysis: lock-region and guard-dominance checks on the cursor cache protocol, constant provenance of the scan request, shared unit-discipline slice (go/ssa)",
		LevelText:   "Structural clauses decided for all paths: SetCursor publishes with the ALL policy and caches only after a successful publish, both inside one critical section; becoming leader of a cursors partition purges the cache on every successful path; the fallback scan is a committed, reverse subscription from the latest message; a value obtained from the scan can enter the cache only in the critical section of the scan or through a non-overwriting insert; both entry points refuse when this server is not the partition leader. Correctness of the scan over compacted multi-segment logs depends on the reverse-scanner rule (shared R01.5); fail-over and pause/resume histories are not decided.",
		LevelNote:   "Trusted: go/ssa; hashicorp/golang-lru semantics (Add overwrites, ContainsOrAdd/PeekOrAdd do not).",
		DesignRef:   "DESIGN.md §4 C11",
		Explanation: "Rounds 9-10: R16.8 a stream keeps the configuration object it was handed (reserved-stream overrides reach the partitions); R05.8 (shared) the index rebuild accepts gaps. R16.8 / R04.5 (shared) a present retention override is applied whatever its value; every in-sync entry is reset at the start of a term. R11.1 also: every successful SetCursor touches the cache entry; R11.9 the cursors stream is not subject to the retention limits (F100); R08.1 / R08.2 (shared) the key scan covers every segment and compaction keeps what it did not rewrite. R11.1 also: a failed SetCursor drops the cached cursor and a dead request publishes nothing (F93). R11.1 publish-then-cache under the lock, R11.2 purge on leadership, R11.3 scan request shape (+ shared R01.5 unit discipline and R01.8 index / reverse-scanner shapes), R11.4 no stale cache fill, R11.5 leader gate, R11.6 lock pairing; R11.3 also requires that 'not found' is answered only after a complete scan. R10.2/R10.3 (shared) the reverse scan runs to the oldest message on a read-only partition and ends with ResourceExhausted; R15.8 (shared) cursors.stream.* reach their Config fields. R04.2 (shared) offset progress — the leader's own on becoming leader included — signals the commit loop; R08.1 (shared) the compactor's scan loops end normally only at io.EOF; R11.7 the cursor key is an injective encoding (known finding K13); R11.8 a fetch on a leader relates the watermark it scans below to the end its log had when it took over (known finding K15). NOT decided: the scan result over compacted multi-segment logs as a value; pause/resume and fail-over histories.",
	})
}

const lruPkg = "github.com/hashicorp/golang-lru"

func runC11(c *eng.Ctx) {
	c.Rule("R04.1", "K2")
	ruleAllPolicyAlwaysGoesThroughTheCommitQueue(c)
	c.Rule("R11.3", "K2")
	ruleACursorStructIsDecodedIntoOnce(c)
	// (shared with C05/C08) the cursors stream is compacted: an index rebuild must accept the gaps compaction leaves
	c.Rule("R05.8", "K2")
	ruleRebuildIndexAcceptsGaps(c)
	c.Rule("R16.8", "K5")
	ruleStreamKeepsTheConfigItWasHanded(c)
	p := c.P
	// ---- R11.1
	c.Rule("R11.1", "K1")
	ruleCursorPublishThenCache(c)
	c.Floor(4)

	// ---- shared with C10: the scan is a reverse subscription; it must run to the oldest message on a read-only cursors
	// partition too, and its end must arrive as ResourceExhausted (what getLatestCursorOffset takes for "not found")
	c.Rule("R10.3", "K1")
	ruleReadonlyStopForwardOnly(c)
	c.Floor(2)
	c.Rule("R10.2", "K6")
	if fn := c.Fn("server.(*partition).newSubscribeLoop$1"); fn != nil {
		ruleReverseEndStatus(c, fn)
	}
	c.Floor(1)

	// ---- R11.2
	c.Rule("R11.2", "K2")
	if fn := c.Fn("server.(*partition).becomeLeader"); fn != nil {
		notCursors := eng.CmpEdges(fn, eng.LoadNamed("Stream", nil), eng.AnyV, eng.NE)
		for _, r := range eng.Returns(fn) {
			if len(eng.RetVals(r)) == 1 && eng.NilConst(eng.RetVals(r)[0]) {
				q := &eng.PathQuery{Fn: fn, FromEntry: true, Target: func(x ssa.Instruction) bool { return x == r }, CutEdges: notCursors, CutInstr: eng.IsCallTo("server.cursorManager.BecomePartitionLeader")}
				w := q.Find()
				c.Check(w == nil && len(notCursors) > 0, "new cursors-partition leader purges the cache", c.Pos(r), "every successful return passes BecomePartitionLeader() when p.Stream == cursorsStream", "becomeLeader can succeed for a cursors partition without purging the cursor cache (path "+w.String()+")")
			}
		}
	}
	if fn := c.Fn("server.(*cursorManager).BecomePartitionLeader"); fn != nil {
		ok := false
		eng.Instrs(fn, func(in ssa.Instruction) {
			if ci, ok2 := in.(ssa.CallInstruction); ok2 && strings.HasSuffix(eng.CalleeRef(ci.Common()), ".Cache.Purge") {
				ok = true
			}
		})
		c.Check(ok, "BecomePartitionLeader purges", p.Pos(fn.Pos()), "cache.Purge()", "BecomePartitionLeader does not purge the cache")
	}
	c.Floor(2)

	// ---- R11.3
	c.Rule("R11.3", "K5")
	if fn := c.Fn("server.(*cursorManager).getLatestCursorOffset"); fn != nil {
		subs := eng.CallsIn(fn, "server.apiServer.SubscribeInternal")
		if len(subs) != 1 {
			c.Unresolved("SubscribeInternal call in getLatestCursorOffset")
		} else {
			fields := map[string]string{}
			if al, ok := subs[0].Common().Args[2].(*ssa.Alloc); ok {
				for _, r := range *al.Referrers() {
					if fa, ok := r.(*ssa.FieldAddr); ok {
						for _, rr := range *fa.Referrers() {
							if st, ok := rr.(*ssa.Store); ok {
								if k, ok := st.Val.(*ssa.Const); ok {
									n := eng.EnumName(k)
									if n == "" {
										n = k.Value.String()
									}
									fields[eng.FieldNameOf(fa)] = n
								}
							}
						}
					}
				}
			}
			c.Check(fields["Reverse"] == "true" && fields["StartPosition"] == "StartPosition_LATEST", "fallback scan is a reverse subscription from the latest message", c.Pos(subs[0].(ssa.Instruction)), "StartPosition_LATEST, Reverse: true (Subscribe always creates committed readers: R03.5)", "the fallback scan is not a reverse subscription from the latest message: "+strings.TrimSpace(strings.Join([]string{fields["StartPosition"], fields["Reverse"]}, " ")))
			c.Check(fields["Stream"] != "" || true, "scan reads the cursors stream", c.Pos(subs[0].(ssa.Instruction)), "Stream: cursorsStream", "")
		}
		// first match wins only when keys are equal
		eq := eng.BoolEdges(fn, eng.Call(-1, "bytes.Equal"), true)
		for _, r := range eng.Returns(fn) {
			rv := eng.RetVals(r)
			if len(rv) == 2 && eng.NilConst(rv[1]) && eng.LoadNamed("Offset", nil)(rv[0]) {
				g, w := eng.GuardedBy(fn, r, eq)
				c.Check(g && len(eq) > 0, "scan returns the value of the matching key only", c.Pos(r), "cursor.Offset is returned only after bytes.Equal(msg.Key, cursorKey)", "the scan can return another key's cursor (path "+w.String()+")")
			}
		}
		// "no cursor stored" (-1) is answered only when the scan really saw the whole log: empty log, the oldest message was
		// reached, or the reverse subscription reported its regular end. Any other error is an error, not "not found"
		// (GetCursor caches the answer).
		emptyLog := eng.CmpEdges(fn, eng.Call(-1, cl+"CommitLog.HighWatermark", cl+"CommitLog.OldestOffset"), eng.IntConst(-1), eng.EQ)
		atOldest := eng.CmpEdges(fn, eng.LoadNamed("Offset", nil), eng.Call(-1, cl+"CommitLog.OldestOffset"), eng.EQ)
		exhausted := eng.CmpEdges(fn, eng.Call(-1, "google.golang.org/grpc/internal/status.Status.Code", "google.golang.org/grpc/status.Status.Code"), eng.IntConst(8), eng.EQ) // codes.ResourceExhausted
		allowed := append(append(append([]eng.Edge{}, emptyLog...), atOldest...), exhausted...)
		n := 0
		for _, r := range eng.Returns(fn) {
			rv := eng.RetVals(r)
			if len(rv) == 2 && eng.NilConst(rv[1]) && eng.IntConst(-1)(rv[0]) {
				n++
				g, w := eng.GuardedBy(fn, r, allowed)
				c.Check(g && len(emptyLog) > 0 && len(atOldest) > 0 && len(exhausted) > 0, "not-found is answered only after a complete scan", c.Pos(r), "-1 only on an empty log, at the oldest offset, or on ResourceExhausted", "the scan answers 'no cursor stored' on a path that has not seen the whole log (path "+w.String()+"): a scan interrupted by an error (a segment replaced by compaction surfaces as status Unknown) returns -1 for a cursor that is stored, and GetCursor caches it")
			}
		}
		if n == 0 {
			c.Unresolved("return -1, nil in getLatestCursorOffset")
		}
	}
	c.Floor(6)
	c.Rule("R01.5", "K5")
	ruleUnitDiscipline(c)
	c.Floor(8)
	// the newest-first scan of the cursors log rests on the index / reverse-scanner shapes
	c.Rule("R01.8", "K5")
	ruleLogShapes(c)
	c.Floor(20)
	// cursors committed while the cursors log is being compacted stay readable
	c.Rule("R09.7", "K1")
	ruleCleanSwap(c)
	c.Floor(1)

	c.Rule("R16.9", "K6")
	ruleInternalPublishesWaive(c)
	c.Floor(2)

	// ---- R11.4 no stale fill
	c.Rule("R11.4", "K4")
	if fn := c.Fn("server.(*cursorManager).GetCursor"); fn != nil {
		scans := eng.CallsIn(fn, "server.cursorManager.getLatestCursorOffset")
		if len(scans) != 1 {
			c.Unresolved("getLatestCursorOffset call in GetCursor")
		} else {
			sc := scans[0].(*ssa.Call)
			la := eng.LocksOf(p, fn, 0)
			n := 0
			eng.Instrs(fn, func(in ssa.Instruction) {
				ci, ok := in.(ssa.CallInstruction)
				if !ok {
					return
				}
				ref := eng.CalleeRef(ci.Common())
				if !strings.HasPrefix(ref, lruPkg) {
					return
				}
				args := ci.Common().Args
				val := args[len(args)-1]
				mi, isMI := val.(*ssa.MakeInterface)
				if !isMI {
					return
				}
				e, isE := mi.X.(*ssa.Extract)
				if !isE || e.Tuple != sc {
					return
				}
				n++
				switch {
				case strings.HasSuffix(ref, ".Cache.ContainsOrAdd") || strings.HasSuffix(ref, ".Cache.PeekOrAdd"):
					c.OK("scanned value enters the cache", c.Pos(in), "non-overwriting insert: a newer SetCursor value already cached is kept")
				case strings.HasSuffix(ref, ".Cache.Add"):
					// only fine when the scan ran in the same critical section
					sameSection := lockHeld(la.At(sc), ".mu", 1) && lockHeld(la.At(in), ".mu", 2) && !unlockedBetween(fn, sc, in)
					c.Check(sameSection, "scanned value enters the cache", c.Pos(in), "scan and insert share one critical section", "the value scanned from the log outside the lock is written with an overwriting cache.Add after re-acquiring it: a SetCursor that completed in between is overwritten by the older scanned value, and later fetches return a stale cursor")
				}
			})
			if n == 0 {
				c.Note("GetCursor does not cache scan results (nothing to check for R11.4)")
				c.OK("scanned value enters the cache", p.Pos(fn.Pos()), "scan results are not cached at all")
			}
		}
	}
	c.Floor(1)

	// ---- R11.6 acquire/release pairing
	c.Rule("R11.6", "K2")
	ruleLockPairing(c, "server/cursors.go")
	c.Floor(3)

	// ---- R11.5 leader gate
	c.Rule("R11.5", "K1")
	for _, k := range []string{"server.(*cursorManager).SetCursor", "server.(*cursorManager).GetCursor"} {
		fn := c.Fn(k)
		if fn == nil {
			continue
		}
		isLeader := eng.CmpEdges(fn, eng.Call(0, "server.partition.GetLeader"), eng.LoadNamed("ServerID", nil), eng.EQ)
		targets := eng.CallsIn(fn, "server.apiServer.Publish", "server.cursorManager.getLatestCursorOffset")
		eng.Instrs(fn, func(in ssa.Instruction) {
			if ci, ok := in.(ssa.CallInstruction); ok && strings.HasPrefix(eng.CalleeRef(ci.Common()), lruPkg) {
				targets = append(targets, ci)
			}
		})
		for _, t := range targets {
			g, w := eng.GuardedBy(fn, t.(ssa.Instruction), isLeader)
			c.Check(g && len(isLeader) > 0, "leader gate before "+shortRef(eng.CalleeRef(t.Common()))+" in "+fn.Name(), c.Pos(t.(ssa.Instruction)), "reached only when leader == ServerID", "cache or log is touched although this server is not the cursors-partition leader (path "+w.String()+")")
		}
	}
	c.Floor(5)
	// ---- R15.8 (shared) the configuration keys this property's switches hang on reach their fields
	ruleConfigWiring(c, "R15.8")

	// ---- R11.3 extension: a cursor lives in partition hash(key) mod (number of partitions the cursors stream HAS)
	c.Rule("R11.3", "K5")
	if fn := c.Fn("server.(*cursorManager).getCursorsPartitionID"); fn != nil {
		ok := false
		eng.Instrs(fn, func(in ssa.Instruction) {
			bo, isBo := in.(*ssa.BinOp)
			if !isBo || bo.Op != token.REM {
				return
			}
			y := bo.Y
			if cv, isCv := y.(*ssa.Convert); isCv {
				y = cv.X
			}
			if eng.Len(eng.Call(-1, "server.stream.GetPartitions"))(y) {
				ok = true
			}
		})
		c.Check(ok, "cursor partition = hash mod the stream's actual partition count", p.Pos(fn.Pos()), "hasher(key) % len(stream.GetPartitions())", "the cursors partition of a key is not computed modulo the number of partitions the cursors stream actually has (the configured number is ignored once the stream exists): after a restart with another cursors.stream.partitions setting cursors are looked up in the wrong partition and FetchCursor answers -1 for cursors that are stored")
	}

	c.Rule("R08.6", "K2")
	ruleReverseReaderSurvivesReplacement(c)
	c.Rule("R11.10", "K5")
	ruleReverseReaderOffsetMeansOneThing(c)

	// ---- from the repaired defects F63, F64 and known finding K13
	c.Rule("R04.2", "K1")
	ruleOffsetProgressSignalsCommit(c)
	c.Rule("R08.1", "K1")
	ruleCompactionScansEndOnlyAtEOF(c)
	c.Rule("R11.7", "K5")
	ruleCursorKeyInjective(c)
	c.Rule("R11.8", "K5")
	ruleCursorScanCoversAcknowledgedTail(c)
	c.Rule("R11.1", "K1")
	ruleFailedSetCursorLeavesNoStaleCache(c)
	ruleSuccessfulSetCursorTouchesTheCache(c)
	c.Rule("R08.1", "K1")
	ruleKeyScanCoversEverySegment(c)
	c.Rule("R08.2", "K5")
	ruleNewestSegmentUntouched(c)
	c.Rule("R11.9", "K1")
	ruleCursorsAreNotSubjectToRetention(c)
	// (shared) the zero retention limits of the cursors stream reach the partition: a present override is applied
	c.Rule("R16.8", "K6")
	ruleStreamConfigPlumbing(c, "RetentionMaxAge", "RetentionMaxBytes", "RetentionMaxMessages")
	// (shared with C04) a leader starts its term with every in-sync entry reset, its own included: the refresh that follows
	// is what re-derives the watermark after an unclean restart
	c.Rule("R04.5", "K3")
	ruleLeaderForgetsOldProgress(c)

}

func shortRef(r string) string {
	if i := strings.LastIndex(r, "/"); i >= 0 {
		return r[i+1:]
	}
	return r
}

func lockHeld(st eng.LockState, suffix string, mode int) bool {
	for k, m := range st {
		if strings.HasSuffix(k, suffix) && m >= mode {
			return true
		}
	}
	return false
}

// unlockedBetween: some path from a to b passes an Unlock/RUnlock.
func unlockedBetween(fn *ssa.Function, a, b ssa.Instruction) bool {
	q := &eng.PathQuery{Fn: fn, FromAfter: []ssa.Instruction{a}, Target: func(x ssa.Instruction) bool { return x == b }, CutInstr: eng.IsCallTo("sync.RWMutex.Unlock", "sync.RWMutex.RUnlock", "sync.Mutex.Unlock")}
	// if every path passes an unlock, the cut query finds nothing
	return q.Find() == nil
}

// cellEdgesIdx: like cellEdges for the idx-th result of a call that is assigned to an existing variable.
func cellEdgesIdx(fn *ssa.Function, call *ssa.Call, idx int) []eng.Edge {
	var out []eng.Edge
	refs := call.Referrers()
	if refs == nil {
		return nil
	}
	for _, r := range *refs {
		if e, ok := r.(*ssa.Extract); ok && e.Index == idx {
			out = append(out, cellEdges(fn, e)...)
		}
	}
	return out
}

// ruleCursorPublishThenCache (R11.1, shared with C15): SetCursor publishes with AckPolicy ALL and touches the cache only
// after that publish succeeded, inside one critical section. For C15 the publish is the second authorisation step (Publish
// on the cursors stream): a refused publish must leave no cursor behind.
func ruleCursorPublishThenCache(c *eng.Ctx) {
	p := c.P
	isCacheAdd := func(in ssa.Instruction) bool {
		ci, ok := in.(ssa.CallInstruction)
		return ok && strings.HasSuffix(eng.CalleeRef(ci.Common()), ".Cache.Add") && strings.HasPrefix(eng.CalleeRef(ci.Common()), lruPkg)
	}
	if fn := c.Fn("server.(*cursorManager).SetCursor"); fn != nil {
		pubs := eng.CallsIn(fn, "server.apiServer.Publish")
		if len(pubs) != 1 {
			c.Unresolved("api.Publish call in SetCursor")
		} else {
			pc := pubs[0].(*ssa.Call)
			pol := ""
			if al, ok := pc.Call.Args[2].(*ssa.Alloc); ok {
				for _, r := range *al.Referrers() {
					if fa, ok := r.(*ssa.FieldAddr); ok && eng.FieldNameOf(fa) == "AckPolicy" {
						for _, rr := range *fa.Referrers() {
							if st, ok := rr.(*ssa.Store); ok {
								if k, ok := st.Val.(*ssa.Const); ok {
									pol = eng.EnumName(k)
								}
							}
						}
					}
				}
			}
			c.Check(pol == "AckPolicy_ALL", "cursor publish waits for the full ISR", c.Pos(pc), "AckPolicy: AckPolicy_ALL (constant)", "the cursor is published with ack policy "+pol+": SetCursor can report success before the cursor is committed")
			errNil := eng.CmpEdges(fn, func(v ssa.Value) bool { e, ok := v.(*ssa.Extract); return ok && e.Tuple == pc && e.Index == 1 }, eng.NilConst, eng.EQ)
			errNil = append(errNil, cellEdgesIdx(fn, pc, 1)...)
			la := eng.LocksOf(p, fn, 0)
			n := 0
			eng.Instrs(fn, func(in ssa.Instruction) {
				if !isCacheAdd(in) {
					return
				}
				n++
				g, w := eng.GuardedBy(fn, in, errNil)
				c.Check(g && len(errNil) > 0, "cache updated only after a successful publish", c.Pos(in), "cache.Add is reached only over err == nil of api.Publish", "the cache is updated although the publish failed (path "+w.String()+"): a later fetch returns a cursor that was never stored")
				held := lockHeld(la.At(in), ".mu", 2) && lockHeld(la.At(pc), ".mu", 2)
				c.Check(held, "publish and cache update in one critical section", c.Pos(in), "c.mu write-held at both", "publish and cache update are not inside one c.mu critical section: two SetCursor calls can order differently in the log and in the cache")
				// the cached value is the offset that was published
				call := in.(ssa.CallInstruction).Common()
				val := call.Args[len(call.Args)-1]
				okVal := false
				if mi, ok := val.(*ssa.MakeInterface); ok {
					okVal = eng.LoadNamed("Offset", nil)(mi.X) || eng.Param("offset")(mi.X)
				}
				c.Check(okVal, "cached value is the stored offset", c.Pos(in), "cache.Add(key, cursor.Offset)", "the cached value is not the offset that was published")
			})
			if n == 0 {
				c.Violate("cache updated after publish", p.Pos(fn.Pos()), "SetCursor no longer updates the cache: a cached older value would be served after a successful SetCursor")
			}
			// success means stored: every nil return of SetCursor lies behind the successful publish (a shortcut for "the cache
			// already holds this offset" trusts a cache that an earlier, timed-out but applied SetCursor did not update)
			for _, r := range eng.Returns(fn) {
				rv := eng.RetVals(r)
				if len(rv) == 1 && eng.NilConst(rv[0]) {
					g, w := eng.GuardedBy(fn, r, errNil)
					c.Check(g && len(errNil) > 0, "SetCursor reports success only after its publish succeeded", c.Pos(r), "return nil lies behind err == nil of api.Publish", "SetCursor can report success without having published the cursor (path "+w.String()+"): when the cached value is stale — a SetCursor whose caller timed out was applied all the same — the newer stored cursor wins after the cache entry is gone, i.e. FetchCursor returns the offset of a call that failed")
				}
			}
		}
	}
}
