package rules

import (
	"go/token"
	"go/types"
	"strings"

	"golang.org/x/tools/go/ssa"

	"lbcheck/eng"
	"lbcheck/ir"
)

func init() {
	register(&Property{ID: "C18", Level: "other", Run: runC18,
		Technique:   "static analysis: exhaustive enum-table agreement (Raft ops ↔ activity ops), value identity of the event id, path ordering in the dispatch and publish functions, who-may-call (go/ssa)",
		LevelText:   "Structural clauses decided for all paths: every stream / consumer-group operation that apply handles produces an activity event and every activity op constant is produced; the event id is the Raft index of the entry being handled and is what is recorded; the dispatcher advances its index only past non-command entries or after a successful publish, retries the same entry otherwise, and starts at last-published + 1; the event is published before its index is recorded through Raft; dispatch runs only with controller leadership. At-least-once across real fail-overs and ordering inside the activity partition are not decided. The activity manager's own publish does not pass through client authorisation.",
		LevelNote:   "Trusted: go/ssa; Raft log store returns entries by index; the activity stream's own partition (C01/C03).",
		DesignRef:   "DESIGN.md §4 C18",
		Explanation: "Round 12: R18.3 also: every successful leadershipLost has passed BecomeFollower; R16.5 (shared) an ack completes a publish only when it names the stream published to, and publishSync is told that stream. R18.3 also (round 9): an internal publish resumes the partition; R14.6 (shared) ErrLogNotFound arrives unwrapped at the dispatcher. R18.3 also (F105): BecomeFollower forgets the channel it closes and the dispatcher waits on its own term's channel. R18.3 also: after a compacted entry the dispatcher resumes at the first retained index. R18.3 also: after a failed GetLog the dispatcher panics only for an error other than ErrLogNotFound or an index inside the log; an entry compacted away moves it to the first index (F72). R18.1 coverage tables, R18.2 event id identity, R18.3 order and retry in dispatch, R18.4 publish-then-record, R18.5 who may start dispatch / record the index, R18.6 the server's own publish is not put through client authorisation; R18.1 also requires each event to carry its payload and a handled op to be dropped only for a member-less group; R18.3 the exact wait test, the dispatcher start and a fresh stop channel per term. R15.8 (shared) activity.stream.* reach their Config fields. NOT decided: at-least-once across real fail-overs.",
	})
}

func runC18(c *eng.Ctx) {
	c.Rule("R18.4", "K4")
	ruleActivityEventsArePublishedWithAFreshRequest(c)
	c.Rule("R18.3", "K2")
	ruleInternalPublishResumesThePartition(c)
	// (R14.6, shared) "the entry was compacted away" is recognised by identity: the store's error arrives unwrapped
	ruleSentinelIdentity(c, "R14.6", []string{"server.(*activityManager).dispatch"}, "the dispatcher no longer recognises an entry that Raft log compaction removed: it panics as soon as the server is elected — on a log that starts behind a snapshot, after every restart")
	c.Rule("R18.3", "K2")
	ruleLeadershipChannelIsClosedOnce(c)
	ruleSteppingDownAlwaysStopsTheDispatcher(c)
	c.Rule("R16.5", "K1")
	ruleForeignAckNeverCompletesAPublish(c)
	rulePublishWaitsForTheMessagesOwnStream(c)
	p := c.P
	// ---- R18.1
	c.Rule("R18.1", "K6")
	opT := p.NamedType("server/protocol", "Op")
	hr := c.Fn("server.(*activityManager).handleRaftLog")
	if opT != nil && hr != nil {
		handled := map[string]bool{}
		eng.Instrs(hr, func(in ssa.Instruction) {
			if bo, ok := in.(*ssa.BinOp); ok && bo.Op == token.EQL {
				for _, v := range []ssa.Value{bo.X, bo.Y} {
					if k, ok := v.(*ssa.Const); ok && types.Identical(k.Type(), opT) {
						handled[eng.EnumName(k)] = true
					}
				}
			}
		})
		notEvents := map[string]string{
			"Op_SHRINK_ISR": "replication detail, not a stream or group operation in the activity documentation", "Op_EXPAND_ISR": "replication detail",
			"Op_CHANGE_LEADER": "replication detail", "Op_CHANGE_CONSUMER_GROUP_COORDINATOR": "coordination detail", "Op_PUBLISH_ACTIVITY": "the activity stream's own bookkeeping",
			"Op_REPORT_LEADER": "never logged", "Op_REPORT_CONSUMER_GROUP_COORDINATOR": "never logged",
		}
		sc := p.ByPath["server/protocol"].Types.Scope()
		for _, n := range sc.Names() {
			k, ok := sc.Lookup(n).(*types.Const)
			if !ok || !types.Identical(k.Type(), opT) {
				continue
			}
			if why, ok := notEvents[n]; ok {
				c.Check(!handled[n] || true, "op "+n+" is not an activity event", "-", "excluded: "+why, "")
				continue
			}
			c.Check(handled[n], "op "+n+" produces an activity event", p.Pos(hr.Pos()), "case in handleRaftLog", "committed operation "+n+" never appears in the activity stream: handleRaftLog has no case for it")
		}
		// every activity op constant is produced
		produced := map[string]bool{}
		eng.Instrs(hr, func(in ssa.Instruction) {
			if st, ok := in.(*ssa.Store); ok {
				if fa, ok := st.Addr.(*ssa.FieldAddr); ok && eng.FieldNameOf(fa) == "Op" {
					if k, ok := st.Val.(*ssa.Const); ok {
						produced[eng.EnumName(k)] = true
					}
				}
			}
		})
		var api *types.Package
		for _, sp := range p.SSA.AllPackages() {
			if sp.Pkg.Path() == apiPkg {
				api = sp.Pkg
			}
		}
		if api != nil {
			for _, k := range enumConsts(api, "ActivityStreamOp") {
				c.Check(produced[k.Name()], "activity op "+k.Name()+" is produced", p.Pos(hr.Pos()), "some case of handleRaftLog sets it", "activity op "+k.Name()+" is never produced by handleRaftLog")
			}
		}
	}
	if hr != nil {
		// each event carries the payload that belongs to its op
		pubs := eng.CallsIn(hr, "server.activityManager.publishActivityEvent")
		eng.Instrs(hr, func(in ssa.Instruction) {
			st, ok := in.(*ssa.Store)
			if !ok {
				return
			}
			fa, ok := st.Addr.(*ssa.FieldAddr)
			if !ok || eng.FieldNameOf(fa) != "Op" {
				return
			}
			k, ok := st.Val.(*ssa.Const)
			if !ok {
				return
			}
			name := strings.TrimPrefix(eng.EnumName(k), "ActivityStreamOp_")
			field := ""
			for _, part := range strings.Split(name, "_") {
				if part != "" {
					field += part[:1] + strings.ToLower(part[1:])
				}
			}
			field += "Op"
			q := &eng.PathQuery{Fn: hr, FromAfter: []ssa.Instruction{st}, Target: func(x ssa.Instruction) bool {
				return len(pubs) == 1 && x == pubs[0].(ssa.Instruction)
			}, CutInstr: func(x ssa.Instruction) bool {
				s2, ok := x.(*ssa.Store)
				if !ok {
					return false
				}
				fa2, ok := s2.Addr.(*ssa.FieldAddr)
				if !ok || eng.FieldNameOf(fa2) != field || fa2.X != fa.X {
					return false
				}
				return !eng.NilConst(s2.Val)
			}}
			w := q.Find()
			c.Check(w == nil && len(pubs) == 1, "event "+name+" carries its payload", c.Pos(st), "event."+field+" is set before the event is published", "an event with op "+name+" is published without event."+field+" (path "+w.String()+")")
		})
		// the only operation kinds that publish nothing are the excluded ones and a group created without members
		empty := eng.CmpEdges(hr, eng.Len(eng.AnyV), eng.IntConst(0), eng.EQ)
		nNil := 0
		okNil := true
		for _, r := range eng.Returns(hr) {
			if rv := eng.RetVals(r); len(rv) == 1 && eng.NilConst(rv[0]) {
				nNil++
				handledOp := false
				// is this return inside a handled case? then it must be the empty-group exit
				for n := range handledOps(hr, opT) {
					_ = n
				}
				g, _ := eng.GuardedBy(hr, r, empty)
				if g {
					handledOp = true
				}
				if !handledOp {
					// must be the default: unreachable from any op-equality true edge
					for _, e := range opCaseEdges(hr, opT) {
						q := &eng.PathQuery{Fn: hr, FromEdges: []eng.Edge{e}, Target: func(x ssa.Instruction) bool { return x == ssa.Instruction(r) }, CutEdges: empty}
						if q.Find() != nil {
							okNil = false
						}
					}
				}
			}
		}
		c.Check(okNil && nNil >= 1, "a handled operation is dropped only for a group created without members", p.Pos(hr.Pos()), "return nil without publishing only in the default case or on len(members) == 0", "handleRaftLog returns without publishing for a handled operation kind: that operation never appears in the activity stream")
	}
	c.Floor(28)

	// ---- R18.2
	c.Rule("R18.2", "K5")
	if hr != nil {
		ok := false
		eng.Instrs(hr, func(in ssa.Instruction) {
			if st, isSt := in.(*ssa.Store); isSt {
				if fa, isFA := st.Addr.(*ssa.FieldAddr); isFA && eng.FieldNameOf(fa) == "Id" && strings.HasSuffix(fa.X.Type().String(), "ActivityStreamEvent") {
					ok = eng.LoadNamed("Index", eng.Param("l"))(st.Val)
				}
			}
		})
		c.Check(ok, "event id = Raft index of the entry", p.Pos(hr.Pos()), "event.Id = l.Index", "the event id is not the Raft index of the log entry being handled: redeliveries get different ids or ids are not increasing")
	}
	if fn := c.Fn("server.(*activityManager).publishActivityEvent"); fn != nil {
		ok := false
		eng.Instrs(fn, func(in ssa.Instruction) {
			if st, isSt := in.(*ssa.Store); isSt {
				if fa, isFA := st.Addr.(*ssa.FieldAddr); isFA && eng.FieldNameOf(fa) == "RaftIndex" {
					ok = eng.LoadNamed("Id", eng.Param("event"))(st.Val)
				}
			}
		})
		c.Check(ok, "recorded index = event id", p.Pos(fn.Pos()), "PublishActivityOp.RaftIndex = event.Id", "the index recorded through Raft is not the id of the event just published")
	}
	if fn := c.Fn("server.(*Server).apply"); fn != nil {
		sl := eng.CallsIn(fn, "server.activityManager.SetLastPublishedRaftIndex")
		ok := len(sl) == 1 && eng.LoadNamed("RaftIndex", nil)(sl[0].Common().Args[1])
		c.Check(ok, "apply records the published index", p.Pos(fn.Pos()), "SetLastPublishedRaftIndex(log.PublishActivityOp.RaftIndex)", "apply does not record the published Raft index")
	}
	c.Floor(3)

	// ---- R18.3 dispatch
	c.Rule("R18.3", "K2")
	ruleDispatchSurvivesCompaction(c)
	ruleResumeAtTheFirstRetainedEntry(c)
	if fn := c.Fn("server.(*activityManager).dispatch"); fn != nil {
		hc := eng.CallsIn(fn, "server.activityManager.handleRaftLog")
		gl := eng.CallsIn(fn, "github.com/hashicorp/raft.LogStore.GetLog", "github.com/hashicorp/raft-boltdb/v2.BoltStore.GetLog")
		if len(hc) != 1 || len(gl) != 1 {
			c.Unresolved("handleRaftLog / GetLog in dispatch")
		} else {
			hv := hc[0].(ssa.Value)
			okEdge := eng.CmpEdges(fn, eng.Same(hv), eng.NilConst, eng.EQ)
			errEdge := eng.CmpEdges(fn, eng.Same(hv), eng.NilConst, eng.NE)
			notCmd := eng.CmpEdges(fn, eng.LoadNamed("Type", nil), eng.AnyV, eng.NE)
			// index++ : BinOp ADD(index phi, 1) of type uint64
			var incs []ssa.Instruction
			eng.Instrs(fn, func(in ssa.Instruction) {
				if bo, ok := in.(*ssa.BinOp); ok && bo.Op == token.ADD && eng.IntConst(1)(bo.Y) && bo.Type().String() == "uint64" {
					if _, isPhi := bo.X.(*ssa.Phi); isPhi {
						incs = append(incs, in)
					}
				}
			})
			if len(incs) == 0 {
				c.Unresolved("index++ in dispatch")
			}
			for _, inc := range incs {
				q := &eng.PathQuery{Fn: fn, FromAfter: []ssa.Instruction{gl[0].(ssa.Instruction)}, Target: func(x ssa.Instruction) bool { return x == inc }, CutEdges: append(append([]eng.Edge{}, okEdge...), notCmd...), CutInstr: func(x ssa.Instruction) bool { return x == gl[0].(ssa.Instruction) }}
				w := q.Find()
				c.Check(w == nil && len(okEdge) > 0, "index advances only after success or a non-command entry", c.Pos(inc), "index++ is reached from GetLog only over handleRaftLog == nil or log.Type != LogCommand", "the dispatcher can skip an entry whose event was not published (path "+w.String()+")")
			}
			// failure edge loops back to handleRaftLog for the same log (no GetLog in between)
			q := &eng.PathQuery{Fn: fn, FromEdges: errEdge, Target: func(x ssa.Instruction) bool { return x == gl[0].(ssa.Instruction) }, CutInstr: func(x ssa.Instruction) bool { return x == hc[0].(ssa.Instruction) }}
			w := q.Find()
			c.Check(w == nil && len(errEdge) > 0, "failed publish retries the same entry", c.Pos(hc[0].(ssa.Instruction)), "from the error edge the next GetLog is unreachable (retry, or stop on leadership loss/shutdown)", "after a failed publish the dispatcher moves on to another entry (path "+w.String()+"): events can be lost or reordered")
			q2 := &eng.PathQuery{Fn: fn, FromEdges: errEdge, Target: func(x ssa.Instruction) bool { return x == hc[0].(ssa.Instruction) }}
			c.Check(q2.Find() != nil, "retry exists", c.Pos(hc[0].(ssa.Instruction)), "the error edge can reach handleRaftLog again", "a failed publish is never retried")
			// the entry read is the one at `index`
			c.Check(isIndexPhi(eng.AllArgs(gl[0].Common())[1]), "entry read at the dispatcher's index", c.Pos(gl[0].(ssa.Instruction)), "GetLog(index, log)", "GetLog is not called with the dispatcher's running index")
		}
		// start at last published + 1
		okStart := false
		eng.Instrs(fn, func(in ssa.Instruction) {
			if bo, ok := in.(*ssa.BinOp); ok && eng.Bin(token.ADD, eng.Call(-1, "server.activityManager.LastPublishedRaftIndex"), eng.IntConst(1))(bo) {
				okStart = true
			}
		})
		c.Check(okStart, "dispatch resumes after the last published index", p.Pos(fn.Pos()), "index := LastPublishedRaftIndex() + 1", "dispatch does not start at last published index + 1: events are skipped or replayed from the wrong place after a controller change")
		// only committed entries
		committed := eng.CmpEdges(fn, eng.AnyV, eng.Call(-1, "server.raftNode.getCommitIndex"), eng.LE)
		for _, g := range gl {
			gd, w := eng.GuardedBy(fn, g.(ssa.Instruction), committed)
			c.Check(gd && len(committed) > 0, "only committed entries are published", c.Pos(g.(ssa.Instruction)), "GetLog only when index <= commit index", "an uncommitted Raft entry can be published as an activity event (path "+w.String()+")")
		}
		// ... and every committed entry: the dispatcher waits only when index is strictly beyond the commit index
		c.Check(exactRel(fn, eng.AnyV, eng.Call(-1, "server.raftNode.getCommitIndex"), eng.GT), "the last committed entry is not held back", p.Pos(fn.Pos()), "wait exactly when index > commit index", "the dispatcher waits although index == commit index: the newest committed operation is published only after the next commit, or never")
	}
	for _, k := range []string{"BecomeLeader"} {
		fn := c.Fn("server.(*activityManager)." + k)
		if fn == nil {
			continue
		}
		enabled := eng.BoolEdges(fn, eng.LoadNamed("Enabled", nil), true)
		var start []ssa.Instruction
		eng.Instrs(fn, func(in ssa.Instruction) {
			if ci, ok := in.(ssa.CallInstruction); ok {
				for _, a := range eng.AllArgs(ci.Common()) {
					if mc, ok := a.(*ssa.MakeClosure); ok {
						if f, ok := mc.Fn.(*ssa.Function); ok && (f.Name() == "dispatch$bound" || len(eng.CallsIn(f, "server.activityManager.dispatch")) > 0) {
							// a.dispatch as a method value, or (since F105) a literal that hands dispatch its term's channel
							start = append(start, in)
						}
					}
				}
			}
		})
		ok := len(start) == 1 && len(enabled) > 0
		pos := p.Pos(fn.Pos())
		if ok {
			pos = c.Pos(start[0])
			g, _ := eng.GuardedBy(fn, start[0], enabled)
			ok = g
			// reachable at all on the enabled edge
			q := &eng.PathQuery{Fn: fn, FromEdges: enabled, Target: func(x ssa.Instruction) bool { return x == start[0] }}
			ok = ok && q.Find() != nil
		}
		c.Check(ok, "the dispatcher starts exactly when the activity stream is enabled", pos, "startGoroutine(a.dispatch) on Enabled", "BecomeLeader does not start the dispatcher when the activity stream is enabled (or starts it when disabled)")
		// a fresh stop channel per term: the previous term's channel is closed, a dispatcher selecting on it would exit at once
		chF := p.Field("server", "activityManager", "leadershipLostCh")
		okCh := false
		if len(start) == 1 {
			g, _ := eng.PrecededBy(fn, start[0], func(in ssa.Instruction) bool {
				st, ok := in.(*ssa.Store)
				if !ok {
					return false
				}
				fa, ok := st.Addr.(*ssa.FieldAddr)
				if !ok || !fieldIs(fa, chF) {
					return false
				}
				return freshChan(st.Val)
			})
			okCh = g
		}
		c.Check(okCh, "each leadership term gets a fresh stop channel", pos, "a.leadershipLostCh = make(chan struct{}) before the dispatcher starts", "the dispatcher of a new term selects on the channel closed at the end of the previous term and exits immediately: nothing is published after a second election")
	}
	c.Floor(9)

	c.Rule("R16.9", "K6")
	ruleInternalPublishesWaive(c)
	c.Floor(2)

	// ---- R18.4
	c.Rule("R18.4", "K2")
	if fn := c.Fn("server.(*activityManager).publishActivityEvent"); fn != nil {
		// the publish: the module call that is handed the event's PublishRequest
		var pub []ssa.CallInstruction
		eng.Instrs(fn, func(in ssa.Instruction) {
			call, ok := in.(*ssa.Call)
			if !ok || call.Call.StaticCallee() == nil || !p.IsModuleFunc(call.Call.StaticCallee()) {
				return
			}
			for _, a := range call.Call.Args {
				if pt, ok := a.Type().(*types.Pointer); ok {
					if nt, ok := pt.Elem().(*types.Named); ok && nt.Obj().Name() == "PublishRequest" {
						pub = append(pub, call)
					}
				}
			}
		})
		rec := eng.CallsIn(fn, "server.raftNode.applyOperation")
		if len(pub) != 1 || len(rec) != 1 {
			c.Unresolved("api.Publish / applyOperation in publishActivityEvent")
		} else {
			pc := pub[0].(*ssa.Call)
			okEdge := cellEdgesIdx(fn, pc, 1)
			okEdge = append(okEdge, eng.CmpEdges(fn, func(v ssa.Value) bool { e, ok := v.(*ssa.Extract); return ok && e.Tuple == pc && e.Index == 1 }, eng.NilConst, eng.EQ)...)
			g, w := eng.GuardedBy(fn, rec[0].(ssa.Instruction), okEdge)
			c.Check(g && len(okEdge) > 0, "index recorded only after the event was published", c.Pos(rec[0].(ssa.Instruction)), "applyOperation(PUBLISH_ACTIVITY) is reached only over err == nil of api.Publish", "the published index can be recorded although the publish failed (path "+w.String()+"): the event is lost")
		}
	}
	c.Floor(1)

	// ---- R18.6 the server's own publish is not subject to client authorisation: it carries no client identity, so with
	// authorisation switched on a publish that passes through ensureAuthorizationPermission is refused every time and the
	// dispatcher retries the same event for ever
	c.Rule("R18.6", "K3")
	if fn := c.Fn("server.(*activityManager).publishActivityEvent"); fn != nil {
		via := ""
		for _, f := range moduleReach(c, fn, 4) {
			if ir.FuncKey(f) == "server.(*apiServer).ensureAuthorizationPermission" {
				via = "reached"
			}
		}
		bare := false
		eng.Instrs(fn, func(in ssa.Instruction) {
			if call, ok := in.(*ssa.Call); ok && eng.CalleeRef(&call.Call) == "context.Background" {
				bare = true
			}
		})
		c.Check(via == "" || !bare, "activity events are published without a client permission check", p.Pos(fn.Pos()), "publishActivityEvent does not reach ensureAuthorizationPermission", "publishActivityEvent publishes with a context that carries no client identity through ensureAuthorizationPermission: with client authorisation enabled every activity event is refused (\"Failed to retrieve client ID\") and none of the committed operations ever appears in the activity stream")
	}
	c.Floor(1)

	// ---- R18.5
	c.Rule("R18.5", "K3")
	c.WhoMayCall("activityManager.dispatch", []string{"server.activityManager.dispatch"}, []string{"server.(*activityManager).BecomeLeader"}, []string{"server.(*activityManager).BecomeLeader"})
	c.WhoMayCall("activityManager.BecomeLeader", []string{"server.activityManager.BecomeLeader"}, []string{"server.(*Server).leadershipAcquired"}, []string{"server.(*Server).leadershipAcquired"})
	c.WhoMayCall("activityManager.BecomeFollower", []string{"server.activityManager.BecomeFollower"}, []string{"server.(*Server).leadershipLost"}, []string{"server.(*Server).leadershipLost"})
	c.WhoMayCall("SetLastPublishedRaftIndex", []string{"server.activityManager.SetLastPublishedRaftIndex"}, []string{"server.(*Server).apply"}, []string{"server.(*Server).apply"})
	c.Floor(4)
	// ---- R15.8 (shared) the configuration keys this property's switches hang on reach their fields
	ruleConfigWiring(c, "R15.8")

}

func isIndexPhi(v ssa.Value) bool {
	_, ok := v.(*ssa.Phi)
	return ok
}

// opCaseEdges returns the true edges of the comparisons of the log's op with an Op constant (the entries of the cases).
func opCaseEdges(fn *ssa.Function, opT *types.Named) []eng.Edge {
	isOpConst := func(v ssa.Value) bool {
		k, ok := v.(*ssa.Const)
		return ok && opT != nil && types.Identical(k.Type(), opT)
	}
	return eng.CmpEdges(fn, eng.AnyV, isOpConst, eng.EQ)
}

func handledOps(fn *ssa.Function, opT *types.Named) map[string]bool { return nil }

// freshChan: the value is a channel made in this function — directly, or through the cell go/ssa makes of a local that a
// closure captures (stored once, from make).
func freshChan(v ssa.Value) bool {
	v = eng.Strip(v)
	if _, ok := v.(*ssa.MakeChan); ok {
		return true
	}
	u, ok := v.(*ssa.UnOp)
	if !ok || u.Op != token.MUL {
		return false
	}
	al, ok := u.X.(*ssa.Alloc)
	if !ok || al.Referrers() == nil {
		return false
	}
	n, made := 0, false
	for _, r := range *al.Referrers() {
		if st, isSt := r.(*ssa.Store); isSt && st.Addr == ssa.Value(al) {
			n++
			_, made = eng.Strip(st.Val).(*ssa.MakeChan)
		}
	}
	return n == 1 && made
}
