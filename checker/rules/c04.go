package rules

import (
	"go/token"
	"go/types"
	"strings"

	"golang.org/x/tools/go/ssa"

	"lbcheck/eng"
	"lbcheck/ir"
)

func init() {
	register(&Property{ID: "C04", Level: "other", Run: runC04,
		Technique:   "static analysis: call-site classification + guard dominance + path search over go/ssa (ack gates, commit rule, nack-implies-not-stored), value identity of ack fields",
		LevelText:   "Structural clauses decided for all paths: every acknowledgement send is either a negative ack built with a constant error code, or gated by the matching policy (LEADER directly after a successful append, ALL only on entries taken from the commit queue up to the minimum replicated offset and only when the in-sync set is at least the minimum size); no positive ack site exists for NONE; the ack's offset/correlation id/inbox are those of the message appended at that index; rejected messages never reach the batch. The rule under concurrent in-sync-set change is a schedule question and is not decided.",
		LevelNote:   "Trusted: go/ssa; the commit queue's TakeUntil semantics (Workiva queue); 'read under p.mu' is taken as 'the in-sync set at that moment'.",
		DesignRef:   "DESIGN.md §4 C04",
		Explanation: "R02.1 (shared) the loops of a term are joined before the hand-over; R04.5 also: every in-sync entry is reset at the start of a term. R04.5 also: a replica's offset counts, and the replica is caught up, only up to the leader's own log end (F99). R04.7 a term of leadership starts with an empty commit queue; R04.8 a publish addressed to a stream is completed only by an ack that names the stream (F80). R04.1 ack sites classified and gated, R04.2 commit rule in commitLoop and every offset progress signalling it, R04.3 ack field identity, R04.4 rejected ⇒ not stored, R04.5 replica progress sources, R04.6 each batch element admitted / nacked by the size test of its own message, R16.8 (shared) min-ISR setting plumbing. R15.8 (shared) clustering.min.insync.replicas / replication.max.bytes reach their Config fields. NOT decided: the rule while the ISR changes concurrently; delivery of acks.",
	})
}

const sendAckRef = "server.partition.sendAck"

func ackPolicyEdges(fn *ssa.Function, base eng.VM, name string, eq bool) []eng.Edge {
	rel := eng.EQ
	if !eq {
		rel = eng.NE
	}
	isPol := func(v ssa.Value) bool {
		k, ok := eng.Strip(v).(*ssa.Const)
		return ok && eng.EnumName(k) == name
	}
	return eng.CmpEdges(fn, eng.LoadNamed("AckPolicy", base), isPol, rel)
}

func runC04(c *eng.Ctx) {
	c.Rule("R04.1", "K2")
	ruleAllPolicyAlwaysGoesThroughTheCommitQueue(c)
	c.Rule("R17.6", "K4")
	ruleSealedValueIsTheCallers(c)
	c.Rule("R04.2", "K5")
	ruleMinISRIsTheConfiguredOne(c)
	c.Rule("R04.8", "K1")
	ruleAckBelongsToThePublishedStream(c)
	c.Rule("R04.7", "K2")
	ruleFreshCommitQueuePerTerm(c)

	p := c.P
	ix := eng.Index(p)

	// ---- R04.1 ack sites
	c.Rule("R04.1", "K3")
	c.WhoMayCall("sendAck", []string{sendAckRef},
		[]string{"server.(*partition).processPendingMessage", "server.(*partition).commitLoop", "server.(*partition).messageProcessingLoop"},
		[]string{"server.(*partition).processPendingMessage", "server.(*partition).commitLoop", "server.(*partition).messageProcessingLoop"})
	for _, s := range ix.Sites(sendAckRef) {
		call := s.Instr.(*ssa.Call)
		ack := call.Call.Args[1]
		errName := ackErrorConst(ack)
		switch {
		case errName != "" && errName != "Ack_OK":
			c.OK("negative ack ("+errName+") in "+s.Outer(), c.Pos(call), "ack literal built in this function with the constant error "+errName)
		case s.Outer() == "server.(*partition).processPendingMessage":
			g, w := eng.GuardedBy(s.Fn, call, ackPolicyEdges(s.Fn, eng.Param("msg"), "AckPolicy_LEADER", true))
			c.Check(g, "positive ack in processPendingMessage", c.Pos(call), "sent only on msg.AckPolicy == LEADER", "a positive ack is sent for a message whose policy is not LEADER (path "+w.String()+")")
		case s.Outer() == "server.(*partition).commitLoop":
			isAck := func(v ssa.Value) bool { return v == ack }
			g, w := eng.GuardedBy(s.Fn, call, ackPolicyEdges(s.Fn, isAck, "AckPolicy_ALL", true))
			c.Check(g, "positive ack in commitLoop", c.Pos(call), "sent only on ack.AckPolicy == ALL", "commitLoop acks an entry whose policy is not ALL (path "+w.String()+")")
			// the entry comes from TakeUntil's result
			fromQueue := false
			if ta, ok := ack.(*ssa.TypeAssert); ok {
				if u, ok := ta.X.(*ssa.UnOp); ok {
					if ia, ok := u.X.(*ssa.IndexAddr); ok {
						fromQueue = eng.Call(0, "github.com/Workiva/go-datastructures/queue.Queue.TakeUntil")(ia.X)
					}
				}
			}
			c.Check(fromQueue, "commitLoop acks committed entries", c.Pos(call), "the ack is an element of TakeUntil's result", "the ack sent by commitLoop is not an entry taken from the commit queue")
		default:
			c.Violate("positive ack in "+s.Outer(), c.Pos(call), "an acknowledgement without a constant error code is sent outside processPendingMessage/commitLoop: it is not gated by any ack policy")
		}
	}
	// processPendingMessage is reached only after a successful Append
	for _, s := range ix.Sites("server.partition.processPendingMessage") {
		if s.Outer() != "server.(*partition).messageProcessingLoop" {
			c.Violate("processPendingMessage called from "+s.Outer(), c.Pos(s.Instr), "processPendingMessage (LEADER ack + commit queue) is called outside messageProcessingLoop")
			continue
		}
		ap := eng.CallsIn(s.Fn, "server/commitlog.CommitLog.Append")
		if len(ap) != 1 {
			c.Unresolved("single Append call in messageProcessingLoop")
			continue
		}
		av := ap[0].(ssa.Value)
		okEdge := eng.CmpEdges(s.Fn, func(v ssa.Value) bool { e, ok := v.(*ssa.Extract); return ok && e.Tuple == av && e.Index == 1 }, eng.NilConst, eng.EQ)
		q := &eng.PathQuery{Fn: s.Fn, FromAfter: []ssa.Instruction{ap[0].(ssa.Instruction)}, Target: func(x ssa.Instruction) bool { return x == s.Instr }, CutEdges: okEdge}
		w := q.Find()
		c.Check(w == nil && len(okEdge) > 0, "processPendingMessage after successful Append", c.Pos(s.Instr), "reached only over the err == nil edge of Append", "messages are acknowledged/queued although Append failed (path "+w.String()+")")
	}
	// sendTooLargeNack sets TOO_LARGE
	if fn := c.Fn("server.(*partition).sendTooLargeNack"); fn != nil {
		ok := false
		eng.Instrs(fn, func(in ssa.Instruction) {
			if st, ok2 := in.(*ssa.Store); ok2 {
				if fa, ok3 := st.Addr.(*ssa.FieldAddr); ok3 && eng.FieldNameOf(fa) == "AckError" {
					if k, ok4 := st.Val.(*ssa.Const); ok4 && eng.EnumName(k) == "Ack_TOO_LARGE" {
						ok = true
					}
				}
			}
		})
		c.Check(ok, "sendTooLargeNack error code", p.Pos(fn.Pos()), "AckError = TOO_LARGE", "sendTooLargeNack does not set Ack_TOO_LARGE")
	}
	c.Floor(11)

	// ---- R04.2 commit rule
	c.Rule("R04.2", "K1")
	ruleCommitRule(c)
	c.Floor(9)

	// ---- R04.3 identity of ack fields
	c.Rule("R04.3", "K5")
	if fn := c.Fn("server.(*partition).processPendingMessage"); fn != nil {
		want := map[string]func(v ssa.Value) bool{
			"Offset":        eng.Param("offset"),
			"AckInbox":      eng.LoadNamed("AckInbox", eng.Param("msg")),
			"CorrelationId": eng.LoadNamed("CorrelationID", eng.Param("msg")),
			"AckPolicy":     eng.LoadNamed("AckPolicy", eng.Param("msg")),
		}
		seen := map[string]bool{}
		eng.Instrs(fn, func(in ssa.Instruction) {
			st, ok := in.(*ssa.Store)
			if !ok {
				return
			}
			fa, ok := st.Addr.(*ssa.FieldAddr)
			if !ok {
				return
			}
			n := eng.FieldNameOf(fa)
			m, ok := want[n]
			if !ok || !strings.HasSuffix(fa.X.Type().String(), "go.Ack") {
				return
			}
			seen[n] = true
			c.Check(m(st.Val), "ack."+n, c.Pos(st), "taken from the message/offset being acknowledged", "ack field "+n+" is "+eng.Describe(st.Val)+", not the value belonging to the acknowledged message")
		})
		for n := range want {
			if !seen[n] {
				c.Violate("ack."+n, p.Pos(fn.Pos()), "the positive ack does not set "+n)
			}
		}
	}
	for _, s := range ix.Sites("server.partition.processPendingMessage") {
		call := s.Instr.(*ssa.Call)
		a0, a1 := call.Call.Args[1], call.Call.Args[2]
		i0, i1 := indexOfLoad(a0), indexOfLoad(a1)
		okIdx := i0 != nil && i1 != nil && i0.Index == i1.Index
		okArr := okIdx && eng.Call(0, "server/commitlog.CommitLog.Append")(i0.X)
		c.Check(okIdx && okArr, "offset and message share the batch index", c.Pos(call), "processPendingMessage(offsets[i], msgBatch[i]) with offsets = Append's result", "the offset passed to processPendingMessage is not Append's offset for the same batch position as the message")
	}
	c.Floor(5)

	// ---- R04.4 rejected ⇒ not stored
	c.Rule("R04.4", "K2")
	if fn := c.Fn(msgLoopKey); fn != nil {
		for _, s := range eng.CallsIn(fn, "server.partition.sendTooLargeNack") {
			call := s.(*ssa.Call)
			m, ok := call.Call.Args[1].(*ssa.Call)
			if !ok || eng.CalleeRef(&m.Call) != natsToProto {
				c.Undecided("too-large nack", c.Pos(call), "nacked message is not the result of natsToProtoMessage")
				continue
			}
			q := &eng.PathQuery{Fn: fn, FromAfter: []ssa.Instruction{call}, Target: func(x ssa.Instruction) bool {
				ac, ok := x.(*ssa.Call)
				if !ok {
					return false
				}
				b, ok := ac.Call.Value.(*ssa.Builtin)
				if !ok || b.Name() != "append" || len(ac.Call.Args) != 2 {
					return false
				}
				el := variadicElems(ac.Call.Args[1])
				return len(el) == 1 && el[0] == m
			}, CutInstr: func(x ssa.Instruction) bool { return x == m }}
			w := q.Find()
			c.Check(w == nil, "too-large message is not stored", c.Pos(call), "after the TOO_LARGE nack the same message cannot reach append(msgBatch, m)", "a message nacked as too large is still appended to the batch (path "+w.String()+")")
			// the size test guards the nack: len(msg.Data) > ReplicationMaxBytes
			g, _ := eng.GuardedBy(fn, call, eng.CmpEdges(fn, eng.Len(nil), eng.LoadNamed("ReplicationMaxBytes", nil), eng.GT))
			c.Check(g, "too-large test", c.Pos(call), "nack sent on len(msg.Data) > ReplicationMaxBytes", "the too-large nack is not guarded by the size comparison")
		}
		// incorrect offset: nack carries INCORRECT_OFFSET and is on the Append error edge
		n := 0
		for _, call := range nackSitesIn(c, fn, "Ack_INCORRECT_OFFSET") {
			{
				n++
				ap := eng.CallsIn(fn, "server/commitlog.CommitLog.Append")
				if len(ap) == 1 {
					av := ap[0].(ssa.Value)
					errEdge := eng.CmpEdges(fn, func(v ssa.Value) bool { e, ok := v.(*ssa.Extract); return ok && e.Tuple == av && e.Index == 1 }, eng.NilConst, eng.NE)
					q := &eng.PathQuery{Fn: fn, FromAfter: []ssa.Instruction{ap[0].(ssa.Instruction)}, Target: func(x ssa.Instruction) bool { return x == call }, CutEdges: errEdge}
					c.Check(q.Find() == nil, "incorrect-offset nack on Append failure", c.Pos(call), "sent only on the error edge of Append", "the INCORRECT_OFFSET nack can be sent although Append succeeded")
				}
			}
		}
		if n == 0 {
			c.Violate("incorrect-offset nack", p.Pos(fn.Pos()), "no nack with Ack_INCORRECT_OFFSET exists in messageProcessingLoop")
		}
	}
	if fn := c.Fn("server/commitlog.(*commitLog).Append"); fn != nil {
		nm := eng.CallsIn(fn, "server/commitlog.newMessageSetFromProto")
		ap := eng.CallsIn(fn, "server/commitlog.commitLog.append")
		if len(nm) != 1 || len(ap) != 1 {
			c.Unresolved("newMessageSetFromProto / append calls in commitLog.Append")
		} else {
			nv := nm[0].(ssa.Value)
			okEdge := eng.CmpEdges(fn, func(v ssa.Value) bool { e, ok := v.(*ssa.Extract); return ok && e.Tuple == nv && e.Index == 2 }, eng.NilConst, eng.EQ)
			g, w := eng.GuardedBy(fn, ap[0].(ssa.Instruction), okEdge)
			c.Check(g && len(okEdge) > 0, "nothing written when the message set is rejected", c.Pos(ap[0].(ssa.Instruction)), "l.append is reached only over err == nil of newMessageSetFromProto", "the log is written although newMessageSetFromProto returned an error (path "+w.String()+")")
		}
	}
	c.Floor(8)

	// ---- R04.6 admission: the size test is applied to the very message that joins the batch
	c.Rule("R04.6", "K1")
	if fn := c.Fn("server.(*partition).messageProcessingLoop"); fn != nil {
		n := 0
		eng.Instrs(fn, func(in ssa.Instruction) {
			call, ok := in.(*ssa.Call)
			if !ok {
				return
			}
			b, ok := call.Call.Value.(*ssa.Builtin)
			if !ok || b.Name() != "append" {
				return
			}
			el := variadicElems(call.Call.Args[1])
			if len(el) != 1 {
				return
			}
			mk := eng.AsCall(el[0])
			if mk == nil || eng.CalleeRef(&mk.Call) != "server.natsToProtoMessage" {
				return
			}
			n++
			raw := mk.Call.Args[0] // the NATS message this batch element was built from
			fits := eng.CmpEdges(fn, eng.Len(eng.LoadNamed("Data", eng.Same(raw))), eng.LoadNamed("ReplicationMaxBytes", nil), eng.LE)
			g, w := eng.GuardedBy(fn, call, fits)
			c.Check(g && len(fits) > 0, "batch element admitted only after its own size test", c.Pos(call), "append(msgBatch, m) is reached only over len(msg.Data) <= ReplicationMaxBytes for the msg that m was built from", "a message joins the batch without its own size having been tested (the test reads another message, or is missing) (path "+w.String()+"): a message larger than replication.max.bytes is stored and acknowledged instead of being nacked")
		})
		// the nack goes to the message that failed the test
		for _, nk := range eng.CallsIn(fn, "server.partition.sendTooLargeNack") {
			mk := eng.AsCall(nk.Common().Args[1])
			ok := mk != nil && eng.CalleeRef(&mk.Call) == "server.natsToProtoMessage"
			var w *eng.Witness
			if ok {
				big := eng.CmpEdges(fn, eng.Len(eng.LoadNamed("Data", eng.Same(mk.Call.Args[0]))), eng.LoadNamed("ReplicationMaxBytes", nil), eng.GT)
				var g bool
				g, w = eng.GuardedBy(fn, nk.(ssa.Instruction), big)
				ok = g && len(big) > 0
			}
			c.Check(ok, "too-large nack names the message that failed the test", c.Pos(nk.(ssa.Instruction)), "sendTooLargeNack(m) only over len(msg.Data) > ReplicationMaxBytes for m's own msg", "the TOO_LARGE nack is sent for a message other than the one whose size was tested (path "+w.String()+")")
		}
		if n == 0 {
			c.Unresolved("append(msgBatch, natsToProtoMessage(...)) in messageProcessingLoop")
		}
	}
	c.Floor(6)

	// ---- R04.5 replica progress
	c.Rule("R04.5", "K3")
	ruleNewPartitionKnowsOnlyItsOwnProgress(c)
	ruleProgressIsWithinTheLeadersLog(c)
	// (shared with C02) the loops of a term of leadership are joined before the hand-over: a replicator of the old term
	// must not write progress into the next term's bookkeeping
	c.Rule("R02.1", "K3")
	ruleJoinBeforeHandover(c)
	ruleReplicaProgressSources(c)
	if fn := c.Fn("server.(*replica).updateLatestOffset"); fn != nil {
		off := p.Field("server", "replica", "offset")
		for _, st := range eng.FieldStores(fn, func(fa *ssa.FieldAddr) bool { return fieldIs(fa, off) }) {
			g, w := eng.GuardedBy(fn, st, eng.CmpEdges(fn, eng.Param("offset"), eng.Load(off, nil), eng.GT))
			c.Check(g, "replica offset only grows", c.Pos(st), "stored only on offset > r.offset", "a replica's latest offset can move backwards (path "+w.String()+")")
		}
	}
	ruleAddedReplicaUnconfirmed(c)
	if fn := c.Fn("server.(*partition).RemoveFromISR"); fn != nil {
		n := 0
		eng.Instrs(fn, func(in ssa.Instruction) {
			if sel, ok := in.(*ssa.Select); ok {
				for _, st := range sel.States {
					if st.Dir == types.SendOnly && eng.LoadNamed("commitCheck", nil)(st.Chan) {
						n++
						g, _ := eng.GuardedBy(fn, in, eng.BoolEdges(fn, eng.LoadNamed("isLeading", nil), true))
						c.Check(g, "commit check re-armed on ISR shrink", c.Pos(in), "commitCheck is signalled when leading", "commit check after an ISR shrink is not tied to p.isLeading")
					}
				}
			}
		})
		if n == 0 {
			c.Violate("commit check re-armed on ISR shrink", p.Pos(fn.Pos()), "RemoveFromISR no longer signals commitCheck: messages waiting only for the removed replica are never committed")
		}
	}
	c.Floor(7)
	_ = ir.FuncKey
	c.Rule("R16.8", "K6")
	ruleStreamConfigPlumbing(c, "MinIsr")
	c.Floor(2)
	// ---- R15.8 (shared) the configuration keys this property's switches hang on reach their fields
	ruleConfigWiring(c, "R15.8")

	// ---- R02.4 (shared) fetch requests of another epoch are not counted as replica progress
	c.Rule("R02.4", "K1")
	ruleLeaderServesOwnEpoch(c)
	c.Floor(2)

	// ---- R04.5 / R04.6 extensions from repaired defects
	c.Rule("R04.5", "K3")
	ruleLeaderForgetsOldProgress(c)
	c.Rule("R04.6", "K1")
	ruleReplicationShipsAtLeastOne(c)

	c.Rule("R02.4", "K1")
	ruleOffsetRequestFenced(c)

	c.Rule("R04.2", "K1")
	ruleOffsetProgressSignalsCommit(c)

}

// indexOfLoad returns the IndexAddr whose element v loads.
func indexOfLoad(v ssa.Value) *ssa.IndexAddr {
	u, ok := v.(*ssa.UnOp)
	if !ok || u.Op != token.MUL {
		return nil
	}
	ia, _ := u.X.(*ssa.IndexAddr)
	return ia
}

// ruleCommitRule is R04.2 (shared with C02): no commit below min ISR; commit point = min over the ISR.
func ruleCommitRule(c *eng.Ctx) {
	p := c.P
	if fn := c.Fn("server.(*partition).commitLoop"); fn != nil {
		isr := p.Field("server", "partition", "isr")
		minISR := p.Field("server", "partition", "minISR")
		enough := eng.CmpEdges(fn, eng.Len(eng.Load(isr, nil)), eng.Load(minISR, nil), eng.GE)
		take := eng.CallsIn(fn, "github.com/Workiva/go-datastructures/queue.Queue.TakeUntil")
		set := eng.CallsIn(fn, clSetI)
		// iteration boundary: the receive on commitCheck (select)
		var sel []ssa.Instruction
		eng.Instrs(fn, func(in ssa.Instruction) {
			if _, ok := in.(*ssa.Select); ok {
				sel = append(sel, in)
			}
		})
		if len(take) == 1 && len(set) == 1 && len(sel) == 1 && len(enough) == 0 {
			c.Violate("min-ISR gate in commitLoop", c.Pos(take[0].(ssa.Instruction)), "commitLoop does not compare len(p.isr) with p.minISR before committing: the decision uses something other than the in-sync set read under p.mu in this iteration (e.g. a cached flag that other code updates at other times)")
		} else if len(take) != 1 || len(set) != 1 || len(sel) != 1 {
			c.Unresolved("TakeUntil / SetHighWatermark / select in commitLoop")
		} else {
			for _, tgt := range []ssa.CallInstruction{take[0], set[0]} {
				q := &eng.PathQuery{Fn: fn, FromAfter: sel, Target: func(x ssa.Instruction) bool { return x == tgt.(ssa.Instruction) }, CutEdges: enough, CutInstr: func(x ssa.Instruction) bool { return x == sel[0] }}
				w := q.Find()
				c.Check(w == nil, "min-ISR gate before "+eng.CalleeRef(tgt.Common()), c.Pos(tgt.(ssa.Instruction)), "reached in an iteration only when len(p.isr) >= p.minISR", "commit proceeds although the in-sync set is below the configured minimum (path "+w.String()+")")
			}
			// len(p.isr) is read under p.mu
			la := eng.LocksOf(p, fn, 0)
			eng.Instrs(fn, func(in ssa.Instruction) {
				if call, ok := in.(*ssa.Call); ok && eng.Len(eng.Load(isr, nil))(call) {
					st := la.At(call)
					held := false
					for k := range st {
						if strings.HasSuffix(k, ".mu") {
							held = true
						}
					}
					c.Check(held, "ISR size read under p.mu", c.Pos(call), "p.mu held", "len(p.isr) is read without p.mu")
				}
			})
			// minLatest = min(latestOffsets); SetHighWatermark(minLatest); predicate Offset <= minLatest
			sv := set[0].(*ssa.Call)
			hwArg := eng.AllArgs(&sv.Call)[1]
			isMin := eng.Call(-1, "server.min")
			c.Check(isMin(hwArg), "commit point = min over the ISR", c.Pos(sv), "SetHighWatermark(min(latestOffsets))", "the committed offset is "+eng.Describe(hwArg)+", not the minimum of the in-sync replicas' latest offsets")
			if mc := eng.AsCall(hwArg); mc != nil && isMin(hwArg) {
				// latestOffsets elements are stored only from replica.getLatestOffset() while ranging p.isr
				arr := mc.Call.Args[0]
				okSrc, nst := true, 0
				// the slice is either filled slot by slot (make([]int64, len(p.isr)); s[i] = …) or grown by append from
				// an empty one (make([]int64, 0, n); s = append(s, …)) — in both forms every element is a replica's
				// reported offset and there is one per in-sync replica
				var walk func(v ssa.Value, depth int)
				seen := map[ssa.Value]bool{}
				walk = func(v ssa.Value, depth int) {
					if seen[v] || depth > 8 {
						return
					}
					seen[v] = true
					switch x := v.(type) {
					case *ssa.Phi:
						for _, e := range x.Edges {
							walk(e, depth+1)
						}
					case *ssa.Call:
						b, isB := x.Call.Value.(*ssa.Builtin)
						if !isB || b.Name() != "append" || len(x.Call.Args) != 2 {
							okSrc = false
							return
						}
						inISRLoop := false
						for _, ml := range eng.MapLoops(fn) {
							if ml.Body[x.Block()] && eng.Load(isr, nil)(ml.Range.X) {
								inISRLoop = true
							}
						}
						if !inISRLoop {
							okSrc = false
						}
						for _, el := range variadicElems(x.Call.Args[1]) {
							nst++
							if !eng.Call(-1, "server.replica.getLatestOffset")(el) {
								okSrc = false
							}
						}
						walk(x.Call.Args[0], depth+1)
					case *ssa.MakeSlice:
						if n, isC := eng.ConstVal(x.Len); isC && n == 0 {
							c.OK("one slot per in-sync replica", c.Pos(x), "latestOffsets starts empty and grows by one element per in-sync replica")
						} else {
							c.Check(eng.Len(eng.Load(isr, nil))(x.Len), "one slot per in-sync replica", c.Pos(x), "latestOffsets has len(p.isr) slots", "latestOffsets is not sized by the in-sync set")
						}
						for _, r := range *x.Referrers() {
							if ia, ok := r.(*ssa.IndexAddr); ok {
								for _, rr := range *ia.Referrers() {
									if st, ok := rr.(*ssa.Store); ok {
										nst++
										if !eng.Call(-1, "server.replica.getLatestOffset")(st.Val) {
											okSrc = false
										}
									}
								}
							}
						}
					default:
						okSrc = false
					}
				}
				walk(arr, 0)
				c.Check(okSrc && nst > 0, "latest offsets come from the in-sync replicas", c.Pos(mc), "every slot is filled from replica.getLatestOffset()", "latestOffsets is filled from something other than the in-sync replicas' reported offsets")
			}
			// predicate closure
			tv := take[0].(*ssa.Call)
			var pred *ssa.Function
			if mcl, ok := tv.Call.Args[len(tv.Call.Args)-1].(*ssa.MakeClosure); ok {
				pred = mcl.Fn.(*ssa.Function)
			}
			okPred := false
			if pred != nil {
				for _, r := range eng.Returns(pred) {
					okPred = eng.RelVal(eng.LoadNamed("Offset", nil), func(v ssa.Value) bool { return eng.Call(-1, "server.min")(v) }, eng.LE)(eng.RetVals(r)[0])
				}
			}
			c.Check(okPred, "commit predicate", c.Pos(tv), "TakeUntil(pending.Offset <= minLatest)", "the commit queue predicate is not `pending.Offset <= minLatest`")
			// HW is set before acks are sent
			for _, s := range eng.CallsIn(fn, sendAckRef) {
				q := &eng.PathQuery{Fn: fn, FromAfter: sel, Target: func(x ssa.Instruction) bool { return x == s.(ssa.Instruction) }, CutInstr: func(x ssa.Instruction) bool { return x == sv || x == sel[0] }}
				w := q.Find()
				c.Check(w == nil, "high watermark advanced before ALL acks", c.Pos(s.(ssa.Instruction)), "SetHighWatermark precedes the ack loop in every iteration", "an ALL ack can be sent before the high watermark covers the message (path "+w.String()+")")
			}
		}
	}
	if fn := c.Fn("server.min"); fn != nil {
		// keeps the smaller: the running minimum takes the element exactly on the edge where element < minimum
		okMin := false
		eng.Instrs(fn, func(in ssa.Instruction) {
			ph, ok := in.(*ssa.Phi)
			if !ok {
				return
			}
			for i, e := range ph.Edges {
				ia := indexOfLoad(e)
				if ia == nil || !eng.Param("v")(ia.X) || eng.IntConst(0)(ia.Index) {
					continue
				}
				sameElem := func(v ssa.Value) bool { x := indexOfLoad(v); return x != nil && x.X == ia.X && x.Index == ia.Index }
				isPhi := func(v ssa.Value) bool { _, ok := v.(*ssa.Phi); return ok }
				sameIdx := func(v ssa.Value) bool { return v == ia.Index }
				// the element is smaller than the minimum so far — or it is the first one, which starts the minimum
				smaller := eng.EdgesWhere(fn, func(a eng.AtomView) bool {
					return a.RelHolds(sameElem, isPhi, eng.LT) || a.RelHolds(sameIdx, eng.IntConst(0), eng.EQ)
				})
				pred := ph.Block().Preds[i]
				direct := false
				for _, se := range smaller {
					if se.From == pred && se.To() == ph.Block() {
						direct = true
					}
				}
				if !direct && len(pred.Instrs) > 0 {
					if g, _ := eng.GuardedBy(fn, pred.Instrs[len(pred.Instrs)-1], smaller); g && len(smaller) > 0 {
						direct = true
					}
				}
				if direct {
					okMin = true
				}
			}
		})
		c.Check(okMin, "min keeps the smaller element", p.Pos(fn.Pos()), "m is replaced on v[i] < m", "server.min does not select the smaller element")
	}
}

// nackSitesIn lists the instructions of fn that send a negative ack with the given error constant: direct sendAck calls
// whose ack literal carries it, and synchronous calls to a module helper (one level) that does so — extracting the nack
// into a helper called in place is behaviour-preserving and must not look like the nack has disappeared.
func nackSitesIn(c *eng.Ctx, fn *ssa.Function, errName string) []ssa.Instruction {
	var out []ssa.Instruction
	direct := func(f *ssa.Function) bool {
		found := false
		for _, s := range eng.CallsIn(f, sendAckRef) {
			if call, ok := s.(*ssa.Call); ok && ackErrorConst(call.Call.Args[1]) == errName {
				found = true
			}
		}
		return found
	}
	eng.Instrs(fn, func(in ssa.Instruction) {
		call, ok := in.(*ssa.Call)
		if !ok {
			return
		}
		if eng.CalleeRef(&call.Call) == sendAckRef {
			if ackErrorConst(call.Call.Args[1]) == errName {
				out = append(out, in)
			}
			return
		}
		if sc := call.Call.StaticCallee(); sc != nil && c.P.IsModuleFunc(sc) && len(sc.Blocks) > 0 && direct(sc) {
			out = append(out, in)
		}
	})
	return out
}

// ruleAddedReplicaUnconfirmed (part of R04.5, shared with C02): a replica that re-enters the ISR counts as holding nothing
// until its next replication request says otherwise.
func ruleAddedReplicaUnconfirmed(c *eng.Ctx) {
	p := c.P
	if fn := c.Fn("server.(*partition).AddToISR"); fn != nil {
		ok := false
		eng.Instrs(fn, func(in ssa.Instruction) {
			if mu, ok2 := in.(*ssa.MapUpdate); ok2 {
				if al, ok3 := mu.Value.(*ssa.Alloc); ok3 {
					for _, r := range *al.Referrers() {
						if fa, ok4 := r.(*ssa.FieldAddr); ok4 && eng.FieldNameOf(fa) == "offset" {
							for _, rr := range *fa.Referrers() {
								if st, ok5 := rr.(*ssa.Store); ok5 && eng.IntConst(-1)(st.Val) {
									ok = true
								}
							}
						}
					}
				}
			}
		})
		c.Check(ok, "added replica starts at offset -1", p.Pos(fn.Pos()), "p.isr[rep] = &replica{offset: -1}", "a replica added to the ISR does not start at offset -1: it could be counted as having data it does not have")
	}
}

// ruleReplicaProgressSources (part of R04.5, shared with C02): what the leader believes a replica holds comes only from that
// replica's own fetch request (its log end) and, for the leader itself, from its own append. Recording progress when data is
// merely SENT lets the watermark pass messages no follower has stored.
func ruleReplicaProgressSources(c *eng.Ctx) {
	ix := eng.Index(c.P)
	c.WhoMayCall("updateISRLatestOffset", []string{"server.partition.updateISRLatestOffset"},
		[]string{"server.(*replicator).start", "server.(*partition).messageProcessingLoop"},
		[]string{"server.(*replicator).start", "server.(*partition).messageProcessingLoop"})
	for _, s := range ix.Sites("server.partition.updateISRLatestOffset") {
		call := s.Instr.(*ssa.Call)
		switch s.Outer() {
		case "server.(*replicator).start":
			ok := eng.LoadNamed("replica", nil)(call.Call.Args[1]) && eng.LoadNamed("Offset", nil)(call.Call.Args[2])
			c.Check(ok, "follower progress from its replication request", c.Pos(call), "updateISRLatestOffset(r.replica, req.Offset)", "follower progress is not taken from (r.replica, req.Offset)")
		case "server.(*partition).messageProcessingLoop":
			ok := eng.LoadNamed("ServerID", nil)(call.Call.Args[1])
			i := indexOfLoad(call.Call.Args[2])
			ok = ok && i != nil && eng.Call(0, "server/commitlog.CommitLog.Append")(i.X)
			c.Check(ok, "leader progress from its own append", c.Pos(call), "updateISRLatestOffset(own server id, last appended offset)", "leader progress is not (own id, last offset returned by Append)")
		}
	}
}
