package rules

import (
	"fmt"
	"go/token"
	"go/types"
	"sort"
	"strings"

	"golang.org/x/tools/go/ssa"

	"lbcheck/eng"
	"lbcheck/ir"
)

func init() {
	register(&Property{ID: "C06", Level: "other", Run: runC06,
		Technique:   "static analysis: exhaustive-table agreement over the Op enum, call-graph reachability from the Raft apply path with an iteration-order / goroutine / nondeterminism effect analysis, alias analysis of the snapshot object, guard dominance for idempotency and replay safety",
		LevelText:   "Structural clauses decided for all paths: every operation that can be written to the Raft log has an apply case (and every propagated op a handler); on the functions reachable from Apply/Restore no goroutine writes replicated state, no clock/random/server-local value flows into it and every map iteration is order-insensitive or sorted; the snapshot object holds no pointer to live state; snapshot writer and restore reader agree on the field set and no persisted flag can only ever be set; mutators are guarded by epoch comparisons fed from the Raft index; replayed deletes only tombstone. Equality of end states over all histories and snapshot splits is not decided.",
		LevelNote:   "Trusted: go/ssa and the CHA call graph; the frozen lists of replicated fields, activation boundary, set-semantics fields and accepted unordered collections in rules/c06.go (one reason each); generated protobuf code.",
		DesignRef:   "DESIGN.md §4 C06",
		Explanation: "Rounds 9-10: R06.6 Restore fills its buffers; R06.4 Pause decides on the run-time flag; R07.5 (shared) CREATE_STREAM stamps the epochs and AddStream keeps them; R12.5 (shared) a restored group replays the joins; R16.8 (shared) a StreamConfig copied field by field is complete. R06.6 also: every successful return of Restore lies behind the reset. R06.6 also: a snapshot leaves tombstoned streams out (F78) and Restore hands the snapshot's streams to a reset that deletes the others with their data (F88); R06.3 also: no by-value copy of a live object whose reference fields the apply path rewrites in place; R06.4 also: a persisted read-only flag is re-applied unconditionally at load. R06.1 op coverage, R06.2 determinism on the apply path (a goroutines, b nondeterministic sources, c map iteration order), R06.3 snapshot freshness, R06.4 snapshot/restore field agreement and one-sided flags, R06.5 idempotency / epoch stamping, R06.6 replay safety (a created stream is built from the logged op; the tombstone is only ever set), R06.7 lock pairing, R06.8 snapshot restores streams before groups, R07.9 (shared) persisted ISR, R12.5 (shared) group bookkeeping; R06.3 also requires that Persist reads no live state and the snapshot object holds encoded data only; R06.4 that persisted flags with a run-time counterpart are re-applied at load. NOT decided: end-state equality for all histories × snapshot splits; what the commit-log side does on restart.",
	})
}

// activation boundary: these start server-local machinery (by design different per server).
var c06Boundary = map[string]bool{
	"server.(*partition).startLeadingOrFollowing": true,
	"server.(*partition).stopLeadingOrFollowing":  true,
	"server.(*consumerGroup).startMemberTimers":   true,
	"server.(*consumerGroup).startMemberTimer":    true,
	"server/commitlog.New":                        true,
	"server.(*activityManager).SignalCommit":      true,
}

// replicated fields (struct name -> fields); everything else (timestamps, stats, timers, loops) is local.
var c06Replicated = map[string][]string{
	"Partition":     {"Leader", "LeaderEpoch", "Epoch", "Isr", "Replicas", "Paused", "Readonly"},
	"stream":        {"name", "subject", "config", "partitions", "tombstone", "resumeAll", "creationTime"},
	"consumerGroup": {"members", "subscribers", "coordinator", "epoch"},
	"consumer":      {"streams", "assignments", "assignedCount"},
}

// accepted unordered collections: function -> reason
var c06Unordered = map[string]string{
	"server.(*stream).Pause":                  "toPause is processed per element (each partition paused); PausePartitions only adjusts per-broker counters (commutative)",
	"server.(*stream).SetReadonly":            "each collected partition gets the same flag",
	"server.(*metadataAPI).getStreams":        "callers on the apply path process streams independently (one stream's state never depends on another's)",
	"server.(*metadataAPI).getConsumerGroups": "callers process groups independently",
	"server.(*partition).GetReplicas":         "set semantics: callers test membership or count",
	"server.(*partition).GetISR":              "set semantics: callers test membership or pick through selectPartitionLeader, whose result goes through Raft",
	"server.(*consumerGroup).GetMembers":      "the per-member stream list is restored into a set (streamSet) by addMember",
}

var c06SetFields = map[string]string{
	"partition.Isr":      "rebuilt from the isr map; every reader converts it back to a map or tests membership",
	"Partition.Isr":      "rebuilt from the isr map; every reader converts it back to a map or tests membership",
	"partition.Replicas": "set of replica ids",
	"Partition.Replicas": "set of replica ids",
}

var c06OrderedCalls = map[string]string{
	"server.consumerGroup.balanceAssignmentsForStream": "assignment of a stream depends on the load left by previously balanced streams",
	"server.consumerGroup.addConsumer":                 "rebalances",
	"server.consumerGroup.removeConsumer":              "rebalances",
	"server.consumerGroup.addMember":                   "rebalances",
}

func applyPath(c *eng.Ctx) map[*ssa.Function]bool {
	var roots []*ssa.Function
	for _, k := range []string{"server.(*Server).apply", "server.(*Server).Restore", "server.(*Server).finishedRecovery", "server.(*Server).Snapshot", "server.newConsumerGroup"} {
		if f := c.Fn(k); f != nil {
			roots = append(roots, f)
		}
	}
	return c.Reachable(roots, c06Boundary, false)
}

func replicatedField(f *types.Var, owner string) bool {
	for _, n := range c06Replicated[owner] {
		if n == f.Name() {
			return true
		}
	}
	return false
}

func ownerName(fa *ssa.FieldAddr) string {
	t := fa.X.Type()
	if p, ok := t.Underlying().(*types.Pointer); ok {
		t = p.Elem()
	}
	if n, ok := t.(*types.Named); ok {
		return n.Obj().Name()
	}
	return ""
}

// writesReplicated: fn (transitively, module calls, closures) stores to a replicated field.
func writesReplicated(c *eng.Ctx, fn *ssa.Function, seen map[*ssa.Function]bool) string {
	if fn == nil || seen[fn] || fn.Blocks == nil {
		return ""
	}
	seen[fn] = true
	res := ""
	eng.Instrs(fn, func(in ssa.Instruction) {
		if res != "" {
			return
		}
		switch x := in.(type) {
		case *ssa.Store:
			if fa, ok := x.Addr.(*ssa.FieldAddr); ok {
				o := ownerName(fa)
				if o == "partition" {
					o = "Partition" // embedded proto
				}
				if f := eng.FieldNameOf(fa); f != "" && replicatedFieldName(f, o) {
					res = fmt.Sprintf("%s stores %s.%s", ir.FuncKey(fn), o, f)
				}
			}
		case *ssa.MapUpdate:
			if f, _ := eng.FieldRead(x.Map); f != nil {
				for o, fs := range c06Replicated {
					for _, n := range fs {
						if n == f.Name() && (o == "consumerGroup" || o == "consumer" || o == "stream") {
							res = fmt.Sprintf("%s updates map %s.%s", ir.FuncKey(fn), o, n)
						}
					}
				}
			}
		case ssa.CallInstruction:
			if b, ok := x.Common().Value.(*ssa.Builtin); ok && b.Name() == "delete" {
				if f, _ := eng.FieldRead(x.Common().Args[0]); f != nil && (f.Name() == "streams" || f.Name() == "members" || f.Name() == "subscribers" || f.Name() == "assignments") {
					res = fmt.Sprintf("%s deletes from %s", ir.FuncKey(fn), f.Name())
				}
			}
			if sc := x.Common().StaticCallee(); sc != nil && c.P.IsModuleFunc(sc) {
				if r := writesReplicated(c, sc, seen); r != "" {
					res = r
				}
			}
			if mc, ok := x.Common().Value.(*ssa.MakeClosure); ok {
				if r := writesReplicated(c, mc.Fn.(*ssa.Function), seen); r != "" {
					res = r
				}
			}
		case *ssa.MakeClosure:
			if r := writesReplicated(c, x.Fn.(*ssa.Function), seen); r != "" {
				res = r
			}
		}
	})
	return res
}

func replicatedFieldName(f, owner string) bool {
	for _, n := range c06Replicated[owner] {
		if n == f {
			return true
		}
	}
	return false
}

func runC06(c *eng.Ctx) {
	c.Rule("R07.5", "K2")
	ruleCreateStampsEpochs(c)
	c.Rule("R06.6", "K2")
	ruleRestoreReadsTheWholeSnapshot(c)
	c.Rule("R06.4", "K2")
	rulePauseDecidesOnTheRuntimeFlag(c)
	c.Rule("R12.5", "K5")
	ruleRestoredGroupReplaysTheJoins(c)
	c.Rule("R16.8", "K6")
	ruleStreamConfigCopiesAreComplete(c)
	// (shared with C12) what a restored server cannot reproduce: a partition count remembered across a delete / re-create, a
	// consumer pushed per element of the join list
	c.Rule("R12.8", "K5")
	ruleRebalanceCountsPartitionsNow(c)
	c.Rule("R12.5", "K5")
	ruleJoiningConsumerEntersEachStreamOnce(c)
	p := c.P
	P := applyPath(c)
	var pkeys []string
	for f := range P {
		pkeys = append(pkeys, ir.FuncKey(f))
	}
	sort.Strings(pkeys)
	if len(pkeys) < 100 {
		c.Rule("R06.2", "K8")
		c.Unresolved(fmt.Sprintf("apply path: only %d functions reachable from apply/Restore (expected > 100)", len(pkeys)))
	}

	// ---- R06.1 op coverage
	c.Rule("R06.9", "K1")
	ruleLeaderEpochIsNotThePartitionEpoch(c)
	c.Rule("R06.1", "K6")
	opT := p.NamedType("server/protocol", "Op")
	if opT == nil {
		c.Unresolved("type server/protocol.Op")
	} else {
		sc := p.ByPath["server/protocol"].Types.Scope()
		var ops []string
		for _, n := range sc.Names() {
			if k, ok := sc.Lookup(n).(*types.Const); ok && types.Identical(k.Type(), opT) {
				ops = append(ops, n)
			}
		}
		cases := func(key string) map[string]bool {
			out := map[string]bool{}
			fn := c.Fn(key)
			if fn == nil {
				return out
			}
			eng.Instrs(fn, func(in ssa.Instruction) {
				bo, ok := in.(*ssa.BinOp)
				if !ok || bo.Op != token.EQL {
					return
				}
				for _, v := range []ssa.Value{bo.X, bo.Y} {
					if k, ok := v.(*ssa.Const); ok && types.Identical(k.Type(), opT) {
						out[eng.EnumName(k)] = true
					}
				}
			})
			return out
		}
		applyCases := cases("server.(*Server).apply")
		propCases := cases("server.(*Server).handlePropagatedRequest")
		// ops written into RaftLog / PropagatedRequest literals by hand-written code
		written := map[string]map[string]string{"RaftLog": {}, "PropagatedRequest": {}}
		for _, fn := range p.Funcs {
			if fn.Pkg == nil || ir.Short(fn.Pkg.Pkg.Path()) != "server" {
				continue
			}
			eng.Instrs(fn, func(in ssa.Instruction) {
				st, ok := in.(*ssa.Store)
				if !ok {
					return
				}
				fa, ok := st.Addr.(*ssa.FieldAddr)
				if !ok || eng.FieldNameOf(fa) != "Op" {
					return
				}
				o := ownerName(fa)
				if m, ok := written[o]; ok {
					if k, ok := st.Val.(*ssa.Const); ok {
						m[eng.EnumName(k)] = c.Pos(st)
					}
				}
			})
		}
		notLogged := map[string]string{
			"Op_REPORT_LEADER":                     "never written to the Raft log; handled by handlePropagatedRequest only",
			"Op_REPORT_CONSUMER_GROUP_COORDINATOR": "never written to the Raft log; handled by handlePropagatedRequest only",
		}
		for _, op := range ops {
			if why, ok := notLogged[op]; ok {
				_, logged := written["RaftLog"][op]
				c.Check(!logged, "op "+op+" excluded from apply", "-", "exclusion holds: "+why, op+" is listed as never-logged but a RaftLog with this op is built at "+written["RaftLog"][op])
				continue
			}
			c.Check(applyCases[op], "op "+op+" has an apply case", "-", "case in (*Server).apply", "Op constant "+op+" has no case in (*Server).apply: a committed entry of this kind makes every server return 'Unknown Raft operation' (fatal)")
		}
		for op, pos := range written["RaftLog"] {
			c.Check(applyCases[op], "logged op "+op+" is applied", pos, "a RaftLog with this op is built here and apply has a case for it", "a RaftLog with op "+op+" is proposed but apply has no case for it")
		}
		for op, pos := range written["PropagatedRequest"] {
			c.Check(propCases[op], "propagated op "+op+" is handled", pos, "handlePropagatedRequest has a case", "a request with op "+op+" is propagated to the leader but handlePropagatedRequest has no case for it")
		}
	}
	c.Floor(30)

	// ---- R06.2 determinism
	c.Rule("R06.2", "K8")
	// (a) goroutines on the apply path that write replicated state
	for _, k := range pkeys {
		fn := p.Func(k)
		eng.Instrs(fn, func(in ssa.Instruction) {
			var target *ssa.Function
			mode := ""
			switch x := in.(type) {
			case *ssa.Go:
				mode = "go statement"
				target = funcValue(x.Call.Value)
			case *ssa.Call:
				ref := eng.CalleeRef(&x.Call)
				if strings.HasPrefix(ref, "server.Server.startGoroutine") {
					mode = ref
					for _, a := range x.Call.Args {
						if f := funcValue(a); f != nil {
							target = f
						}
					}
				}
			}
			if mode == "" {
				return
			}
			if target == nil {
				c.Undecided("goroutine started in "+k, c.Pos(in), "cannot resolve the function started asynchronously on the apply path")
				return
			}
			w := writesReplicated(c, target, map[*ssa.Function]bool{})
			c.Check(w == "", "goroutine started in "+k, c.Pos(in), "the asynchronous function writes no replicated field", "a goroutine started on the Raft apply path mutates replicated state ("+w+"): its effect is ordered arbitrarily against later applies, so servers can diverge")
		})
	}
	// (b) nondeterministic sources into replicated fields
	nd := map[string]bool{"time.Now": true, "math/rand.Intn": true, "math/rand.Int": true, "github.com/nats-io/nuid.Next": true, "os.Getenv": true, "os.Hostname": true, "server.timestamp": true}
	for _, k := range pkeys {
		fn := p.Func(k)
		eng.Instrs(fn, func(in ssa.Instruction) {
			st, ok := in.(*ssa.Store)
			if !ok {
				return
			}
			fa, ok := st.Addr.(*ssa.FieldAddr)
			if !ok {
				return
			}
			o := ownerName(fa)
			if o == "partition" {
				o = "Partition"
			}
			f := eng.FieldNameOf(fa)
			if !replicatedFieldName(f, o) {
				return
			}
			leak := ndLeaf(st.Val, nd, 0, map[ssa.Value]bool{})
			c.Check(leak == "", "store to "+o+"."+f+" in "+k, c.Pos(st), "value does not derive from a clock, random source or server-local identity", "replicated field "+o+"."+f+" is assigned a value derived from "+leak+": servers applying the same log end with different metadata")
		})
	}
	// (c) map iteration order
	cfg := eng.OrderConfig{OrderedCalls: c06OrderedCalls, SetFields: c06SetFields}
	nLoops := 0
	for _, k := range pkeys {
		fn := p.Func(k)
		for _, ml := range eng.MapLoops(fn) {
			nLoops++
			construct := "map range over " + eng.Describe(ml.Range.X) + " in " + k
			fs := ml.Classify(p, cfg)
			if len(fs) == 0 {
				c.OK(construct, c.Pos(ml.Range), "order-insensitive: per-element effects, set insertion, commutative accumulation or sorted before use")
				continue
			}
			if why, ok := c06Unordered[ir.FuncKey(ir.Outermost(fn))]; ok && allCollect(fs) {
				c.OK(construct, c.Pos(ml.Range), "accepted unordered collection: "+why)
				continue
			}
			var ds []string
			for _, f := range fs {
				ds = append(ds, f.Kind+" at "+c.Pos(f.Instr)+": "+f.Detail)
			}
			c.Violate(construct, c.Pos(ml.Range), "iteration order of a Go map can reach replicated state on the apply path: "+strings.Join(ds, "; "))
		}
	}
	if nLoops < 20 {
		c.Unresolved(fmt.Sprintf("map range loops on the apply path (found %d, expected >= 20)", nLoops))
	}
	c.Floor(40)

	// ---- R06.3 snapshot freshness
	c.Rule("R06.3", "K7")
	if fn := c.Fn("server.(*Server).Snapshot"); fn != nil {
		n := 0
		instrsOfAll(moduleReach(c, fn, 3), func(in ssa.Instruction) {
			st, ok := in.(*ssa.Store)
			if !ok {
				return
			}
			// stores into snapshot objects: fields of proto structs allocated here, or elements of slices allocated here
			var what string
			switch a := st.Addr.(type) {
			case *ssa.FieldAddr:
				o := ownerName(a)
				if !isSnapshotType(o) {
					return
				}
				what = o + "." + eng.FieldNameOf(a)
			case *ssa.IndexAddr:
				et := a.Type().(*types.Pointer).Elem()
				pt, ok := et.(*types.Pointer)
				if !ok {
					return
				}
				nt, ok := pt.Elem().(*types.Named)
				if !ok || !isSnapshotType(nt.Obj().Name()) {
					return
				}
				what = "[]*" + nt.Obj().Name() + " element"
			default:
				return
			}
			if !isPointerLike(st.Val.Type()) {
				return
			}
			n++
			live := liveAlias(c, st.Val, 0)
			c.Check(live == "", "snapshot store "+what, c.Pos(st), "the stored pointer is freshly allocated (or copied) in Snapshot", "the snapshot aliases live state ("+live+"): Persist marshals it later while Apply keeps mutating it — torn or inconsistent snapshots")
		})
		if n < 5 {
			c.Unresolved("pointer stores into the snapshot object in Snapshot")
		}
	}
	// The snapshot is a value fixed at the instant Snapshot() returns: Raft labels it with the index applied so far and
	// replays everything after that index on top of it. Anything read from live objects later, on the goroutine that
	// persists it, belongs to a later index.
	if ft := p.NamedType("server", "fsmSnapshot"); ft != nil {
		bad := liveTypeIn(ft.Underlying(), map[types.Type]bool{}, 0)
		c.Check(bad == "", "the snapshot object holds encoded data only", "-", "no field of fsmSnapshot can reach a live server object", "fsmSnapshot holds "+bad+": what Persist writes is whatever that object contains when Persist runs, not what it contained at the snapshot's Raft index")
	} else {
		c.Unresolved("type server.fsmSnapshot")
	}
	if fn := c.Fn("server.(*fsmSnapshot).Persist"); fn != nil {
		bad, where := "", fn.Pos()
		instrsOfAll(moduleReach(c, fn, 3), func(in ssa.Instruction) {
			if bad != "" {
				return
			}
			switch x := in.(type) {
			case *ssa.FieldAddr:
				if o := ownerNamed(x.X.Type()); o != nil && isLiveServerType(o) {
					bad, where = "field "+o.Obj().Name()+"."+eng.FieldNameOf(x), x.Pos()
				}
			case ssa.CallInstruction:
				if sc := x.Common().StaticCallee(); sc != nil && sc.Signature.Recv() != nil {
					if o := ownerNamed(sc.Signature.Recv().Type()); o != nil && isLiveServerType(o) {
						bad, where = "method "+o.Obj().Name()+"."+sc.Name(), x.Pos()
					}
				}
			}
		})
		c.Check(bad == "", "Persist reads no live state", p.Pos(where), "Persist and what it calls touch only the snapshot object and the sink", "Persist reads "+bad+" while Apply keeps running: changes applied after the snapshot's Raft index leak into the snapshot, and replaying those entries on restart applies them twice (a replayed leave of a member that the snapshot no longer contains makes Apply panic)")
	}
	c.Floor(7)

	// ---- R06.4 snapshot <-> restore agreement, one-sided flags
	c.Rule("R06.4", "K6")
	rulePersistedReadonlyFollowsTheLog(c)
	snapAgreement(c, "Stream", "server.(*Server).Snapshot", []string{"server.(*metadataAPI).AddStream", "server.(*Server).applyCreateStream"})
	snapAgreement(c, "ConsumerGroup", "server.(*Server).Snapshot", []string{"server.newConsumerGroup", "server.(*metadataAPI).AddConsumerGroup"})
	snapAgreement(c, "Consumer", "server.(*Server).Snapshot", []string{"server.newConsumerGroup"})
	// one-sided persisted flags of proto.Partition
	pt := p.NamedType("server/protocol", "Partition")
	if pt == nil {
		c.Unresolved("type server/protocol.Partition")
	} else {
		stt := pt.Underlying().(*types.Struct)
		for i := 0; i < stt.NumFields(); i++ {
			f := stt.Field(i)
			if bt, ok := f.Type().Underlying().(*types.Basic); !ok || bt.Kind() != types.Bool {
				continue
			}
			vals := map[string]bool{}
			nvar := 0
			pos := "-"
			for _, a := range eng.StoresToField(p, f, false) {
				if strings.HasSuffix(p.Fset.Position(a.Fn.Pos()).Filename, ".pb.go") {
					continue
				}
				st := a.Use.(*ssa.Store)
				pos = c.Pos(st)
				if k, ok := st.Val.(*ssa.Const); ok {
					vals[k.Value.String()] = true
				} else {
					nvar++
				}
			}
			if len(vals) == 0 && nvar == 0 {
				continue // never written by hand-written code
			}
			oneSided := nvar == 0 && len(vals) == 1 && vals["true"]
			c.Check(!oneSided, "persisted flag Partition."+f.Name(), pos, "the flag is written with more than one value (or a variable)", "the persisted flag Partition."+f.Name()+" is only ever stored as true: once set it is never cleared, so a snapshot taken after the condition ended restores it as still set")
		}
	}
	// persisted flags that have a run-time counterpart (a paused partition does not run its loops, a read-only one refuses
	// appends) must be re-applied when a partition object is built from its protobuf — after a snapshot restore, or when
	// pause/resume replaces the partition — otherwise metadata and behaviour disagree after a restart
	{
		var loaders []*ssa.Function
		for _, k := range []string{"server.(*metadataAPI).addPartition", "server.(*Server).newPartition"} {
			if fn := c.Fn(k); fn != nil {
				loaders = append(loaders, fn)
			}
		}
		for _, flag := range []string{"Paused", "Readonly"} {
			applied := ""
			for _, fn := range loaders {
				tests := eng.BoolEdges(fn, func(v ssa.Value) bool {
					f, _ := eng.FieldRead(v)
					return f != nil && f.Name() == flag && f.Pkg() != nil && strings.HasSuffix(f.Pkg().Path(), "server/protocol")
				}, true)
				if len(tests) == 0 {
					continue
				}
				// something is done on that edge: a call reachable from it
				q := &eng.PathQuery{Fn: fn, FromEdges: tests, Target: func(x ssa.Instruction) bool {
					_, isCall := x.(*ssa.Call)
					return isCall
				}}
				if q.Find() != nil {
					applied = ir.FuncKey(fn)
					// … whatever else is true: every successful return of the loader has looked at the flag (a test that is
					// itself behind another condition — `recovered && …` — skips the flag when a live operation, resume after
					// a pause, rebuilds the partition)
					both := append(append([]eng.Edge{}, tests...), eng.BoolEdges(fn, func(v ssa.Value) bool {
						f, _ := eng.FieldRead(v)
						return f != nil && f.Name() == flag && f.Pkg() != nil && strings.HasSuffix(f.Pkg().Path(), "server/protocol")
					}, false)...)
					for _, r := range eng.Returns(fn) {
						rv := eng.RetVals(r)
						if len(rv) == 0 || !eng.NilConst(rv[len(rv)-1]) {
							continue
						}
						g, w := eng.GuardedBy(fn, r, both)
						c.Check(g, "persisted flag Partition."+flag+" is looked at on every path through "+ir.FuncKey(fn), c.Pos(r), "the test of the flag is not behind another condition", "a partition can be built without the persisted "+strings.ToLower(flag)+" flag having been looked at (path "+w.String()+"): the flag is re-applied only under another condition (recovery), so a partition that a live operation rebuilds — resume after a pause — comes back without it while a restored server keeps it")
					}
				}
			}
			if flag == "Readonly" && applied != "" && applied != "server.(*Server).newPartition" {
				// read-only is independent of pause/resume, and resuming REPLACES the partition object (replacePartition →
				// newPartition): unless newPartition itself applies the flag, every function that constructs a partition has to
				appliedIn := func(fn *ssa.Function) bool {
					tests := eng.BoolEdges(fn, func(v ssa.Value) bool {
						f, _ := eng.FieldRead(v)
						return f != nil && f.Name() == flag && f.Pkg() != nil && strings.HasSuffix(f.Pkg().Path(), "server/protocol")
					}, true)
					if len(tests) == 0 {
						return false
					}
					q := &eng.PathQuery{Fn: fn, FromEdges: tests, Target: eng.IsCallTo("server/commitlog.CommitLog.SetReadonly", "server.partition.SetReadonly")}
					return q.Find() != nil
				}
				for _, site := range eng.Index(c.P).Sites("server.Server.newPartition") {
					caller := ir.Outermost(site.Fn)
					if !appliedIn(caller) {
						applied = ""
						c.Violate("persisted flag Partition.Readonly is re-applied on every construction path", c.Pos(site.Instr), ir.FuncKey(caller)+" builds a partition object through newPartition without making its log read-only when the metadata says so (newPartition itself does not either): a read-only partition that is paused and resumed accepts appends on the servers that applied the operations live and refuses them on a server restored from a snapshot")
					}
				}
				if applied == "" {
					continue
				}
			}
			c.Check(applied != "", "persisted flag Partition."+flag+" is re-applied when a partition is loaded", "-", "tested in "+applied+" and acted upon", "no code that builds a partition from its protobuf looks at Partition."+flag+": after a snapshot restore (or a pause/resume, which replaces the partition object) the metadata says "+strings.ToLower(flag)+" but the partition does not behave so")
		}
	}
	// what Snapshot copies is serialised from the live protobuf at that moment: partition.Marshal returns the bytes of a
	// Partition.Marshal() made in the same call, never bytes kept from an earlier one (a cache keyed by the epoch misses the
	// pause / read-only flags, which do not move the epoch)
	if fn := c.Fn("server.(*partition).Marshal"); fn != nil {
		n, ok := allReturns(fn, nil, func(rv []ssa.Value) bool {
			return len(rv) == 1 && eng.Call(0, "server/protocol.Partition.Marshal")(rv[0])
		})
		c.Check(n >= 1 && ok, "partition.Marshal serialises the current state on every call", c.P.Pos(fn.Pos()), "every return is the result of p.Partition.Marshal() of this call", "partition.Marshal can return bytes that were serialised earlier: a snapshot records flags (paused, read-only) as they were at the previous snapshot")
	}
	c.Floor(9)

	// what a restore recomputes from (members, subscriptions) must equal what the incremental updates left in memory
	c.Rule("R12.5", "K2")
	ruleGroupBookkeeping(c)
	c.Floor(25)
	c.Rule("R07.9", "K2")
	ruleISRPersisted(c)
	c.Floor(2)
	// a snapshot is installed streams first: building a group balances its members over the partitions of their streams,
	// and a stream that is not there yet has none
	c.Rule("R06.8", "K2")
	ruleRestoreOrder(c)
	c.Floor(1)

	// ---- R06.5 idempotency / epoch stamping
	c.Rule("R06.5", "K1")
	if fn := c.Fn("server.(*metadataAPI).ChangeGroupCoordinator"); fn != nil {
		sc := eng.CallsIn(fn, "server.consumerGroup.SetCoordinator")
		if len(sc) != 1 {
			c.Unresolved("SetCoordinator call in ChangeGroupCoordinator")
		} else {
			guard := eng.CmpEdges(fn, eng.Call(1, "server.consumerGroup.GetCoordinator"), eng.Param("newEpoch"), eng.LT)
			g, w := eng.GuardedBy(fn, sc[0].(ssa.Instruction), guard)
			c.Check(g && len(guard) > 0, "coordinator change idempotent", c.Pos(sc[0].(ssa.Instruction)), "SetCoordinator only when the group's epoch < newEpoch", "a replayed coordinator change is applied again (path "+w.String()+")")
		}
	}
	ge := p.Field("server", "consumerGroup", "epoch")
	for _, a := range eng.StoresToField(p, ge, true) {
		st := a.Use.(*ssa.Store)
		key := ir.FuncKey(a.Fn)
		guard := eng.CmpEdges(a.Fn, eng.Same(st.Val), eng.Load(ge, nil), eng.GE)
		g, w := eng.GuardedBy(a.Fn, st, guard)
		c.Check(g && len(guard) > 0, "store to consumerGroup.epoch in "+key, c.Pos(st), "guarded by ¬(epoch < c.epoch)", "the group epoch can be stored without a not-smaller guard (path "+w.String()+")")
	}
	if fn := c.Fn("server.(*Server).Apply"); fn != nil {
		ap := eng.CallsIn(fn, "server.Server.apply")
		ok := len(ap) == 1 && eng.LoadNamed("Index", eng.Param("l"))(ap[0].Common().Args[2])
		pos := "-"
		if len(ap) > 0 {
			pos = c.Pos(ap[0].(ssa.Instruction))
		}
		c.Check(ok, "epoch = Raft index", pos, "apply(log, l.Index, recovered)", "the epoch handed to apply is not the Raft index of the entry")
	}
	if fn := c.Fn("server.(*Server).apply"); fn != nil {
		eng.Instrs(fn, func(in ssa.Instruction) {
			call, ok := in.(*ssa.Call)
			if !ok {
				return
			}
			sc := call.Call.StaticCallee()
			if sc == nil || !strings.HasPrefix(sc.Name(), "apply") {
				return
			}
			for i, prm := range sc.Params {
				if prm.Name() == "epoch" {
					okv := eng.Param("index")(call.Call.Args[i])
					c.Check(okv, "epoch argument of "+sc.Name(), c.Pos(call), "the Raft index", "the epoch passed to "+sc.Name()+" is "+eng.Describe(call.Call.Args[i])+", not the Raft index")
				}
			}
		})
	}
	ruleEpochStamping(c)
	c.Floor(19)

	// ---- R06.7 acquire/release pairing
	c.Rule("R06.7", "K2")
	ruleLockPairing(c, "server/metadata.go", "server/stream.go", "server/fsm.go")
	c.Floor(30)

	// ---- R06.6 replay safety
	c.Rule("R06.6", "K2")
	if fn := c.Fn("server.(*metadataAPI).RemoveStream"); fn != nil {
		rec := eng.BoolEdges(fn, eng.Param("recovered"), true)
		q := &eng.PathQuery{Fn: fn, FromEdges: rec, Target: eng.IsCallTo("server.metadataAPI.deleteStream", "server.metadataAPI.deleteStreamData", "server.stream.Delete", "os.RemoveAll")}
		w := q.Find()
		c.Check(w == nil && len(rec) > 0, "replayed delete only tombstones", p.Pos(fn.Pos()), "on the recovered edge deleteStream / os.RemoveAll is unreachable", "a delete replayed during recovery can remove stream data (path "+w.String()+")")
		notRec := eng.BoolEdges(fn, eng.Param("recovered"), false)
		for _, t := range eng.CallsIn(fn, "server.metadataAPI.deleteStream") {
			g, _ := eng.GuardedBy(fn, t.(ssa.Instruction), notRec)
			c.Check(g, "delete only when not recovering", c.Pos(t.(ssa.Instruction)), "deleteStream is reached only with recovered == false", "deleteStream reachable while recovering")
		}
		for _, t := range eng.CallsIn(fn, "server.stream.Tombstone") {
			g, _ := eng.GuardedBy(fn, t.(ssa.Instruction), rec)
			c.Check(g, "tombstone when recovering", c.Pos(t.(ssa.Instruction)), "Tombstone is reached only with recovered == true", "Tombstone reachable outside recovery")
		}
	}
	if fn := c.Fn("server.(*Server).finishedRecovery"); fn != nil {
		tomb := eng.BoolEdges(fn, eng.Call(-1, "server.stream.IsTombstoned"), true)
		for _, t := range eng.CallsIn(fn, "server.metadataAPI.RemoveTombstonedStream") {
			g, w := eng.GuardedBy(fn, t.(ssa.Instruction), tomb)
			c.Check(g && len(tomb) > 0, "purge only tombstoned streams", c.Pos(t.(ssa.Instruction)), "RemoveTombstonedStream only under IsTombstoned()", "a stream that is not tombstoned can be purged after replay (path "+w.String()+")")
		}
	}
	if fn := c.Fn("server.(*metadataAPI).RemoveTombstonedStream"); fn != nil {
		tomb := eng.BoolEdges(fn, eng.Call(-1, "server.stream.IsTombstoned"), true)
		for _, t := range eng.CallsIn(fn, "server.metadataAPI.deleteStream") {
			g, _ := eng.GuardedBy(fn, t.(ssa.Instruction), tomb)
			c.Check(g && len(tomb) > 0, "RemoveTombstonedStream re-checks", c.Pos(t.(ssa.Instruction)), "deleteStream only when IsTombstoned()", "RemoveTombstonedStream deletes without checking the tombstone")
		}
	}
	if fn := c.Fn("server.(*metadataAPI).AddStream"); fn != nil {
		// the un-tombstone branch must not delete data
		tomb := eng.BoolEdges(fn, eng.Call(-1, "server.stream.IsTombstoned"), true)
		q := &eng.PathQuery{Fn: fn, FromEdges: tomb, Target: eng.IsCallTo("server.stream.Delete", "server.metadataAPI.deleteStream", "server.metadataAPI.deleteStreamData", "os.RemoveAll")}
		w := q.Find()
		c.Check(w == nil && len(tomb) > 0, "un-tombstone keeps the data", p.Pos(fn.Pos()), "from the tombstoned edge only Close and removeStream are reachable, never Delete", "re-creating a tombstoned stream during replay deletes its data (path "+w.String()+")")
		// an existing, not tombstoned stream is refused
		notTomb := eng.BoolEdges(fn, eng.Call(-1, "server.stream.IsTombstoned"), false)
		q2 := &eng.PathQuery{Fn: fn, FromEdges: notTomb, Target: eng.IsCallTo("server.newStream")}
		w2 := q2.Find()
		c.Check(w2 == nil, "existing stream is not replaced", p.Pos(fn.Pos()), "from the not-tombstoned edge newStream is unreachable", "a live stream can be replaced by a replayed create (path "+w2.String()+")")
	}
	if fn := c.Fn("server.(*metadataAPI).AddStream"); fn != nil {
		// the stream that a create yields is always built from the logged operation — also when it replaces a tombstoned
		// incarnation during replay: re-using the old object would keep its subject, partitions, leaders, ISRs, epochs and flags
		n, ok := 0, true
		for _, r := range eng.Returns(fn) {
			rv := eng.RetVals(r)
			if len(rv) != 2 || !eng.NilConst(rv[1]) {
				continue
			}
			n++
			mk := eng.AsCall(rv[0])
			if mk == nil || eng.CalleeRef(&mk.Call) != "server.newStream" {
				ok = false
				continue
			}
			a := mk.Call.Args
			if !(eng.LoadNamed("Name", eng.Param("protoStream"))(a[0]) && eng.LoadNamed("Subject", eng.Param("protoStream"))(a[1])) {
				ok = false
			}
		}
		c.Check(ok && n > 0, "a created stream is built from the logged operation", p.Pos(fn.Pos()), "every successful return yields newStream(protoStream.Name, protoStream.Subject, …) of this call", "AddStream can succeed with a stream object that was not built from the operation being applied (e.g. the tombstoned incarnation re-used): after a replayed delete + create the server keeps the old subject, partitions, leaders, ISRs and epochs")
		// … and it is what the table holds
		stored := false
		stF := p.Field("server", "metadataAPI", "streams")
		eng.Instrs(fn, func(in ssa.Instruction) {
			if mu, isMU := in.(*ssa.MapUpdate); isMU && eng.Load(stF, nil)(mu.Map) {
				if mk := eng.AsCall(mu.Value); mk != nil && eng.CalleeRef(&mk.Call) == "server.newStream" && eng.LoadNamed("Name", eng.Param("protoStream"))(mu.Key) {
					stored = true
				}
			}
		})
		c.Check(stored, "the new stream is registered under its name", p.Pos(fn.Pos()), "m.streams[protoStream.Name] = newStream(…)", "AddStream does not register the stream it built under protoStream.Name")
	}
	ruleCreatedStreamUsesLoggedConfig(c)
	ruleSnapshotSkipsTombstonedStreams(c)
	ruleRestoreDeletesStreamsMissingFromSnapshot(c)
	ruleRestoreAlwaysResets(c)
	// the tombstone mark is only ever set; a tombstoned stream object is never revived in place
	if tf := p.Field("server", "stream", "tombstone"); tf != nil {
		n := 0
		for _, fn := range p.Funcs {
			for _, st := range eng.FieldStores(fn, func(fa *ssa.FieldAddr) bool { return fieldIs(fa, tf) }) {
				n++
				k, isC := st.Val.(*ssa.Const)
				okT := isC && k.Value != nil && k.Value.String() == "true"
				c.Check(okT, "store to stream.tombstone in "+ir.FuncKey(fn), c.Pos(st), "only ever set to true", "stream.tombstone is cleared in place: the pre-delete incarnation of a stream (old partitions, leaders, ISRs, epochs, flags) comes back to life during replay instead of being replaced by the re-created one")
			}
		}
		if n == 0 {
			c.Unresolved("stores to stream.tombstone")
		}
	}
	if fn := c.Fn("server.(*Server).Apply"); fn != nil {
		// finishedRecovery deferred exactly on l.Index == latestRecoveredLog.Index
		n := 0
		eng.Instrs(fn, func(in ssa.Instruction) {
			d, ok := in.(*ssa.Defer)
			if !ok {
				return
			}
			mc, ok := d.Call.Value.(*ssa.MakeClosure)
			if !ok || len(eng.CallsIn(mc.Fn.(*ssa.Function), "server.Server.finishedRecovery")) == 0 {
				return
			}
			n++
			eq := eng.CmpEdges(fn, eng.LoadNamed("Index", eng.Param("l")), eng.LoadNamed("Index", eng.LoadNamed("latestRecoveredLog", nil)), eng.EQ)
			g, w := eng.GuardedBy(fn, d, eq)
			c.Check(g && len(eq) > 0, "recovery finishes at the last recovered entry", c.Pos(d), "finishedRecovery is deferred only on l.Index == latestRecoveredLog.Index", "finishedRecovery can run before the last recovered entry was applied (path "+w.String()+")")
		})
		if n == 0 {
			c.Violate("recovery finishes at the last recovered entry", p.Pos(fn.Pos()), "Apply never calls finishedRecovery: recovered streams are never started and tombstoned ones never purged")
		}
		// recovered flag: l.Index <= latestRecoveredLog.Index
		ap := eng.CallsIn(fn, "server.Server.apply")
		if len(ap) == 1 {
			rv := ap[0].Common().Args[3]
			okRec := false
			if ph, ok := rv.(*ssa.Phi); ok {
				okRec = true
				le := eng.CmpEdges(fn, eng.LoadNamed("Index", eng.Param("l")), eng.LoadNamed("Index", eng.LoadNamed("latestRecoveredLog", nil)), eng.LE)
				isLE := eng.RelVal(eng.LoadNamed("Index", eng.Param("l")), eng.LoadNamed("Index", eng.LoadNamed("latestRecoveredLog", nil)), eng.LE)
				for i, e := range ph.Edges {
					k, isC := e.(*ssa.Const)
					if !isC {
						// `recovered := latest != nil && l.Index <= latest.Index`: the operand IS the comparison
						if !isLE(e) {
							okRec = false
						}
						continue
					}
					if k.Value.String() == "true" {
						pred := ph.Block().Preds[i]
						g, _ := eng.GuardedBy(fn, pred.Instrs[len(pred.Instrs)-1], le)
						if !g {
							okRec = false
						}
					}
				}
			}
			c.Check(okRec, "recovered flag", c.Pos(ap[0].(ssa.Instruction)), "recovered is true only when l.Index <= latestRecoveredLog.Index", "the recovered flag handed to apply is not derived from l.Index <= latestRecoveredLog.Index")
		}
	}
	c.Floor(9)
	// ---- R06.6 extension: a replayed stream deletion notifies the groups at its own log position
	c.Rule("R06.6", "K2")
	ruleReplayedDeleteNotifiesGroups(c)

	// ---- rules whose current findings are recorded as known (see knownrules.go)
	c.Rule("R06.2", "K8")
	ruleResumeAllOnlyInFSM(c)
	c.Rule("R06.4", "K6")
	ruleSnapshotCarriesAssignments(c)
	c.Rule("R06.8", "K2")
	ruleRestoredPartitionsAreStarted(c)

}

func allCollect(fs []eng.OrderFinding) bool {
	for _, f := range fs {
		if f.Kind != "collect" {
			return false
		}
	}
	return true
}

func funcValue(v ssa.Value) *ssa.Function {
	switch x := v.(type) {
	case *ssa.Function:
		return x
	case *ssa.MakeClosure:
		return x.Fn.(*ssa.Function)
	case *ssa.MakeInterface:
		return funcValue(x.X)
	}
	return nil
}

func isSnapshotType(n string) bool {
	switch n {
	case "MetadataSnapshot", "Stream", "Partition", "ConsumerGroup", "Consumer", "StreamConfig":
		return true
	}
	return false
}

func isPointerLike(t types.Type) bool {
	switch t.Underlying().(type) {
	case *types.Pointer, *types.Map:
		return true
	}
	return false
}

// liveAlias: "" when v is freshly allocated in this function (or a copy); otherwise a description of the live source.
func liveAlias(c *eng.Ctx, v ssa.Value, depth int) string {
	if depth > 4 {
		return "unknown (depth)"
	}
	switch x := v.(type) {
	case *ssa.Alloc:
		// a fresh object filled by copying a live struct BY VALUE shares that struct's slices, maps and pointers
		if x.Referrers() != nil {
			for _, r := range *x.Referrers() {
				st, ok := r.(*ssa.Store)
				if !ok || st.Addr != ssa.Value(x) {
					continue
				}
				ld, ok := st.Val.(*ssa.UnOp)
				if !ok || ld.Op != token.MUL {
					continue
				}
				if _, fresh := ld.X.(*ssa.Alloc); fresh {
					continue
				}
				if stt, isStruct := ld.Type().Underlying().(*types.Struct); isStruct && hasReferenceField(stt) {
					return "a by-value copy of " + eng.Describe(ld.X) + ": the copy shares the slices / maps / pointers of the live object"
				}
			}
		}
		return ""
	case *ssa.MakeSlice, *ssa.MakeMap:
		return ""
	case *ssa.Const:
		return ""
	case *ssa.Phi:
		for _, e := range x.Edges {
			if s := liveAlias(c, e, depth+1); s != "" {
				return s
			}
		}
		return ""
	case *ssa.UnOp:
		if x.Op == token.MUL {
			if a, ok := x.X.(*ssa.Alloc); ok {
				// load of a local cell: look at what was stored
				for _, r := range *a.Referrers() {
					if st, ok := r.(*ssa.Store); ok && st.Addr == a {
						if s := liveAlias(c, st.Val, depth+1); s != "" {
							return s
						}
					}
				}
				return ""
			}
			if f, b := eng.FieldRead(x); f != nil {
				if immutableTarget(c, x.Type()) {
					return "" // the object pointed to is never mutated after construction: sharing it is safe
				}
				return "field " + f.Name() + " of " + eng.Describe(b) + " loaded from a live object"
			}
			return "load of " + eng.Describe(x.X)
		}
	case *ssa.Call:
		sc := x.Call.StaticCallee()
		ref := eng.CalleeRef(&x.Call)
		if sc != nil && c.P.IsModuleFunc(sc) {
			// what does the callee return?
			for _, r := range eng.Returns(sc) {
				for _, res := range eng.RetVals(r) {
					if !isPointerLike(res.Type()) {
						continue
					}
					if s := liveAlias(c, res, depth+1); s != "" {
						return "result of " + ref + " = " + s
					}
				}
			}
			return ""
		}
		if strings.HasSuffix(ref, "proto.Clone") {
			return ""
		}
		return ""
	case *ssa.TypeAssert:
		return liveAlias(c, x.X, depth+1)
	case *ssa.ChangeType:
		return liveAlias(c, x.X, depth+1)
	case *ssa.Extract:
		return liveAlias(c, x.Tuple, depth+1)
	case *ssa.Parameter:
		return "parameter " + x.Name()
	case *ssa.Lookup, *ssa.Next:
		return "element of a live collection"
	}
	return ""
}

// ndLeaf: backward slice to nondeterministic sources.
func ndLeaf(v ssa.Value, nd map[string]bool, depth int, seen map[ssa.Value]bool) string {
	if v == nil || depth > 6 || seen[v] {
		return ""
	}
	seen[v] = true
	switch x := v.(type) {
	case *ssa.Call:
		ref := eng.CalleeRef(&x.Call)
		if nd[ref] {
			return ref + "()"
		}
		// methods on time values derived from Now
		for _, a := range x.Call.Args {
			if s := ndLeaf(a, nd, depth+1, seen); s != "" && strings.HasPrefix(ref, "time.") {
				return s
			}
		}
		if sc := x.Call.StaticCallee(); sc != nil && sc.Blocks != nil && sc.Pkg != nil && ir.InModule(sc.Pkg.Pkg.Path()) {
			for _, r := range eng.Returns(sc) {
				for _, res := range eng.RetVals(r) {
					if s := ndLeaf(res, nd, depth+1, seen); s != "" {
						return s
					}
				}
			}
		}
	case *ssa.BinOp:
		if s := ndLeaf(x.X, nd, depth+1, seen); s != "" {
			return s
		}
		return ndLeaf(x.Y, nd, depth+1, seen)
	case *ssa.Convert:
		return ndLeaf(x.X, nd, depth+1, seen)
	case *ssa.ChangeType:
		return ndLeaf(x.X, nd, depth+1, seen)
	case *ssa.Extract:
		return ndLeaf(x.Tuple, nd, depth+1, seen)
	case *ssa.Phi:
		for _, e := range x.Edges {
			if s := ndLeaf(e, nd, depth+1, seen); s != "" {
				return s
			}
		}
	case *ssa.UnOp:
		if f, _ := eng.FieldRead(x); f != nil && f.Name() == "ServerID" {
			return "the server's own id (config.Clustering.ServerID)"
		}
		if a, ok := x.X.(*ssa.Alloc); ok {
			for _, r := range *a.Referrers() {
				if st, ok := r.(*ssa.Store); ok && st.Addr == a {
					if s := ndLeaf(st.Val, nd, depth+1, seen); s != "" {
						return s
					}
				}
			}
		}
	}
	return ""
}

// snapAgreement: fields of proto type T written in the snapshot writer equal the fields read on the restore path.
func snapAgreement(c *eng.Ctx, typ string, writer string, readers []string) {
	p := c.P
	nt := p.NamedType("server/protocol", typ)
	if nt == nil {
		c.Unresolved("type server/protocol." + typ)
		return
	}
	written := map[string]bool{}
	if fn := c.Fn(writer); fn != nil {
		fns := moduleReach(c, fn, 3)
		if pf := c.FnQuiet("server.(*fsmSnapshot).Persist"); pf != nil {
			fns = append(fns, moduleReach(c, pf, 3)...) // which fields agree is independent of when they are written (R06.3 decides that)
		}
		instrsOfAll(fns, func(in ssa.Instruction) {
			if st, ok := in.(*ssa.Store); ok {
				if fa, ok := st.Addr.(*ssa.FieldAddr); ok && ownerName(fa) == typ {
					if _, ok := fa.X.(*ssa.Alloc); ok {
						written[eng.FieldNameOf(fa)] = true
					}
				}
			}
		})
	}
	read := map[string]bool{}
	for _, rk := range readers {
		fn := c.Fn(rk)
		if fn == nil {
			continue
		}
		eng.Instrs(fn, func(in ssa.Instruction) {
			switch x := in.(type) {
			case *ssa.FieldAddr:
				if ownerName(x) == typ {
					read[eng.FieldNameOf(x)] = true
				}
			case *ssa.Call:
				if sc := x.Call.StaticCallee(); sc != nil && sc.Signature.Recv() != nil && strings.HasPrefix(sc.Name(), "Get") {
					rt := sc.Signature.Recv().Type()
					if pt, ok := rt.(*types.Pointer); ok {
						if n, ok := pt.Elem().(*types.Named); ok && n.Obj().Name() == typ && n.Obj().Pkg().Path() == nt.Obj().Pkg().Path() {
							read[strings.TrimPrefix(sc.Name(), "Get")] = true
						}
					}
				}
			}
		})
	}
	st := nt.Underlying().(*types.Struct)
	for i := 0; i < st.NumFields(); i++ {
		f := st.Field(i).Name()
		if strings.HasPrefix(f, "XXX_") {
			continue
		}
		w, r := written[f], read[f]
		if !w && !r {
			continue
		}
		bad := ""
		if w && !r {
			bad = "written into the snapshot but never read when restoring: the value is lost on restore"
		} else if r && !w {
			bad = "read when restoring but never written into the snapshot: restore sees the zero value"
		}
		c.Check(bad == "", "snapshot field "+typ+"."+f, "-", "written by Snapshot and read on the restore path", typ+"."+f+" is "+bad)
	}
}

var immutableMemo = map[string]bool{}

// ResetCaches clears memoised facts (used between mutants in the audit worker).
func ResetCaches() { immutableMemo = map[string]bool{} }

// helpers that mutate an object only while its constructor (the value) is still building it
var constructionHelpers = map[string]string{
	"server.applyReservedStreamOverrides": "server.newStream",
}

// functions that complete the operation they are about to propose (the value names the parameter that holds it): the
// request object is not state — every server, the proposer included, builds its streams from the decoded log entry
var proposalBuilders = map[string]string{
	"server.(*metadataAPI).CreateStream": "req",
}

// rootsAtParam follows field reads / addresses from v down to a parameter of the given name.
func rootsAtParam(v ssa.Value, name string) bool {
	for i := 0; i < 8 && v != nil; i++ {
		switch x := v.(type) {
		case *ssa.Parameter:
			return x.Name() == name
		case *ssa.FieldAddr:
			v = x.X
		case *ssa.Field:
			v = x.X
		case *ssa.UnOp:
			v = x.X
		case *ssa.Phi:
			for _, e := range x.Edges {
				if !rootsAtParam(e, name) {
					if _, fresh := e.(*ssa.Alloc); !fresh {
						return false
					}
				}
			}
			return true
		default:
			return false
		}
	}
	return false
}

// immutableTarget: t is a pointer to a named struct none of whose fields is stored to in hand-written module code except
// on objects still under construction (fresh allocation in the same function).
func immutableTarget(c *eng.Ctx, t types.Type) bool {
	pt, ok := t.Underlying().(*types.Pointer)
	if !ok {
		return false
	}
	nt, ok := pt.Elem().(*types.Named)
	if !ok {
		return false
	}
	st, ok := nt.Underlying().(*types.Struct)
	if !ok {
		return false
	}
	key := nt.String()
	if v, ok := immutableMemo[key]; ok {
		return v
	}
	imm := true
	for i := 0; i < st.NumFields() && imm; i++ {
		for _, a := range eng.StoresToField(c.P, st.Field(i), true) {
			if strings.HasSuffix(c.P.Fset.Position(a.Fn.Pos()).Filename, ".pb.go") {
				continue
			}
			if param, ok := proposalBuilders[ir.FuncKey(a.Fn)]; ok && rootsAtParam(a.Base, param) {
				continue // the operation that is about to be proposed is still being completed; no stream holds it yet
			}
			if ctor, ok := constructionHelpers[ir.FuncKey(a.Fn)]; ok {
				callers := eng.Index(c.P).OuterCallers(strings.Replace(strings.Replace(ir.FuncKey(a.Fn), "(*", "", 1), ")", "", 1))
				if len(callers) == 1 && callers[0] == ctor {
					continue // mutation of an object that is still under construction
				}
			}
			imm = false
			break
		}
	}
	immutableMemo[key] = imm
	return imm
}

// moduleReach lists root and the module functions it reaches through static calls and closures, up to depth call levels.
func moduleReach(c *eng.Ctx, root *ssa.Function, depth int) []*ssa.Function {
	seen := map[*ssa.Function]bool{root: true}
	out := []*ssa.Function{root}
	frontier := []*ssa.Function{root}
	for d := 0; d < depth && len(frontier) > 0; d++ {
		var next []*ssa.Function
		add := func(f *ssa.Function) {
			if f == nil || seen[f] || !c.P.IsModuleFunc(f) || len(f.Blocks) == 0 {
				return
			}
			seen[f] = true
			out = append(out, f)
			next = append(next, f)
		}
		for _, f := range frontier {
			for _, a := range f.AnonFuncs {
				add(a)
			}
			eng.Instrs(f, func(in ssa.Instruction) {
				if ci, ok := in.(ssa.CallInstruction); ok {
					add(ci.Common().StaticCallee())
				}
			})
		}
		frontier = next
	}
	return out
}

func instrsOfAll(fns []*ssa.Function, f func(ssa.Instruction)) {
	for _, fn := range fns {
		eng.Instrs(fn, f)
	}
}

func ownerNamed(t types.Type) *types.Named {
	if pt, ok := t.Underlying().(*types.Pointer); ok {
		t = pt.Elem()
	}
	n, _ := t.(*types.Named)
	return n
}

// isLiveServerType: a struct type of package server that represents mutable cluster state (not the snapshot object itself).
func isLiveServerType(n *types.Named) bool {
	if n.Obj().Pkg() == nil || ir.Short(n.Obj().Pkg().Path()) != "server" || !ir.InModule(n.Obj().Pkg().Path()) {
		return false
	}
	if n.Obj().Name() == "fsmSnapshot" {
		return false
	}
	_, isStruct := n.Underlying().(*types.Struct)
	return isStruct
}

// liveTypeIn reports a live server type reachable from t through pointers, slices, arrays, maps and struct fields of
// non-protobuf types.
func liveTypeIn(t types.Type, seen map[types.Type]bool, depth int) string {
	if depth > 6 || seen[t] {
		return ""
	}
	seen[t] = true
	switch x := t.(type) {
	case *types.Named:
		if isLiveServerType(x) {
			return "a " + x.Obj().Name()
		}
		if x.Obj().Pkg() != nil && ir.InModule(x.Obj().Pkg().Path()) && ir.Short(x.Obj().Pkg().Path()) == "server" {
			return liveTypeIn(x.Underlying(), seen, depth+1)
		}
		return "" // protobuf and library types are data
	case *types.Pointer:
		return liveTypeIn(x.Elem(), seen, depth+1)
	case *types.Slice:
		return liveTypeIn(x.Elem(), seen, depth+1)
	case *types.Array:
		return liveTypeIn(x.Elem(), seen, depth+1)
	case *types.Map:
		if s := liveTypeIn(x.Key(), seen, depth+1); s != "" {
			return s
		}
		return liveTypeIn(x.Elem(), seen, depth+1)
	case *types.Struct:
		for i := 0; i < x.NumFields(); i++ {
			if s := liveTypeIn(x.Field(i).Type(), seen, depth+1); s != "" {
				return s
			}
		}
	}
	return ""
}

// ruleRestoreOrder (R06.8, shared with C12): Restore re-creates every stream before any consumer group.
func ruleRestoreOrder(c *eng.Ctx) {
	fn := c.Fn("server.(*Server).Restore")
	if fn == nil {
		return
	}
	st := eng.CallsIn(fn, "server.Server.applyCreateStream")
	gr := eng.CallsIn(fn, "server.Server.applyCreateConsumerGroup")
	if len(st) != 1 || len(gr) != 1 {
		c.Unresolved("applyCreateStream / applyCreateConsumerGroup in Server.Restore")
		return
	}
	q := &eng.PathQuery{Fn: fn, FromAfter: []ssa.Instruction{gr[0].(ssa.Instruction)}, Target: func(x ssa.Instruction) bool { return x == st[0].(ssa.Instruction) }}
	w := q.Find()
	c.Check(w == nil, "a snapshot restores streams before consumer groups", c.Pos(gr[0].(ssa.Instruction)), "no stream is created after a group was", "Restore can create a consumer group before the streams of the snapshot exist (path "+w.String()+"): newConsumerGroup balances its members over getStreamPartitions(stream), which is 0 for a stream that is not there yet, so after a snapshot install every member is subscribed but no partition has an owner")
}

// hasReferenceField: does the struct hold a slice, map or pointer (so that a by-value copy aliases memory)?
func hasReferenceField(st *types.Struct) bool {
	for i := 0; i < st.NumFields(); i++ {
		switch st.Field(i).Type().Underlying().(type) {
		case *types.Slice, *types.Map, *types.Pointer:
			return true
		}
	}
	return false
}
