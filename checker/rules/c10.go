package rules

import (
	"go/token"
	"go/types"
	"strings"

	"golang.org/x/tools/go/ssa"

	"lbcheck/eng"
)

func init() {
	register(&Property{ID: "C10", Level: "other", Run: runC10,
		Technique:   "static analysis: exhaustive enum tables with per-case provenance, error→status table agreement, ordering-vs-equality termination tests, shared unit-discipline slice (go/ssa)",
		LevelText:   "Structural clauses decided for all paths: every start and stop position constant has a case whose offset comes from the documented source, unknown values are refused; every sentinel error the readers can return is mapped; an inverted range is refused before a reader exists; the loop sends a message before testing the stop condition; a loop that terminates by comparing the offset just read with a target uses an ordering, not equality (offsets are sparse after compaction); the reverse reader clamps its start to the high watermark; index slots are never derived from offsets. The end of a reverse subscription is reported as ResourceExhausted, the range test and the past-the-stop test exist for each direction, the read-only stop offset is applied only when reading forward, and the timestamp lookups have the comparison shapes (and polarities) their answers depend on. That the delivered set equals the requested range on every log shape is not decided.",
		LevelNote:   "Trusted: go/ssa; the commit log's lookup functions (decided separately under C01).",
		DesignRef:   "DESIGN.md §4 C10",
		Explanation: "R10.8 also (round 8): a reverse timestamp start is handed on as resolved (-1 included) and never runs through the empty-log clamp. R01.14 / R01.8 (shared, round 6). R10.3 also: a requested stop offset is never taken for the sentinel (F95); R10.8 also: timestamp positions follow the direction (F96); R10.9 also: the start offset is capped only past the next offset; R10.2 also: a re-positioned reverse reader ends only at the first segment; R03.4 / R03.7 (shared, F98 / F101); R08.9 (shared, K17). R03.14 / R03.15 (shared, F92 / K16). R10.10 a stop position on a log emptied by retention ends the subscription (F83); R03.13 (shared) no append after the readers were told the log is read-only (F86); R09.9 (shared) readers are not positioned in segments marked deleted (F87); R06.4 (shared) read-only re-applied at load. R14.11 (shared) a stored subject that is not valid UTF-8 does not end the subscription (F71). R10.1 position tables, R10.2 error→status table, R10.3 inverted range refused / send-before-stop, R01.5 + R03.5 (shared), R10.5 termination on sparse logs, R10.6 reverse start clamp, R03.9 (shared) end-of-log only at the current watermark, R01.8 / R01.9 (shared) log shapes and reader provenance, R10.7 timestamp lookup falls through to the next segment whenever it exists. R10.2 the reverse reader's end is reported as ResourceExhausted; R10.3 is direction-aware (range test and past-the-stop test per direction, read-only stop only when reading forward); R10.8 timestamp lookup shapes and polarity; R14.6 (shared) reader sentinels arrive unwrapped; R03.10 (shared) Read fills or fails. R10.9 a reader parked above the watermark records and resumes at the requested offset; R10.3 an implicit read-only stop before the start is not an argument error; R08.6 (shared) reads of a segment replaced by compaction or deleted by retention ask the reader to re-position, forward and reverse; R10.2 a cancelled subscription is not reported as the end, a reverse subscription with nothing committed ends at once; R10.8 equal timestamps: latest = offset before the first entry strictly after, earliest steps back over segments that begin at the timestamp. NOT decided: delivered set = requested range for every log shape; timestamp lookups on logs whose timestamps are not monotone.",
	})
}

func enumConsts(p *types.Package, typ string) []*types.Const {
	var out []*types.Const
	o := p.Scope().Lookup(typ)
	if o == nil {
		return nil
	}
	for _, n := range p.Scope().Names() {
		if k, ok := p.Scope().Lookup(n).(*types.Const); ok && types.Identical(k.Type(), o.Type()) {
			out = append(out, k)
		}
	}
	return out
}

// caseEdges: edges of fn on which the switch tag equals the given enum constant.
func caseEdges(fn *ssa.Function, tag eng.VM, k *types.Const) []eng.Edge {
	return eng.CmpEdges(fn, tag, eng.ConstObj(k), eng.EQ)
}

func runC10(c *eng.Ctx) {
	c.Rule("R10.10", "K2")
	ruleEmptinessIsReadAfterTheLogEnd(c)
	c.Rule("R10.10", "K1")
	ruleStopOnAnEmptiedLogEnds(c)
	c.Rule("R08.6", "K4")
	ruleReverseScanRecoversFromDeleted(c)
	c.Rule("R01.6", "K1")
	ruleSearchPredicates(c)
	c.Rule("R06.4", "K2")
	ruleReadonlyReappliedUnconditionally(c)
	c.Rule("R03.12", "K5")
	ruleReadAtAnswersFromTheFile(c)
	c.Rule("R03.13", "K1")
	ruleAppendRechecksReadonlyUnderTheLock(c)
	c.Rule("R03.14", "K1")
	ruleNothingCommittedMeansWait(c)
	c.Rule("R03.15", "K3")
	ruleAppendsWakeParkedCommittedReaders(c)
	c.Rule("R10.9", "K1")
	ruleCommittedReaderCapsOnlyPastTheEnd(c)
	c.Rule("R10.2", "K1")
	ruleBeginningOfLogOnlyAtTheFirstSegment(c)
	c.Rule("R10.3", "K1")
	ruleClientStopOffsetIsNeverTheSentinel(c)
	c.Rule("R10.8", "K1")
	ruleTimestampPositionsFollowTheDirection(c)
	ruleReverseStartIsNotClamped(c)
	ruleResolvedPositionIsTheOneReturned(c)
	c.Rule("R10.2", "K1")
	ruleReverseReaderIsNotCreatedBelowZero(c)
	c.Rule("R03.4", "K1")
	ruleReplacedWatermarkSegmentReinitialises(c)
	c.Rule("R03.7", "K1")
	ruleReadonlyVerdictIsRechecked(c)
	c.Rule("R08.9", "K3")
	ruleCompactedSegmentsArePublishedAsTheyAreReplaced(c)
	c.Rule("R08.10", "K4")
	ruleSegmentListsAreNeverRewrittenInPlace(c)
	c.Rule("R01.8", "K5")
	ruleNoEntryAtOrBelowIsMinusOne(c)
	c.Rule("R01.14", "K5")
	ruleListIsFetchedAfterTheWait(c)
	c.Rule("R09.9", "K5")
	ruleReadPathSkipsDeletedSegments(c)
	p := c.P
	var apiTypes *types.Package
	for _, sp := range p.SSA.AllPackages() {
		if sp.Pkg.Path() == apiPkg {
			apiTypes = sp.Pkg
		}
	}
	if apiTypes == nil {
		c.Rule("R10.1", "K6")
		c.Unresolved("package " + apiPkg)
		return
	}
	logCall := func(name string) eng.VM { return eng.Call(-1, cl+"CommitLog."+name) }

	// ---- R10.1 position tables
	c.Rule("R10.1", "K6")
	if fn := c.Fn("server.(*partition).getStartOffset"); fn != nil {
		tag := eng.LoadNamed("StartPosition", eng.Param("req"))
		want := map[string]eng.VM{
			"StartPosition_OFFSET":    eng.LoadNamed("StartOffset", eng.Param("req")),
			"StartPosition_TIMESTAMP": eng.Call(0, cl+"CommitLog.EarliestOffsetAfterTimestamp"),
			"StartPosition_EARLIEST":  logCall("OldestOffset"),
			"StartPosition_LATEST":    logCall("NewestOffset"),
			"StartPosition_NEW_ONLY":  eng.Bin(token.ADD, logCall("NewestOffset"), eng.IntConst(1)),
		}
		checkPositionTable(c, fn, apiTypes, "StartPosition", tag, want)
		// negative start clamps to 0
		neg := eng.CmpEdges(fn, eng.AnyV, eng.IntConst(0), eng.LT)
		c.Check(len(neg) > 0, "negative start offset clamps to 0", p.Pos(fn.Pos()), "startOffset < 0 ⇒ 0", "getStartOffset no longer clamps a negative start (empty log) to 0")
		ts := eng.CallsIn(fn, cl+"CommitLog.EarliestOffsetAfterTimestamp", "server.partition.getReverseStartOffset")
		okTS := len(ts) >= 1
		for _, t := range ts {
			a := eng.AllArgs(t.Common())[1]
			stamp := eng.LoadNamed("StartTimestamp", eng.Param("req"))
			// (the reverse lookup, when inlined, searches timestamp + 1 and steps back)
			if !stamp(a) && !eng.Bin(token.ADD, stamp, eng.IntConst(1))(eng.Strip(a)) {
				okTS = false
			}
		}
		c.Check(okTS, "timestamp start looks up req.StartTimestamp", p.Pos(fn.Pos()), "EarliestOffsetAfterTimestamp(req.StartTimestamp)", "the timestamp start position is not resolved from req.StartTimestamp")
	}
	if fn := c.Fn("server.(*partition).getStopOffset"); fn != nil {
		tag := eng.LoadNamed("StopPosition", eng.Param("req"))
		want := map[string]eng.VM{
			"StopPosition_STOP_ON_CANCEL": eng.Or(eng.IntConst(-1), logCall("NewestOffset")),
			"StopPosition_STOP_OFFSET":    eng.LoadNamed("StopOffset", eng.Param("req")),
			"StopPosition_STOP_TIMESTAMP": eng.Call(0, cl+"CommitLog.LatestOffsetBeforeTimestamp"),
			"StopPosition_STOP_LATEST":    logCall("NewestOffset"),
		}
		checkPositionTable(c, fn, apiTypes, "StopPosition", tag, want)
		ts := eng.CallsIn(fn, cl+"CommitLog.LatestOffsetBeforeTimestamp")
		c.Check(len(ts) == 1 && eng.LoadNamed("StopTimestamp", eng.Param("req"))(eng.AllArgs(ts[0].Common())[1]), "timestamp stop looks up req.StopTimestamp", p.Pos(fn.Pos()), "LatestOffsetBeforeTimestamp(req.StopTimestamp)", "the timestamp stop position is not resolved from req.StopTimestamp")
		// readonly partitions end at the end of the log
		ro := eng.BoolEdges(fn, logCall("IsReadonly"), true)
		c.Check(len(ro) > 0, "read-only partitions end at the end of the log", p.Pos(fn.Pos()), "STOP_ON_CANCEL on a read-only log stops at NewestOffset()", "getStopOffset does not special-case read-only partitions")
	}
	c.Floor(13)

	// ---- R10.2 error → status table
	c.Rule("R10.2", "K6")
	if fn := c.Fn("server.(*partition).newSubscribeLoop$1"); fn != nil {
		// sentinel errors the two readers return
		sent := map[string]bool{}
		for _, rk := range []string{cl + "(*Reader).ReadMessage", cl + "(*ReverseReader).ReadMessage"} {
			rf := c.Fn(rk)
			if rf == nil {
				continue
			}
			for _, r := range eng.Returns(rf) {
				if len(eng.RetVals(r)) == 0 {
					continue
				}
				e := eng.RetVals(r)[len(eng.RetVals(r))-1]
				if u, ok := eng.Strip(e).(*ssa.UnOp); ok {
					if g, ok := u.X.(*ssa.Global); ok {
						sent[g.Pkg.Pkg.Path()+"."+g.Name()] = true
					}
				}
			}
		}
		mapped := map[string]bool{}
		eng.Instrs(fn, func(in ssa.Instruction) {
			bo, ok := in.(*ssa.BinOp)
			if !ok || bo.Op != token.EQL {
				return
			}
			for _, v := range []ssa.Value{bo.X, bo.Y} {
				if u, ok := v.(*ssa.UnOp); ok {
					if g, ok := u.X.(*ssa.Global); ok {
						mapped[g.Pkg.Pkg.Path()+"."+g.Name()] = true
					}
				}
			}
		})
		hasDefault := len(eng.CallsIn(fn, "google.golang.org/grpc/status.Convert")) > 0
		for s := range sent {
			name := s[strings.LastIndex(s, ".")+1:]
			if name == "EOF" {
				ruleReverseEndStatus(c, fn)
				continue
			}
			c.Check(mapped[s] || hasDefault, "error "+name+" has a status", p.Pos(fn.Pos()), map[bool]string{true: "explicit mapping branch", false: "falls to status.Convert"}[mapped[s]], "sentinel error "+name+" returned by a reader has no mapping in the subscribe loop")
		}
		if len(sent) < 3 {
			c.Unresolved("sentinel errors returned by the readers")
		}
	}
	c.Floor(4)

	// ---- R10.3 inverted range / send before stop
	c.Rule("R10.3", "K1")
	if fn := c.Fn("server.(*partition).Subscribe"); fn != nil {
		stopCall := eng.Call(0, "server.partition.getStopOffset")
		// the resolved stop offset, possibly replaced by "no stop" (-1) on some branch before it is used
		stop := func(v ssa.Value) bool {
			if stopCall(v) {
				return true
			}
			ph, isPhi := v.(*ssa.Phi)
			if !isPhi {
				return false
			}
			has := false
			for _, e := range ph.Edges {
				switch {
				case stopCall(e):
					has = true
				case eng.IntConst(-1)(e):
				default:
					return false
				}
			}
			return has
		}
		start := eng.Call(0, "server.partition.getStartOffset")
		waits := eng.CmpEdges(fn, stop, eng.IntConst(-1), eng.EQ)
		// a request without a stop position has no range to invert: where the stop offset is only the implicit end of a
		// read-only partition (StopPosition == STOP_ON_CANCEL) it may be dropped
		waits = append(waits, eng.CmpEdges(fn, eng.LoadNamed("StopPosition", nil), func(v ssa.Value) bool {
			k, isK := eng.Strip(v).(*ssa.Const)
			return isK && eng.EnumName(k) == "StopPosition_STOP_ON_CANCEL"
		}, eng.EQ)...)
		// case analysis on the (immutable) direction flag: in the forward world every edge on which Reverse is true is
		// infeasible, and vice versa; the range test demanded is the one of that direction
		revT := eng.BoolEdges(fn, eng.LoadNamed("Reverse", nil), true)
		revF := eng.BoolEdges(fn, eng.LoadNamed("Reverse", nil), false)
		for _, nr := range eng.CallsIn(fn, cl+"CommitLog.NewReader", cl+"CommitLog.NewReverseReader") {
			isRev := strings.HasSuffix(eng.CalleeRef(nr.Common()), "NewReverseReader")
			okRange := eng.CmpEdges(fn, stop, start, eng.GE)
			other := revT
			want := "stopOffset == waitForNewMessages ∨ stopOffset >= startOffset"
			bad := "a forward reader is created although stopOffset < startOffset"
			if isRev {
				okRange = eng.CmpEdges(fn, stop, start, eng.LE)
				other = revF
				want = "stopOffset == waitForNewMessages ∨ stopOffset <= startOffset"
				bad = "a reverse reader is created without the stop offset having been compared with the start offset in the reverse direction: a reverse range [start … stop] with stop < start is refused as inverted, and one with stop > start, which can never be reached, is accepted and read to the oldest message"
			}
			g, w := eng.GuardedBy(fn, nr.(ssa.Instruction), append(append(append([]eng.Edge{}, okRange...), waits...), other...))
			c.Check(g && len(okRange) > 0, "reader created only for a non-inverted range", c.Pos(nr.(ssa.Instruction)), want, bad+" (path "+w.String()+")")
			c.Check(start(eng.AllArgs(nr.Common())[1]), "reader starts at the resolved start offset", c.Pos(nr.(ssa.Instruction)), "NewReader(startOffset, …)", "the reader is not created at the resolved start offset")
		}
	}
	if fn := c.Fn("server.(*partition).newSubscribeLoop$1"); fn != nil {
		// the stop test follows the send of the same iteration
		stopT := eng.CmpEdges(fn, eng.Call(1, cl+"MessageReader.ReadMessage"), eng.AnyV, eng.EQ|eng.GT|eng.LT)
		_ = stopT
		var sends []ssa.Instruction
		eng.Instrs(fn, func(in ssa.Instruction) {
			if sel, ok := in.(*ssa.Select); ok {
				for _, st := range sel.States {
					if st.Dir == types.SendOnly && strings.HasSuffix(st.Chan.Type().String(), "go.Message") {
						sends = append(sends, in)
					}
				}
			}
		})
		c.Check(len(sends) == 1, "message is sent in the loop", p.Pos(fn.Pos()), "one send of the message per iteration", "the subscribe loop does not send exactly once per iteration")
		// nothing past the stop position is delivered: the send is reached only when the offset just read is within the
		// requested range, the stop is waived, or the subscription runs in reverse (where the reader itself stops by ordering)
		if len(sends) == 1 {
			off := eng.Call(1, cl+"MessageReader.ReadMessage", cl+"Reader.ReadMessage")
			stopV := freeVarNamed("stopOffset")
			within := eng.CmpEdges(fn, off, stopV, eng.LE)
			withinRev := eng.CmpEdges(fn, off, stopV, eng.GE)
			waived := eng.CmpEdges(fn, stopV, eng.IntConst(-1), eng.EQ)
			revT := eng.BoolEdges(fn, freeVarNamed("reverse"), true)
			revF := eng.BoolEdges(fn, freeVarNamed("reverse"), false)
			// forward world (edges with reverse == true are infeasible), then reverse world
			g, w := eng.GuardedBy(fn, sends[0], append(append(append([]eng.Edge{}, within...), waived...), revT...))
			c.Check(g && len(within) > 0, "no message past the stop offset is sent", c.Pos(sends[0]), "forward: the send is reached only over offset <= stopOffset or stop waived", "a message is handed to the subscriber before its offset has been compared with the stop offset (path "+w.String()+"): when the stop offset itself is no longer in the log (compaction, retention) the first retained message past it is delivered")
			g2, w2 := eng.GuardedBy(fn, sends[0], append(append(append([]eng.Edge{}, withinRev...), waived...), revF...))
			c.Check(g2 && len(withinRev) > 0, "no message below the stop offset is sent in reverse", c.Pos(sends[0]), "reverse: the send is reached only over offset >= stopOffset or stop waived", "in a reverse subscription a message is handed to the subscriber without its offset having been compared with the stop offset (path "+w2.String()+"): when the stop offset itself is no longer in the log the subscription runs on to the oldest message")
		}
	}
	ruleReadonlyStopForwardOnly(c)
	c.Floor(8)

	// ---- R10.8 timestamp lookup shapes
	c.Rule("R10.8", "K5")
	ruleTimestampLookupShapes(c)
	c.Floor(10)

	// ---- shared
	c.Rule("R01.5", "K5")
	ruleUnitDiscipline(c)
	c.Floor(8)

	c.Rule("R01.8", "K5")
	ruleLogShapes(c)
	c.Floor(20)
	c.Rule("R01.9", "K5")
	ruleReaderSegment(c)
	c.Floor(6)
	c.Rule("R03.9", "K1")
	ruleEndOfLogAtCurrentHW(c)
	c.Floor(1)

	// ---- R10.7 timestamp positions
	c.Rule("R10.7", "K1")
	segF := p.Field(clPkg, "commitLog", "segments")
	// searched list of a timestamp lookup = first argument of findSegmentIndexByTimestamp
	searched := func(fn *ssa.Function) ssa.Value {
		cs := eng.CallsIn(fn, cl+"findSegmentIndexByTimestamp")
		if len(cs) != 1 {
			return nil
		}
		return cs[0].Common().Args[0]
	}
	if fn := c.Fn(cl + "(*commitLog).EarliestOffsetAfterTimestamp"); fn != nil {
		if L := searched(fn); L == nil {
			c.Unresolved("findSegmentIndexByTimestamp call in EarliestOffsetAfterTimestamp")
		} else {
			idx := steppedSegIdx()
			list := func(v ssa.Value) bool { return v == L || (eng.Load(segF, nil)(v) && eng.Load(segF, nil)(L)) }
			full := eng.CmpRels(fn, idx, eng.Len(list))
			short := eng.CmpRels(fn, idx, eng.Bin(token.SUB, eng.Len(list), eng.IntConst(1)))
			ok := len(short) == 0 && len(full) >= 1
			for _, r := range full {
				if r != eng.LT && r != eng.GE {
					ok = false
				}
			}
			// list[idx] is read only when it exists
			exists := eng.CmpEdges(fn, idx, eng.Len(list), eng.LT)
			eng.Instrs(fn, func(in ssa.Instruction) {
				if ia, isIA := in.(*ssa.IndexAddr); isIA && list(ia.X) && idx(ia.Index) {
					if g, _ := eng.GuardedBy(fn, in, exists); !g {
						ok = false
					}
				}
			})
			c.Check(ok, "the segment after the searched one is consulted whenever it exists", p.Pos(fn.Pos()), "fall through to segments[idx] exactly when idx < len(segments)", "when the segment before idx has no entry at or after the timestamp, EarliestOffsetAfterTimestamp consults segments[idx] only under a test other than idx < len(segments): for a timestamp between the last entry of the second-to-last segment and the first entry of the last one it answers the next assignable offset, and a subscription starting at that timestamp skips the whole last segment")
		}
	}
	// An empty active segment (the state after every age-based roll, until the next append) has no first entry: probing it
	// makes the binary search fail with EOF. The list handed to the search must leave it out (unless it is the only segment).
	// the list of segments a lookup may see: l.segments, or (since the retention repair) the readable part of it
	segList := eng.Or(eng.Load(segF, nil), eng.Call(-1, cl+"commitLog.readableSegments"))
	for _, k := range []string{"EarliestOffsetAfterTimestamp", "LatestOffsetBeforeTimestamp"} {
		fn := c.Fn(cl + "(*commitLog)." + k)
		if fn == nil {
			continue
		}
		L := searched(fn)
		ok, why := false, "the whole segment list, including a freshly rolled empty active segment, is searched"
		if ph, isPhi := L.(*ssa.Phi); isPhi {
			trimmed, plainGuarded := false, true
			nonEmpty := eng.BoolEdges(fn, eng.Call(-1, cl+"segment.IsEmpty"), false)
			single := eng.CmpEdges(fn, eng.Len(segList), eng.IntConst(1), eng.LE)
			for i, e := range ph.Edges {
				if sl, isSl := e.(*ssa.Slice); isSl && segList(sl.X) && sl.High != nil && eng.Bin(token.SUB, eng.Len(segList), eng.IntConst(1))(sl.High) && sl.Low == nil {
					// the trimmed list is taken only when there is more than one segment AND the last one is empty
					several := eng.CmpEdges(fn, eng.Len(segList), eng.IntConst(1), eng.GT)
					isEmpty := eng.BoolEdges(fn, eng.Call(-1, cl+"segment.IsEmpty"), true)
					g1, _ := eng.GuardedBy(fn, sl, several)
					g2, _ := eng.GuardedBy(fn, sl, isEmpty)
					if g1 && g2 && len(several) > 0 && len(isEmpty) > 0 {
						trimmed = true
					}
					continue
				}
				if segList(e) {
					pred := ph.Block().Preds[i]
					q := &eng.PathQuery{Fn: fn, FromEntry: true, TargetEdge: func(ed eng.Edge) bool { return ed.From == pred && ed.To() == ph.Block() }, CutEdges: append(append([]eng.Edge{}, nonEmpty...), single...)}
					if q.Find() != nil {
						plainGuarded = false
					}
					continue
				}
				plainGuarded = false
			}
			// the emptiness test looks at the last segment
			lastTested := false
			for _, ie := range eng.CallsIn(fn, cl+"segment.IsEmpty") {
				if ia := indexOfLoad(ie.Common().Args[0]); ia != nil && eng.Bin(token.SUB, eng.Len(segList), eng.IntConst(1))(ia.Index) {
					lastTested = true
				}
			}
			ok = trimmed && plainGuarded && lastTested && len(nonEmpty) > 0
			if !ok {
				why = "the list searched is not (l.segments without an empty last segment)"
			}
		}
		if !ok {
			// equally good: the search predicate itself recognises the empty segment (EOF on its first entry) instead of failing
			if pred := c.FnQuiet(cl + "findSegmentIndexByTimestamp$1"); pred != nil {
				if len(eng.CmpEdges(pred, eng.AnyV, eng.Global("io.EOF"), eng.EQ)) > 0 {
					ok = true
				}
			}
		}
		c.Check(ok, k+" leaves an empty active segment out of the search", p.Pos(fn.Pos()), "the searched list is l.segments[:n-1] when n > 1 and the last segment is empty, else l.segments", why+": right after a segment was rolled the lookup fails (EOF from the empty segment's index) or answers the end of the log although earlier segments hold matching messages")
	}
	c.Floor(3)

	// ---- R10.5 termination on sparse logs
	c.Rule("R10.5", "K1")
	sparseTermination(c, "server.(*partition).newSubscribeLoop$1", eng.Call(1, cl+"MessageReader.ReadMessage"), "stopOffset")
	if fn := c.Fn(cl + "(*ReverseReader).ReadMessage"); fn != nil {
		ord := eng.CmpEdges(fn, eng.Call(-1, cl+"messageSet.Offset"), eng.LoadNamed("stopOffset", nil), eng.LT)
		c.Check(len(ord) > 0, "reverse reader stops by ordering", p.Pos(fn.Pos()), "offset < r.stopOffset", "the reverse reader's stop test is not an ordering comparison")
	}
	c.Floor(2)

	// ---- R10.6 reverse start clamp
	c.Rule("R10.6", "K1")
	if fn := c.Fn(cl + "(*commitLog).NewReverseReader"); fn != nil {
		hw := eng.Call(-1, cl+"commitLog.HighWatermark")
		empty := eng.CmpEdges(fn, hw, eng.IntConst(-1), eng.EQ)
		c.Check(len(empty) > 0, "committed reverse read of an empty log is refused", p.Pos(fn.Pos()), "hw == -1 ⇒ ErrSegmentNotFound", "NewReverseReader does not refuse a committed read of an empty log")
		beyond := eng.CmpEdges(fn, eng.Param("startOffset"), hw, eng.GT)
		c.Check(len(beyond) > 0, "start beyond the watermark is clamped", p.Pos(fn.Pos()), "startOffset > hw ⇒ start at hw", "NewReverseReader does not clamp a start offset above the high watermark")
		// effective start: phi of {startOffset, hw}; the segment is found with it and the scanner starts at it
		fs := eng.CallsIn(fn, cl+"findSegment")
		sc := eng.CallsIn(fn, cl+"newReverseSegmentScanner")
		if len(fs) == 1 && len(sc) == 1 {
			es := fs[0].Common().Args[1]
			okSame := es == sc[0].Common().Args[1]
			okSrc := true
			if ph, ok := es.(*ssa.Phi); ok {
				for i, e := range ph.Edges {
					if eng.Param("startOffset")(e) {
						// may arrive uncommitted, or committed over the startOffset <= hw edge
						pred := ph.Block().Preds[i]
						unc := eng.BoolEdges(fn, eng.Param("uncommitted"), true)
						within := eng.CmpEdges(fn, eng.Param("startOffset"), hw, eng.LE)
						q := &eng.PathQuery{Fn: fn, FromEntry: true, TargetEdge: func(ed eng.Edge) bool { return ed.From == pred && ed.To() == ph.Block() }, CutEdges: append(append([]eng.Edge{}, unc...), within...)}
						if q.Find() != nil {
							okSrc = false
						}
					} else if !hw(e) {
						okSrc = false
					}
				}
			} else {
				okSrc = false
			}
			c.Check(okSame && okSrc, "committed reverse reads start at min(start, hw)", c.Pos(sc[0].(ssa.Instruction)), "effectiveStart is startOffset only when uncommitted or startOffset <= hw, else hw; segment lookup and scanner use it", "the reverse reader can start above the high watermark on a committed read")
		} else {
			c.Unresolved("findSegment / newReverseSegmentScanner in NewReverseReader")
		}
	}
	if fn := c.Fn(cl + "(*ReverseReader).ReadMessage"); fn != nil {
		// later segments are entered from their end
		ok := len(eng.CallsIn(fn, cl+"newReverseSegmentScannerFromEnd")) == 1
		c.Check(ok, "older segments are scanned from their end", p.Pos(fn.Pos()), "newReverseSegmentScannerFromEnd(r.segments[r.segIdx])", "the reverse reader does not enter older segments from their last entry")
	}
	c.Floor(4)
	// ---- R14.11 (shared) a stored subject that is not valid UTF-8 does not end the subscription
	c.Rule("R14.11", "K5")
	ruleDeliveredStringsAreUTF8(c)

	// ---- R14.6 end-of-log / not-found sentinels reach the readers' identity tests unwrapped
	n := ruleSentinelIdentity(c, "R14.6", []string{"server.(*partition).newSubscribeLoop", cl + "(*commitLog).EarliestOffsetAfterTimestamp", cl + "(*commitLog).LatestOffsetBeforeTimestamp", cl + "(*ReverseReader).ReadMessage", cl + "(*Reader).ReadMessage"},
		"the reader takes the branch for any other error: a subscription ends with the wrong status, or a timestamp lookup fails instead of answering from the neighbouring segment")
	c.Check(n >= 8, "reader sentinels resolved", "", "identity comparisons with end-of-log / not-found sentinels resolved to their producers", "fewer identity comparisons with reader sentinels than on the reference tree")
	// ---- R03.10 (shared) a Read fills the buffer or fails
	c.Rule("R03.10", "K1")
	ruleReadFillsOrFails(c)
	c.Floor(2)

	// ---- extensions from round 3
	c.Rule("R10.3", "K1")
	ruleStartResolvedBeforeStop(c)
	c.Rule("R01.10", "K5")
	ruleScannersReturnFreshBuffers(c)
	c.Rule("R01.8", "K5")
	ruleReverseStartSlotUnclamped(c)

	c.Rule("R08.6", "K2")
	ruleReverseReaderSurvivesReplacement(c)
	c.Rule("R11.10", "K5")
	ruleReverseReaderOffsetMeansOneThing(c)
	ruleDeletedSegmentReadsRecover(c)

	// ---- from the repaired defects F59–F62
	c.Rule("R10.9", "K5")
	ruleParkedReaderKeepsRequestedOffset(c)
	c.Floor(2)
	c.Rule("R10.3", "K1")
	ruleImplicitStopNotAnArgumentError(c)
	c.Rule("R10.2", "K6")
	ruleReverseOnEmptyPartitionEnds(c)

}

func checkPositionTable(c *eng.Ctx, fn *ssa.Function, api *types.Package, typ string, tag eng.VM, want map[string]eng.VM) {
	consts := enumConsts(api, typ)
	if len(consts) == 0 {
		c.Unresolved("constants of " + typ)
		return
	}
	// the result variable: first result of the success return
	var results []ssa.Value
	for _, r := range eng.Returns(fn) {
		if len(eng.RetVals(r)) == 2 && eng.NilConst(eng.RetVals(r)[1]) {
			results = append(results, eng.RetVals(r)[0])
		}
	}
	for _, k := range consts {
		es := caseEdges(fn, tag, k)
		if len(es) == 0 {
			c.Violate(typ+" "+k.Name()+" has a case", c.P.Pos(fn.Pos()), "constant "+k.Name()+" has no case in "+fn.Name()+": requests using it are refused as unknown")
			continue
		}
		m, ok := want[k.Name()]
		if !ok {
			c.Violate(typ+" "+k.Name()+" provenance", c.P.Pos(fn.Pos()), "constant "+k.Name()+" has a case but no documented source in the rule table")
			continue
		}
		// the value flowing to the success return from this case: a phi operand whose predecessor is reached only over the case edge
		found, bad := false, ""
		for _, res := range results {
			for _, cand := range phiLeaves(res, 0) {
				if m(cand.v) {
					if cand.pred == nil {
						found = true
						continue
					}
					q := &eng.PathQuery{Fn: fn, FromEntry: true, TargetEdge: func(ed eng.Edge) bool { return ed.From == cand.pred && ed.To() == cand.blk }, CutEdges: es}
					if q.Find() == nil {
						found = true
					}
				}
			}
		}
		if !found {
			bad = "no value matching the documented source reaches the result over the " + k.Name() + " case"
		}
		c.Check(bad == "", typ+" "+k.Name()+" resolves to its documented source", c.P.Pos(fn.Pos()), "the case exists and the resolved offset comes from the documented source", bad)
	}
	// default refuses
	ia := false
	for _, nw := range eng.CallsIn(fn, "google.golang.org/grpc/status.New") {
		if k, ok := nw.Common().Args[0].(*ssa.Const); ok && k.Value.String() == "3" {
			ia = true
		}
	}
	c.Check(ia, typ+" default is InvalidArgument", c.P.Pos(fn.Pos()), "unknown values are refused with InvalidArgument", "unknown "+typ+" values are not refused with InvalidArgument")
}

type phiLeaf struct {
	v    ssa.Value
	pred *ssa.BasicBlock
	blk  *ssa.BasicBlock
}

func phiLeaves(v ssa.Value, d int) []phiLeaf {
	if ph, ok := v.(*ssa.Phi); ok && d < 4 {
		var out []phiLeaf
		for i, e := range ph.Edges {
			if _, isPhi := e.(*ssa.Phi); isPhi {
				out = append(out, phiLeaves(e, d+1)...)
				continue
			}
			out = append(out, phiLeaf{e, ph.Block().Preds[i], ph.Block()})
		}
		return out
	}
	return []phiLeaf{{v, nil, nil}}
}

// sparseTermination: a loop that ends by comparing the offset just read with a target must use an ordering.
func sparseTermination(c *eng.Ctx, key string, readOffset eng.VM, what string) {
	fn := c.Fn(key)
	if fn == nil {
		return
	}
	n := 0
	type termTest struct {
		iff   *ssa.If
		op    token.Token
		other ssa.Value
	}
	var tests []termTest
	eng.Instrs(fn, func(in ssa.Instruction) {
		iff, ok := in.(*ssa.If)
		if !ok {
			return
		}
		cond, _ := eng.CondPolarity(iff.Cond)
		bo, ok := cond.(*ssa.BinOp)
		if !ok {
			return
		}
		isOff := func(v ssa.Value) bool {
			if readOffset != nil && readOffset(v) {
				return true
			}
			// offset of a delivered message (msg.Offset) or ReadMessage's offset result
			if f, _ := eng.FieldRead(v); f != nil && f.Name() == "Offset" {
				return true
			}
			return eng.Call(1, cl+"MessageReader.ReadMessage", cl+"Reader.ReadMessage", cl+"ReverseReader.ReadMessage")(v)
		}
		if !(isOff(bo.X) || isOff(bo.Y)) || !isInt64(bo.X.Type()) {
			return
		}
		n++
		other := bo.Y
		if !isOff(bo.X) {
			other = bo.X
		}
		tests = append(tests, termTest{iff, bo.Op, other})
	})
	// an equality test against a target is acceptable only next to an ordering test against the same target
	for _, t := range tests {
		switch t.op {
		case token.EQL, token.NEQ:
			covered := false
			for _, o := range tests {
				if (o.op == token.GTR || o.op == token.GEQ || o.op == token.LSS || o.op == token.LEQ) && sameTarget(o.other, t.other) {
					covered = true
				}
			}
			if covered {
				c.OK("loop termination test in "+fn.Name(), c.Pos(t.iff), "equality test backed by an ordering test against the same target: the loop also ends when the exact offset no longer exists")
			} else {
				c.Violate("loop termination test in "+fn.Name(), c.Pos(t.iff), "the loop ends only when the offset just read == "+eng.Describe(t.other)+": on a compacted or trimmed log that exact offset may not exist, so the test never fires (the subscription overruns the requested range or never ends)")
			}
		default:
			c.OK("loop termination test in "+fn.Name()+" ("+t.op.String()+")", c.Pos(t.iff), "ordering comparison "+t.op.String())
		}
	}
	if n == 0 {
		c.Unresolved("offset comparison that terminates the loop in " + key)
	}
}

func sameTarget(a, b ssa.Value) bool {
	if eng.Strip(a) == eng.Strip(b) {
		return true
	}
	return sameRead(a, b)
}

func describeOther(bo *ssa.BinOp, isOff func(ssa.Value) bool) string {
	if isOff(bo.X) {
		return eng.Describe(bo.Y)
	}
	return eng.Describe(bo.X)
}

func isInt64(t types.Type) bool {
	b, ok := t.Underlying().(*types.Basic)
	return ok && b.Kind() == types.Int64
}

// ruleReadonlyStopForwardOnly (R10.3, shared with C11): see the comment in the body.
func ruleReadonlyStopForwardOnly(c *eng.Ctx) {
	p := c.P
	// the read-only substitution (a read-only partition ends at the end of the log) applies to forward reading only: a
	// reverse subscription starts at the newest message, which *is* that stop offset
	if fn := c.Fn("server.(*partition).getStopOffset"); fn != nil {
		ro := eng.BoolEdges(fn, eng.Call(-1, cl+"CommitLog.IsReadonly"), true)
		fwd := eng.BoolEdges(fn, eng.LoadNamed("Reverse", nil), false)
		n := 0
		for _, nc := range eng.CallsIn(fn, cl+"CommitLog.NewestOffset") {
			if g, _ := eng.GuardedBy(fn, nc.(ssa.Instruction), ro); !g || len(ro) == 0 {
				continue // STOP_LATEST
			}
			n++
			g, w := eng.GuardedBy(fn, nc.(ssa.Instruction), fwd)
			c.Check(g && len(fwd) > 0, "read-only partitions end at the newest offset only when read forward", c.Pos(nc.(ssa.Instruction)), "IsReadonly() ∧ ¬Reverse", "the read-only stop offset (newest offset) is also applied to reverse subscriptions (path "+w.String()+"): a reverse subscription on a read-only partition delivers the newest message, finds that its offset equals the stop offset and ends — the rest of the log is never delivered (a cursor fetch on a read-only cursors partition answers -1 for every cursor but the last one stored)")
		}
		c.Check(n >= 1, "read-only partitions end at the end of the log", p.Pos(fn.Pos()), "stop offset = NewestOffset() when IsReadonly()", "getStopOffset no longer ends subscriptions on read-only partitions at the end of the log")
	}
}

// ruleReverseEndStatus (R10.2, shared with C11): fn is the subscribe loop.
func ruleReverseEndStatus(c *eng.Ctx, fn *ssa.Function) {
	p := c.P
	// ... and only for a subscription that was not cancelled: the readers answer io.EOF on cancellation too, and a cancelled
	// scan is not "everything delivered" (the cursor manager would cache "no cursor stored")
	{
		alive := eng.CmpEdges(fn, func(v ssa.Value) bool {
			call, ok := v.(*ssa.Call)
			return ok && call.Call.IsInvoke() && call.Call.Method.Name() == "Err" && strings.HasSuffix(call.Call.Value.Type().String(), "context.Context")
		}, eng.NilConst, eng.EQ)
		isEOF := eng.CmpEdges(fn, eng.AnyV, eng.Global("io.EOF"), eng.EQ)
		okAlive := false
		for _, sn := range eng.CallsIn(fn, "google.golang.org/grpc/status.New") {
			k, isK := sn.Common().Args[0].(*ssa.Const)
			if !isK || eng.EnumName(k) != "ResourceExhausted" {
				continue
			}
			if g, _ := eng.GuardedBy(fn, sn.(ssa.Instruction), isEOF); !g || len(isEOF) == 0 {
				continue
			}
			if g, _ := eng.GuardedBy(fn, sn.(ssa.Instruction), alive); g && len(alive) > 0 {
				okAlive = true
			}
		}
		c.Check(okAlive, "a cancelled subscription is not reported as the end of the partition", p.Pos(fn.Pos()), "err == io.EOF ∧ ctx.Err() == nil → ResourceExhausted", "io.EOF is mapped to ResourceExhausted without looking at the context: a cancelled FetchCursor scan ends like one that found nothing, getLatestCursorOffset answers -1 and GetCursor caches it — later fetches return -1 although a cursor is stored")
	}
	// io.EOF is how the reverse reader says that it has gone past the oldest message: the end of a reverse
	// subscription. It must be reported like every other end (ResourceExhausted), not as an unknown failure.
	isEOF := eng.CmpEdges(fn, eng.AnyV, eng.Global("io.EOF"), eng.EQ)
	okEnd := false
	for _, sn := range eng.CallsIn(fn, "google.golang.org/grpc/status.New") {
		k, isK := sn.Common().Args[0].(*ssa.Const)
		if !isK || eng.EnumName(k) != "ResourceExhausted" {
			continue
		}
		if g, _ := eng.GuardedBy(fn, sn.(ssa.Instruction), isEOF); g && len(isEOF) > 0 {
			okEnd = true
		}
	}
	c.Check(okEnd, "end of a reverse subscription has its status", p.Pos(fn.Pos()), "err == io.EOF → ResourceExhausted", "io.EOF from the reverse reader (it has gone past the oldest message) falls to status.Convert: a reverse subscription that has delivered everything ends with code Unknown \"EOF\", which a client cannot tell from a failure — the cursor manager's own scan expects ResourceExhausted there and answers an Internal error when the oldest message disappears under it")
}
