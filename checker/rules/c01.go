package rules

import (
	"fmt"
	"go/token"
	"go/types"
	"sort"
	"strings"

	"golang.org/x/tools/go/ssa"

	"lbcheck/eng"
	"lbcheck/ir"
)

func init() {
	register(&Property{ID: "C01", Level: "other", Run: runC01,
		Technique:   "static analysis: who-may-call / effect ownership, must-lockset, provenance slicing with unit discipline (offset vs index slot vs byte position), guard shapes of the search predicates (go/ssa)",
		LevelText:   "Structural preconditions of the log contract decided for all paths: offsets are assigned as base+i from the active segment's next offset and the same value is serialised, indexed and returned; only the leader loop appends, only the follower handler appends message sets, only the two reconciliation functions truncate; file-system effects on log files occur only in the owning functions; segment/index/log fields are accessed under their locks; an index slot is never computed arithmetically from a log offset; the binary-search predicates have the documented shape; a message is returned only after its CRC matched. That reads equal appends for every workload is not decided.",
		LevelNote:   "Trusted: go/ssa, CHA call graph, the frozen owner/lock/unit tables in rules/c01.go.",
		DesignRef:   "DESIGN.md §4 C01",
		Explanation: "Round 12: R05.8 also: a partial write found when the index is rebuilt at open is cut off the log file (append mode writes at the end of the file, whatever the position field says). R01.17 also (round 10): Encode writes the key as it is (empty is not nil). R05.8 (shared, round 8): every answer of InitializePosition can reach the entry the reopened segment's bookkeeping is filled from; the index rebuild never takes the segment size limit for a bound on one message set. R01.14 also: after a wait the segment list is fetched again before it is searched; R01.8 also: findLastEntryIndex answers -1, not an error. R01.17 the encoder writes the null size exactly for a nil slice; R05.1 / R05.3 (shared with C05) log-then-index and the ordering of Replace; R03.4 (shared) a reader whose watermark segment was replaced re-initialises (F98). R01.16 an append without messages reaches neither the roll nor the write (F90); R01.8 also: the first-write bookkeeping is keyed on firstOffset == -1, a mark no write can store (F89); R03.15 (shared) parked committed readers and appends share a wake-up source (known finding K16). R01.5 also: the position a reader takes from the index is the one found for the offset it asked for; R05.7 (shared) Truncate deletes the later segments newest first (F77). R01.1 offset/position identity, R01.2 single writer, R01.3 file ownership, R01.4 lock discipline, R01.5 unit discipline, R01.6 search predicates, R01.7 CRC before return, R01.8 arithmetic / bookkeeping shapes (roll base offset, index read bound, first/last bookkeeping, truncate list surgery, replaced flag, waiter registration), R01.9 a reader's segment and resume offset always come from a lookup of / the message at its own position, R01.10 entries handed out by the index scanners are not retained across Scan calls, R01.11 every decoded 32-bit size is tested against the nil marker before it enters position arithmetic. R14.6 (shared) the roll's ErrSegmentExists arrives unwrapped at its identity test; R03.10 (shared) a reader's Read fills the buffer or reports an error. NOT decided: read-back equals append history, segment-boundary alignment, restart equivalence.",
	})
}

const cl = "server/commitlog."

func runC01(c *eng.Ctx) {
	c.Rule("R01.17", "K5")
	ruleEncodeWritesTheKeyAsItIs(c)
	// (shared with C08/C10) a reader recognises a replaced or removed segment whatever wraps the error on its way up
	ruleSentinelIdentity(c, "R14.6", []string{cl + "(*Reader).ReadMessage", cl + "(*ReverseReader).ReadMessage"}, "the reader does not notice that the segment it was reading was replaced (compaction, truncation) or removed (retention): it fails instead of re-positioning itself and carrying on")

	c.Rule("R01.16", "K1")
	ruleEmptyBatchIsANoOp(c)
	c.Rule("R01.17", "K1")
	ruleNullMarkerExactlyForNil(c)
	c.Rule("R01.8", "K5")
	ruleRecoveredBookkeepingPairs(c)
	ruleRecoveredEntryIsTheLastAnswer(c)
	c.Rule("R05.8", "K5")
	ruleRebuildDoesNotBoundSizesBySegmentLimit(c)
	ruleRecoveryCutsThePartialTail(c)
	c.Rule("R05.1", "K2")
	ruleLogThenIndex(c)
	c.Rule("R05.3", "K2")
	ruleReplaceOrdering(c)
	c.Rule("R03.15", "K3")
	ruleAppendsWakeParkedCommittedReaders(c)
	c.Rule("R03.4", "K1")
	ruleReplacedWatermarkSegmentReinitialises(c)
	c.Rule("R01.14", "K5")
	ruleListIsFetchedAfterTheWait(c)
	c.Rule("R01.8", "K5")
	ruleTruncateAlwaysUnsealsTheActiveSegment(c)
	c.Rule("R10.9", "K5")
	ruleCommittedReaderCapsOnlyPastTheEnd(c)
	c.Rule("R01.18", "K4")
	rulePooledBuffersDoNotEscape(c)
	c.Rule("R01.8", "K5")
	ruleNoEntryAtOrBelowIsMinusOne(c)
	c.Rule("R01.1", "K5")
	ruleOffsetIdentity(c)
	c.Floor(8)
	c.Rule("R01.2", "K3")
	ruleSingleWriter(c)
	c.Floor(8)
	c.Rule("R01.3", "K3")
	ruleFileOwnership(c)
	c.Floor(14)
	c.Rule("R01.4", "K4")
	ruleCommitlogLocks(c)
	c.Floor(60)
	c.Rule("R01.5", "K5")
	ruleUnitDiscipline(c)
	c.Floor(8)
	c.Rule("R01.6", "K1")
	ruleSearchPredicates(c)
	c.Floor(8)
	c.Rule("R01.7", "K1")
	ruleCRC(c)
	c.Floor(1)
	c.Rule("R01.8", "K5")
	ruleLogShapes(c)
	c.Floor(20)
	c.Rule("R01.9", "K5")
	ruleReaderSegment(c)
	c.Floor(6)
	c.Rule("R01.10", "K5")
	ruleScannerEntries(c)
	c.Floor(1)
	c.Rule("R01.11", "K9")
	ruleNilMarker(c)
	c.Floor(3)
	// ---- R14.6 the segment-exists error reaches the roll's identity test unwrapped
	n := ruleSentinelIdentity(c, "R14.6", []string{cl + "(*commitLog).checkAndPerformSplit"}, "a roll that finds the next segment file already present fails the append instead of being skipped")
	c.Check(n >= 1, "roll tells an existing segment apart", "", "identity comparison with ErrSegmentExists found", "checkAndPerformSplit no longer recognises ErrSegmentExists")
	// ---- R03.10 (shared) a Read fills the buffer or fails
	c.Rule("R03.10", "K1")
	ruleReadFillsOrFails(c)
	c.Floor(2)

	// ---- R01.12 (shared) Truncate removes exactly the messages at and above the offset
	c.Rule("R01.12", "K5")
	ruleTruncateShapes(c)
	c.Floor(8)

	// ---- R01.13 error gates in the commit log package
	c.Rule("R01.13", "K2")
	ruleErrorGates(c, "server/commitlog")
	c.Floor(20)

	// ---- R01.14 (shared) readers look segments up in a freshly fetched list
	c.Rule("R01.14", "K5")
	ruleFreshSegmentList(c)
	c.Floor(3)

	// ---- R01.15 rolls and appends exclude each other; R01.8 extensions from repaired defects
	c.Rule("R01.15", "K4")
	ruleRollExcludesAppend(c)
	c.Floor(3)
	c.Rule("R01.8", "K5")
	ruleTruncateUnseals(c)
	ruleShrinkKeepsSize(c)
	ruleSealedSegmentDoesNotPark(c)
	c.Rule("R14.7", "K3")
	ruleEncodeFailureIsAnError(c)
	c.Floor(2)

	c.Rule("R01.10", "K5")
	ruleScannersReturnFreshBuffers(c)

}

func ruleOffsetIdentity(c *eng.Ctx) {
	p := c.P
	if fn := c.Fn(cl + "newMessageSetFromProto"); fn != nil {
		// entries[i].Offset store
		var offVal, posVal ssa.Value
		eng.Instrs(fn, func(in ssa.Instruction) {
			st, ok := in.(*ssa.Store)
			if !ok {
				return
			}
			fa, ok := st.Addr.(*ssa.FieldAddr)
			if !ok || ownerName(fa) != "entry" {
				return
			}
			switch eng.FieldNameOf(fa) {
			case "Offset":
				offVal = st.Val
			case "Position":
				posVal = st.Val
			}
		})
		okOff := offVal != nil && eng.BinComm(token.ADD, eng.Param("baseOffset"), func(v ssa.Value) bool { return isRangeIndex(v) })(offVal)
		c.Check(okOff, "entry offset = baseOffset + i", p.Pos(fn.Pos()), "entries[i].Offset = int64(i) + baseOffset", "the indexed offset of message i is "+eng.Describe(offVal)+", not baseOffset + i")
		// the serialised header offset is the same value
		okSer := false
		var first *ssa.Call
		for _, w := range eng.CallsIn(fn, "encoding/binary.Write") {
			call := w.(*ssa.Call)
			if first == nil || call.Pos() < first.Pos() {
				first = call
			}
		}
		// binary.Write calls in source order: offset, timestamp, leaderEpoch, size
		var writes []*ssa.Call
		for _, w := range eng.CallsIn(fn, "encoding/binary.Write") {
			writes = append(writes, w.(*ssa.Call))
		}
		sort.Slice(writes, func(i, j int) bool { return writes[i].Pos() < writes[j].Pos() })
		if len(writes) == 4 && offVal != nil {
			okSer = eng.Strip(writes[0].Call.Args[2]) == eng.Strip(offVal)
			okTs := eng.LoadNamed("Timestamp", nil)(writes[1].Call.Args[2])
			okEp := eng.LoadNamed("LeaderEpoch", nil)(writes[2].Call.Args[2])
			c.Check(okTs && okEp, "header carries the message's timestamp and leader epoch", c.Pos(writes[1]), "timestamp and leader epoch of m are serialised in header order", "the message-set header does not carry m.Timestamp / m.LeaderEpoch in the documented positions")
		}
		c.Check(okSer, "serialised offset = indexed offset", p.Pos(fn.Pos()), "the value written as the header offset is the SSA value stored in entries[i].Offset", "the offset serialised into the log differs from the offset recorded in the index entry")
		okPos := posVal != nil && eng.BinComm(token.ADD, eng.Param("basePos"), eng.AnyV)(posVal)
		c.Check(okPos, "entry position = basePos + relPos", p.Pos(fn.Pos()), "entries[i].Position = basePos + bytes written so far", "the indexed position is "+eng.Describe(posVal)+", not basePos + relPos")
	}
	for _, k := range []struct{ fn, builder string }{{cl + "(*commitLog).Append", cl + "newMessageSetFromProto"}, {cl + "(*commitLog).AppendMessageSet", cl + "entriesForMessageSet"}} {
		fn := c.Fn(k.fn)
		if fn == nil {
			continue
		}
		nm := eng.CallsIn(fn, k.builder)
		ap := eng.CallsIn(fn, cl+"commitLog.append")
		if len(nm) != 1 || len(ap) != 1 {
			c.Unresolved(k.builder + " / append in " + k.fn)
			continue
		}
		// the segment handed to append: the argument of type *segment, wherever it stands in the parameter list
		seg := ap[0].Common().Args[1]
		for _, a := range ap[0].Common().Args[1:] {
			if strings.HasSuffix(a.Type().String(), "commitlog.segment") {
				seg = a
			}
		}
		a := nm[0].Common().Args
		okSeg := eng.Call(-1, cl+"commitLog.activeSegment")(seg)
		okPos, okBase := false, true
		for _, arg := range a {
			if eng.CallArgs(-1, cl+"segment.Position", eng.Same(seg))(arg) {
				okPos = true
			}
		}
		if k.builder == cl+"newMessageSetFromProto" {
			okBase = eng.CallArgs(-1, cl+"segment.NextOffset", eng.Same(seg))(a[0])
		}
		c.Check(okBase && okPos && okSeg, "base offset/position come from the segment that is written in "+fn.Name(), c.Pos(nm[0].(ssa.Instruction)),
			"offsets/positions are computed from NextOffset()/Position() of the very activeSegment() value that is passed to l.append",
			fn.Name()+" computes offsets/positions from a different segment (or a different read of the active segment) than the one it writes to: after a segment roll in between, index positions point into the wrong file")
		// the split check precedes reading the active segment
		var segCall ssa.Instruction
		if sc := eng.AsCall(seg); sc != nil {
			segCall = sc
		}
		g, w := eng.PrecededBy(fn, nm[0].(ssa.Instruction), eng.IsCallTo(cl+"commitLog.checkAndPerformSplit"))
		g2 := true
		if segCall != nil {
			g2, _ = eng.PrecededBy(fn, segCall, eng.IsCallTo(cl+"commitLog.checkAndPerformSplit"))
		}
		c.Check(g && g2, "segment roll check precedes offset assignment in "+fn.Name(), c.Pos(nm[0].(ssa.Instruction)), "checkAndPerformSplit runs before the active segment is read", "offsets/positions are assigned before the roll check (path "+w.String()+")")
	}
	if fn := c.Fn(cl + "(*commitLog).append"); fn != nil {
		// offsets returned are the entries' offsets
		ok := false
		eng.Instrs(fn, func(in ssa.Instruction) {
			if st, ok2 := in.(*ssa.Store); ok2 {
				if _, ok3 := st.Addr.(*ssa.IndexAddr); ok3 && eng.LoadNamed("Offset", nil)(st.Val) {
					ok = true
				}
			}
		})
		c.Check(ok, "returned offsets are the entries' offsets", p.Pos(fn.Pos()), "offsets[i] = entry.Offset", "append does not return the offsets recorded in the entries")
	}
}

func isRangeIndex(v ssa.Value) bool {
	v = eng.Strip(v)
	// the index of `for i, m := range msgs` is a phi / phi+1 (rotated loop)
	switch x := v.(type) {
	case *ssa.Phi:
		return true
	case *ssa.BinOp:
		_, ok := x.X.(*ssa.Phi)
		return ok && x.Op == token.ADD
	}
	return false
}

func ruleSingleWriter(c *eng.Ctx) {
	who := func(what string, targets, allowed []string) {
		c.WhoMayCall(what, targets, allowed, allowed)
	}
	who("Append", []string{cl + "commitLog.Append", cl + "CommitLog.Append"}, []string{"server.(*partition).messageProcessingLoop"})
	who("AppendMessageSet", []string{cl + "commitLog.AppendMessageSet", cl + "CommitLog.AppendMessageSet"}, []string{"server.(*partition).handleReplicationResponse"})
	who("Truncate", []string{cl + "commitLog.Truncate", cl + "CommitLog.Truncate"}, []string{"server.(*partition).truncateUncommitted", "server.(*partition).truncateToHW"})
	c.WhoMayCall("OverrideHighWatermark", []string{clOverr, cl + "CommitLog.OverrideHighWatermark"}, nil, nil)
	who("segment.WriteMessageSet", []string{cl + "segment.WriteMessageSet"}, []string{cl + "(*commitLog).append", cl + "(*commitLog).Truncate", cl + "(*compactCleaner).cleanSegment"})
	who("messageProcessingLoop", []string{"server.partition.messageProcessingLoop"}, []string{"server.(*partition).becomeLeader"})
	who("commitLog.append", []string{cl + "commitLog.append"}, []string{cl + "(*commitLog).Append", cl + "(*commitLog).AppendMessageSet"})
	who("segment.write", []string{cl + "segment.write"}, []string{cl + "(*segment).WriteMessageSet"})
	who("index.writeEntries", []string{cl + "index.writeEntries"}, []string{cl + "(*segment).WriteMessageSet", cl + "(*segment).rebuildIndex"})
}

// file-system effects and their owners inside server/commitlog
func ruleFileOwnership(c *eng.Ctx) {
	p := c.P
	owners := map[string]string{
		cl + "newSegment":                      "creates/opens the segment log file",
		cl + "(*segment).Replace":              "renames the cleaned/truncated files over the old ones and reopens",
		cl + "(*segment).Delete":               "removes the segment's files",
		cl + "(*segment).newReplacement":       "discards files left by an interrupted clean/truncate before creating the replacement segment",
		cl + "(*segment).rebuildIndex":         "removes a corrupt index before rebuilding it",
		cl + "(*segment).setupIndex":           "recovery: cuts a partial message set off the end of the log it is opening",
		cl + "newIndex":                        "creates/opens and pre-allocates the index file",
		cl + "(*index).writeAt":                "grows the index file and writes the mmap",
		cl + "(*index).shrink":                 "truncates the index to its contents",
		cl + "(*commitLog).open":               "removes an index that has no log",
		cl + "(*commitLog).checkpointHW":       "atomically replaces the HW checkpoint",
		cl + "(*commitLog).Delete":             "removes the whole log directory",
		cl + "(*commitLog).init":               "creates the log directory",
		cl + "(*leaderEpochCache).flush":       "atomically replaces the leader-epoch checkpoint",
		cl + "(*leaderEpochCache).flushToFile": "atomically replaces the leader-epoch checkpoint",
		cl + "newLeaderEpochCache":             "reads the checkpoint",
	}
	effects := []string{"os.OpenFile", "os.Create", "os.Rename", "os.Remove", "os.RemoveAll", "os.File.Truncate", "os.Truncate", "os.WriteFile", "os.MkdirAll", "os.Mkdir",
		"github.com/natefinch/atomic.WriteFile", "os.File.Write", "os.File.WriteAt", "os.File.WriteString", "io/ioutil.WriteFile"}
	ix := eng.Index(p)
	n := 0
	for _, s := range ix.Sites(effects...) {
		outer := s.Outer()
		if !strings.HasPrefix(outer, cl) {
			continue
		}
		n++
		why, ok := owners[outer]
		c.Check(ok, s.Callee+" in "+outer, c.Pos(s.Instr), "owner: "+why, "file-system effect "+s.Callee+" in "+outer+", which is not one of the functions that own the log's files: a second writer of the log directory")
	}
	// writes to the mmap (builtin copy into index.mmap) only in writeAt
	mm := p.Field(clPkg, "index", "mmap")
	for _, a := range eng.FieldAccesses(p, mm) {
		u, ok := a.Use.(*ssa.UnOp)
		if !ok {
			continue
		}
		for _, r := range *u.Referrers() {
			sl, ok := r.(*ssa.Slice)
			if !ok {
				continue
			}
			for _, rr := range *sl.Referrers() {
				if call, ok := rr.(*ssa.Call); ok {
					if b, ok := call.Call.Value.(*ssa.Builtin); ok && b.Name() == "copy" && call.Call.Args[0] == sl {
						n++
						k := ir.FuncKey(a.Fn)
						c.Check(k == cl+"(*index).writeAt", "write into the index mmap in "+k, c.Pos(call), "only index.writeAt stores into the memory-mapped index", "the index mmap is written in "+k+", outside index.writeAt")
					}
				}
			}
		}
	}
	// outside the package: who removes/creates things under the data dir
	for _, s := range ix.Sites("os.RemoveAll", "os.Remove", "os.Rename") {
		outer := s.Outer()
		if strings.HasPrefix(outer, cl) || !strings.HasPrefix(outer, "server.") {
			continue
		}
		n++
		allowed := map[string]string{
			"server.(*metadataAPI).deleteStream":     "removes the deleted stream's directory after stream.Delete()",
			"server.(*metadataAPI).deleteStreamData": "removes the deleted stream's directory after stream.Delete() (called by deleteStream and by the reset that precedes a snapshot restore)",
			"server.(*Server).Stop":                  "test/cleanup paths",
		}
		why, ok := allowed[outer]
		c.Check(ok, s.Callee+" in "+outer, c.Pos(s.Instr), "allowed: "+why, "package server removes or renames files in "+outer+": only metadataAPI.deleteStream may touch <data>/streams")
	}
	_ = n
}

func ruleCommitlogLocks(c *eng.Ctx) {
	p := c.P
	segCtor := map[string]string{
		cl + "newSegment":              "constructor: fills the segment before it is published",
		cl + "(*segment).setupIndex":   "runs inside newSegment (unpublished) or Replace (both segment locks held)",
		cl + "(*segment).rebuildIndex": "runs inside setupIndex",
	}
	for _, f := range []string{"position", "firstOffset", "lastOffset", "firstWriteTime", "lastWriteTime", "sealed", "closed", "replaced", "deleted", "waiters", "log"} {
		c.CheckFieldLocks(eng.LockRule{Field: p.Field(clPkg, "segment", f), Lock: "RWMutex", Exempt: segCtor}, "segment."+f)
	}
	idxCtor := map[string]string{
		cl + "newIndex":                    "constructor",
		cl + "(*index).InitializePosition": "runs only from segment.setupIndex: the index was just created by newIndex and is not shared yet (newSegment), or both segment locks are held (Replace)",
	}
	for _, f := range []string{"position", "closed", "mmap", "size"} {
		c.CheckFieldLocks(eng.LockRule{Field: p.Field(clPkg, "index", f), Lock: "mu", Exempt: idxCtor}, "index."+f)
	}
	logCtor := commitLogCtorPath(c)
	for _, f := range []string{"segments", "deleted"} {
		c.CheckFieldLocks(eng.LockRule{Field: p.Field(clPkg, "commitLog", f), Lock: "mu", Exempt: logCtor}, "commitLog."+f)
	}
	// vActiveSegment only through sync/atomic
	va := p.Field(clPkg, "commitLog", "vActiveSegment")
	for _, a := range eng.FieldAccesses(p, va) {
		ok := false
		switch u := a.Use.(type) {
		case *ssa.Convert, *ssa.ChangeType:
			ok = true
		case ssa.CallInstruction:
			ok = strings.HasPrefix(eng.CalleeRef(u.Common()), "sync/atomic.")
		default:
			// &l.vActiveSegment converted to unsafe.Pointer and handed to atomic.*: the FieldAddr's referrer is a Convert
			if fa, isFA := a.Instr.(*ssa.FieldAddr); isFA {
				ok = onlyAtomicUse(fa)
			}
		}
		if fa, isFA := a.Instr.(*ssa.FieldAddr); isFA && !ok {
			ok = onlyAtomicUse(fa)
		}
		c.Check(ok, "access of commitLog.vActiveSegment in "+ir.FuncKey(a.Fn), c.Pos(a.Use), "through sync/atomic only", "the active-segment pointer is read or written without sync/atomic")
	}
}

func onlyAtomicUse(fa *ssa.FieldAddr) bool {
	ok := true
	var walk func(v ssa.Value, d int)
	walk = func(v ssa.Value, d int) {
		if d > 4 || v.Referrers() == nil {
			return
		}
		for _, r := range *v.Referrers() {
			switch x := r.(type) {
			case *ssa.Convert:
				walk(x, d+1)
			case *ssa.ChangeType:
				walk(x, d+1)
			case ssa.CallInstruction:
				if !strings.HasPrefix(eng.CalleeRef(x.Common()), "sync/atomic.") {
					ok = false
				}
			case *ssa.DebugRef:
			default:
				ok = false
			}
		}
	}
	walk(fa, 0)
	return ok
}

// unit discipline: index slots are never computed from log offsets.
func ruleUnitDiscipline(c *eng.Ctx) {
	p := c.P
	forbiddenFields := map[string]string{
		"entry.Offset": "log offset", "segment.BaseOffset": "log offset", "segment.firstOffset": "log offset", "segment.lastOffset": "log offset",
		"commitLog.hw": "log offset", "options.baseOffset": "log offset", "index.baseOffset": "log offset", "committedReader.hw": "log offset",
		"Reader.offset": "log offset", "ReverseReader.stopOffset": "log offset",
		"entry.Position": "byte position", "segment.position": "byte position",
	}
	slotFields := map[string]bool{"indexScanner.offset": true, "reverseIndexScanner.offset": true}
	offsetCalls := map[string]bool{
		cl + "messageSet.Offset": true, cl + "segment.NextOffset": true, cl + "segment.FirstOffset": true, cl + "segment.LastOffset": true,
		cl + "commitLog.NewestOffset": true, cl + "commitLog.OldestOffset": true, cl + "commitLog.HighWatermark": true,
		cl + "CommitLog.NewestOffset": true, cl + "CommitLog.OldestOffset": true, cl + "CommitLog.HighWatermark": true,
	}
	slotCalls := map[string]bool{cl + "index.CountEntries": true, "builtin.len": true, "sort.Search": true}
	sl := &eng.Slicer{P: p, MaxDepth: 4}
	var classify func(v ssa.Value, depth int) (bad, unknown []string)
	classify = func(v ssa.Value, depth int) (bad, unknown []string) {
		for _, lf := range sl.Leaves(v) {
			switch lf.Kind {
			case "const":
			case "field":
				if why, ok := forbiddenFields[lf.Ref]; ok {
					bad = append(bad, fmt.Sprintf("%s (%s)%s", lf.Ref, why, via(lf.Path)))
				} else if !slotFields[lf.Ref] {
					unknown = append(unknown, "field "+lf.Ref+via(lf.Path))
				}
			case "call":
				if offsetCalls[lf.Ref] {
					bad = append(bad, lf.Ref+"() (log offset)"+via(lf.Path))
				} else if lf.Ref == cl+"index.Position" {
					// Position()/entryWidth is a slot count; a bare byte position is not — accepted only under division (checked by shape below)
				} else if !slotCalls[lf.Ref] {
					// a helper of the package that computes the slot: classify what it returns
					done := false
					if call := eng.AsCall(lf.V); call != nil && depth < 2 {
						if sc := call.Call.StaticCallee(); sc != nil && p.IsModuleFunc(sc) && strings.HasPrefix(ir.FuncKey(sc), cl) {
							idx := 0
							if e, ok := eng.Strip(lf.V).(*ssa.Extract); ok {
								idx = e.Index
							}
							for _, r := range eng.Returns(sc) {
								rv := eng.RetVals(r)
								if idx < len(rv) {
									b2, u2 := classify(rv[idx], depth+1)
									bad = append(bad, b2...)
									unknown = append(unknown, u2...)
								}
							}
							done = true
						}
					}
					if !done {
						unknown = append(unknown, "call "+lf.Ref+via(lf.Path))
					}
				}
			case "closure-param":
				// the index parameter of a sort.Search callback is a slot
			case "param":
				unknown = append(unknown, "parameter "+lf.Ref+" (call depth bound)"+via(lf.Path))
			default:
				unknown = append(unknown, lf.Kind+" "+lf.Ref+via(lf.Path))
			}
		}
		return
	}
	report := func(construct, pos string, v ssa.Value) {
		bad, unknown := classify(v, 0)
		switch {
		case len(bad) > 0:
			c.Violate(construct, pos, "an index slot (ordinal of an index entry) is derived from "+strings.Join(bad, ", ")+": slot = offset − base only holds on dense segments; after compaction the wrong entry (or none) is addressed")
		case len(unknown) > 0:
			c.Undecided(construct, pos, "slot provenance not classified: "+strings.Join(unknown, ", "))
		default:
			c.OK(construct, pos, "slot derives only from constants, entry counts, search indices and other slots")
		}
	}
	// sinks 1: ReadEntryAtLogOffset's second parameter at every call site
	for _, s := range eng.Index(p).Sites(cl + "index.ReadEntryAtLogOffset") {
		call := s.Instr.(ssa.CallInstruction)
		report("slot argument of ReadEntryAtLogOffset in "+ir.FuncKey(s.Fn), c.Pos(s.Instr), call.Common().Args[2])
	}
	// sinks 1b: the byte position handed to ReadEntryAtFileOffset is a slot times the entry width — it must not be computed
	// from a log offset either (a "dense segment" shortcut addresses the wrong entry once offsets were skipped)
	for _, s := range eng.Index(p).Sites(cl + "index.ReadEntryAtFileOffset") {
		call := s.Instr.(ssa.CallInstruction)
		args := call.Common().Args
		report("index position argument of ReadEntryAtFileOffset in "+ir.FuncKey(s.Fn), c.Pos(s.Instr), args[len(args)-1])
	}
	// sinks 2: stores to the scanners' slot fields
	for _, owner := range []string{"indexScanner", "reverseIndexScanner"} {
		f := p.Field(clPkg, owner, "offset")
		if f == nil {
			c.Unresolved("field " + owner + ".offset")
			continue
		}
		for _, a := range eng.StoresToField(p, f, false) {
			st := a.Use.(*ssa.Store)
			report("store to "+owner+".offset in "+ir.FuncKey(a.Fn), c.Pos(st), st.Val)
		}
	}
}

func via(path []string) string {
	if len(path) == 0 {
		return ""
	}
	return " via " + strings.Join(path, " ← ")
}

func ruleSearchPredicates(c *eng.Ctx) {
	p := c.P
	type pred struct {
		fn   string
		desc string
		m    eng.VM
	}
	call := func(ref string) eng.VM { return eng.Call(-1, ref) }
	preds := []pred{
		{cl + "findSegment$1", "segments[i].NextOffset() > offset", eng.RelVal(call(cl+"segment.NextOffset"), eng.Param("offset"), eng.GT)},
		{cl + "findSegmentByBaseOffset$1", "segments[i].BaseOffset >= offset", eng.RelVal(eng.LoadNamed("BaseOffset", nil), eng.Param("offset"), eng.GE)},
		{cl + "(*segment).findEntry$1", "entry.Offset >= offset", eng.RelVal(eng.LoadNamed("Offset", nil), eng.Param("offset"), eng.GE)},
		{cl + "(*segment).findEntryByTimestamp$1", "entry.Timestamp >= timestamp", eng.RelVal(eng.LoadNamed("Timestamp", nil), eng.Param("timestamp"), eng.GE)},
		{cl + "findSegmentIndexByTimestamp$1", "entry.Timestamp > timestamp", eng.RelVal(eng.LoadNamed("Timestamp", nil), eng.Param("timestamp"), eng.GT)},
	}
	for _, pr := range preds {
		fn := c.Fn(pr.fn)
		if fn == nil {
			continue
		}
		// every return of the predicate is the comparison — or the constant true with which a read error aborts the search
		nRet, ok := allReturns(fn, nil, func(rv []ssa.Value) bool { return len(rv) == 1 && pr.m(rv[0]) }, func(rv []ssa.Value) bool { return len(rv) == 1 && constBool(rv[0], true) })
		nShape, _ := allReturns(fn, func(rv []ssa.Value) bool { return len(rv) == 1 && pr.m(rv[0]) })
		ok = ok && nRet > 0 && nShape > 0
		c.Check(ok, "search predicate of "+strings.TrimSuffix(strings.TrimPrefix(pr.fn, cl), "$1"), p.Pos(fn.Pos()), "returns "+pr.desc, "the binary-search predicate is not `"+pr.desc+"`: lookups land on the wrong segment/entry")
	}
	if fn := c.Fn(cl + "findSegmentContains"); fn != nil {
		nRet, ok := allReturns(fn, func(rv []ssa.Value) bool { return len(rv) == 2 && !eng.NilConst(rv[0]) }, func(rv []ssa.Value) bool {
			return eng.RelVal(eng.LoadNamed("BaseOffset", nil), eng.Param("offset"), eng.LE)(rv[1])
		})
		ok = ok && nRet > 0
		c.Check(ok, "findSegmentContains bound", p.Pos(fn.Pos()), "contains = seg.BaseOffset <= offset", "findSegmentContains does not report BaseOffset <= offset")
	}
	if fn := c.Fn(cl + "(*commitLog).Truncate"); fn != nil {
		// copies exactly ms.Offset() < offset, and clears epochs at the same offset
		lt := eng.CmpEdges(fn, eng.Call(-1, cl+"messageSet.Offset"), eng.Param("offset"), eng.LT)
		for _, w := range eng.CallsIn(fn, cl+"segment.WriteMessageSet") {
			g, wt := eng.GuardedBy(fn, w.(ssa.Instruction), lt)
			c.Check(g && len(lt) > 0, "Truncate keeps exactly the messages below the offset", c.Pos(w.(ssa.Instruction)), "a message is copied only on ms.Offset() < offset", "Truncate copies a message without ms.Offset() < offset (path "+wt.String()+")")
		}
		cle := eng.CallsIn(fn, cl+"leaderEpochCache.ClearLatest")
		ok := len(cle) == 1 && eng.Param("offset")(cle[0].Common().Args[1])
		c.Check(ok, "Truncate clears newer leader epochs", p.Pos(fn.Pos()), "ClearLatest(offset) with the truncation offset", "Truncate does not clear leader epochs at the truncation offset")
		fs := eng.CallsIn(fn, cl+"findSegment")
		ok = len(fs) == 1 && eng.Param("offset")(fs[0].Common().Args[1])
		c.Check(ok, "Truncate locates the segment by the offset", p.Pos(fn.Pos()), "findSegment(l.segments, offset)", "Truncate does not locate the segment with the truncation offset")
	}
}

func ruleCRC(c *eng.Ctx) {
	fn := c.Fn(cl + "readMessage")
	if fn == nil {
		return
	}
	cs := eng.CallsIn(fn, "hash/crc32.Checksum")
	if len(cs) != 1 {
		c.Unresolved("crc32.Checksum in readMessage")
		return
	}
	eq := eng.CmpEdges(fn, eng.Call(-1, cl+"SerializedMessage.Crc"), eng.Same(cs[0].(ssa.Value)), eng.EQ)
	for _, r := range eng.Returns(fn) {
		if len(eng.RetVals(r)) == 5 && eng.NilConst(eng.RetVals(r)[4]) {
			g, w := eng.GuardedBy(fn, r, eq)
			c.Check(g && len(eq) > 0, "message returned only after CRC match", c.Pos(r), "success return dominated by crc == checksum(payload)", "readMessage can return a message whose CRC was not verified (path "+w.String()+")")
		}
	}
}

// commitLogCtorPath: the functions that run only while a commitLog is being constructed (New, open, and unexported methods
// whose only callers are such functions), with the reason.
func commitLogCtorPath(c *eng.Ctx) map[string]string {
	p := c.P
	logCtor := map[string]string{
		cl + "(*commitLog).open": "runs before the log is published (open ← New)",
		cl + "New":               "constructor",
	}
	// helpers of the constructor: a method whose only callers are New / open (or such helpers) also runs before the log is
	// published — recovery steps added to New do not have to take a lock nobody else can hold yet
	for changed := true; changed; {
		changed = false
		for _, fn := range p.Funcs {
			k := ir.FuncKey(fn)
			if _, done := logCtor[k]; done || fn.Parent() != nil || fn.Signature.Recv() == nil || !strings.HasPrefix(k, cl+"(*commitLog).") {
				continue
			}
			obj, _ := fn.Object().(*types.Func)
			if obj == nil || obj.Exported() {
				continue
			}
			sites := eng.Index(p).Sites(eng.FuncRef(obj))
			if len(sites) == 0 {
				continue
			}
			all := true
			for _, st := range sites {
				if _, isCall := st.Instr.(*ssa.Call); !isCall || st.Mode != "call" || st.Fn.Parent() != nil {
					all = false
					break
				}
				if _, ok := logCtor[ir.FuncKey(st.Fn)]; !ok {
					all = false
					break
				}
			}
			if all {
				logCtor[k] = "called only from the constructor path (New / open), before the log is published"
				changed = true
			}
		}
	}
	return logCtor
}
