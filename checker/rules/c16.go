package rules

import (
	"go/token"
	"go/types"
	"os"
	"strings"

	"golang.org/x/tools/go/ssa"

	"lbcheck/eng"
	"lbcheck/ir"
)

func init() {
	register(&Property{ID: "C16", Level: "other", Run: runC16,
		Technique:   "static analysis: guard dominance on the expected-offset test, path ordering (check before write), single-appender who-may-call and join-before-hand-over rules (go/ssa)",
		LevelText:   "Structural clauses decided for all paths: the incorrect-offset error is returned exactly when control is on, the message carries an expected offset and it differs from the offset being assigned, before any byte of that message is serialised; nothing is written when the message set was rejected; control forces single-message batches; the failure is reported with INCORRECT_OFFSET and nothing is queued; NONE-policy publishes are refused on such streams by both publish entry points; appends are serialised (single appender, leader loops joined before hand-over). The race outcomes themselves are not decided.",
		LevelNote:   "Trusted: go/ssa; the at-most-one-winner argument additionally needs serialised Append calls, which rests on R01.2 and R02.1.",
		DesignRef:   "DESIGN.md §4 C16",
		Explanation: "R16.1 reads the refusal of a conditional publish also as one joined condition. Round 12: R16.5 also: publishSync is told the stream of the message it publishes at every call; R14.9 also: an envelope's expected offset is stored as sent. Rounds 9-10: R16.5 also: the ack inbox is not limited to one message, a foreign ack never completes a publish, a publish goes on the wire once; R16.8 also: StreamConfig copies are complete; R01.1 (shared). R05.8 (shared, round 8): after a recovery the next offset is derived from the index as it is after the repair. R16.5 also: a publish to a stream with concurrency control waits for its ack (F94); R05.1 (shared) a failed append leaves nothing behind. R16.1 expected-offset test, R16.2 nothing written on rejection, R16.3 single-message batches and INCORRECT_OFFSET nack, R16.4 single appender (shared R01.2/R02.1), R16.5 NONE policy refused, R16.7 every StreamsConfig field is seeded from the server configuration, R16.8 the per-stream setting travels request → replicated config → partition settings → log options; R16.3 also requires that the re-used batch buffer does not escape its iteration. R16.5 holds for every function that sends a PublishRequest's message; R16.8 also requires field-by-field configuration copies to be complete; R15.8 (shared) streams.concurrency.control reaches its Config field. NOT decided: the race outcomes. R14.9 (shared with C14) a raw payload, which cannot carry an expected offset, is built with the waiver -1. ",
	})
}

func runC16(c *eng.Ctx) {
	c.Rule("R16.7", "K6")
	ruleNewPartitionCopiesTheServerDefaults(c)
	p := c.P
	// (shared with C05) a failed append leaves nothing behind that a later conditional publish could land behind
	c.Rule("R05.1", "K2")
	ruleLogThenIndex(c)
	// (shared with C01) the offset a conditional publish is checked against is the one the written segment assigns
	c.Rule("R01.1", "K5")
	ruleOffsetIdentity(c)
	// (shared with C01/C05) the next offset after a recovery is derived from the index as it is after the repair
	c.Rule("R05.8", "K5")
	ruleRecoveredEntryIsTheLastAnswer(c)
	c.Rule("R16.5", "K1")
	rulePublishWaitsWhereTheAckDecides(c)
	ruleAckInboxIsNotLimitedToOneMessage(c)
	ruleForeignAckNeverCompletesAPublish(c)
	rulePublishWaitsForTheMessagesOwnStream(c)
	ruleAPublishGoesOnTheWireOnce(c)
	c.Rule("R16.8", "K6")
	ruleStreamConfigCopiesAreComplete(c)
	// ---- R16.1
	c.Rule("R16.1", "K1")
	if fn := c.Fn(cl + "newMessageSetFromProto"); fn != nil {
		cc := eng.BoolEdges(fn, eng.Param("concurrencyControl"), true)
		// "an expected offset is given": m.Offset != -1, written in place or through a predicate method whose every return is
		// exactly that comparison
		givenPred := func(g *ssa.Function) bool {
			n, ok := allReturns(g, nil, func(rv []ssa.Value) bool {
				return len(rv) == 1 && eng.RelVal(eng.LoadNamed("Offset", nil), eng.IntConst(-1), eng.NE)(rv[0])
			})
			return n > 0 && ok
		}
		predEdges := func(pol bool) []eng.Edge {
			var out []eng.Edge
			eng.Instrs(fn, func(in ssa.Instruction) {
				call, isCall := in.(*ssa.Call)
				if !isCall {
					return
				}
				g := call.Common().StaticCallee()
				if g == nil || !p.IsModuleFunc(g) || len(g.Blocks) == 0 || call.Type().String() != "bool" || !givenPred(g) {
					return
				}
				out = append(out, eng.BoolEdges(fn, func(v ssa.Value) bool { return v == ssa.Value(call) }, pol)...)
			})
			return out
		}
		hasExp := append(eng.CmpEdges(fn, eng.LoadNamed("Offset", nil), eng.IntConst(-1), eng.NE), predEdges(true)...)
		notConst := func(v ssa.Value) bool { return !eng.IsConst(v) }
		differs := eng.CmpEdges(fn, notConst, eng.LoadNamed("Offset", nil), eng.NE)
		n := 0
		for _, r := range eng.Returns(fn) {
			if len(eng.RetVals(r)) == 3 && eng.Global(cl+"ErrIncorrectOffset")(eng.RetVals(r)[2]) {
				n++
				for name, es := range map[string][]eng.Edge{"concurrency control on": cc, "expected offset given (m.Offset != -1)": hasExp, "offset != m.Offset": differs} {
					g, w := eng.GuardedBy(fn, r, es)
					c.Check(g && len(es) > 0, "ErrIncorrectOffset only when "+name, c.Pos(r), "dominated by the edge", "ErrIncorrectOffset can be returned without "+name+" (path "+w.String()+")")
				}
			}
		}
		if n == 0 {
			c.Violate("ErrIncorrectOffset is returned", p.Pos(fn.Pos()), "newMessageSetFromProto never returns ErrIncorrectOffset: a conditional publish is stored at whatever offset comes next")
		}
		// the compared offset is the one being assigned (baseOffset + i)
		okCmp := false
		eng.Instrs(fn, func(in ssa.Instruction) {
			if bo, ok := in.(*ssa.BinOp); ok && (bo.Op == token.NEQ || bo.Op == token.EQL) {
				assigned := eng.BinComm(token.ADD, eng.Param("baseOffset"), func(v ssa.Value) bool { return isRangeIndex(v) })
				if (eng.LoadNamed("Offset", nil)(bo.Y) && assigned(bo.X)) || (eng.LoadNamed("Offset", nil)(bo.X) && assigned(bo.Y)) {
					okCmp = true
				}
			}
		})
		c.Check(okCmp, "expected offset compared with the offset being assigned", p.Pos(fn.Pos()), "offset (= baseOffset + i) != m.Offset", "m.Offset is not compared with the offset this message would get")
		// when all three hold, no write happens for this message: from the mismatch edge no binary.Write / buf.Write is reachable
		mismatch := eng.CmpEdges(fn, notConst, eng.LoadNamed("Offset", nil), eng.NE)
		var mm []eng.Edge
		for _, e := range mismatch {
			// only the edge inside cc ∧ hasExp
			if g, _ := eng.GuardedBy(fn, e.From.Instrs[len(e.From.Instrs)-1], cc); g {
				mm = append(mm, e)
				continue
			}
			// one joined condition (`refused := control && m.Offset != -1 && offset != m.Offset`): the edge itself says all three
			for _, ce := range cc {
				if ce == e {
					mm = append(mm, e)
				}
			}
		}
		q := &eng.PathQuery{Fn: fn, FromEdges: mm, Target: eng.IsCallTo("encoding/binary.Write", "bytes.Buffer.Write")}
		w := q.Find()
		c.Check(w == nil && len(mm) > 0, "a rejected message is not serialised", p.Pos(fn.Pos()), "from the mismatch edge no write to the buffer is reachable", "bytes of a message with an incorrect expected offset can still be written (path "+w.String()+")")
		// every write of an iteration comes after the test: the first binary.Write is not reachable from the loop head without passing the cc test
		notCC := eng.BoolEdges(fn, eng.Param("concurrencyControl"), false)
		noExp := append(eng.CmpEdges(fn, eng.LoadNamed("Offset", nil), eng.IntConst(-1), eng.EQ), predEdges(false)...)
		same := eng.CmpEdges(fn, notConst, eng.LoadNamed("Offset", nil), eng.EQ)
		// ... or, for one joined condition, the edge on which one of the three is known whichever way it came to be false
		either := eng.EdgesWhere(fn, func(a eng.AtomView) bool {
			if !a.Cmp {
				return a.Val != nil && eng.Param("concurrencyControl")(a.Val) && !a.Pol
			}
			return a.RelHolds(eng.LoadNamed("Offset", nil), eng.IntConst(-1), eng.EQ) || a.RelHolds(notConst, eng.LoadNamed("Offset", nil), eng.EQ)
		})
		for _, wcall := range eng.CallsIn(fn, "encoding/binary.Write") {
			g, wt := eng.GuardedBy(fn, wcall.(ssa.Instruction), append(append(append(append([]eng.Edge{}, notCC...), noExp...), same...), either...))
			c.Check(g, "header written only after the expected-offset test passed", c.Pos(wcall.(ssa.Instruction)), "reached over ¬control ∨ waived ∨ equal", "a header field is written before the expected-offset test (path "+wt.String()+")")
		}
		// batches of more than one message panic under control
		okPanic := false
		eng.Instrs(fn, func(in ssa.Instruction) {
			if pn, ok := in.(*ssa.Panic); ok {
				g1, _ := eng.GuardedBy(fn, pn, cc)
				g2, _ := eng.GuardedBy(fn, pn, eng.CmpEdges(fn, eng.Len(eng.Param("msgs")), eng.IntConst(1), eng.GT))
				if g1 && g2 {
					okPanic = true
				}
			}
		})
		// … and only those: serialisation itself must stay reachable without control and for single messages
		many := eng.CmpEdges(fn, eng.Len(eng.Param("msgs")), eng.IntConst(1), eng.GT)
		for _, enc := range eng.CallsIn(fn, cl+"encode") {
			g1, _ := eng.GuardedBy(fn, enc.(ssa.Instruction), cc)
			g2, _ := eng.GuardedBy(fn, enc.(ssa.Instruction), many)
			if g1 || g2 {
				okPanic = false
			}
		}
		eng.Instrs(fn, func(in ssa.Instruction) {
			if pn, ok := in.(*ssa.Panic); ok {
				// every panic is either the batch refusal or the encode failure
				g1, _ := eng.GuardedBy(fn, pn, cc)
				g2, _ := eng.GuardedBy(fn, pn, many)
				afterEncode, _ := eng.PrecededBy(fn, pn, eng.IsCallTo(cl+"encode"))
				if !(g1 && g2) && !afterEncode {
					okPanic = false
				}
			}
		})
		c.Check(okPanic, "multi-message batches are refused under control", p.Pos(fn.Pos()), "panic on concurrencyControl ∧ len(msgs) > 1", "a batch of several messages can be appended with control on: only the first expected offset could be meaningful")
	}
	c.Floor(9)

	// ---- R16.2
	c.Rule("R16.2", "K2")
	if fn := c.Fn(cl + "(*commitLog).Append"); fn != nil {
		nm := eng.CallsIn(fn, cl+"newMessageSetFromProto")
		ap := eng.CallsIn(fn, cl+"commitLog.append")
		if len(nm) == 1 && len(ap) == 1 {
			nv := nm[0].(ssa.Value)
			okEdge := eng.CmpEdges(fn, func(v ssa.Value) bool { e, ok := v.(*ssa.Extract); return ok && e.Tuple == nv && e.Index == 2 }, eng.NilConst, eng.EQ)
			g, w := eng.GuardedBy(fn, ap[0].(ssa.Instruction), okEdge)
			c.Check(g && len(okEdge) > 0, "log untouched when the message set is rejected", c.Pos(ap[0].(ssa.Instruction)), "l.append only over err == nil", "the segment is written although the expected offset was wrong (path "+w.String()+")")
			// the control flag handed over is the log's option
			okFlag := eng.Call(-1, cl+"commitLog.IsConcurrencyControlEnabled")(nm[0].Common().Args[3])
			c.Check(okFlag, "control flag comes from the log's options", c.Pos(nm[0].(ssa.Instruction)), "newMessageSetFromProto(…, l.IsConcurrencyControlEnabled())", "the concurrency-control flag passed to newMessageSetFromProto is not the log's option")
		} else {
			c.Unresolved("newMessageSetFromProto / append in commitLog.Append")
		}
	}
	c.Floor(2)

	// ---- R16.3
	c.Rule("R16.3", "K1")
	if fn := c.Fn(msgLoopKey); fn != nil {
		on := eng.BoolEdges(fn, eng.Call(-1, cl+"CommitLog.IsConcurrencyControlEnabled"), true)
		c.Check(len(on) > 0, "batch size depends on concurrency control", p.Pos(fn.Pos()), "IsConcurrencyControlEnabled() is tested", "messageProcessingLoop no longer tests IsConcurrencyControlEnabled()")
		// remaining := batchSize - 1 where batchSize is phi[config, 1]: on the control edge the value is the constant 1
		okOne := false
		eng.Instrs(fn, func(in ssa.Instruction) {
			if ph, ok := in.(*ssa.Phi); ok {
				hasOne, hasCfg := false, false
				for i, e := range ph.Edges {
					if eng.IntConst(1)(e) {
						pred := ph.Block().Preds[i]
						// the edge carrying 1 is (or follows) the control-on edge
						q := &eng.PathQuery{Fn: fn, FromEntry: true, TargetEdge: func(ed eng.Edge) bool { return ed.From == pred && ed.To() == ph.Block() }, CutEdges: on}
						if q.Find() == nil {
							hasOne = true
						}
					}
					if eng.LoadNamed("BatchMaxMessages", nil)(e) {
						hasCfg = true
					}
				}
				if hasOne && hasCfg {
					okOne = true
				}
			}
		})
		c.Check(okOne, "control forces single-message batches", p.Pos(fn.Pos()), "batchSize = 1 on the control-enabled edge, else config.BatchMaxMessages", "with concurrency control on the batch size is not forced to 1: newMessageSetFromProto would panic or later messages of the batch would bypass the check")
		// INCORRECT_OFFSET nack exists (R04.4) and is guarded by errors.Is(err, ErrIncorrectOffset)
		isInc := eng.BoolEdges(fn, func(v ssa.Value) bool {
			call, ok := v.(*ssa.Call)
			return ok && (eng.CalleeRef(&call.Call) == "errors.Is" || eng.CalleeRef(&call.Call) == "github.com/pkg/errors.Is") && eng.Global(cl+"ErrIncorrectOffset")(call.Call.Args[1])
		}, true)
		n := 0
		for _, call := range nackSitesIn(c, fn, "Ack_INCORRECT_OFFSET") {
			{
				n++
				g, w := eng.GuardedBy(fn, call, isInc)
				c.Check(g && len(isInc) > 0, "incorrect-offset nack tied to ErrIncorrectOffset", c.Pos(call), "sent only when errors.Is(err, ErrIncorrectOffset)", "the INCORRECT_OFFSET nack is sent for other errors too (path "+w.String()+")")
			}
		}
		// the batch buffer is re-used by the next iteration (msgBatch = msgBatch[:0]): it must not be handed to anything that
		// outlives the iteration
		batch := map[ssa.Value]bool{}
		changed := true
		for changed {
			changed = false
			eng.Instrs(fn, func(in ssa.Instruction) {
				v, isV := in.(ssa.Value)
				if !isV || batch[v] {
					return
				}
				switch x := in.(type) {
				case *ssa.Call:
					if b, ok := x.Call.Value.(*ssa.Builtin); ok && b.Name() == "append" {
						for _, e := range variadicElems(x.Call.Args[1]) {
							if mk := eng.AsCall(e); mk != nil && eng.CalleeRef(&mk.Call) == "server.natsToProtoMessage" {
								batch[v], changed = true, true
							}
						}
						if batch[x.Call.Args[0]] {
							batch[v], changed = true, true
						}
					}
				case *ssa.Phi:
					for _, e := range x.Edges {
						if batch[e] {
							batch[v], changed = true, true
						}
					}
				case *ssa.Slice:
					if batch[x.X] {
						batch[v], changed = true, true
					}
				}
			})
		}
		escapes := ""
		eng.Instrs(fn, func(in ssa.Instruction) {
			ci, ok := in.(ssa.CallInstruction)
			if !ok {
				return
			}
			_, isGo := in.(*ssa.Go)
			ref := eng.CalleeRef(ci.Common())
			if !isGo && !strings.HasPrefix(ref, "server.Server.startGoroutine") {
				return
			}
			var ops []ssa.Value
			for _, a := range eng.AllArgs(ci.Common()) {
				ops = append(ops, a)
				ops = append(ops, variadicElems(a)...)
				if mc, ok := a.(*ssa.MakeClosure); ok {
					ops = append(ops, mc.Bindings...)
				}
			}
			for _, o := range ops {
				if batch[o] || batch[eng.Strip(o)] {
					escapes = c.Pos(in)
				}
			}
		})
		c.Check(escapes == "" && len(batch) > 0, "the re-used batch buffer does not escape its iteration", p.Pos(fn.Pos()), "msgBatch is not passed to a goroutine", "messageProcessingLoop hands its batch buffer to a goroutine at "+escapes+", but the buffer is truncated and refilled by the next iteration: the goroutine reads the next publisher's message (an INCORRECT_OFFSET nack goes to a publisher whose message was stored, the rejected one is never answered)")
		if n == 0 {
			c.Violate("incorrect-offset nack", p.Pos(fn.Pos()), "no INCORRECT_OFFSET nack is sent synchronously by messageProcessingLoop (directly or through a helper it calls in place): the publisher is not told that its conditional publish lost")
		}
	}
	c.Floor(3)

	// ---- R16.4 shared single appender
	c.Rule("R01.2", "K3")
	ruleSingleWriter(c)
	c.Floor(8)
	c.Rule("R02.1", "K3")
	ruleJoinBeforeHandover(c)
	c.Floor(4)

	// ---- R16.7 the server-wide stream settings reach the partition: newPartition copies the server's StreamsConfig field by
	// field before applying the per-stream overrides; a field that is left out silently keeps its zero value (control off)
	c.Rule("R16.7", "K6")
	if fn := c.Fn("server.(*Server).newPartition"); fn != nil {
		st := p.NamedType("server", "StreamsConfig")
		if st == nil {
			c.Unresolved("type server.StreamsConfig")
		} else {
			stored := map[string]bool{}
			eng.Instrs(fn, func(in ssa.Instruction) {
				if sto, ok := in.(*ssa.Store); ok {
					if fa, ok := sto.Addr.(*ssa.FieldAddr); ok && ownerName(fa) == "StreamsConfig" {
						if _, isAlloc := fa.X.(*ssa.Alloc); isAlloc {
							stored[eng.FieldNameOf(fa)] = true
						}
					}
				}
			})
			stt := st.Underlying().(*types.Struct)
			for i := 0; i < stt.NumFields(); i++ {
				f := stt.Field(i).Name()
				c.Check(stored[f], "server-wide stream setting "+f+" reaches new partitions", p.Pos(fn.Pos()), "StreamsConfig."+f+" is initialised from the server configuration in newPartition", "newPartition builds the partition's StreamsConfig without "+f+": the server-wide setting is ignored and only a per-stream override can turn it on"+map[bool]string{true: " — with streams.concurrency.control enabled in the server configuration, streams still run without optimistic concurrency control and conditional publishes are stored at whatever offset comes next", false: ""}[f == "ConcurrencyControl"])
			}
		}
	}
	c.Floor(10)
	c.Rule("R16.8", "K6")
	ruleStreamConfigPlumbing(c, "OptimisticConcurrencyControl")
	c.Floor(3)
	if os.Getenv("LBCHECK_COPIES_ALL") != "" {
		for _, l := range DebugCopies(c.P) {
			c.Note("copy: %s", l)
		}
	}

	// ---- R16.9 the server's own publishes waive the expected-offset check
	c.Rule("R16.9", "K6")
	ruleInternalPublishesWaive(c)
	ruleBuiltMessagesStateTheirExpectation(c)
	c.Floor(5)

	// ---- R16.5
	c.Rule("R16.5", "K1")
	if fn := c.Fn("server.(*apiServer).ensurePublishPreconditions"); fn != nil {
		on := eng.BoolEdges(fn, eng.Call(-1, cl+"CommitLog.IsConcurrencyControlEnabled"), true)
		none := eng.CmpEdges(fn, eng.LoadNamed("AckPolicy", eng.Param("req")), func(v ssa.Value) bool {
			k, ok := eng.Strip(v).(*ssa.Const)
			return ok && eng.EnumName(k) == "AckPolicy_NONE"
		}, eng.EQ)
		ok := false
		for _, r := range eng.Returns(fn) {
			if len(eng.RetVals(r)) == 1 && !eng.NilConst(eng.RetVals(r)[0]) {
				g1, _ := eng.GuardedBy(fn, r, on)
				g2, _ := eng.GuardedBy(fn, r, none)
				if g1 && g2 && len(on) > 0 && len(none) > 0 {
					ok = true
				}
			}
		}
		c.Check(ok, "NONE policy refused on controlled streams", p.Pos(fn.Pos()), "error on IsConcurrencyControlEnabled() ∧ AckPolicy == NONE", "a publish without acknowledgement is accepted on a stream with concurrency control: the publisher cannot learn that it lost")
	}
	// the functions that send a PublishRequest's message: the async loop, and whichever function hands a request's message
	// to the low-level apiServer.publish (Publish itself, or the helper it shares with the server's own publishes)
	senders := []*ssa.Function{}
	if fn := c.Fn("server.(*publishAsyncSession).publishLoop"); fn != nil {
		senders = append(senders, fn)
	}
	isReqParam := func(prm *ssa.Parameter) bool {
		pt, ok := prm.Type().(*types.Pointer)
		if !ok {
			return false
		}
		nt, ok := pt.Elem().(*types.Named)
		return ok && nt.Obj().Name() == "PublishRequest"
	}
	for _, fn := range p.Funcs {
		if fn.Parent() != nil || len(eng.CallsIn(fn, "server.apiServer.publish")) == 0 {
			continue
		}
		for _, prm := range fn.Params {
			if isReqParam(prm) {
				senders = append(senders, fn)
				break
			}
		}
	}
	if h := c.Fn("server.(*apiServer).Publish"); h != nil {
		reaches := false
		for _, s := range senders {
			if s == h {
				reaches = true
			}
			for _, ci := range eng.CallsIn(h, funcRefOf(s)) {
				if _, isCall := ci.(*ssa.Call); isCall {
					reaches = true
				}
			}
		}
		c.Check(reaches, "Publish sends through a checked sender", p.Pos(h.Pos()), "Publish is, or synchronously calls, a function that checks the publish preconditions before sending", "the Publish handler does not send through a function that checks the publish preconditions")
	}
	for _, fn := range senders {
		pre := eng.CallsIn(fn, "server.apiServer.ensurePublishPreconditions")
		if len(pre) != 1 {
			c.Violate("preconditions checked in "+fn.Name(), p.Pos(fn.Pos()), fn.Name()+" does not call ensurePublishPreconditions exactly once")
			continue
		}
		pv := pre[0].(ssa.Value)
		okEdge := eng.CmpEdges(fn, eng.Same(pv), eng.NilConst, eng.EQ)
		for _, pub := range eng.CallsIn(fn, "server.apiServer.publish", "github.com/nats-io/nats.go.Conn.Publish") {
			q := &eng.PathQuery{Fn: fn, FromAfter: []ssa.Instruction{pre[0].(ssa.Instruction)}, Target: func(x ssa.Instruction) bool { return x == pub.(ssa.Instruction) }, CutEdges: okEdge}
			w := q.Find()
			g, _ := eng.PrecededBy(fn, pub.(ssa.Instruction), func(x ssa.Instruction) bool { return x == pre[0].(ssa.Instruction) })
			c.Check(w == nil && g && len(okEdge) > 0, "publish in "+fn.Name()+" only after the preconditions passed", c.Pos(pub.(ssa.Instruction)), "reached only over ensurePublishPreconditions(req) == nil", "a message is published although the publish preconditions failed or were not checked (path "+w.String()+")")
		}
	}
	c.Floor(4)
	// ---- R15.8 (shared) the configuration keys this property's switches hang on reach their fields
	ruleConfigWiring(c, "R15.8")

	// ---- R16.8 (extension) replicated config → stream object: the settings of a created stream are the logged ones
	c.Rule("R16.8", "K6")
	ruleCreatedStreamUsesLoggedConfig(c)

	c.Rule("R14.9", "K1")
	ruleRawPayloadWaivesExpectedOffset(c)

	// ---- R01.15 (shared) a roll excludes appends: the base offset of the new segment is the log end at the time it is published
	c.Rule("R01.15", "K4")
	ruleRollExcludesAppend(c)

}

// ruleInternalPublishesWaive (R16.9, shared with C11 and C18): a PublishRequest that the server builds itself (cursors,
// activity stream) carries ExpectedOffset = -1. The zero value 0 is a claim ("this message will get offset 0"), not a waiver:
// on a stream with optimistic concurrency control — which `streams.concurrency.control` turns on for ALL streams, the
// internal ones included — every such publish after the first is refused.
func ruleInternalPublishesWaive(c *eng.Ctx) {
	p := c.P
	n := 0
	for _, fn := range p.Funcs {
		if fn.Pkg == nil || !c.P.IsModuleFunc(fn) {
			continue
		}
		eng.Instrs(fn, func(in ssa.Instruction) {
			al, ok := in.(*ssa.Alloc)
			if !ok || al.Referrers() == nil {
				return
			}
			pt, ok := al.Type().(*types.Pointer)
			if !ok {
				return
			}
			nt, ok := pt.Elem().(*types.Named)
			if !ok || nt.Obj().Name() != "PublishRequest" || nt.Obj().Pkg() == nil || !strings.HasSuffix(nt.Obj().Pkg().Path(), "liftbridge-api/go") && !strings.Contains(nt.Obj().Pkg().Path(), "liftbridge-api") {
				return
			}
			n++
			waived := false
			for _, r := range *al.Referrers() {
				if fa, isFA := r.(*ssa.FieldAddr); isFA && eng.FieldNameOf(fa) == "ExpectedOffset" && fa.Referrers() != nil {
					for _, rr := range *fa.Referrers() {
						if st, isSt := rr.(*ssa.Store); isSt && eng.IntConst(-1)(st.Val) {
							waived = true
						}
					}
				}
			}
			c.Check(waived, "publish request built in "+ir.FuncKey(ir.Outermost(fn))+" waives the expected offset", c.Pos(al), "ExpectedOffset: -1", "the server publishes with ExpectedOffset left at 0: with concurrency control enabled for all streams every such publish after the first one is refused as 'incorrect expected offset' (cursors can be stored once, activity events stop)")
		})
	}
	if n == 0 {
		c.Unresolved("PublishRequest literals built by the server")
	}
}

// ruleBuiltMessagesStateTheirExpectation (R16.9 extension): every publish message (liftbridge-api Message) the server
// builds for a request says what it expects of the offset — the request's ExpectedOffset where the request has one, the
// waiver -1 where it has none (PublishToSubject). The zero value is a claim ("must land at offset 0"), not an absence.
func ruleBuiltMessagesStateTheirExpectation(c *eng.Ctx) {
	p := c.P
	n := 0
	for _, fn := range p.Funcs {
		if fn.Pkg == nil || !c.P.IsModuleFunc(fn) {
			continue
		}
		eng.Instrs(fn, func(in ssa.Instruction) {
			al, ok := in.(*ssa.Alloc)
			if !ok || al.Referrers() == nil {
				return
			}
			pt, ok := al.Type().(*types.Pointer)
			if !ok {
				return
			}
			nt, ok := pt.Elem().(*types.Named)
			if !ok || nt.Obj().Name() != "Message" || nt.Obj().Pkg() == nil || !strings.Contains(nt.Obj().Pkg().Path(), "liftbridge-api") {
				return
			}
			// only messages that are sent: handed to the publish helper or marshalled as a publish envelope
			sent := false
			for _, r := range *al.Referrers() {
				if ci, isCall := r.(ssa.CallInstruction); isCall && eng.RefIn(eng.CalleeRef(ci.Common()), "server.apiServer.publish", "server/protocol.MarshalPublish") {
					sent = true
				}
			}
			if !sent {
				return
			}
			n++
			stated, what := false, "never assigned"
			for _, r := range *al.Referrers() {
				if fa, isFA := r.(*ssa.FieldAddr); isFA && eng.FieldNameOf(fa) == "Offset" && fa.Referrers() != nil {
					for _, rr := range *fa.Referrers() {
						if st, isSt := rr.(*ssa.Store); isSt {
							if eng.IntConst(-1)(st.Val) || eng.LoadNamed("ExpectedOffset", nil)(st.Val) {
								stated = true
							} else {
								what = "set from " + eng.Describe(st.Val)
							}
						}
					}
				}
			}
			c.Check(stated, "publish message built in "+ir.FuncKey(ir.Outermost(fn))+" states its expected offset", c.Pos(al), "Offset: the request's ExpectedOffset, or -1 where the request has none", "the message is published with Offset "+what+": the partition leader reads 0 as `must land at offset 0`, so on a stream with optimistic concurrency control a publish that cannot state an expectation is refused whenever the log is not empty (and silently treated as a conditional publish when it is)")
		})
	}
	if n < 3 {
		c.Unresolved("the publish messages built in api.go (Publish, PublishAsync, PublishToSubject)")
	}
}

func funcRefOf(fn *ssa.Function) string {
	obj, _ := fn.Object().(*types.Func)
	return eng.FuncRef(obj)
}
