package rules

import (
	"fmt"
	"go/token"
	"go/types"
	"os"
	"sort"
	"strings"

	"golang.org/x/tools/go/ssa"

	"lbcheck/eng"
	"lbcheck/ir"
)

// Sentinel identity rule (R14.6 and siblings): where a function tells error cases apart with `err == ErrX` (identity, not
// errors.Is / Cause), every module function on the way from the place ErrX is produced to that comparison must hand the
// sentinel on unchanged. Wrapping it on the way (errors.Wrap, fmt.Errorf ...) makes the comparison false and sends the
// caller down its "any other error" branch - in handleReplicationResponse that branch is a panic.

// sentinelWrapExceptions: a wrap that is on the chain but cannot matter, keyed by sentinel | comparing function | wrapping
// function, with the reason.
var sentinelWrapExceptions = map[string]string{
	"io.EOF|server.(*partition).newSubscribeLoop$1|server/commitlog.(*ReverseReader).ReadMessage": "the wrap is on the failure path of re-initialising the reader after its segment was replaced; the end-of-iteration io.EOF is returned bare by the same function",
	"io.EOF|server.(*partition).newSubscribeLoop$1|server/commitlog.readMessage":                  "the forward readers block at the end of the log and meet io.EOF only when the subscription's context is cancelled, when nobody observes the status; the end-of-iteration io.EOF is the reverse reader's, which returns it bare",
	"io.EOF|server.(*partition).newSubscribeLoop$1|server/commitlog.(*Reader).ReadMessage":        "the forward readers block at the end of the log and meet io.EOF only when the subscription's context is cancelled, when nobody observes the status; the end-of-iteration io.EOF is the reverse reader's, which returns it bare",
}

type sentinelSite struct {
	Fn   *ssa.Function
	Cmp  *ssa.BinOp
	Err  ssa.Value
	S    *ssa.Global
	Name string
	// Tolerant: the comparison looks through wrapping (errors.Is, Cause(x) == S): nothing to demand of the producers
	Tolerant bool
	// Via: how a tolerant comparison looks through wrapping: "cause" (pkg/errors.Cause: sees through pkg/errors wrappers
	// only) or "is" (errors.Is: sees through anything with Unwrap, i.e. pkg/errors wrappers and fmt.Errorf with %w)
	Via string
	At  ssa.Instruction
}

func errorResultIndex(sig *types.Signature) int {
	rs := sig.Results()
	for i := rs.Len() - 1; i >= 0; i-- {
		if types.Identical(rs.At(i).Type(), types.Universe.Lookup("error").Type()) {
			return i
		}
	}
	return -1
}

func globalLoad(v ssa.Value) *ssa.Global {
	u, ok := v.(*ssa.UnOp)
	if !ok || u.Op != token.MUL {
		return nil
	}
	g, _ := u.X.(*ssa.Global)
	return g
}

// sentinelSites lists the identity comparisons of an error value with a package-level error variable in module functions.
func sentinelSites(p *ir.Program) []sentinelSite {
	var out []sentinelSite
	errT := types.Universe.Lookup("error").Type()
	nameOf := func(g *ssa.Global) string {
		if g.Pkg != nil {
			return ir.Short(g.Pkg.Pkg.Path()) + "." + g.Name()
		}
		return g.Name()
	}
	isErrGlobal := func(g *ssa.Global) bool {
		return g != nil && types.Identical(g.Type().(*types.Pointer).Elem(), errT)
	}
	for _, fn := range p.Funcs {
		eng.Instrs(fn, func(in ssa.Instruction) {
			if call, ok := in.(*ssa.Call); ok {
				if eng.CalleeRef(&call.Call) == "errors.Is" && len(call.Call.Args) == 2 {
					if g := globalLoad(call.Call.Args[1]); isErrGlobal(g) {
						out = append(out, sentinelSite{Fn: fn, Err: call.Call.Args[0], S: g, Name: nameOf(g), Tolerant: true, Via: "is", At: call})
					}
				}
				return
			}
			bo, ok := in.(*ssa.BinOp)
			if !ok || (bo.Op != token.EQL && bo.Op != token.NEQ) {
				return
			}
			x, y := bo.X, bo.Y
			if globalLoad(x) != nil && globalLoad(y) == nil {
				x, y = y, x
			}
			g := globalLoad(y)
			if !isErrGlobal(g) {
				return
			}
			tolerant, via := false, ""
			errVal := x
			if call, ok := x.(*ssa.Call); ok {
				switch eng.CalleeRef(&call.Call) {
				case "github.com/pkg/errors.Cause", "errors.Unwrap":
					tolerant, via = true, "cause"
					if len(call.Call.Args) > 0 {
						errVal = call.Call.Args[0]
					}
				}
			}
			out = append(out, sentinelSite{Fn: fn, Cmp: bo, Err: errVal, S: g, Name: nameOf(g), Tolerant: tolerant, Via: via, At: bo})
		})
	}
	return out
}

type sentinelFlow struct {
	p     *ir.Program
	S     *ssa.Global
	memo  map[*ssa.Function]int // 0 unknown, 1 in progress, 2 no, 3 yes
	wraps map[ssa.Instruction]*ssa.Function
	chain map[*ssa.Function]bool
	edges map[*ssa.Function][]*ssa.Function // caller -> callees asked for the sentinel
	cur   *ssa.Function
}

// callees resolves a call to the module functions it may run: the static callee, or for an interface method call every
// module method of that name whose receiver implements the interface.
func (sf *sentinelFlow) callees(cc *ssa.CallCommon) []*ssa.Function {
	if f := cc.StaticCallee(); f != nil {
		if sf.p.IsModuleFunc(f) && len(f.Blocks) > 0 {
			return []*ssa.Function{f}
		}
		return nil
	}
	if !cc.IsInvoke() {
		return nil
	}
	iface, _ := cc.Value.Type().Underlying().(*types.Interface)
	if iface == nil {
		return nil
	}
	var out []*ssa.Function
	for _, f := range sf.p.Funcs {
		if f.Signature.Recv() == nil || f.Name() != cc.Method.Name() || f.Parent() != nil {
			continue
		}
		if types.Implements(f.Signature.Recv().Type(), iface) {
			out = append(out, f)
		}
	}
	return out
}

// sources enumerates the values an error value may have been taken from (phis, cells, interface conversions looked through).
func sources(v ssa.Value, seen map[ssa.Value]bool, f func(ssa.Value)) {
	if v == nil || seen[v] {
		return
	}
	seen[v] = true
	switch x := v.(type) {
	case *ssa.Phi:
		for _, e := range x.Edges {
			sources(e, seen, f)
		}
		return
	case *ssa.ChangeInterface:
		sources(x.X, seen, f)
		return
	case *ssa.UnOp:
		if x.Op == token.MUL {
			if a, ok := x.X.(*ssa.Alloc); ok {
				if refs := a.Referrers(); refs != nil {
					for _, r := range *refs {
						if st, ok := r.(*ssa.Store); ok && st.Addr == a {
							sources(st.Val, seen, f)
						}
					}
				}
				// closures writing the cell
				if refs := a.Referrers(); refs != nil {
					for _, r := range *refs {
						if mc, ok := r.(*ssa.MakeClosure); ok {
							cl := mc.Fn.(*ssa.Function)
							for i, b := range mc.Bindings {
								if b != a {
									continue
								}
								fv := cl.FreeVars[i]
								if fr := fv.Referrers(); fr != nil {
									for _, r2 := range *fr {
										if st, ok := r2.(*ssa.Store); ok && st.Addr == fv {
											sources(st.Val, seen, f)
										}
									}
								}
							}
						}
					}
				}
				return
			}
		}
	}
	f(v)
}

func (sf *sentinelFlow) carries(v ssa.Value) bool {
	found := false
	sources(v, map[ssa.Value]bool{}, func(s ssa.Value) {
		if found {
			return
		}
		if g := globalLoad(s); g != nil {
			if g == sf.S {
				found = true
			}
			return
		}
		var call *ssa.Call
		switch x := s.(type) {
		case *ssa.Extract:
			call, _ = x.Tuple.(*ssa.Call)
		case *ssa.Call:
			call = x
		}
		if call == nil {
			return
		}
		for _, g := range sf.callees(&call.Call) {
			if sf.cur != nil {
				sf.edges[sf.cur] = append(sf.edges[sf.cur], g)
			}
			if sf.mayReturn(g) {
				found = true
			}
		}
		// a sentinel of a dependency (nats.ErrTimeout, raft.ErrNotLeader) is produced by calls into that dependency
		if sf.S.Pkg != nil && !ir.InModule(sf.S.Pkg.Pkg.Path()) {
			if pkg := calleePkgPath(&call.Call); pkg != "" && pkg == sf.S.Pkg.Pkg.Path() {
				found = true
			}
		}
	})
	return found
}

func calleePkgPath(cc *ssa.CallCommon) string {
	if f := cc.StaticCallee(); f != nil && f.Pkg != nil {
		return f.Pkg.Pkg.Path()
	}
	if cc.IsInvoke() && cc.Method != nil && cc.Method.Pkg() != nil {
		return cc.Method.Pkg().Path()
	}
	return ""
}

// unwraps reports whether fn looks through wrapping for this sentinel: it compares Cause(x) with it, or asks errors.Is.
func (sf *sentinelFlow) unwraps(fn *ssa.Function) bool {
	res := false
	eng.Instrs(fn, func(in ssa.Instruction) {
		switch x := in.(type) {
		case *ssa.BinOp:
			if x.Op != token.EQL && x.Op != token.NEQ {
				return
			}
			a, b := x.X, x.Y
			if globalLoad(a) == sf.S {
				a, b = b, a
			}
			if globalLoad(b) != sf.S {
				return
			}
			if call, ok := a.(*ssa.Call); ok {
				switch eng.CalleeRef(&call.Call) {
				case "github.com/pkg/errors.Cause", "errors.Unwrap":
					res = true
				}
			}
		case *ssa.Call:
			if eng.CalleeRef(&x.Call) == "errors.Is" && len(x.Call.Args) == 2 && globalLoad(x.Call.Args[1]) == sf.S {
				res = true
			}
		}
	})
	return res
}

// mayReturn reports whether fn can return the sentinel itself, and records, for functions that can, the places where a
// value carrying the sentinel is passed through a non-module call before being returned (a wrap).
func (sf *sentinelFlow) mayReturn(fn *ssa.Function) bool {
	switch sf.memo[fn] {
	case 1, 2:
		return false
	case 3:
		return true
	}
	sf.memo[fn] = 1
	saved := sf.cur
	sf.cur = fn
	defer func() { sf.cur = saved }()
	idx := errorResultIndex(fn.Signature)
	res := false
	if idx >= 0 {
		for _, r := range eng.Returns(fn) {
			vals := eng.RetVals(r)
			if idx >= len(vals) {
				continue
			}
			if sf.carries(vals[idx]) {
				res = true
			}
			// wraps: a returned value that is the result of a call outside the module (or to a module function that itself
			// cannot return the sentinel) taking a sentinel-carrying argument
			sources(vals[idx], map[ssa.Value]bool{}, func(s ssa.Value) {
				var call *ssa.Call
				switch x := s.(type) {
				case *ssa.Extract:
					call, _ = x.Tuple.(*ssa.Call)
				case *ssa.Call:
					call = x
				}
				if call == nil {
					return
				}
				errT := types.Universe.Lookup("error").Type()
				for _, a := range call.Call.Args {
					if types.Identical(a.Type(), errT) {
						if sf.carries(a) {
							sf.wraps[call] = fn
						}
						continue
					}
					// errors handed over in a variadic ...interface{} (fmt.Errorf)
					for _, e := range variadicElems(a) {
						var inner ssa.Value
						switch x := e.(type) {
						case *ssa.ChangeInterface:
							inner = x.X
						case *ssa.MakeInterface:
							inner = x.X
						}
						if inner != nil && types.Identical(inner.Type(), errT) && sf.carries(inner) {
							sf.wraps[call] = fn
						}
					}
				}
			})
		}
	}
	if res {
		sf.memo[fn] = 3
		sf.chain[fn] = true
	} else {
		sf.memo[fn] = 2
	}
	return res
}

// sentinelVerdict decides one comparison site. origin: the module functions whose result is compared; resolved: the
// sentinel was found to be producible on that chain; wraps: the wrap sites that are on the chain.
func sentinelVerdict(p *ir.Program, s sentinelSite) (origins []*ssa.Function, resolved bool, wraps []ssa.Instruction, chain []string) {
	sf := &sentinelFlow{p: p, S: s.S, memo: map[*ssa.Function]int{}, wraps: map[ssa.Instruction]*ssa.Function{}, chain: map[*ssa.Function]bool{}, edges: map[*ssa.Function][]*ssa.Function{}}
	sources(s.Err, map[ssa.Value]bool{}, func(v ssa.Value) {
		var call *ssa.Call
		switch x := v.(type) {
		case *ssa.Extract:
			call, _ = x.Tuple.(*ssa.Call)
		case *ssa.Call:
			call = x
		}
		if call == nil {
			return
		}
		for _, g := range sf.callees(&call.Call) {
			origins = append(origins, g)
			if sf.mayReturn(g) {
				resolved = true
			}
		}
		// the comparing function's own hand-over: a wrap between the call and the comparison is impossible (the compared
		// value is the call's result itself)
	})
	// the functions whose returned error can arrive at the comparison still wrapped: from the origins down the chain, not
	// past a function that looks through wrapping for this sentinel (Reader.ReadMessage re-derives it from Cause())
	exposed := map[*ssa.Function]bool{}
	var walk func(f *ssa.Function)
	walk = func(f *ssa.Function) {
		if exposed[f] {
			return
		}
		exposed[f] = true
		if sf.unwraps(f) {
			return
		}
		for _, g := range sf.edges[f] {
			walk(g)
		}
	}
	for _, o := range origins {
		walk(o)
	}
	for w, fn := range sf.wraps {
		if exposed[fn] {
			wraps = append(wraps, w)
		}
	}
	sort.Slice(wraps, func(i, j int) bool { return p.InstrPos(wraps[i]) < p.InstrPos(wraps[j]) })
	for f := range sf.chain {
		chain = append(chain, ir.FuncKey(f))
	}
	sort.Strings(chain)
	return
}

// ruleSentinelIdentity emits one obligation per identity comparison found in the root functions and the module functions
// they reach (two call levels, closures included) whose compared value comes from a module function that can produce the
// sentinel. In a root itself an unresolved flow is reported; below it it is skipped.
func ruleSentinelIdentity(c *eng.Ctx, rule string, roots []string, why string) int {
	c.Rule(rule, "K5")
	scope := map[*ssa.Function]bool{}
	isRoot := map[*ssa.Function]bool{}
	for _, k := range roots {
		fn := c.Fn(k)
		if fn == nil {
			continue
		}
		for _, f := range moduleReach(c, fn, 2) {
			scope[f] = true
		}
		isRoot[fn] = true
	}
	n := 0
	for _, s := range sentinelSites(c.P) {
		if len(roots) > 0 && !scope[s.Fn] {
			if os.Getenv("LBCHECK_SENT_DUMP") != "" {
				origins, resolved, wraps, _ := sentinelVerdict(c.P, s)
				fmt.Fprintf(os.Stderr, "SENT-DUMP %s in %s at %s tolerant=%v origins=%d resolved=%v wraps=%d\n", s.Name, ir.FuncKey(s.Fn), c.Pos(s.At), s.Tolerant, len(origins), resolved, len(wraps))
			}
			continue
		}
		if s.Tolerant {
			n++
			// the comparison looks through wrapping — of the kind its helper understands: Cause() does not see through
			// fmt.Errorf (not even with %w), errors.Is does not see through fmt.Errorf without %w
			_, _, wraps, _ := sentinelVerdict(c.P, s)
			opaque := ""
			for _, w := range wraps {
				call, isCall := w.(*ssa.Call)
				if !isCall || eng.CalleeRef(&call.Call) != "fmt.Errorf" {
					continue
				}
				if s.Via == "cause" {
					opaque = c.Pos(w)
				} else if f, isK := constString(call.Call.Args[0]); !isK || !strings.Contains(f, "%w") {
					opaque = c.Pos(w)
				}
			}
			construct := s.Name + " compared through errors.Is / Cause in " + ir.FuncKey(s.Fn)
			if opaque != "" {
				c.Violate(construct, opaque, s.Name+" is wrapped with fmt.Errorf on its way to a comparison made through "+map[string]string{"cause": "pkg/errors.Cause, which does not look through fmt.Errorf", "is": "errors.Is, and the format has no %w"}[s.Via]+" ("+c.Pos(s.At)+"): the comparison is false for it and "+why)
				continue
			}
			c.OK(construct, c.Pos(s.At), "the comparison looks through the wrappers used on the way")
			continue
		}
		origins, resolved, wraps, chain := sentinelVerdict(c.P, s)
		if len(origins) == 0 {
			continue // the compared value does not come from a module function (nats, raft, io): nothing to hand on
		}
		construct := s.Name + " compared by identity in " + ir.FuncKey(s.Fn)
		// named exceptions: sentinel | comparing function | wrapping function
		kept := wraps[:0:0]
		excused := ""
		for _, w := range wraps {
			wf := ""
			if f := w.Parent(); f != nil {
				wf = ir.FuncKey(f)
			}
			if why, ok := sentinelWrapExceptions[s.Name+"|"+ir.FuncKey(s.Fn)+"|"+wf]; ok {
				excused = " (wrap in " + wf + " excepted: " + why + ")"
				continue
			}
			kept = append(kept, w)
		}
		wraps = kept
		if len(wraps) > 0 {
			n++
			c.Violate(construct, c.Pos(wraps[0]), s.Name+" is wrapped on its way to an identity comparison ("+c.Pos(s.Cmp)+"): the comparison is false for it and "+why)
			continue
		}
		if !resolved {
			if isRoot[ir.Outermost(s.Fn)] {
				c.Undecided(construct, c.Pos(s.Cmp), "the sentinel is not found to be returned by "+ir.FuncKey(origins[0])+": the comparison can never hold, or the flow is not resolved")
				n++
			}
			continue
		}
		n++
		c.OK(construct, c.Pos(s.Cmp), "handed on unchanged by "+joinShort(chain)+excused)
	}
	return n
}

func joinShort(xs []string) string {
	out := ""
	for i, x := range xs {
		if i > 0 {
			out += ", "
		}
		if i == 4 {
			out += "…"
			break
		}
		out += x
	}
	return out
}
