package rules

import (
	"go/token"

	"golang.org/x/tools/go/ssa"

	"lbcheck/eng"
)

// ruleEpochCacheShapes (R02.8, shared with C05): the leader epoch cache answers "where does the log of leader epoch e end"
// — the offset a follower truncates to after a leader change — and is trimmed at both ends when the log is truncated,
// cleaned or recovered. Each comparison below is exact in the code and a necessary condition: relaxing or negating it makes
// a follower keep messages its new leader never had, or drop ones it did have.
func ruleEpochCacheShapes(c *eng.Ctx) {
	p := c.P
	ec := cl + "(*leaderEpochCache)."
	offs := p.Field(clPkg, "leaderEpochCache", "epochOffsets")
	call := func(ref string) eng.VM { return eng.Call(-1, cl+"leaderEpochCache."+ref) }
	retOf := func(fn *ssa.Function, m eng.VM) []*ssa.Return {
		var out []*ssa.Return
		for _, r := range eng.Returns(fn) {
			if rv := eng.RetVals(r); len(rv) > 0 && m(rv[0]) {
				out = append(out, r)
			}
		}
		return out
	}
	if fn := epochQueryFn(c); fn != nil {
		none := eng.CmpEdges(fn, call("findEpoch"), eng.NilConst, eng.EQ)
		some := eng.CmpEdges(fn, call("findEpoch"), eng.NilConst, eng.NE)
		ok := len(none) > 0 && len(some) > 0
		for _, r := range retOf(fn, eng.IntConst(-1)) {
			if g, _ := eng.GuardedBy(fn, r, none); !g {
				ok = false
			}
		}
		found := retOf(fn, eng.LoadNamed("startOffset", call("findEpoch")))
		for _, r := range found {
			if g, _ := eng.GuardedBy(fn, r, some); !g {
				ok = false
			}
		}
		c.Check(ok && len(found) == 1, "end of an epoch = start offset of the next recorded epoch, -1 when there is none", p.Pos(fn.Pos()), "findEpoch(epoch+1) == nil ? -1 : e.startOffset", "LastOffsetForLeaderEpoch does not answer (start offset of the first later epoch, or -1 when the epoch is the current one): a follower truncates to the wrong offset after a leader change")
	}
	if fn := c.Fn(ec + "findEpoch"); fn != nil {
		pred := c.FnQuiet(ec + "findEpoch$1")
		okPred := false
		if pred != nil {
			for _, r := range eng.Returns(pred) {
				if eng.RelVal(eng.LoadNamed("leaderEpoch", nil), freeVarNamed("epoch"), eng.GE)(eng.RetVals(r)[0]) {
					okPred = true
				}
			}
		}
		inRange := eng.CmpEdges(fn, eng.Call(-1, "sort.Search"), eng.Len(eng.Load(offs, nil)), eng.LT)
		okRange := len(inRange) > 0 && exactRel(fn, eng.Call(-1, "sort.Search"), eng.Len(eng.Load(offs, nil)), eng.LT)
		for _, r := range eng.Returns(fn) {
			if rv := eng.RetVals(r); len(rv) == 1 && !eng.NilConst(rv[0]) {
				if g, _ := eng.GuardedBy(fn, r, inRange); !g {
					okRange = false
				}
			}
		}
		c.Check(okPred && okRange, "findEpoch = first entry with leaderEpoch >= epoch, nil past the end", p.Pos(fn.Pos()), "sort.Search(leaderEpoch >= epoch); entry only when i < len", "findEpoch does not return the first entry whose epoch is >= the requested one (nil when none)")
	}
	if fn := c.Fn(ec + "ClearLatest"); fn != nil {
		beyond := eng.CmpEdges(fn, eng.Param("offset"), call("latestOffset"), eng.GT)
		okEarly := len(beyond) > 0 && exactRel(fn, eng.Param("offset"), call("latestOffset"), eng.GT)
		// nothing is removed on that edge: no store to epochOffsets reachable from it
		q := &eng.PathQuery{Fn: fn, FromEdges: beyond, Target: func(x ssa.Instruction) bool {
			st, ok := x.(*ssa.Store)
			if !ok {
				return false
			}
			fa, ok := st.Addr.(*ssa.FieldAddr)
			return ok && fieldIs(fa, offs)
		}}
		okEarly = okEarly && q.Find() == nil
		c.Check(okEarly, "ClearLatest is a no-op only for an offset beyond every recorded epoch", p.Pos(fn.Pos()), "return early exactly on offset > latestOffset()", "ClearLatest's early exit is not `offset > latestOffset()`: an epoch that starts exactly at the truncation offset survives the truncation (the follower later reports the wrong end of that epoch), or nothing is ever trimmed")
		sts := eng.FieldStores(fn, func(fa *ssa.FieldAddr) bool { return fieldIs(fa, offs) })
		okStore := len(sts) == 1
		if okStore {
			g, _ := eng.PrecededBy(fn, eng.CallsIn(fn, cl+"leaderEpochCache.flush")[0].(ssa.Instruction), func(x ssa.Instruction) bool { return x == ssa.Instruction(sts[0]) })
			okStore = g
		}
		// polarity: an entry is kept exactly when it starts below the offset
		keep := eng.CmpEdges(fn, eng.LoadNamed("startOffset", nil), eng.Param("offset"), eng.LT)
		okKeep, nApp := len(keep) > 0, 0
		eng.Instrs(fn, func(in ssa.Instruction) {
			if ac, ok := in.(*ssa.Call); ok {
				if b, ok := ac.Call.Value.(*ssa.Builtin); ok && b.Name() == "append" {
					nApp++
					if g, _ := eng.GuardedBy(fn, in, keep); !g {
						okKeep = false
					}
				}
			}
		})
		c.Check(okKeep && nApp == 1 && exactRel(fn, eng.LoadNamed("startOffset", nil), eng.Param("offset"), eng.LT), "ClearLatest keeps exactly the epochs that start below the offset", p.Pos(fn.Pos()), "filtered = entries with startOffset < offset", "ClearLatest keeps an epoch that starts at or after the truncation offset (or drops one that starts before it): the follower reports the wrong end for the epoch and diverges from its leader")
		c.Check(okStore, "the trimmed epoch list is installed and persisted", p.Pos(fn.Pos()), "l.epochOffsets = filtered; flush()", "ClearLatest does not install the filtered list before flushing it")
	}
	if fn := c.Fn(ec + "ClearEarliest"); fn != nil {
		okEarly := exactRel(fn, call("earliestOffset"), eng.Param("offset"), eng.GE)
		drop := eng.CmpEdges(fn, eng.LoadNamed("startOffset", nil), eng.Param("offset"), eng.LT)
		okDrop := len(drop) > 0 && exactRel(fn, eng.LoadNamed("startOffset", nil), eng.Param("offset"), eng.LT)
		// what stays is the tail after the dropped prefix
		okTail := false
		okReadd := false
		for _, st := range eng.FieldStores(fn, func(fa *ssa.FieldAddr) bool { return fieldIs(fa, offs) }) {
			if sl, ok := st.Val.(*ssa.Slice); ok && eng.Load(offs, nil)(sl.X) && sl.Low != nil && sl.High == nil {
				okTail = true
			}
			if ac := eng.AsCall(st.Val); ac != nil {
				if b, ok := ac.Call.Value.(*ssa.Builtin); ok && b.Name() == "append" && eng.Load(offs, nil)(ac.Call.Args[1]) {
					// the re-added entry: epoch of the last dropped one, start = offset
					okE, okO := false, false
					eng.Instrs(fn, func(in ssa.Instruction) {
						s2, ok := in.(*ssa.Store)
						if !ok {
							return
						}
						fa, ok := s2.Addr.(*ssa.FieldAddr)
						if !ok || ownerName(fa) != "epochOffset" {
							return
						}
						switch eng.FieldNameOf(fa) {
						case "startOffset":
							okO = okO || eng.Param("offset")(s2.Val)
						case "leaderEpoch":
							if f, b := eng.FieldRead(s2.Val); f != nil && f.Name() == "leaderEpoch" {
								if ia := indexOfLoad(eng.Strip(b)); ia != nil && eng.Bin(token.SUB, eng.Len(eng.AnyV), eng.IntConst(1))(ia.Index) {
									okE = true
								}
							}
						}
					})
					before := eng.CmpEdges(fn, eng.Param("offset"), call("earliestOffset"), eng.LT)
					g, _ := eng.GuardedBy(fn, st, append(before, eng.CmpEdges(fn, eng.Len(eng.Load(offs, nil)), eng.IntConst(0), eng.EQ)...))
					okReadd = okE && okO && g && len(before) > 0
				}
			}
		}
		// polarity: the list is cut only when something starts before the offset
		needed := eng.CmpEdges(fn, call("earliestOffset"), eng.Param("offset"), eng.LT)
		some := eng.CmpEdges(fn, eng.Len(eng.AnyV), eng.IntConst(0), eng.NE)
		for _, st := range eng.FieldStores(fn, func(fa *ssa.FieldAddr) bool { return fieldIs(fa, offs) }) {
			g1, _ := eng.GuardedBy(fn, st, needed)
			g2, _ := eng.GuardedBy(fn, st, some)
			if !g1 || !g2 || len(needed) == 0 {
				okEarly = false
			}
		}
		eng.Instrs(fn, func(in ssa.Instruction) {
			if ac, ok := in.(*ssa.Call); ok {
				if b, ok := ac.Call.Value.(*ssa.Builtin); ok && b.Name() == "append" {
					if _, isPhi := ac.Call.Args[0].(*ssa.Phi); isPhi {
						if g, _ := eng.GuardedBy(fn, in, drop); !g {
							okDrop = false
						}
					}
				}
			}
		})
		c.Check(okEarly && okDrop && okTail && okReadd, "ClearEarliest moves the oldest epoch's start to the new log start", p.Pos(fn.Pos()), "no-op on earliestOffset() >= offset; drop entries with startOffset < offset; re-add {epoch of the last dropped, offset} when offset < next start or nothing is left", "ClearEarliest does not (only) drop the epochs that start before the new log start and re-anchor the newest of them at that offset: after retention or recovery the epoch of the oldest retained messages is lost or mis-placed")
	}
	if fn := c.Fn(ec + "Replace"); fn != nil {
		ok := false
		for _, st := range eng.FieldStores(fn, func(fa *ssa.FieldAddr) bool { return fieldIs(fa, offs) }) {
			if eng.Load(offs, eng.Param("from"))(st.Val) {
				ok = true
			}
		}
		c.Check(ok && len(eng.CallsIn(fn, cl+"leaderEpochCache.flush")) == 1, "Replace installs and persists the rebuilt epoch list", p.Pos(fn.Pos()), "l.epochOffsets = from.epochOffsets; flush()", "Replace does not take over the epoch list rebuilt by compaction (or does not persist it)")
	}
	if fn := c.Fn(ec + "Rebase"); fn != nil {
		pred := c.FnQuiet(ec + "Rebase$1")
		okPred := false
		if pred != nil {
			for _, r := range eng.Returns(pred) {
				if eng.RelVal(eng.LoadNamed("startOffset", nil), freeVarNamed("offset"), eng.GE)(eng.RetVals(r)[0]) {
					okPred = true
				}
			}
		}
		newer := eng.CmpEdges(fn, eng.LoadNamed("leaderEpoch", nil), call("latestEpoch"), eng.GT)
		okNew := len(newer) > 0 && exactRel(fn, eng.LoadNamed("leaderEpoch", nil), call("latestEpoch"), eng.GT)
		for _, as := range eng.CallsIn(fn, cl+"leaderEpochCache.assign") {
			if g, _ := eng.GuardedBy(fn, as.(ssa.Instruction), newer); !g {
				okNew = false
			}
		}
		c.Check(okPred && okNew, "Rebase re-attaches the epochs that started in the re-attached segments", p.Pos(fn.Pos()), "entries with startOffset >= offset, assigned only when newer than the latest epoch", "Rebase does not copy exactly the epochs starting at or after the first re-attached segment (each once)")
	}
	for _, x := range []struct {
		name  string
		field string
		last  bool
	}{{"earliestOffset", "startOffset", false}, {"latestEpoch", "leaderEpoch", true}, {"latestOffset", "startOffset", true}} {
		fn := c.Fn(ec + x.name)
		if fn == nil {
			continue
		}
		ok := false
		for _, r := range eng.Returns(fn) {
			v := eng.RetVals(r)[0]
			if f, b := eng.FieldRead(v); f != nil && f.Name() == x.field {
				if ia := indexOfLoad(eng.Strip(b)); ia != nil && eng.Load(offs, nil)(ia.X) {
					if x.last {
						ok = eng.Bin(token.SUB, eng.Len(eng.Load(offs, nil)), eng.IntConst(1))(ia.Index)
					} else {
						ok = eng.IntConst(0)(ia.Index)
					}
				}
			}
		}
		empty := eng.CmpEdges(fn, eng.Len(eng.Load(offs, nil)), eng.IntConst(0), eng.EQ)
		okEmpty := len(empty) > 0
		for _, r := range eng.Returns(fn) {
			if _, isC := eng.RetVals(r)[0].(*ssa.Const); isC {
				if g, _ := eng.GuardedBy(fn, r, empty); !g {
					okEmpty = false
				}
			}
		}
		which := map[bool]string{true: "last", false: "first"}[x.last]
		c.Check(ok && okEmpty, x.name+" reads the "+which+" entry", p.Pos(fn.Pos()), "epochOffsets["+map[bool]string{true: "len-1", false: "0"}[x.last]+"]."+x.field+", a constant only when the list is empty", x.name+" does not read the "+which+" entry of the epoch list (or answers the empty-list constant for a non-empty list)")
	}
}

// ruleISRPersisted (R07.9, shared with C02 and C06): the in-sync set lives twice — the map the leader commits over and the
// protobuf list that snapshots and pause/resume persist. Every mutation rebuilds the list from the map AFTER the map was
// changed; a list built before the change persists the old set (a lagging replica is back in the ISR after a restore and
// can be elected).
func ruleISRPersisted(c *eng.Ctx) {
	p := c.P
	isrF := p.Field("server", "partition", "isr")
	for _, k := range []string{"RemoveFromISR", "AddToISR"} {
		fn := c.Fn("server.(*partition)." + k)
		if fn == nil {
			continue
		}
		var ranges, muts []ssa.Instruction
		eng.Instrs(fn, func(in ssa.Instruction) {
			switch x := in.(type) {
			case *ssa.Range:
				if eng.Load(isrF, nil)(x.X) {
					ranges = append(ranges, in)
				}
			case *ssa.MapUpdate:
				if eng.Load(isrF, nil)(x.Map) {
					muts = append(muts, in)
				}
			case *ssa.Call:
				if b, ok := x.Call.Value.(*ssa.Builtin); ok && b.Name() == "delete" && eng.Load(isrF, nil)(x.Call.Args[0]) {
					muts = append(muts, in)
				}
				// the keys taken with the standard library instead of a hand-written range (maps.Keys feeding
				// slices.AppendSeq / Collect / Sorted)
				if ref := eng.CalleeRef(&x.Call); (ref == "maps.Keys" || ref == "maps.All") && len(x.Call.Args) == 1 && eng.Load(isrF, nil)(x.Call.Args[0]) {
					ranges = append(ranges, in)
				}
			}
		})
		ok := len(ranges) == 1 && len(muts) == 1
		var w *eng.Witness
		if ok {
			var g bool
			g, w = eng.PrecededBy(fn, ranges[0], func(x ssa.Instruction) bool { return x == muts[0] })
			q := &eng.PathQuery{Fn: fn, FromAfter: []ssa.Instruction{ranges[0]}, Target: func(x ssa.Instruction) bool { return x == muts[0] }}
			ok = g && q.Find() == nil
		}
		// the list that is rebuilt is the protobuf one
		stored := false
		eng.Instrs(fn, func(in ssa.Instruction) {
			if st, isSt := in.(*ssa.Store); isSt {
				if fa, isFA := st.Addr.(*ssa.FieldAddr); isFA && eng.FieldNameOf(fa) == "Isr" {
					stored = true
				}
			}
		})
		c.Check(ok && stored, k+" persists the in-sync set as it is after the change", p.Pos(fn.Pos()), "p.Isr is rebuilt from p.isr after the map was updated", k+" rebuilds the persisted ISR list before (or without) changing the in-memory set (path "+w.String()+"): snapshots and pause/resume bring back the old in-sync set, so a replica that was removed for lagging is electable again after a restore")
	}
}

// epochQueryFn: the function of the leader epoch cache that looks the end of an epoch up — LastOffsetForLeaderEpoch, or the
// (offset, found) form it delegates to since -1 stopped being an unambiguous answer (F80).
func epochQueryFn(c *eng.Ctx) *ssa.Function {
	if fn := c.FnQuiet(cl + "(*leaderEpochCache).lastOffsetForLeaderEpoch"); fn != nil {
		return fn
	}
	return c.Fn(cl + "(*leaderEpochCache).LastOffsetForLeaderEpoch")
}
