package rules

import (
	"go/types"
	"strconv"
	"go/constant"
	"go/token"
	"strings"

	"golang.org/x/tools/go/ssa"

	"lbcheck/eng"
	"lbcheck/ir"
)

// Rules for the round-7 misses.

// ruleTruncateAlwaysUnsealsTheActiveSegment (R01.8 extension): whatever Truncate did to get there — dropped whole segments,
// rewrote the segment that holds the offset — the segment it makes the active one is unsealed: a sealed active segment tells
// tailing readers that no more data will come, and they jump over everything appended to it.
func ruleTruncateAlwaysUnsealsTheActiveSegment(c *eng.Ctx) {
	fn := c.Fn(cl + "(*commitLog).Truncate")
	if fn == nil {
		return
	}
	var installs []ssa.Instruction
	for _, s := range eng.CallsIn(fn, "sync/atomic.StorePointer") {
		installs = append(installs, s.(ssa.Instruction))
	}
	if len(installs) == 0 {
		c.Unresolved("the StorePointer that installs the active segment in Truncate")
		return
	}
	// a return that reports success after the install
	q := &eng.PathQuery{Fn: fn, FromAfter: installs, CutInstr: eng.IsCallTo(cl + "segment.Unseal"), Target: isReturn}
	w := q.Find()
	q2 := &eng.PathQuery{Fn: fn, FromEntry: true, CutInstr: eng.IsCallTo(cl + "segment.Unseal"), Target: func(x ssa.Instruction) bool {
		for _, i := range installs {
			if x == i {
				return true
			}
		}
		return false
	}}
	w2 := q2.Find()
	c.Check(w == nil || w2 == nil, "Truncate unseals the segment it makes active on every path", c.Pos(installs[0]), "activeSegment.Unseal() unconditionally, before or after the install", "Truncate can install an active segment without unsealing it ("+w.String()+"): a rewritten segment inherits sealed = true from the segment it replaces; a caught-up tailing reader then takes it for finished and skips what is appended to it")
}

// ruleEpochHistoryIsReadInFileOrder (R05.5 extension): the leader-epoch checkpoint is an ordered history; epochs can share a
// start offset (leadership changed repeatedly with nothing published), so sorting by start offset does not restore the
// order. The list is built while the file is read, never from a map.
func ruleEpochHistoryIsReadInFileOrder(c *eng.Ctx) {
	var fn *ssa.Function
	for _, f := range c.P.Funcs {
		if ir.FuncKey(f) == cl+"readLeaderEpochOffsets" || strings.HasSuffix(ir.FuncKey(f), ".readLeaderEpochOffsets") {
			fn = f
		}
	}
	if fn == nil {
		c.Unresolved("function server/commitlog.readLeaderEpochOffsets")
		return
	}
	fromMap := false
	for _, ml := range eng.MapLoops(fn) {
		for blk := range ml.Body {
			for _, in := range blk.Instrs {
				if call, isCall := in.(*ssa.Call); isCall && isBuiltinCall(call, "append") {
					fromMap = true
				}
			}
		}
	}
	c.Check(!fromMap, "the epoch history is read in the order of the file", c.P.Pos(fn.Pos()), "epochOffsets = append(epochOffsets, …) inside the loop that reads the checkpoint", "readLeaderEpochOffsets builds the history by ranging over a map: epochs that share a start offset come back in map iteration order, LastLeaderEpoch() is wrong after a restart, recovery re-assigns the newest epoch and the next open fails with a duplicate leader epoch")
	// ... and every entry the file holds enters the list (round 12): a round of the reading loop that gets as far as the next
	// round, or the loop's end, has appended its entry. Entries are not filtered for "progress": two epochs share a start
	// offset when leadership changed twice with nothing published, and the later one decides where the earlier one ended.
	var app *ssa.Call
	eng.Instrs(fn, func(in ssa.Instruction) {
		if call, isCall := in.(*ssa.Call); isCall && isBuiltinCall(call, "append") && app == nil {
			if sl, isSl := call.Type().Underlying().(*types.Slice); isSl {
				if pt, isP := sl.Elem().(*types.Pointer); isP {
					if nm, isN := pt.Elem().(*types.Named); isN && nm.Obj().Name() == "epochOffset" {
						app = call
					}
				}
			}
		}
	})
	if app == nil {
		c.Unresolved("the append of an epochOffset in readLeaderEpochOffsets")
		return
	}
	h := app.Block()
	for h != nil && !isLoopHeader(h) {
		h = h.Idom()
	}
	if h == nil {
		c.Unresolved("the reading loop of readLeaderEpochOffsets")
		return
	}
	var from []eng.Edge
	for k, sc := range h.Succs {
		if sc.Dominates(app.Block()) || sc == app.Block() {
			from = append(from, eng.Edge{From: h, Succ: k})
		}
	}
	q := &eng.PathQuery{Fn: fn, FromEdges: from, TargetEdge: func(e eng.Edge) bool { return e.To() == h }, CutInstr: func(x ssa.Instruction) bool { return x == ssa.Instruction(app) }}
	w := q.Find()
	c.Check(len(from) > 0 && w == nil, "every entry of the checkpoint file enters the history", c.Pos(app), "each round of the reading loop appends its entry before the next round", "readLeaderEpochOffsets can go on to the next entry without having appended the one it parsed (path "+w.String()+"): an epoch that began at the same offset as its predecessor (two elections with nothing published in between) is dropped at a restart, and the restarted leader answers the end of the earlier epoch one boundary too late — a returning leader of that epoch keeps an uncommitted message")
}

// ruleISROpsAlwaysApply (R07.9 / R06.2 extension): AddToISR and RemoveFromISR are applied from the Raft log on every server;
// whatever they answer nil to has changed the in-memory set. A condition on server-local state (the leader's view of the
// replica's progress) makes the servers' in-sync sets diverge from the replicated one.
func ruleISROpsAlwaysApply(c *eng.Ctx) {
	p := c.P
	isrF := p.Field("server", "partition", "isr")
	for _, k := range []struct{ name, what string }{{"AddToISR", "add"}, {"RemoveFromISR", "remove"}} {
		fn := c.Fn("server.(*partition)." + k.name)
		if fn == nil {
			continue
		}
		changes := func(x ssa.Instruction) bool {
			switch y := x.(type) {
			case *ssa.MapUpdate:
				return eng.Load(isrF, nil)(y.Map)
			case *ssa.Call:
				return isBuiltinCall(y, "delete") && eng.Load(isrF, nil)(y.Call.Args[0])
			}
			return false
		}
		n := 0
		for _, r := range eng.Returns(fn) {
			rv := eng.RetVals(r)
			if len(rv) != 1 || !eng.NilConst(rv[0]) {
				continue
			}
			n++
			ok, w := eng.PrecededBy(fn, r, changes)
			c.Check(ok, k.name+" reports success only after it changed the in-sync set", c.Pos(r), "every return nil lies behind the "+k.what+" of p.isr", k.name+" can answer nil without having changed p.isr ("+w.String()+"): the operation is applied from the Raft log on every server, so a skip that depends on this server's own state leaves its in-sync set different from the replicated one — commits and elections are decided on a set the other servers do not share")
		}
		if n == 0 {
			c.Unresolved("a successful return of partition." + k.name)
		}
	}
}

// freshSlice reports whether a slice value was made by the function that holds it: make, a literal, nil, append onto such a
// slice, a standard-library collector. Parameters, fields and results of the module's own functions are somebody else's.
func freshSlice(p *ir.Program, v ssa.Value, seen map[ssa.Value]bool) bool {
	if seen[v] {
		return true
	}
	seen[v] = true
	switch x := v.(type) {
	case *ssa.MakeSlice:
		return true
	case *ssa.Const:
		return x.IsNil()
	case *ssa.Slice:
		if a, ok := x.X.(*ssa.Alloc); ok {
			_ = a
			return true // slice of a local array (a literal)
		}
		return freshSlice(p, x.X, seen)
	case *ssa.Phi:
		for _, e := range x.Edges {
			if !freshSlice(p, e, seen) {
				return false
			}
		}
		return true
	case *ssa.ChangeType:
		return freshSlice(p, x.X, seen)
	case *ssa.Call:
		if isBuiltinCall(x, "append") {
			return freshSlice(p, x.Call.Args[0], seen)
		}
		if g := x.Call.StaticCallee(); g != nil && !p.IsModuleFunc(g) && g.Pkg != nil {
			switch g.Pkg.Pkg.Path() {
			case "slices", "maps", "sort", "strings", "golang.org/x/exp/maps", "golang.org/x/exp/slices":
				return true
			}
		}
	}
	return false
}

// ruleMembershipGettersHandOutCopies (R07.9 extension): the lists GetISR and GetReplicas answer with belong to the caller —
// electNewPartitionLeader, the metadata fetch and the restore path filter, sort and append to them. Handing out the slice
// kept on the partition lets a caller rewrite the replicated membership in place.
func ruleMembershipGettersHandOutCopies(c *eng.Ctx) {
	n := 0
	for _, name := range []string{"GetISR", "GetReplicas"} {
		fn := c.Fn("server.(*partition)." + name)
		if fn == nil {
			continue
		}
		for _, r := range eng.Returns(fn) {
			rv := eng.RetVals(r)
			if len(rv) != 1 {
				continue
			}
			n++
			c.Check(freshSlice(c.P, rv[0], map[ssa.Value]bool{}), "partition."+name+" answers with a list of its own", c.Pos(r), "the returned slice is made in the call", "partition."+name+" hands out a slice it did not make (the list kept on the partition): callers filter it in place (electNewPartitionLeader's candidates), which rewrites the partition's replicated in-sync list under every other reader")
		}
	}
	if n < 2 {
		c.Unresolved("the returns of partition.GetISR and partition.GetReplicas")
	}
}

// ruleSegmentListsAreNeverRewrittenInPlace (R08.9 / R01.9 extension): a []*segment that a function did not make itself is the
// log's published list or a snapshot of it that readers and the other cleaner hold; "filter in place" (x[:0] then append) or
// an element store rewrites it under them.
func ruleSegmentListsAreNeverRewrittenInPlace(c *eng.Ctx) {
	p := c.P
	isSegList := func(v ssa.Value) bool {
		return strings.HasSuffix(v.Type().String(), "[]*"+ir.ModulePath+"/server/commitlog.segment")
	}
	seen := 0
	for _, fn := range p.Funcs {
		if fn.Pkg == nil || !strings.HasSuffix(fn.Pkg.Pkg.Path(), "/server/commitlog") {
			continue
		}
		seen++
		eng.Instrs(fn, func(in ssa.Instruction) {
			switch x := in.(type) {
			case *ssa.Slice:
				if !isSegList(x.X) || x.Low != nil || x.High == nil || !eng.IntConst(0)(x.High) {
					return
				}
				// only when something is appended to it
				appended := false
				for _, ref := range *x.Referrers() {
					if call, ok := ref.(*ssa.Call); ok && isBuiltinCall(call, "append") && call.Call.Args[0] == ssa.Value(x) {
						appended = true
					}
					if _, ok := ref.(*ssa.Phi); ok {
						appended = true
					}
				}
				if !appended {
					return
				}
				c.Check(freshSlice(p, x.X, map[ssa.Value]bool{}), "no in-place filter of a segment list the function did not make ("+fn.Name()+")", c.Pos(in), "x[:0] only of a list made here", fn.Name()+" filters a segment list in place that it did not make: the list is the log's published one (or the snapshot a reader, Clean's caller or the other cleaner still holds), so entries are overwritten under them — a reader positioned by index lands in the wrong segment, and on an error return the log keeps a half-rewritten list")
			case *ssa.Store:
				ia, ok := x.Addr.(*ssa.IndexAddr)
				if !ok || !isSegList(ia.X) {
					return
				}
				c.Check(freshSlice(p, ia.X, map[ssa.Value]bool{}), "no element store into a segment list the function did not make ("+fn.Name()+")", c.Pos(in), "element stores only into a list made here", fn.Name()+" overwrites an element of a segment list it did not make")
			}
		})
	}
	if seen == 0 {
		c.Unresolved("functions of server/commitlog")
	}
}

// offsetSpanAdj reads v as "number of offsets in the log + adj": NextOffset() - BaseOffset is the span itself (adj 0), with
// the newest offset (NextOffset()-1, LastOffset()) in place of the next one it is one short (adj -1); a +1 / -1 around the
// difference moves it. ok is false when v is not such an expression.
func offsetSpanAdj(v ssa.Value) (adj int, ok bool) {
	v = eng.Strip(v)
	bo, isBin := v.(*ssa.BinOp)
	if !isBin {
		return 0, false
	}
	if c, isC := eng.Strip(bo.Y).(*ssa.Const); isC && c.Value != nil && (bo.Op == token.ADD || bo.Op == token.SUB) {
		k, exact := constInt64(c)
		in, ok2 := offsetSpanAdj(bo.X)
		if !exact || !ok2 {
			return 0, false
		}
		if bo.Op == token.SUB {
			k = -k
		}
		return in + int(k), true
	}
	if bo.Op != token.SUB {
		return 0, false
	}
	hi, okHi := upperEndAdj(bo.X)
	if !okHi || !eng.LoadNamed("BaseOffset", nil)(bo.Y) {
		return 0, false
	}
	return hi, true
}

func upperEndAdj(v ssa.Value) (int, bool) {
	v = eng.Strip(v)
	switch {
	case eng.Call(-1, cl+"segment.NextOffset")(v):
		return 0, true
	case eng.Call(-1, cl+"segment.LastOffset")(v), eng.LoadNamed("lastOffset", nil)(v):
		return -1, true
	}
	if bo, ok := v.(*ssa.BinOp); ok && (bo.Op == token.ADD || bo.Op == token.SUB) {
		if c, isC := eng.Strip(bo.Y).(*ssa.Const); isC && c.Value != nil {
			k, exact := constInt64(c)
			in, ok2 := upperEndAdj(bo.X)
			if exact && ok2 {
				if bo.Op == token.SUB {
					k = -k
				}
				return in + int(k), true
			}
		}
	}
	return 0, false
}

func constInt64(c *ssa.Const) (int64, bool) {
	if c.Value == nil || c.Value.Kind() != constant.Int {
		return 0, false
	}
	return constant.Int64Val(c.Value)
}

// ruleCountLimitKeepsEverythingOnlyWhenItFits (R09.2 extension): applyMessagesLimit answers with its input untouched —
// "nothing to remove" — only where that is certain: a single segment, or a bound on the number of messages that is at least
// the number of offsets in the log. newest - oldest is one short of it.
func ruleCountLimitKeepsEverythingOnlyWhenItFits(c *eng.Ctx) {
	fn := c.Fn(cl + "(*deleteCleaner).applyMessagesLimit")
	if fn == nil {
		return
	}
	lenSeg := func(v ssa.Value) bool {
		call, ok := eng.Strip(v).(*ssa.Call)
		return ok && isBuiltinCall(call, "len") && eng.Param("segments")(call.Call.Args[0])
	}
	limit := eng.LoadNamed("Messages", nil)
	cuts := eng.CmpEdges(fn, lenSeg, eng.IntConst(1), eng.LE)
	cuts = append(cuts, eng.CmpEdges(fn, lenSeg, eng.IntConst(2), eng.LT)...)
	cuts = append(cuts, eng.CmpEdges(fn, func(v ssa.Value) bool { a, ok := offsetSpanAdj(v); return ok && a >= 0 }, limit, eng.LE)...)
	cuts = append(cuts, eng.CmpEdges(fn, func(v ssa.Value) bool { a, ok := offsetSpanAdj(v); return ok && a >= -1 }, limit, eng.LT)...)
	n := 0
	for _, r := range eng.Returns(fn) {
		rv := eng.RetVals(r)
		if len(rv) != 2 || !eng.NilConst(rv[1]) || !eng.Param("segments")(rv[0]) {
			continue
		}
		n++
		g, w := eng.GuardedBy(fn, r, cuts)
		c.Check(g, "the count limit keeps the whole log only when it certainly fits", c.Pos(r), "the input list is returned untouched only for a single segment, or behind a bound that is at least the number of offsets in the log (next - base <= limit)", "applyMessagesLimit can answer with its input untouched without knowing that the log fits the limit ("+w.String()+"): a shortcut on newest - oldest counts one message too few, so a log holding limit + 1 messages whose oldest segment should go keeps it")
	}
	if n == 0 {
		c.Unresolved("a return of the untouched input in applyMessagesLimit")
	}
}

// linearOf peels "+ k" / "- k" constants: v = base + k.
func linearOf(v ssa.Value) (ssa.Value, int) {
	k := 0
	for {
		v = eng.Strip(v)
		bo, ok := v.(*ssa.BinOp)
		if !ok || (bo.Op != token.ADD && bo.Op != token.SUB) {
			return v, k
		}
		cst, isC := eng.Strip(bo.Y).(*ssa.Const)
		if !isC {
			return v, k
		}
		n, exact := constInt64(cst)
		if !exact {
			return v, k
		}
		if bo.Op == token.SUB {
			n = -n
		}
		k += int(n)
		v = bo.X
	}
}

// ruleReverseReaderOffsetMeansOneThing (R11.x / R10.6 extension): ReverseReader.offset is written in two places (the
// constructor, ReadMessage) and read in one (reinitialize, after the segment was replaced by compaction). Whatever the
// field means, the three agree: re-positioning before the first read starts at the requested offset, re-positioning after
// a read starts one below the message just returned.
func ruleReverseReaderOffsetMeansOneThing(c *eng.Ctx) {
	mk := c.Fn(cl + "(*commitLog).NewReverseReader")
	rd := c.Fn(cl + "(*ReverseReader).ReadMessage")
	ri := c.Fn(cl + "(*ReverseReader).reinitialize")
	if mk == nil || rd == nil || ri == nil {
		return
	}
	isOff := func(fa *ssa.FieldAddr) bool {
		return eng.FieldNameOf(fa) == "offset" && strings.HasSuffix(fa.X.Type().String(), "commitlog.ReverseReader")
	}
	// a: constructor — stored value relative to the position its scanner starts at
	a, okA := 0, false
	for _, st := range eng.FieldStores(mk, isOff) {
		sb, sk := linearOf(st.Val)
		for _, call := range eng.CallsIn(mk, cl+"newReverseSegmentScanner") {
			ab, ak := linearOf(call.Common().Args[1])
			if ab == sb {
				a, okA = sk-ak, true
			}
		}
	}
	// b: ReadMessage — stored value relative to the offset it returns
	b, okB := 0, false
	for _, st := range eng.FieldStores(rd, isOff) {
		sb, sk := linearOf(st.Val)
		for _, r := range eng.Returns(rd) {
			rv := eng.RetVals(r)
			if len(rv) == 5 && eng.NilConst(rv[4]) {
				if rb, rk := linearOf(rv[1]); rb == sb {
					b, okB = sk-rk, true
				}
			}
		}
	}
	// c: reinitialize — where it starts relative to the field
	cc, okC := 0, false
	for _, call := range eng.CallsIn(ri, cl+"newReverseSegmentScanner") {
		ab, ak := linearOf(call.Common().Args[1])
		if eng.LoadNamed("offset", eng.Param("r"))(ab) {
			cc, okC = ak, true
		}
		for _, fs := range eng.CallsIn(ri, cl+"findSegment") {
			fb, fk := linearOf(fs.Common().Args[1])
			if !eng.LoadNamed("offset", eng.Param("r"))(fb) || fk != ak {
				okC = false
			}
		}
	}
	if !okA || !okB || !okC {
		c.Unresolved("the writes of ReverseReader.offset in NewReverseReader / ReadMessage and its use in reinitialize")
		return
	}
	c.Check(a+cc == 0 && b+cc == -1, "ReverseReader.offset means the same thing where it is written and where it is used", c.P.Pos(ri.Pos()), "re-positioning starts at the requested offset before the first read and one below the returned offset after it", "ReverseReader.offset is written with two meanings (constructor: start"+signed(a)+", ReadMessage: returned"+signed(b)+") and reinitialize starts at offset"+signed(cc)+": when the reader's segment is replaced by compaction before its first read, the message at the start offset is skipped — a FetchCursor that scans the cursors stream misses the newest cursor and answers an older one or -1")
}

func signed(k int) string {
	if k >= 0 {
		return "+" + strconv.Itoa(k)
	}
	return strconv.Itoa(k)
}

// ruleSealedValueIsTheCallers (R17.x): the bytes Seal answers with are kept by the caller — the message loop batches several
// sealed values before one Append writes them. A buffer the handler keeps and reuses is overwritten by the next Seal.
func ruleSealedValueIsTheCallers(c *eng.Ctx) {
	fn := c.Fn("server/encryption.(*LocalEncryptionHandler).Seal")
	if fn == nil {
		return
	}
	n := 0
	for _, r := range eng.Returns(fn) {
		rv := eng.RetVals(r)
		if len(rv) != 2 || !eng.NilConst(rv[1]) {
			continue
		}
		n++
		c.Check(freshSlice(c.P, rv[0], map[ssa.Value]bool{}), "Seal answers with a buffer of its own", c.Pos(r), "the returned slice is made in the call", "Seal returns a slice that is not made in the call (a buffer the handler keeps): the message loop collects a batch of sealed values before appending them, so every value of the batch is overwritten by the last one — the log stores ciphertext that decrypts to another message, or to nothing")
	}
	if n == 0 {
		c.Unresolved("a successful return of LocalEncryptionHandler.Seal")
	}
}

// ruleStopAlwaysStopsTheCollector (R19.2 extension): whatever way Server.Stop ends — also its early error returns — a collector
// that exists has been stopped, or the server had been stopped before. A collector that survives a failed shutdown keeps
// reporting after the application restarted the server with telemetry switched off.
func ruleStopAlwaysStopsTheCollector(c *eng.Ctx) {
	fn := c.Fn("server.(*Server).Stop")
	if fn == nil {
		return
	}
	tel := eng.LoadNamed("telemetry", nil)
	cut := eng.CmpEdges(fn, tel, eng.NilConst, eng.EQ)
	cut = append(cut, eng.BoolEdges(fn, eng.LoadNamed("shutdown", nil), true)...)
	stops := eng.CallsIn(fn, "server/telemetry.Collector.Stop")
	if len(stops) == 0 {
		c.Violate("Server.Stop stops the telemetry collector", c.P.Pos(fn.Pos()), "Server.Stop never stops the telemetry collector: a stopped server keeps reporting")
		return
	}
	q := &eng.PathQuery{Fn: fn, FromEntry: true, CutInstr: eng.IsCallTo("server/telemetry.Collector.Stop"), CutEdges: cut, Target: isReturn}
	w := q.Find()
	c.Check(w == nil, "every way out of Server.Stop has stopped the collector", c.P.Pos(fn.Pos()), "s.telemetry.Stop() before the first return (a nil collector and an already stopped server excepted)", "Server.Stop can return without having stopped the telemetry collector ("+w.String()+"): after a shutdown that failed half-way the collector goroutine keeps posting — also after the application brought the server back up with telemetry disabled")
}

// rulePooledBuffersDoNotEscape (R01.x ownership): a buffer that a function puts back into a sync.Pool is somebody else's the
// moment the function returns; nothing it returns may be backed by it.
func rulePooledBuffersDoNotEscape(c *eng.Ctx) {
	p := c.P
	seen := 0
	for _, fn := range p.Funcs {
		if !p.IsModuleFunc(fn) {
			continue
		}
		seen++
		var pooled []ssa.Value
		eng.Instrs(fn, func(in ssa.Instruction) {
			var cc *ssa.CallCommon
			switch x := in.(type) {
			case *ssa.Call:
				cc = &x.Call
			case *ssa.Defer:
				cc = &x.Call
			}
			if cc == nil {
				return
			}
			if g := cc.StaticCallee(); g != nil && g.Name() == "Put" && g.Pkg != nil && g.Pkg.Pkg.Path() == "sync" && len(cc.Args) == 2 {
				v := cc.Args[1]
				if mi, ok := v.(*ssa.MakeInterface); ok {
					v = mi.X
				}
				pooled = append(pooled, v)
			}
		})
		if len(pooled) == 0 {
			continue
		}
		backedBy := func(v ssa.Value) bool {
			hit := false
			seenV := map[ssa.Value]bool{}
			var walk func(v ssa.Value, d int)
			walk = func(v ssa.Value, d int) {
				if v == nil || seenV[v] || d > 12 {
					return
				}
				seenV[v] = true
				for _, pv := range pooled {
					if v == pv {
						hit = true
					}
				}
				switch x := v.(type) {
				case *ssa.ChangeType:
					walk(x.X, d+1)
				case *ssa.Convert:
					if _, isSlice := x.X.Type().Underlying().(*types.Slice); isSlice {
						if _, toSlice := x.Type().Underlying().(*types.Slice); toSlice {
							walk(x.X, d+1)
						}
					}
				case *ssa.Slice:
					walk(x.X, d+1)
				case *ssa.Phi:
					for _, e := range x.Edges {
						walk(e, d+1)
					}
				case *ssa.Call:
					// a method of the pooled object that answers with a slice or pointer shares its storage (Buffer.Bytes)
					if x.Call.IsInvoke() || len(x.Call.Args) == 0 {
						return
					}
					// append(x[:0], …) answers with x's storage whenever the result fits
					if isBuiltinCall(x, "append") {
						walk(x.Call.Args[0], d+1)
						return
					}
					switch x.Type().Underlying().(type) {
					case *types.Slice, *types.Pointer:
						if g := x.Call.StaticCallee(); g != nil && g.Signature.Recv() != nil {
							walk(x.Call.Args[0], d+1)
						}
					}
				case *ssa.UnOp:
					if x.Op == token.MUL {
						if fa, ok := x.X.(*ssa.FieldAddr); ok {
							walk(fa.X, d+1)
						} else {
							// *bp where bp (a *[]byte) is what goes back into the pool
							walk(x.X, d+1)
						}
					}
				case *ssa.MakeInterface:
					walk(x.X, d+1)
				}
			}
			walk(v, 0)
			return hit
		}
		for _, r := range eng.Returns(fn) {
			for _, v := range eng.RetVals(r) {
				c.Check(!backedBy(v), "nothing "+fn.Name()+" returns is backed by a buffer it puts back into a pool", c.Pos(r), "returned values do not share storage with the pooled object", fn.Name()+" returns a value backed by a buffer that it hands back to a sync.Pool: the next caller to get the buffer overwrites the bytes while the first still holds them — a message set is rewritten between its construction and the write to the segment, so the log stores another batch's bytes under these offsets")
			}
		}
	}
	if seen == 0 {
		c.Unresolved("module functions")
	}
}

// ruleLeaderEpochIsNotThePartitionEpoch (R06.x units): a partition carries two counters. Epoch moves with every change (ISR
// shrink and expand included), LeaderEpoch only when the leader changes. SetLeader stores its second argument as the leader
// epoch; where a partition is (re)started from its stored state that argument is the stored leader epoch.
func ruleLeaderEpochIsNotThePartitionEpoch(c *eng.Ctx) {
	p := c.P
	n := 0
	for _, fn := range p.Funcs {
		if !p.IsModuleFunc(fn) {
			continue
		}
		for _, call := range eng.CallsIn(fn, "server.partition.SetLeader") {
			n++
			arg := call.Common().Args[2]
			ok := true
			what := ""
			seen := map[ssa.Value]bool{}
			var walk func(v ssa.Value)
			walk = func(v ssa.Value) {
				v = eng.Strip(v)
				if seen[v] {
					return
				}
				seen[v] = true
				switch x := v.(type) {
				case *ssa.Parameter:
				case *ssa.Phi:
					for _, e := range x.Edges {
						walk(e)
					}
				case *ssa.Extract:
					if x.Index != 1 || !eng.Call(-1, "server.partition.GetLeader")(x.Tuple) {
						ok, what = false, eng.Describe(v)
					}
				default:
					if eng.LoadNamed("LeaderEpoch", nil)(v) {
						return
					}
					if eng.Call(-1, "server.partition.GetEpoch")(v) || eng.LoadNamed("Epoch", nil)(v) {
						ok, what = false, "the partition epoch ("+eng.Describe(v)+")"
						return
					}
					// a message field (ChangeLeaderOp, the create request) or a computed value: not decided here
				}
			}
			walk(arg)
			c.Check(ok, "SetLeader is given a leader epoch ("+fn.Name()+")", c.Pos(call.(ssa.Instruction)), "the stored leader epoch (GetLeader / LeaderEpoch) or the epoch of the leader change being applied", "SetLeader in "+fn.Name()+" is handed "+what+" as the leader epoch: a partition re-added from a snapshot or resumed gets LeaderEpoch := Epoch, which is larger after any ISR change — the restored server disagrees with the others about the leader epoch, refuses their replication requests and records a wrong epoch in its log")
		}
	}
	if n < 3 {
		c.Unresolved("the calls of partition.SetLeader (three on the reference tree)")
	}
}

// ruleFollowerAppendGuards (R02.3): what handleReplicationResponse appends and adopts lies behind "still following, same
// leader epoch, long enough, contiguous". Shared into C14: a response that arrives after the follower was stopped (pause,
// close, delete — no epoch change) is appended to a closed log otherwise, and that failure is a panic.
func ruleFollowerAppendGuards(c *eng.Ctx) {
	p := c.P
	_ = p
	if fn := c.Fn("server.(*partition).handleReplicationResponse"); fn != nil {
		ap := eng.CallsIn(fn, cl+"CommitLog.AppendMessageSet")
		sh := eng.CallsIn(fn, clSetI)
		if len(ap) != 1 || len(sh) != 1 {
			c.Unresolved("AppendMessageSet / SetHighWatermark in handleReplicationResponse")
		} else {
			following := eng.BoolEdges(fn, eng.LoadNamed("isFollowing", nil), true)
			sameEpoch := eng.CmpEdges(fn, eng.LoadNamed("LeaderEpoch", nil), eng.Call(0, "server/protocol.UnmarshalReplicationResponse"), eng.EQ)
			longEnough := eng.CmpEdges(fn, eng.Len(nil), eng.IntConst(28), eng.GT)
			contiguous := eng.CmpEdges(fn, eng.AnyV, eng.Bin(token.ADD, eng.Call(-1, cl+"CommitLog.NewestOffset"), eng.IntConst(1)), eng.GE)
			for name, es := range map[string][]eng.Edge{"p.isFollowing": following, "response epoch == p.LeaderEpoch": sameEpoch, "len(data) > 28": longEnough, "offset >= NewestOffset()+1": contiguous} {
				g, w := eng.GuardedBy(fn, ap[0].(ssa.Instruction), es)
				c.Check(g && len(es) > 0, "follower append requires "+name, c.Pos(ap[0].(ssa.Instruction)), "dominated by the edge", "replicated data is appended without "+name+" (path "+w.String()+")")
			}
			for name, es := range map[string][]eng.Edge{"p.isFollowing": following, "response epoch == p.LeaderEpoch": sameEpoch} {
				g, w := eng.GuardedBy(fn, sh[0].(ssa.Instruction), es)
				c.Check(g && len(es) > 0, "follower adopts the leader's HW only with "+name, c.Pos(sh[0].(ssa.Instruction)), "dominated by the edge", "the leader's high watermark is adopted without "+name+" (path "+w.String()+")")
			}
			// what is appended / adopted is what was decoded
			c.Check(eng.Call(2, "server/protocol.UnmarshalReplicationResponse")(eng.AllArgs(ap[0].Common())[1]), "appended bytes are the decoded message data", c.Pos(ap[0].(ssa.Instruction)), "AppendMessageSet(data)", "the bytes appended are not the data part of the replication response")
			c.Check(eng.Call(1, "server/protocol.UnmarshalReplicationResponse")(eng.AllArgs(sh[0].Common())[1]), "adopted HW is the decoded HW", c.Pos(sh[0].(ssa.Instruction)), "SetHighWatermark(hw)", "the value adopted as high watermark is not the one decoded from the response")
		}
	}
}

// ruleOneRegistrationOneWait (R03.x): the channel commitLog.waitForHW hands out is written once, and the notifier drops the
// registration when it writes. A committed reader therefore waits on it once: from the select that receives from it no path
// leads back to that select without a new registration.
func ruleOneRegistrationOneWait(c *eng.Ctx) {
	fn := c.Fn(cl + "(*committedReader).waitForHW")
	if fn == nil {
		return
	}
	reg := eng.CallsIn(fn, cl+"commitLog.waitForHW")
	if len(reg) == 0 {
		c.Unresolved("the registration (commitLog.waitForHW) in committedReader.waitForHW")
		return
	}
	var waits []ssa.Instruction
	eng.Instrs(fn, func(in ssa.Instruction) {
		switch x := in.(type) {
		case *ssa.Select:
			for _, st := range x.States {
				if st.Chan == reg[0].Value() {
					waits = append(waits, in)
				}
			}
		case *ssa.UnOp:
			if x.Op == token.ARROW && x.X == ssa.Value(reg[0].Value()) {
				waits = append(waits, in)
			}
		}
	})
	if len(waits) == 0 {
		c.Unresolved("the receive from the registered channel in committedReader.waitForHW")
		return
	}
	q := &eng.PathQuery{Fn: fn, FromAfter: waits, CutInstr: eng.IsCallTo(cl + "commitLog.waitForHW"), Target: func(x ssa.Instruction) bool {
		for _, w := range waits {
			if x == w {
				return true
			}
		}
		return false
	}}
	w := q.Find()
	c.Check(w == nil, "a registration with the log is waited on once", c.Pos(waits[0]), "after the receive the reader returns (or registers again)", "committedReader.waitForHW can wait a second time on the channel of one registration ("+w.String()+"): the notifier removed the registration when it signalled, nobody writes to the channel again, and the reader never sees anything committed afterwards")
}
