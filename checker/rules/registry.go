// Package rules holds the per-property instance tables of DESIGN.md §4.
package rules

import (
	"sort"

	"lbcheck/eng"
)

// Property describes how one property is decided.
type Property struct {
	ID          string
	Level       string // evidence level
	Run         func(c *eng.Ctx)
	Explanation string // the clauses decided / not decided
	Assumptions []string
	Technique   string // MANIFEST technique
	LevelText   string // MANIFEST level_claimed.text
	LevelNote   string // MANIFEST level_note
	DesignRef   string
}

var registry = map[string]*Property{}

func register(p *Property) { registry[p.ID] = p }

// Get returns a property by id.
func Get(id string) *Property { return registry[id] }

// IDs returns the registered ids, sorted.
func IDs() []string {
	var out []string
	for k := range registry {
		out = append(out, k)
	}
	sort.Strings(out)
	return out
}
