// Package rules holds the per-property instance tables of DESIGN.md §4.
package rules

import (
	"sort"

	"lbcheck/eng"
)

// Property describes how one property is decided.
type Property struct {
	ID          string
	Level       string // evidence level
	Run         func(c *eng.Ctx)
	Explanation string // the clauses decided / not decided
	Assumptions []string
	Technique   string // MANIFEST technique
	LevelText   string // MANIFEST level_claimed.text
	LevelNote   string // MANIFEST level_note
	DesignRef   string
}

var registry = map[string]*Property{}

func register(p *Property) {
	run := p.Run
	id := p.ID
	p.Run = func(c *eng.Ctx) {
		run(c)
		// shared: error gates in the files of package server the property is anchored in (R01.13, server part)
		c.Rule("R20.1", "K4")
		ruleServerLockTable(c, id)
		if files := anchorFilesInServer[id]; len(files) > 0 {
			c.Rule("R01.13", "K1")
			ruleServerErrorGates(c, files...)
		}
	}
	if len(anchorFilesInServer[id]) > 0 {
		p.Explanation += " Shared by construction: R01.13 (server part) a success return is reachable from a fallible call in the property's anchor files of package server only across its err == nil edge or a recognised sentinel (four named exceptions); R20.1 the fields of package server that guard state this property depends on are accessed only with their mutex held (frozen lock table)."
	}
	registry[p.ID] = p
}

// anchorFilesInServer: the files of package server each property's anchors name (properties.jsonl, anchors.files).
var anchorFilesInServer = map[string][]string{
	"C02": {"partition.go", "replicator.go", "metadata.go", "failover.go", "fsm.go"},
	"C03": {"partition.go"},
	"C04": {"partition.go", "replicator.go", "api.go"},
	"C06": {"fsm.go", "metadata.go", "stream.go", "partition.go", "groups.go"},
	"C07": {"metadata.go", "failover.go", "fsm.go", "partition.go", "replicator.go"},
	"C10": {"partition.go", "api.go"},
	"C11": {"cursors.go", "api.go", "partition.go"},
	"C12": {"groups.go", "metadata.go", "fsm.go"},
	"C13": {"partition.go", "api.go"},
	"C14": {"partition.go", "propagation.go", "server.go", "raft.go", "api.go"},
	"C15": {"api.go", "authz.go", "server.go", "signal.go", "cursors.go"},
	"C16": {"partition.go", "api.go", "config.go"},
	"C17": {"partition.go", "api.go"},
	"C18": {"activity.go", "fsm.go", "server.go", "raft.go"},
	"C19": {"server.go", "config.go"},
}

// Get returns a property by id.
func Get(id string) *Property { return registry[id] }

// IDs returns the registered ids, sorted.
func IDs() []string {
	var out []string
	for k := range registry {
		out = append(out, k)
	}
	sort.Strings(out)
	return out
}
