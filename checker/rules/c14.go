package rules

import (
	"fmt"
	"go/token"
	"go/types"
	"os"
	"sort"
	"strings"

	"golang.org/x/tools/go/ssa"

	"lbcheck/eng"
	"lbcheck/ir"
)

const natsPkg = "github.com/nats-io/nats.go"

func init() {
	register(&Property{ID: "C14", Level: "other", Run: runC14,
		Technique: "static analysis: inter-procedural taint from nats.Msg.Data + difference-constraint bounds prover over dominating length guards (go/ssa); writer/reader table agreement",
		LevelText: "Decoder totality decided structurally for all paths: every index/slice/fixed-width read on bytes that derive from a NATS message is proven in bounds from the length guards that dominate it; no explicit panic in the envelope decoders; each envelope type has exactly one writer and one reader that agree on constant and message type; the checksum branch cannot return success without CRC equality; raw payloads are stored verbatim. Protobuf's own decoder and semantic validity of decoded values are not decided. No panic that a sender can bring about remains in a NATS callback or in the functions that marshal an ack; the malformed-message-set error reaches the handler's identity test unwrapped.",
		LevelNote: "Trusted: go/ssa, the taint closure (does not follow heap fields), github.com/golang/protobuf Unmarshal being total, the prover's arithmetic (difference constraints over dominating branch conditions; integer overflow not modelled).",
		DesignRef: "DESIGN.md §4 C14",
		Explanation: "R01.11 (round 10): valid() accepts the null marker -1 for every size-prefixed field, as Encode writes it. Round 8: R14.13 every test of a length against envelopeMinHeaderLen accepts the equal case (header-only envelope); R14.4 also: a message object filled anywhere without being allocated on the spot has every field assigned. R14.1 also: a table indexed by a number read out of untrusted bytes lies behind index < len(table); R14.5 also: every batched message was validated; a proposed CREATE_STREAM is startable (F102). R14.1 bounds on untrusted bytes (taint closure from nats.Msg.Data, all module functions reached), R14.2 marshal/unmarshal table agreement per msgType and header layout agreement, R14.3 CRC guard, R14.4 raw passthrough / envelope copy in natsToProtoMessage, R14.5 optional sub-messages of propagated requests are nil-checked before dereference. R14.5 also covers messages nested in an optional sub-message; R14.6 the malformed-message-set sentinel arrives unwrapped at handleReplicationResponse's identity test; R14.7 every panic in a NATS callback or ack-marshalling function is one of six listed ones that a sender cannot cause. R14.9 the message built for a raw (non-envelope) payload waives the expected offset (Offset = -1), so a stream with optimistic concurrency control stores it like any other; R14.4's field copies are demanded on the envelope branch and only constants elsewhere. " +
			"R14.5 also: the CREATE_STREAM precondition keys on the stream's own name, partitions naming another stream and repeated partition ids are refused before anything is proposed (F69); R14.10 every publish on the acks connection is behind a whitespace test of its subject (F70); R14.11 stored subjects reach proto3 string fields through ToValidUTF8 (F71); R14.12 entriesForMessageSet admits an entry only for a message that passed valid(), and valid() itself is in the bounds prover's closure (F75). NOT decided: protobuf decoding itself, semantic validity of decoded values, resource exhaustion, round-trip equality as a value property.",
	})
}

// natsDataSources finds loads of (*nats.Msg).Data in module code.
func natsDataSources(c *eng.Ctx) []ssa.Value {
	var out []ssa.Value
	for _, fn := range c.P.Funcs {
		eng.Instrs(fn, func(in ssa.Instruction) {
			u, ok := in.(*ssa.UnOp)
			if !ok || u.Op != token.MUL {
				return
			}
			fa, ok := u.X.(*ssa.FieldAddr)
			if !ok {
				return
			}
			pt, ok := fa.X.Type().Underlying().(*types.Pointer)
			if !ok {
				return
			}
			n, ok := pt.Elem().(*types.Named)
			if !ok || n.Obj().Pkg() == nil || n.Obj().Pkg().Path() != natsPkg || n.Obj().Name() != "Msg" {
				return
			}
			st := n.Underlying().(*types.Struct)
			if st.Field(fa.Field).Name() == "Data" {
				out = append(out, u)
			}
		})
	}
	return out
}

// checkTaintedAccesses emits one obligation per index/slice/fixed-width read on a tainted value.
func checkTaintedAccesses(c *eng.Ctx, t *eng.Taint, skipPkg func(string) bool) int {
	fns := t.Funcs()
	var keys []string
	byKey := map[string]*ssa.Function{}
	for f := range fns {
		keys = append(keys, ir.FuncKey(f))
		byKey[ir.FuncKey(f)] = f
	}
	sort.Strings(keys)
	n := 0
	for _, k := range keys {
		fn := byKey[k]
		if skipPkg != nil && fn.Pkg != nil && skipPkg(ir.Short(fn.Pkg.Pkg.Path())) {
			continue
		}
		b := eng.NewBounds(c.P, fn)
		eng.Instrs(fn, func(in ssa.Instruction) {
			var base ssa.Value
			switch x := in.(type) {
			case *ssa.IndexAddr:
				base = x.X
			case *ssa.Index:
				base = x.X
			case *ssa.Lookup:
				base = x.X
			case *ssa.Slice:
				base = x.X
			case *ssa.Call:
				// fixed-width reads: binary.ByteOrder.UintN(b) needs len(b) >= N/8
				ref := eng.CalleeRef(&x.Call)
				need := int64(0)
				switch {
				case strings.HasSuffix(ref, "ndian.Uint64") || strings.HasSuffix(ref, "ByteOrder.Uint64"):
					need = 8
				case strings.HasSuffix(ref, "ndian.Uint32") || strings.HasSuffix(ref, "ByteOrder.Uint32"):
					need = 4
				case strings.HasSuffix(ref, "ndian.Uint16") || strings.HasSuffix(ref, "ByteOrder.Uint16"):
					need = 2
				}
				if need > 0 && strings.HasPrefix(ref, "encoding/binary.") {
					arg := x.Call.Args[len(x.Call.Args)-1]
					if t.Val[arg] {
						n++
						ok := b.MinLen(arg, need, in)
						c.Check(ok, fmt.Sprintf("%s(%s) in %s", ref[len("encoding/binary."):], eng.Describe(arg), k), c.Pos(in),
							fmt.Sprintf("len >= %d proven from the slice shape / dominating length guards", need),
							fmt.Sprintf("fixed-width read of %d bytes from untrusted bytes without a dominating guard proving len >= %d: panics (index out of range) on short input", need, need))
					}
				}
				return
			default:
				return
			}
			if !t.Val[base] {
				// the other direction: trusted storage indexed BY an untrusted value (a type byte into a name table)
				var idx ssa.Value
				switch x := in.(type) {
				case *ssa.IndexAddr:
					idx = x.Index
				case *ssa.Index:
					idx = x.Index
				}
				if idx == nil || !(t.Val[idx] || t.Val[eng.Strip(idx)] || taintedThroughConvert(t, idx) || untrustedScalar(c, t, idx, 0)) {
					return
				}
				n++
				ok := untrustedIndexGuarded(fn, in, idx, base)
				c.Check(ok, "index by an untrusted value into "+eng.Describe(base)+" in "+k, c.Pos(in),
					"guarded by index < len(table) (or the table covers the index type's range)",
					"a table is indexed by a value taken from untrusted bytes without a dominating guard index < len(table): a crafted type / code byte panics the process (index out of range)")
				return
			}
			isAcc, ok, desc := b.CheckAccess(in)
			if !isAcc {
				return
			}
			n++
			if !ok {
				if why := provedAtCallSites(c, t, fn, in); why != "" {
					c.OK(desc+" in "+k, c.Pos(in), why)
					return
				}
			}
			c.Check(ok, desc+" in "+k, c.Pos(in),
				"in bounds on every path (proved from dominating length guards)",
				"index/slice on untrusted bytes is not proven in bounds by any dominating length guard: a crafted or truncated payload panics the process (slice bounds out of range)")
		})
	}
	return n
}

func runC14(c *eng.Ctx) {
	c.Rule("R02.4", "K4")
	ruleReplicationRequestCheckedAndServedInOneSection(c)
	p := c.P
	c.Rule("R14.5", "K1")
	ruleEveryBatchedMessageWasValidated(c)
	ruleCreateIsStartable(c)
	ruleNegativeSettingsTakeTheDefault(c)
	c.Rule("R02.3", "K1")
	ruleFollowerAppendGuards(c)
	c.Rule("R01.18", "K4")
	rulePooledBuffersDoNotEscape(c)
	c.Rule("R14.13", "K6")
	ruleEnvelopeMinimumLengthTestsAgree(c)
	c.Rule("R01.11", "K1")
	ruleValidAcceptsTheNullMarkerEverywhere(c)

	// ---- R14.1 bounds on bytes that arrive from NATS
	c.Rule("R14.1", "K9")
	t := eng.NewTaint(c)
	srcs := natsDataSources(c)
	for _, s := range srcs {
		t.Add(s)
	}
	t.Run()
	if len(srcs) < 10 {
		c.Unresolved(fmt.Sprintf("loads of nats.Msg.Data (found %d, expected >= 10)", len(srcs)))
	}
	checkTaintedAccesses(c, t, nil)
	bceCrossCheck(c, t, []string{"./server/protocol/", "./server/commitlog/", "./server/"})
	// the decoders must be in the closure
	fns := t.Funcs()
	for _, must := range []string{"server/protocol.checkEnvelope", "server/protocol.UnmarshalReplicationResponse", "server.(*partition).handleReplicationResponse", "server.getMessage"} {
		f := c.Fn(must)
		if f != nil && !fns[f] {
			c.Unresolved("taint closure does not reach " + must)
		}
	}
	// no explicit panic in the envelope decoders
	for _, f := range p.Funcs {
		if !fns[f] {
			continue
		}
		k := ir.FuncKey(f)
		inDecoder := strings.HasPrefix(k, "server/protocol.") || k == "server.getMessage" || k == "server.natsToProtoMessage"
		if !inDecoder {
			continue
		}
		eng.Instrs(f, func(in ssa.Instruction) {
			if pn, ok := in.(*ssa.Panic); ok {
				c.Violate("explicit panic in decoder "+k, c.Pos(pn), "a decoder of untrusted bytes contains an explicit panic; decoding must return a value or an error")
			}
			if ta, ok := in.(*ssa.TypeAssert); ok && !ta.CommaOk {
				c.Violate("unchecked type assertion in decoder "+k, c.Pos(ta), "a decoder of untrusted bytes contains an unchecked type assertion")
			}
		})
	}
	c.Floor(8)

	// ---- R14.2 writer/reader agreement
	c.Rule("R14.2", "K6")
	mt := p.NamedType("server/protocol", "msgType")
	if mt == nil {
		c.Unresolved("type server/protocol.msgType")
	} else {
		type use struct {
			fn  *ssa.Function
			typ types.Type
		}
		writers := map[string][]use{}
		readers := map[string][]use{}
		constName := func(v ssa.Value) string {
			k, ok := eng.Strip(v).(*ssa.Const)
			if !ok || !types.Identical(k.Type(), mt) {
				return ""
			}
			sc := p.ByPath["server/protocol"].Types.Scope()
			for _, n := range sc.Names() {
				if kc, ok := sc.Lookup(n).(*types.Const); ok && types.Identical(kc.Type(), mt) && kc.Val().ExactString() == k.Value.ExactString() {
					return n
				}
			}
			return ""
		}
		for _, fn := range p.Funcs {
			if fn.Pkg == nil || ir.Short(fn.Pkg.Pkg.Path()) != "server/protocol" {
				continue
			}
			eng.Instrs(fn, func(in ssa.Instruction) {
				call, ok := in.(*ssa.Call)
				if !ok {
					return
				}
				switch eng.CalleeRef(&call.Call) {
				case "server/protocol.marshalEnvelope":
					if n := constName(call.Call.Args[1]); n != "" {
						var ty types.Type
						if mi, ok := call.Call.Args[0].(*ssa.MakeInterface); ok {
							ty = mi.X.Type()
						}
						writers[n] = append(writers[n], use{fn, ty})
					}
				case "server/protocol.unmarshalEnvelope":
					if n := constName(call.Call.Args[2]); n != "" {
						var ty types.Type
						if mi, ok := call.Call.Args[1].(*ssa.MakeInterface); ok {
							ty = mi.X.Type()
						}
						readers[n] = append(readers[n], use{fn, ty})
					}
				case "server/protocol.checkEnvelope":
					if n := constName(call.Call.Args[1]); n != "" {
						readers[n] = append(readers[n], use{fn, nil})
					}
				case "bytes.Buffer.WriteByte":
					// hand-rolled header writer: byte(msgTypeX)
					if k, ok := call.Call.Args[1].(*ssa.Const); ok && fn.Name() == "WriteReplicationResponseHeader" {
						_ = k
					}
				}
			})
		}
		// the hand-rolled replication response header
		if w := p.Func("server/protocol.WriteReplicationResponseHeader"); w != nil {
			writers["msgTypeReplicationResponse"] = append(writers["msgTypeReplicationResponse"], use{w, nil})
		}
		sc := p.ByPath["server/protocol"].Types.Scope()
		var consts []string
		for _, n := range sc.Names() {
			if kc, ok := sc.Lookup(n).(*types.Const); ok && types.Identical(kc.Type(), mt) {
				consts = append(consts, n)
			}
		}
		for _, n := range consts {
			w, r := writers[n], readers[n]
			ok := len(w) == 1 && len(r) == 1
			detail := fmt.Sprintf("%d writer(s), %d reader(s)", len(w), len(r))
			if ok && w[0].typ != nil && r[0].typ != nil && !types.Identical(w[0].typ, r[0].typ) {
				ok = false
				detail = fmt.Sprintf("writer %s marshals %s but reader %s unmarshals %s", ir.FuncKey(w[0].fn), w[0].typ, ir.FuncKey(r[0].fn), r[0].typ)
			}
			pos := "-"
			if len(w) > 0 {
				pos = p.Pos(w[0].fn.Pos())
			}
			c.Check(ok, "envelope type "+n, pos, "exactly one Marshal and one Unmarshal function use this constant, with the same Go message type", "envelope type "+n+": "+detail)
		}
		c.Floor(15)
		// header layout agreement
		c.Rule("R14.2", "K6")
		checkHeaderLayout(c)
	}
	c.Rule("R14.2", "K6")
	ruleLengthFieldWidths(c)

	// ---- R14.3 checksum guard
	c.Rule("R14.3", "K1")
	if fn := c.Fn("server/protocol.checkEnvelope"); fn != nil {
		hb := eng.CallsIn(fn, "server/protocol.hasBit")
		cs := eng.CallsIn(fn, "hash/crc32.Checksum")
		if len(hb) != 1 || len(cs) != 1 {
			c.Unresolved("hasBit / crc32.Checksum calls in checkEnvelope")
		} else {
			noFlag := eng.BoolEdges(fn, eng.Same(hb[0].(ssa.Value)), false)
			crcEq := eng.CmpEdges(fn, eng.Same(cs[0].(ssa.Value)), eng.Call(-1, "encoding/binary.bigEndian.Uint32", "encoding/binary.ByteOrder.Uint32"), eng.EQ)
			hdr := eng.CmpEdges(fn, func(v ssa.Value) bool { return isHeaderLen(v) }, eng.IntConst(12), eng.EQ)
			nret := 0
			for _, r := range eng.Returns(fn) {
				if len(eng.RetVals(r)) != 2 || !eng.NilConst(eng.RetVals(r)[1]) {
					continue
				}
				nret++
				g1, w1 := eng.GuardedBy(fn, r, append(append([]eng.Edge{}, noFlag...), crcEq...))
				g2, w2 := eng.GuardedBy(fn, r, append(append([]eng.Edge{}, noFlag...), hdr...))
				bad := ""
				if !g1 {
					bad = "success return reachable with the CRC flag set but without the checksum having compared equal: " + w1.String()
				} else if !g2 {
					bad = "success return reachable with the CRC flag set but without headerLen == 12 having been checked: " + w2.String()
				}
				c.Check(bad == "", "success return of checkEnvelope", c.Pos(r), "reached only with the CRC flag clear, or after headerLen == 12 and CRC equality", bad)
			}
			if nret == 0 {
				c.Unresolved("success return of checkEnvelope")
			}
			// the flag test really tests the flag bit: whatever other (reserved) bits are set, bit 0 of the flags byte decides
			if hbf := c.FnQuiet("server/protocol.hasBit"); hbf != nil {
				okBit := false
				for _, r := range eng.Returns(hbf) {
					v := eng.RetVals(r)[0]
					mask := eng.BinComm(token.AND, eng.Param("n"), eng.Bin(token.SHL, eng.IntConst(1), eng.Param("pos")))
					if eng.RelVal(mask, eng.IntConst(0), eng.GT)(v) || eng.RelVal(mask, eng.IntConst(0), eng.NE)(v) {
						okBit = true
					}
				}
				okUse := eng.IntConst(0)(hb[0].Common().Args[1])
				c.Check(okBit && okUse, "the CRC flag is tested as a bit of the flags byte", p.Pos(hbf.Pos()), "hasBit(n, pos) = n & (1 << pos) != 0, called with bit 0", "hasBit is not a mask test of bit pos (or checkEnvelope does not test bit 0): a flags byte with the CRC bit and any other bit set is treated as having no checksum, so corrupted payloads are accepted unverified")
			} else {
				c.Unresolved("server/protocol.hasBit")
			}
			// the checksum is computed over the payload with the Castagnoli table and compared with the header field
			call := cs[0].(*ssa.Call)
			okArgs := eng.Global("server/protocol.crc32cTable")(call.Call.Args[1])
			c.Check(okArgs, "crc32 table in checkEnvelope", c.Pos(call), "CRC-32C (Castagnoli) table", "checksum is not computed with crc32cTable")
			// type check precedes success
			typeOK := eng.CmpEdges(fn, eng.AnyV, eng.Param("expectedType"), eng.EQ)
			for _, r := range eng.Returns(fn) {
				if len(eng.RetVals(r)) == 2 && eng.NilConst(eng.RetVals(r)[1]) {
					g, w := eng.GuardedBy(fn, r, typeOK)
					c.Check(g, "type check before success in checkEnvelope", c.Pos(r), "actualType == expectedType on every path", "success return reachable without the message type check: "+w.String())
				}
			}
		}
	}
	c.Floor(3)

	// ---- R14.4 raw passthrough
	c.Rule("R14.4", "K5")
	if fn := c.Fn("server.natsToProtoMessage"); fn != nil {
		gm := eng.CallsIn(fn, "server.getMessage")
		if len(gm) != 1 {
			c.Unresolved("getMessage call in natsToProtoMessage")
		} else {
			gv := gm[0].(ssa.Value)
			isNil := eng.CmpEdges(fn, eng.Same(gv), eng.NilConst, eng.EQ)
			notNil := eng.CmpEdges(fn, eng.Same(gv), eng.NilConst, eng.NE)
			valField := p.Field("server/commitlog", "Message", "Value")
			nst := 0
			for _, st := range eng.FieldStores(fn, func(fa *ssa.FieldAddr) bool { return fieldIs(fa, valField) }) {
				nst++
				raw := isNatsData(st.Val)
				f, base := eng.FieldRead(st.Val)
				fromMsg := f != nil && f.Name() == "Value" && eng.Same(gv)(base)
				switch {
				case raw:
					g, w := eng.GuardedBy(fn, st, isNil)
					c.Check(g, "raw payload stored as Value", c.Pos(st), "msg.Data stored verbatim exactly when the payload is not an envelope", "raw msg.Data stored as Value on a path where an envelope was decoded: "+w.String())
				case fromMsg:
					g, w := eng.GuardedBy(fn, st, notNil)
					c.Check(g, "envelope value stored as Value", c.Pos(st), "decoded message's Value stored when the payload is an envelope", "decoded Value used on a path where decoding failed: "+w.String())
				default:
					c.Violate("Value store in natsToProtoMessage", c.Pos(st), "message Value is neither the raw payload nor the decoded message's Value: "+eng.Describe(st.Val))
				}
			}
			if nst < 2 {
				c.Unresolved("the two stores to Message.Value in natsToProtoMessage")
			}
			// the other copied fields come from the decoded message
			for _, fld := range []string{"Key", "AckInbox", "CorrelationID", "AckPolicy", "Offset"} {
				fo := p.Field("server/commitlog", "Message", fld)
				src := map[string]string{"CorrelationID": "CorrelationId"}[fld]
				if src == "" {
					src = fld
				}
				// On the envelope branch the field is the decoded message's; anywhere else (the literal that builds the
				// message, the raw-payload branch) only a constant may be stored — R14.9 says which one for Offset.
				fromEnvelope := func(x ssa.Instruction) bool {
					st, isSt := x.(*ssa.Store)
					if !isSt {
						return false
					}
					fa, isFA := st.Addr.(*ssa.FieldAddr)
					if !isFA || !fieldIs(fa, fo) {
						return false
					}
					f, base := eng.FieldRead(st.Val)
					return f != nil && f.Name() == src && eng.Same(gv)(base)
				}
				for _, st := range eng.FieldStores(fn, func(fa *ssa.FieldAddr) bool { return fieldIs(fa, fo) }) {
					if fromEnvelope(st) {
						g, w := eng.GuardedBy(fn, st, notNil)
						c.Check(g, "field "+fld+" copied from the envelope", c.Pos(st), "copied from the decoded message's "+src+" where an envelope was decoded", "the decoded message's "+src+" is read on a path where nothing was decoded: "+w.String())
						continue
					}
					_, isConst := eng.Strip(st.Val).(*ssa.Const)
					g, _ := eng.GuardedBy(fn, st, notNil)
					c.Check(isConst && !g, "field "+fld+" outside the envelope branch is a constant", c.Pos(st), "a constant, stored where no envelope was decoded (or before the test)", "field "+fld+" is set from "+eng.Describe(st.Val)+", not from the decoded envelope's "+src)
				}
				q := &eng.PathQuery{Fn: fn, FromEntry: true, Target: func(x ssa.Instruction) bool { _, isRet := x.(*ssa.Return); return isRet }, CutInstr: fromEnvelope, CutEdges: isNil}
				w := q.Find()
				c.Check(w == nil, "an envelope's "+fld+" reaches the stored message", p.Pos(fn.Pos()), "every path over the envelope branch copies the decoded message's "+src, "an envelope is decoded but its "+src+" is not copied ("+w.String()+")")
			}
		}
	}
	ruleStoredMessageIsFresh(c)
	ruleRecycledMessagesAreRefilled(c)
	if fn := c.Fn("server.getMessage"); fn != nil {
		um := eng.CallsIn(fn, "server/protocol.UnmarshalPublish")
		if len(um) != 1 {
			c.Unresolved("UnmarshalPublish call in getMessage")
		} else {
			uv := um[0].(ssa.Value)
			errNil := eng.CmpEdges(fn, func(v ssa.Value) bool { e, ok := v.(*ssa.Extract); return ok && e.Tuple == uv && e.Index == 1 }, eng.NilConst, eng.EQ)
			for _, r := range eng.Returns(fn) {
				if len(eng.RetVals(r)) == 1 && !eng.NilConst(eng.RetVals(r)[0]) {
					g, w := eng.GuardedBy(fn, r, errNil)
					c.Check(g, "getMessage returns a message only on success", c.Pos(r), "non-nil result only on err == nil", "a message is returned although decoding failed: "+w.String())
				}
			}
			c.Check(isParamData(um[0].Common().Args[0]), "getMessage decodes its argument", c.Pos(um[0].(ssa.Instruction)), "UnmarshalPublish(data)", "UnmarshalPublish is not applied to the payload parameter")
		}
	}
	c.Floor(9)

	// ---- R14.5 optional sub-messages of propagated requests
	c.Rule("R14.5", "K9")
	runNilSubMessages(c)

	// ---- R14.7 what arrives over NATS cannot reach a panic
	c.Rule("R14.7", "K3")
	rulePanicsOnMessagePath(c)

	c.Rule("R14.5", "K9")
	ruleCreatePreconditionKeysOnTheStreamName(c)
	ruleCreateRequestIsConsistent(c)
	c.Rule("R14.10", "K1")
	ruleAckInboxIsASubject(c)
	c.Rule("R14.12", "K1")
	ruleReplicatedMessagesAreValidated(c)
	c.Rule("R14.11", "K5")
	ruleDeliveredStringsAreUTF8(c)

	// ---- R02.3 (shared clause) a replication response reaches the log only when it is longer than a message-set header:
	// a bare 28-byte header announcing size 0 would be indexed as a message, and the first reader of that offset fails
	c.Rule("R02.3", "K1")
	if fn := c.Fn("server.(*partition).handleReplicationResponse"); fn != nil {
		ap := eng.CallsIn(fn, cl+"CommitLog.AppendMessageSet")
		if len(ap) != 1 {
			c.Unresolved("AppendMessageSet in handleReplicationResponse")
		} else {
			longEnough := eng.CmpEdges(fn, eng.Len(nil), eng.IntConst(28), eng.GT)
			g, w := eng.GuardedBy(fn, ap[0].(ssa.Instruction), longEnough)
			c.Check(g && len(longEnough) > 0, "follower append requires len(data) > 28", c.Pos(ap[0].(ssa.Instruction)), "dominated by the edge", "replicated data is appended without len(data) > 28 (path "+w.String()+"): a header-only message set is stored and the next read of that offset fails")
		}
	}

	// ---- R14.6 the malformed-message-set error reaches the handler's identity test unwrapped
	roots := []string{"server.(*partition).handleReplicationResponse"}
	if os.Getenv("LBCHECK_SENTINEL_ALL") != "" {
		roots = nil
	}
	n := ruleSentinelIdentity(c, "R14.6", roots, "the handler takes its `any other error` branch, which panics: a truncated replication response kills the follower")
	c.Check(n >= 1, "handleReplicationResponse tells a malformed message set apart", "", "identity comparison with commitlog.ErrInvalidMessageSet found", "no comparison with commitlog.ErrInvalidMessageSet in handleReplicationResponse: every append error is fatal there")
	// ---- R14.7 (extension) a message that cannot be encoded is refused, not fatal
	c.Rule("R14.7", "K3")
	ruleEncodeFailureIsAnError(c)

	c.Rule("R14.9", "K1")
	ruleRawPayloadWaivesExpectedOffset(c)

}

func isParamData(v ssa.Value) bool {
	_, ok := eng.Strip(v).(*ssa.Parameter)
	return ok
}

func isHeaderLen(v ssa.Value) bool {
	// int(data[5]) — a conversion of a byte loaded from an index
	cv, ok := v.(*ssa.Convert)
	if !ok {
		return false
	}
	u, ok := cv.X.(*ssa.UnOp)
	if !ok {
		return false
	}
	ia, ok := u.X.(*ssa.IndexAddr)
	if !ok {
		return false
	}
	k, ok := eng.ConstVal(ia.Index)
	return ok && k == 5
}

func fieldIs(fa *ssa.FieldAddr, f *types.Var) bool {
	if f == nil {
		return false
	}
	t := fa.X.Type().Underlying()
	if pt, ok := t.(*types.Pointer); ok {
		t = pt.Elem().Underlying()
	}
	st, ok := t.(*types.Struct)
	return ok && fa.Field < st.NumFields() && st.Field(fa.Field) == f
}

func isNatsData(v ssa.Value) bool {
	f, base := eng.FieldRead(v)
	if f == nil || f.Name() != "Data" {
		return false
	}
	pt, ok := base.Type().Underlying().(*types.Pointer)
	if !ok {
		return false
	}
	n, ok := pt.Elem().(*types.Named)
	return ok && n.Obj().Pkg() != nil && n.Obj().Pkg().Path() == natsPkg && n.Obj().Name() == "Msg"
}

// checkHeaderLayout: marshalEnvelope writes (version@4 = 0, headerLen@5 = 8, flags@6 = 0, type@7 = msgType) and
// checkEnvelope reads the same positions with the same meaning.
func checkHeaderLayout(c *eng.Ctx) {
	p := c.P
	w := c.Fn("server/protocol.marshalEnvelope")
	r := c.Fn("server/protocol.checkEnvelope")
	if w == nil || r == nil {
		return
	}
	bw := eng.NewBounds(p, w)
	written := map[int64]ssa.Value{}
	eng.Instrs(w, func(in ssa.Instruction) {
		st, ok := in.(*ssa.Store)
		if !ok {
			return
		}
		ia, ok := st.Addr.(*ssa.IndexAddr)
		if !ok {
			return
		}
		if k, ok := bw.ConstOf(ia.Index); ok {
			written[k] = st.Val
		}
	})
	read := map[int64]ssa.Value{}
	eng.Instrs(r, func(in ssa.Instruction) {
		u, ok := in.(*ssa.UnOp)
		if !ok || u.Op != token.MUL {
			return
		}
		ia, ok := u.X.(*ssa.IndexAddr)
		if !ok {
			return
		}
		if k, ok := eng.ConstVal(ia.Index); ok {
			read[k] = u
		}
	})
	want := []struct {
		pos  int64
		role string
		wr   func(v ssa.Value) bool
	}{
		{4, "version", func(v ssa.Value) bool { k, ok := eng.ConstVal(v); return ok && k == 0 }},
		{5, "header length", func(v ssa.Value) bool { k, ok := eng.ConstVal(v); return ok && k == 8 }},
		{6, "flags", func(v ssa.Value) bool { k, ok := eng.ConstVal(v); return ok && k == 0 }},
		{7, "message type", func(v ssa.Value) bool { return eng.Param("msgType")(v) }},
	}
	for _, x := range want {
		wv, wok := written[x.pos]
		_, rok := read[x.pos]
		ok := wok && rok && x.wr(wv)
		detail := ""
		if !wok {
			detail = "marshalEnvelope does not write byte " + fmt.Sprint(x.pos)
		} else if !rok {
			detail = "checkEnvelope does not read byte " + fmt.Sprint(x.pos)
		} else if !ok {
			detail = "marshalEnvelope writes " + eng.Describe(wv) + " as " + x.role
		}
		c.Check(ok, fmt.Sprintf("header byte %d (%s)", x.pos, x.role), p.Pos(w.Pos()), "written by marshalEnvelope and read by checkEnvelope at the same position", detail)
	}
	// roles on the reader side
	if v, ok := read[5]; ok {
		// used as the low bound of the payload slice
		used := false
		eng.Instrs(r, func(in ssa.Instruction) {
			if s, ok := in.(*ssa.Slice); ok && s.Low != nil {
				if cv, ok := s.Low.(*ssa.Convert); ok && cv.X == v {
					used = true
				}
			}
		})
		c.Check(used, "payload starts at the header length", c.Pos(v.(ssa.Instruction)), "payload = data[headerLen:]", "byte 5 is not used as the payload offset")
	}
	if v, ok := read[6]; ok {
		used := false
		for _, h := range eng.CallsIn(r, "server/protocol.hasBit") {
			if h.Common().Args[0] == v {
				if k, ok := eng.ConstVal(h.Common().Args[1]); ok && k == 0 {
					used = true
				}
			}
		}
		c.Check(used, "CRC flag is bit 0 of the flags byte", c.Pos(v.(ssa.Instruction)), "hasBit(flags, 0)", "byte 6 is not tested with hasBit(flags, 0)")
	}
}

// runNilSubMessages: per-op handlers of propagated requests read an optional sub-message pointer of the decoded request;
// it must be nil-checked before any field of it is read (directly, or in the callee it is passed to).
func runNilSubMessages(c *eng.Ctx) {
	p := c.P
	reqT := p.NamedType("server/protocol", "PropagatedRequest")
	if reqT == nil {
		c.Unresolved("type server/protocol.PropagatedRequest")
		return
	}
	n := 0
	nNested := 0
	for _, fn := range p.Funcs {
		if fn.Pkg == nil || ir.Short(fn.Pkg.Pkg.Path()) != "server" || fn.Parent() != nil {
			continue
		}
		if len(fn.Params) < 2 {
			continue
		}
		pt, ok := fn.Params[len(fn.Params)-1].Type().(*types.Pointer)
		if !ok || !types.Identical(pt.Elem(), reqT) || !strings.HasPrefix(fn.Name(), "handle") {
			continue
		}
		req := fn.Params[len(fn.Params)-1]
		eng.Instrs(fn, func(in ssa.Instruction) {
			u, ok := in.(*ssa.UnOp)
			if !ok || u.Op != token.MUL {
				return
			}
			fa, ok := u.X.(*ssa.FieldAddr)
			if !ok || fa.X != req {
				return
			}
			ft, ok := u.Type().(*types.Pointer)
			if !ok {
				return
			}
			if _, ok := ft.Elem().Underlying().(*types.Struct); !ok {
				return
			}
			fname := reqT.Underlying().(*types.Struct).Field(fa.Field).Name()
			// uses of the sub-message pointer
			for _, r := range *u.Referrers() {
				call, ok := r.(*ssa.Call)
				if !ok {
					continue
				}
				n++
				guard := eng.CmpEdges(fn, eng.Same(u), eng.NilConst, eng.NE)
				if g, _ := eng.GuardedBy(fn, call, guard); g && len(guard) > 0 {
					c.OK("sub-message "+fname+" in "+ir.FuncKey(fn), c.Pos(call), "nil-checked in the handler before use")
					continue
				}
				if why := validatedByCaller(c, fn, fname, ""); why != "" {
					c.OK("sub-message "+fname+" in "+ir.FuncKey(fn), c.Pos(call), why)
					continue
				}
				callee := call.Call.StaticCallee()
				idx := -1
				for i, a := range call.Call.Args {
					if a == u {
						idx = i
					}
				}
				if callee == nil || idx < 0 || !p.IsModuleFunc(callee) {
					c.Violate("sub-message "+fname+" in "+ir.FuncKey(fn), c.Pos(call), "optional sub-message passed on without a nil check to a callee that cannot be analysed")
					continue
				}
				bad := derefUnguarded(c, callee, callee.Params[idx], 0)
				c.Check(bad == "", "sub-message "+fname+" in "+ir.FuncKey(fn), c.Pos(call),
					"callee "+ir.FuncKey(callee)+" checks the pointer for nil before reading its fields",
					"a propagated request with op set but "+fname+" absent reaches "+bad+" — nil pointer dereference from a NATS payload")
			}
			// messages nested inside the sub-message are optional on the wire too
			for _, r := range *u.Referrers() {
				call, ok := r.(*ssa.Call)
				if !ok {
					continue
				}
				callee := call.Call.StaticCallee()
				if callee == nil || !p.IsModuleFunc(callee) {
					continue
				}
				for i, a := range call.Call.Args {
					if a != u || i >= len(callee.Params) {
						continue
					}
					nested := map[string]string{}
					nestedDerefs(c, callee, callee.Params[i], 0, nested)
					names := make([]string, 0, len(nested))
					for k := range nested {
						names = append(names, k)
					}
					sort.Strings(names)
					for _, nf := range names {
						nNested++
						construct := "nested message " + fname + "." + nf + " reached from " + ir.FuncKey(fn)
						if nested[nf] == "" {
							c.OK(construct, c.Pos(call), "nil-checked where it is read")
							continue
						}
						if why := validatedByCaller(c, fn, fname, nf); why != "" {
							c.OK(construct, c.Pos(call), why)
							continue
						}
						c.Violate(construct, c.Pos(call), "a propagated request whose "+fname+" is present but carries no "+nf+" reaches "+nested[nf]+" — nil pointer dereference from a NATS payload")
					}
				}
			}
		})
	}
	c.Floor(11)
	c.Note("R14.5: %d nested optional message(s) read below the propagated-request handlers", nNested)
}

// nestedDerefs collects, for the message pointer prm of fn, the pointer-to-message fields read from it (here and in the module
// functions prm is handed to, three levels) and for each the first place where the loaded pointer is dereferenced without a
// dominating nil test ("" when every dereference is guarded).
func nestedDerefs(c *eng.Ctx, fn *ssa.Function, prm *ssa.Parameter, depth int, out map[string]string) {
	if depth > 3 || prm.Referrers() == nil {
		return
	}
	var uses []ssa.Instruction
	for _, r := range *prm.Referrers() {
		if st, ok := r.(*ssa.Store); ok && st.Val == prm {
			if a, ok := st.Addr.(*ssa.Alloc); ok {
				for _, rr := range *a.Referrers() {
					if ld, ok := rr.(*ssa.UnOp); ok && ld.Referrers() != nil {
						uses = append(uses, *ld.Referrers()...)
					}
				}
				continue
			}
		}
		uses = append(uses, r)
	}
	for _, r := range uses {
		switch x := r.(type) {
		case *ssa.FieldAddr:
			pt, ok := x.Type().(*types.Pointer) // *(*T)
			if !ok {
				continue
			}
			inner, ok := pt.Elem().(*types.Pointer)
			if !ok {
				continue
			}
			if _, ok := inner.Elem().Underlying().(*types.Struct); !ok {
				continue
			}
			st := x.X.Type().Underlying().(*types.Pointer).Elem().Underlying().(*types.Struct)
			name := st.Field(x.Field).Name()
			if strings.HasPrefix(name, "XXX_") || x.Referrers() == nil {
				continue
			}
			sameField := func(v ssa.Value) bool {
				u, ok := v.(*ssa.UnOp)
				if !ok || u.Op != token.MUL {
					return false
				}
				fa, ok := u.X.(*ssa.FieldAddr)
				return ok && fa.Field == x.Field && eng.Strip(fa.X) == eng.Strip(x.X)
			}
			guard := eng.CmpEdges(fn, sameField, eng.NilConst, eng.NE)
			for _, lr := range *x.Referrers() {
				ld, ok := lr.(*ssa.UnOp)
				if !ok || ld.Op != token.MUL || ld.Referrers() == nil {
					continue
				}
				if _, seen := out[name]; !seen {
					out[name] = ""
				}
				for _, use := range *ld.Referrers() {
					guarded := false
					if len(guard) > 0 {
						guarded, _ = eng.GuardedBy(fn, use, guard)
					}
					if guarded {
						continue
					}
					switch y := use.(type) {
					case *ssa.FieldAddr:
						if out[name] == "" {
							out[name] = fmt.Sprintf("%s (field read at %s)", ir.FuncKey(fn), c.Pos(y))
						}
					case *ssa.Call:
						callee := y.Call.StaticCallee()
						if callee == nil || !c.P.IsModuleFunc(callee) {
							continue
						}
						for i, a := range y.Call.Args {
							if a == ssa.Value(ld) && i < len(callee.Params) {
								if s := derefUnguarded(c, callee, callee.Params[i], depth+1); s != "" && out[name] == "" {
									out[name] = s
								}
							}
						}
					}
				}
			}
		case *ssa.Call:
			callee := x.Call.StaticCallee()
			if callee == nil || !c.P.IsModuleFunc(callee) || len(callee.Blocks) == 0 {
				continue
			}
			for i, a := range x.Call.Args {
				if eng.Strip(a) == ssa.Value(prm) && i < len(callee.Params) {
					nestedDerefs(c, callee, callee.Params[i], depth+1, out)
				}
			}
		}
	}
}

// derefUnguarded returns a description of the first use of pointer parameter prm in fn that dereferences it (field
// address, or passing it to a callee that does) without a dominating prm != nil edge; "" when none.
func derefUnguarded(c *eng.Ctx, fn *ssa.Function, prm *ssa.Parameter, depth int) string {
	if depth > 3 {
		return ""
	}
	guard := eng.CmpEdges(fn, eng.Same(prm), eng.NilConst, eng.NE)
	refs := prm.Referrers()
	if refs == nil {
		return ""
	}
	// the parameter may be spilled into a cell when captured; follow loads of it
	var uses []ssa.Instruction
	for _, r := range *refs {
		if st, ok := r.(*ssa.Store); ok && st.Val == prm {
			if a, ok := st.Addr.(*ssa.Alloc); ok {
				for _, rr := range *a.Referrers() {
					if ld, ok := rr.(*ssa.UnOp); ok && ld.Referrers() != nil {
						uses = append(uses, *ld.Referrers()...)
					}
				}
				continue
			}
		}
		uses = append(uses, r)
	}
	for _, r := range uses {
		guarded := false
		if len(guard) > 0 {
			guarded, _ = eng.GuardedBy(fn, r, guard)
		}
		if guarded {
			continue
		}
		switch x := r.(type) {
		case *ssa.FieldAddr:
			return fmt.Sprintf("%s (field read at %s)", ir.FuncKey(fn), c.Pos(x))
		case *ssa.Call:
			callee := x.Call.StaticCallee()
			if callee == nil {
				continue
			}
			if !c.P.IsModuleFunc(callee) {
				// generated protobuf getters are nil-safe; other dependencies are not analysed
				continue
			}
			for i, a := range x.Call.Args {
				if a == prm && i < len(callee.Params) {
					if callee.Signature.Recv() != nil && i == 0 && strings.HasPrefix(callee.Name(), "Get") {
						// generated getter on the message itself: nil-safe by construction; verify
						if s := derefUnguarded(c, callee, callee.Params[0], depth+1); s != "" {
							return s
						}
						continue
					}
					if s := derefUnguarded(c, callee, callee.Params[i], depth+1); s != "" {
						return s
					}
				}
			}
		case *ssa.Store:
			// stored into a composite (e.g. a RaftLog): a nil op would be replicated and dereferenced on apply
			if x.Val == prm || isLoadOf(x.Val, prm) {
				return fmt.Sprintf("%s (stored into %s at %s, dereferenced later)", ir.FuncKey(fn), eng.Describe(x.Addr), c.Pos(x))
			}
		}
	}
	return ""
}

func isLoadOf(v ssa.Value, prm *ssa.Parameter) bool {
	return eng.Strip(v) == prm
}

// provedAtCallSites: an access with constant bounds on a slice parameter (possibly through a type change) that is not
// provable locally is discharged when at every module call site that passes tainted bytes the required length is proven.
func provedAtCallSites(c *eng.Ctx, t *eng.Taint, fn *ssa.Function, in ssa.Instruction) string {
	var base, lo, hi ssa.Value
	switch x := in.(type) {
	case *ssa.Slice:
		base, lo, hi = x.X, x.Low, x.High
	case *ssa.IndexAddr:
		base, hi = x.X, x.Index
	case *ssa.Index:
		base, hi = x.X, x.Index
	default:
		return ""
	}
	for {
		if ct, ok := base.(*ssa.ChangeType); ok {
			base = ct.X
			continue
		}
		break
	}
	prm, ok := base.(*ssa.Parameter)
	if !ok {
		return ""
	}
	need := int64(0)
	for _, v := range []ssa.Value{lo, hi} {
		if v == nil {
			continue
		}
		k, ok := eng.ConstVal(v)
		if !ok || k < 0 {
			return ""
		}
		if k > need {
			need = k
		}
	}
	if _, isIdx := in.(*ssa.Slice); !isIdx {
		need++
	}
	idx := -1
	for i, q := range fn.Params {
		if q == prm {
			idx = i
		}
	}
	obj, _ := fn.Object().(*types.Func)
	if idx < 0 || obj == nil {
		return ""
	}
	sites := eng.Index(c.P).Sites(eng.FuncRef(obj))
	nt := 0
	for _, s := range sites {
		ci, ok := s.Instr.(ssa.CallInstruction)
		if !ok || s.Mode == "value" {
			return ""
		}
		args := ci.Common().Args
		if idx >= len(args) {
			return ""
		}
		arg := args[idx]
		if !t.Val[arg] {
			continue // this caller does not pass untrusted bytes
		}
		nt++
		b := eng.NewBounds(c.P, s.Fn)
		if !b.MinLen(arg, need, s.Instr) {
			return ""
		}
	}
	if nt == 0 {
		return ""
	}
	return fmt.Sprintf("len >= %d is proven at each of the %d call sites that pass untrusted bytes", need, nt)
}

// validatedByCaller: every module call site of the per-op handler h is dominated by the success edge of a validator — a
// module function applied to the same request value that compares the given sub-message field with nil and returns an
// error. Returns a description, or "" when not established.
func validatedByCaller(c *eng.Ctx, h *ssa.Function, field, nested string) string {
	obj, _ := h.Object().(*types.Func)
	if obj == nil {
		return ""
	}
	sites := eng.Index(c.P).Sites(eng.FuncRef(obj))
	if len(sites) == 0 {
		return ""
	}
	validator := ""
	for _, s := range sites {
		call, ok := s.Instr.(*ssa.Call)
		if !ok || s.Mode != "call" {
			return ""
		}
		req := call.Call.Args[len(call.Call.Args)-1]
		found := false
		eng.Instrs(s.Fn, func(in ssa.Instruction) {
			vc, ok := in.(*ssa.Call)
			if !ok || found {
				return
			}
			v := vc.Call.StaticCallee()
			if v == nil || !c.P.IsModuleFunc(v) || v == h || len(vc.Call.Args) == 0 || vc.Call.Args[len(vc.Call.Args)-1] != req {
				return
			}
			if !comparesFieldWithNil(v, field, nested) {
				return
			}
			okEdge := eng.CmpEdges(s.Fn, eng.Same(vc), eng.NilConst, eng.EQ)
			if g, _ := eng.GuardedBy(s.Fn, call, okEdge); g && len(okEdge) > 0 {
				found = true
				validator = ir.FuncKey(v)
			}
		})
		if !found {
			return ""
		}
	}
	if nested != "" {
		field += "." + nested
	}
	return "every call of this handler is behind the success edge of " + validator + ", which refuses a request whose " + field + " is nil"
}

// comparesFieldWithNil: v compares the given field of its last parameter with nil and has an error return.
func comparesFieldWithNil(v *ssa.Function, field, nested string) bool {
	if len(v.Params) == 0 {
		return false
	}
	prm := v.Params[len(v.Params)-1]
	cmp := false
	eng.Instrs(v, func(in ssa.Instruction) {
		bo, ok := in.(*ssa.BinOp)
		if !ok || (bo.Op != token.EQL && bo.Op != token.NEQ) {
			return
		}
		x, y := bo.X, bo.Y
		if eng.NilConst(x) {
			x, y = y, x
		}
		if !eng.NilConst(y) {
			return
		}
		f, b := eng.FieldRead(x)
		if f == nil {
			return
		}
		if nested == "" {
			if f.Name() == field && eng.Strip(b) == prm {
				cmp = true
			}
			return
		}
		// req.<field>.<nested> compared with nil
		if f.Name() != nested {
			return
		}
		f2, b2 := eng.FieldRead(eng.Strip(b))
		if f2 != nil && f2.Name() == field && eng.Strip(b2) == prm {
			cmp = true
		}
	})
	if !cmp {
		return false
	}
	for _, r := range eng.Returns(v) {
		for _, res := range eng.RetVals(r) {
			if !eng.NilConst(res) && res.Type().String() == "error" {
				return true
			}
		}
	}
	return false
}

// natsPanicsAllowed: the panics a NATS callback (or a function that marshals an ack for a received message) may contain,
// keyed by function and by the call whose error the panic reports. Each is a failure that the sender of a message cannot
// bring about; everything else in these functions that panics can be triggered from the network.
var natsPanicsAllowed = map[string]string{
	"server.(*partition).handleLeaderOffsetRequest|server/protocol.MarshalLeaderEpochOffsetResponse": "the response holds one integer: marshalling cannot fail",
	"server.(*Server).handlePropagatedRequest|server/protocol.MarshalPropagatedResponse":             "the response holds the op and an error text produced by this server from strings protobuf already validated",
	"server.(*partition).handleReplicationResponse|server/commitlog.CommitLog.AppendMessageSet":      "a storage failure on the follower; a malformed message set is told apart first (R14.6)",
	"server.(*Server).handleServerInfoRequest|server/protocol.MarshalServerInfoResponse":             "the response holds this server's own id, host and port",
	"server.(*Server).handlePartitionStatusRequest|server/protocol.MarshalPartitionStatusResponse":   "the response holds two booleans",
	"server.(*Server).newClusterJoinRequestHandler$1|server/protocol.MarshalRaftJoinResponse":        "the response holds an error text produced by this server; the node id in it was validated by protobuf when the request was decoded",
}

// rulePanicsOnMessagePath (R14.7): every panic in a function that takes a *nats.Msg, or that marshals an Ack (whose strings
// — message subject, ack inbox, correlation id — are chosen by whoever sent the message), is one of the listed ones.
func rulePanicsOnMessagePath(c *eng.Ctx) {
	p := c.P
	inScope := func(fn *ssa.Function) bool {
		for _, prm := range fn.Params {
			if pt, ok := prm.Type().(*types.Pointer); ok {
				if nt, ok := pt.Elem().(*types.Named); ok && nt.Obj().Name() == "Msg" && nt.Obj().Pkg() != nil && strings.HasSuffix(nt.Obj().Pkg().Path(), "nats-io/nats.go") {
					return true
				}
			}
		}
		return len(eng.CallsIn(fn, "server/protocol.MarshalAck")) > 0
	}
	n := 0
	for _, fn := range p.Funcs {
		if fn.Pkg == nil || ir.Short(fn.Pkg.Pkg.Path()) != "server" || !inScope(fn) {
			continue
		}
		eng.Instrs(fn, func(in ssa.Instruction) {
			pn, ok := in.(*ssa.Panic)
			if !ok {
				return
			}
			n++
			cause := panicCause(pn.X, 0)
			key := ir.FuncKey(fn) + "|" + cause
			construct := "panic in " + ir.FuncKey(fn)
			if cause != "" {
				construct += " on failure of " + cause
			}
			why, ok := natsPanicsAllowed[key]
			c.Check(ok, construct, c.Pos(pn), "listed: "+why, "a message from the network can bring this panic about (the condition depends on what was received — a replica id, a subject, an inbox — not on a fault of this server): one NATS message stops the process")
		})
	}
	c.Check(n >= 3, "panics on the message path found", "", "the listed panics are present", "fewer panics on the message path than listed: the table is stale")
}

// panicCause names the call whose error a panic reports ("" when the panic value is not an error taken from a call).
func panicCause(v ssa.Value, depth int) string {
	if depth > 4 {
		return ""
	}
	switch x := v.(type) {
	case *ssa.MakeInterface:
		return panicCause(x.X, depth+1)
	case *ssa.ChangeInterface:
		return panicCause(x.X, depth+1)
	case *ssa.Extract:
		if call, ok := x.Tuple.(*ssa.Call); ok {
			return eng.CalleeRef(&call.Call)
		}
	case *ssa.Call:
		ref := eng.CalleeRef(&x.Call)
		if ref == "fmt.Errorf" || ref == "fmt.Sprintf" || strings.HasPrefix(ref, "github.com/pkg/errors.") {
			for _, a := range x.Call.Args {
				for _, e := range append(variadicElems(a), a) {
					if types.Identical(e.Type(), types.Universe.Lookup("error").Type()) {
						if s := panicCause(e, depth+1); s != "" {
							return s
						}
					}
					if mi, ok := e.(*ssa.MakeInterface); ok && types.Identical(mi.X.Type(), types.Universe.Lookup("error").Type()) {
						if s := panicCause(mi.X, depth+1); s != "" {
							return s
						}
					}
					if ci, ok := e.(*ssa.ChangeInterface); ok && types.Identical(ci.X.Type(), types.Universe.Lookup("error").Type()) {
						if s := panicCause(ci.X, depth+1); s != "" {
							return s
						}
					}
				}
			}
			return ""
		}
		if types.Identical(x.Type(), types.Universe.Lookup("error").Type()) {
			return ref
		}
	case *ssa.Phi:
		for _, e := range x.Edges {
			if s := panicCause(e, depth+1); s != "" {
				return s
			}
		}
	case *ssa.UnOp:
		if x.Op == token.MUL {
			if al, ok := x.X.(*ssa.Alloc); ok && al.Referrers() != nil {
				for _, r := range *al.Referrers() {
					if st, ok := r.(*ssa.Store); ok && st.Addr == ssa.Value(al) {
						if s := panicCause(st.Val, depth+1); s != "" {
							return s
						}
					}
				}
			}
		}
	}
	return ""
}

// taintedThroughConvert: v is a conversion (or chain of conversions) of a tainted value.
func taintedThroughConvert(t *eng.Taint, v ssa.Value) bool {
	for i := 0; i < 4; i++ {
		switch x := v.(type) {
		case *ssa.Convert:
			v = x.X
		case *ssa.ChangeType:
			v = x.X
		default:
			return t.Val[v]
		}
		if t.Val[v] {
			return true
		}
	}
	return false
}

// untrustedIndexGuarded: the access lies behind idx < len(base) for this very index value (seen through conversions), or the
// table is an array at least as long as the index type's range.
func untrustedIndexGuarded(fn *ssa.Function, in ssa.Instruction, idx, base ssa.Value) bool {
	same := func(v ssa.Value) bool {
		a, b := v, idx
		for i := 0; i < 4; i++ {
			if a == b {
				return true
			}
			if c, ok := a.(*ssa.Convert); ok {
				a = c.X
				continue
			}
			if c, ok := b.(*ssa.Convert); ok {
				b = c.X
				continue
			}
			break
		}
		return a == b
	}
	bt := base.Type().Underlying()
	if pt, ok := bt.(*types.Pointer); ok {
		bt = pt.Elem().Underlying()
	}
	if at, ok := bt.(*types.Array); ok {
		if basic, ok := idx.Type().Underlying().(*types.Basic); ok && basic.Kind() == types.Uint8 && at.Len() >= 256 {
			return true
		}
		edges := eng.CmpEdges(fn, same, eng.IntConst(at.Len()), eng.LT)
		g, _ := eng.GuardedBy(fn, in, edges)
		return g && len(edges) > 0
	}
	isBase := func(v ssa.Value) bool { return v == base || (eng.Strip(v) == eng.Strip(base)) }
	edges := eng.CmpEdges(fn, same, eng.Len(isBase), eng.LT)
	g, _ := eng.GuardedBy(fn, in, edges)
	return g && len(edges) > 0
}

// untrustedScalar: v is a number read out of untrusted bytes — an element of a tainted slice, a fixed-width read of one —
// possibly converted, masked or shifted, merged by a phi, or handed in as a parameter by a caller that read it that way.
func untrustedScalar(c *eng.Ctx, t *eng.Taint, v ssa.Value, depth int) bool {
	if depth > 5 {
		return false
	}
	switch x := v.(type) {
	case *ssa.Convert:
		return untrustedScalar(c, t, x.X, depth+1)
	case *ssa.ChangeType:
		return untrustedScalar(c, t, x.X, depth+1)
	case *ssa.UnOp:
		if x.Op == token.MUL {
			if ia, ok := x.X.(*ssa.IndexAddr); ok {
				return t.Val[ia.X]
			}
			if al, ok := x.X.(*ssa.Alloc); ok {
				// a local that was assigned such a value
				if refs := al.Referrers(); refs != nil {
					for _, r := range *refs {
						if st, isSt := r.(*ssa.Store); isSt && st.Addr == al && untrustedScalar(c, t, st.Val, depth+1) {
							return true
						}
					}
				}
			}
		}
		return false
	case *ssa.Index:
		return t.Val[x.X]
	case *ssa.BinOp:
		switch x.Op {
		case token.AND, token.SHR, token.SHL, token.OR, token.ADD, token.SUB:
			return untrustedScalar(c, t, x.X, depth+1) || untrustedScalar(c, t, x.Y, depth+1)
		}
		return false
	case *ssa.Phi:
		for _, e := range x.Edges {
			if untrustedScalar(c, t, e, depth+1) {
				return true
			}
		}
		return false
	case *ssa.Call:
		ref := eng.CalleeRef(&x.Call)
		if strings.HasPrefix(ref, "encoding/binary.") && len(x.Call.Args) > 0 {
			return t.Val[x.Call.Args[len(x.Call.Args)-1]]
		}
		return false
	case *ssa.Parameter:
		fn := x.Parent()
		idx := -1
		for i, p := range fn.Params {
			if p == x {
				idx = i
			}
		}
		if idx < 0 {
			return false
		}
		for caller := range t.Funcs() {
			found := false
			eng.Instrs(caller, func(in ssa.Instruction) {
				ci, ok := in.(ssa.CallInstruction)
				if !ok || ci.Common().StaticCallee() != fn {
					return
				}
				args := ci.Common().Args
				if idx < len(args) && untrustedScalar(c, t, args[idx], depth+1) {
					found = true
				}
			})
			if found {
				return true
			}
		}
		return false
	}
	return false
}
