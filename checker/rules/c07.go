package rules

import (
	"go/token"
	"strings"

	"golang.org/x/tools/go/ssa"

	"lbcheck/eng"
	"lbcheck/ir"
)

func init() {
	register(&Property{ID: "C07", Level: "other", Run: runC07,
		Technique:   "static analysis: guard dominance (staleness fences, quorum, epoch monotonicity), provenance of the election candidate, who-may-call and lock-held over go/ssa",
		LevelText:   "Structural clauses decided for all paths: ISR changes and leader reports reach Raft / the witness table only when the request's (leader, epoch) equals the partition's current pair; a failover fires only on witnesses > quorum with quorum = (ISR size - 1)/2; witnesses are validated against the member set before they are counted; the elected leader is an element of the ISR other than the current leader; leader and partition epochs are stored only under a not-smaller guard; ISR changes refuse non-replicas; failover state is reset on leadership loss and stream removal. Timing of the witness window and cluster-wide uniqueness of a leader per epoch are not decided.",
		LevelNote:   "Trusted: go/ssa; Raft's ordering of proposals; timers fire as documented.",
		DesignRef:   "DESIGN.md §4 C07",
		Explanation: "Round 13: R07.2 also: the report just received is vetted by the pruning walk before the quorum is counted (ReportLeader validates outside the status lock). Round 10: R07.10 also: the leader-change precondition looks the partition up when it runs. Round 9: R02.7 (shared) an ISR change carries the replicator's own generation. R07.11 (F104): report hands the reported leader epoch to the election, which proposes a change only while that epoch is still the current one. R07.3 also: the pruning test is made of the witness the loop looks at. R07.3 also: each witness's report is aged against Timeout() before the count (F84); R07.7 also: a failover status is moved to no other partition; reset / resetFailovers caller tables. R07.1 staleness fences (sibling agreement over ShrinkISR/ExpandISR/ReportLeader/ReportGroupCoordinator), R07.2 quorum rule and timer, R07.3 witness eligibility, R07.4 candidate provenance, R07.5 epochs only grow, R07.6 ISR ⊆ replicas, R07.7 failover hygiene (reset forgets every entry; a triggered failover consumes its witnesses), R07.8 lock pairing, R07.9 persisted ISR rebuilt after the in-memory change. NOT decided: timing, one leader per epoch cluster-wide, leader ∈ ISR after arbitrary shrink requests.",
	})
}

func runC07(c *eng.Ctx) {
	c.Rule("R07.10", "K4")
	ruleBarrierUnderTheProposalLock(c)
	c.Rule("R07.10", "K5")
	ruleChangeLeaderPreconditionLooksThePartitionUp(c)
	c.Rule("R02.7", "K5")
	ruleISRChangeCarriesTheReplicatorsGeneration(c)
	c.Rule("R07.2", "K1")
	ruleEveryCountedReportIsVetted(c)
	c.Rule("R07.11", "K1")
	ruleElectionIsForTheReportedLeaderEpoch(c)
	p := c.P

	// ---- R07.1 staleness fence
	c.Rule("R07.1", "K1")
	type fence struct {
		fn, getter, fLeader, fEpoch string
		effects                     []string
	}
	fences := []fence{
		{"server.(*metadataAPI).ShrinkISR", "server.partition.GetLeader", "Leader", "LeaderEpoch", []string{"server.raftNode.applyOperation"}},
		{"server.(*metadataAPI).ExpandISR", "server.partition.GetLeader", "Leader", "LeaderEpoch", []string{"server.raftNode.applyOperation"}},
		{"server.(*metadataAPI).ReportLeader", "server.partition.GetLeader", "Leader", "LeaderEpoch", []string{"server.failoverStatus.report"}},
		{"server.(*metadataAPI).ReportGroupCoordinator", "server.consumerGroup.GetCoordinator", "Coordinator", "Epoch", []string{"server.failoverStatus.report"}},
	}
	for _, f := range fences {
		fn := c.Fn(f.fn)
		if fn == nil {
			continue
		}
		cur := func(i int) eng.VM { return eng.Call(i, f.getter) }
		sameLeader := eng.CmpEdges(fn, eng.LoadNamed(f.fLeader, eng.Param("req")), cur(0), eng.EQ)
		sameEpoch := eng.CmpEdges(fn, eng.LoadNamed(f.fEpoch, eng.Param("req")), cur(1), eng.EQ)
		effs := eng.CallsIn(fn, f.effects...)
		if len(effs) == 0 {
			c.Unresolved("effect call " + strings.Join(f.effects, "/") + " in " + f.fn)
			continue
		}
		for _, e := range effs {
			in := e.(ssa.Instruction)
			g1, w1 := eng.GuardedBy(fn, in, sameLeader)
			g2, w2 := eng.GuardedBy(fn, in, sameEpoch)
			bad := ""
			if !g1 || len(sameLeader) == 0 {
				bad = "reached without req." + f.fLeader + " having been compared equal to the current one (path " + w1.String() + ")"
			} else if !g2 || len(sameEpoch) == 0 {
				bad = "reached without req." + f.fEpoch + " having been compared equal to the current epoch (path " + w2.String() + ")"
			}
			c.Check(bad == "", "staleness fence in "+fn.Name(), c.Pos(in), "the request acts only when (req."+f.fLeader+", req."+f.fEpoch+") equals the current pair from "+f.getter, "stale request accepted: "+bad)
		}
	}
	c.Floor(4)

	// ---- R07.2 quorum
	c.Rule("R07.2", "K1")
	if fn := c.Fn("server.(*failoverStatus).report"); fn != nil {
		wit := p.Field("server", "failoverStatus", "witnesses")
		over := eng.CmpEdges(fn, eng.Len(eng.Load(wit, nil)), eng.Call(-1, "server.failover.Quorum"), eng.GT)
		fo := eng.CallsIn(fn, "server.failover.Failover")
		if len(fo) != 1 {
			c.Unresolved("Failover call in failoverStatus.report")
		} else {
			g, w := eng.GuardedBy(fn, fo[0].(ssa.Instruction), over)
			c.Check(g && len(over) > 0, "failover needs more witnesses than the quorum", c.Pos(fo[0].(ssa.Instruction)), "Failover is reached only on len(witnesses) > Quorum()", "a failover can be triggered without more than a quorum of witnesses (path "+w.String()+")")
		}
		// otherwise the timer is (re)armed
		notOver := eng.CmpEdges(fn, eng.Len(eng.Load(wit, nil)), eng.Call(-1, "server.failover.Quorum"), eng.LE)
		q := &eng.PathQuery{Fn: fn, FromEdges: notOver, Target: isReturn, CutInstr: eng.IsCallTo("time.Timer.Reset", "time.AfterFunc")}
		w := q.Find()
		c.Check(w == nil && len(notOver) > 0, "expiry timer armed below quorum", p.Pos(fn.Pos()), "every below-quorum return passes Timer.Reset or time.AfterFunc", "a below-quorum report can return without arming the expiry timer: stale witnesses accumulate for ever (path "+w.String()+")")
		// the expiry callback is OnExpired and the timeout is Timeout()
		for _, a := range eng.CallsIn(fn, "time.AfterFunc") {
			call := a.(*ssa.Call)
			okT := eng.Call(-1, "server.failover.Timeout")(call.Call.Args[0])
			c.Check(okT, "expiry after Timeout()", c.Pos(call), "time.AfterFunc(f.failover.Timeout(), OnExpired)", "the expiry timer is not armed with the failover's Timeout()")
		}
		c.CheckFieldLocks(eng.LockRule{Field: wit, Lock: "mu"}, "failoverStatus.witnesses")
		c.CheckFieldLocks(eng.LockRule{Field: p.Field("server", "failoverStatus", "timer"), Lock: "mu"}, "failoverStatus.timer")
	}
	if fn := c.Fn("server.(*failoverStatus).report"); fn != nil {
		// the witness is recorded, and it is the reporter's id
		ok := false
		eng.Instrs(fn, func(in ssa.Instruction) {
			if mu, isMU := in.(*ssa.MapUpdate); isMU && eng.LoadNamed("witnesses", nil)(mu.Map) && eng.Param("witness")(mu.Key) {
				ok = true
			}
		})
		c.Check(ok, "report records the witness", p.Pos(fn.Pos()), "f.witnesses[witness] = struct{}{}", "report does not record the reporting replica as a witness")
	}
	for _, k := range []struct{ fn, field string }{{"server.(*metadataAPI).newPartitionFailoverExpiredHandler$1", "partitionFailovers"}, {"server.(*metadataAPI).newGroupFailoverExpiredHandler$1", "groupFailovers"}} {
		fn := c.Fn(k.fn)
		if fn == nil {
			continue
		}
		ok := false
		eng.Instrs(fn, func(in ssa.Instruction) {
			if call, isC := in.(*ssa.Call); isC {
				if b, isB := call.Call.Value.(*ssa.Builtin); isB && b.Name() == "delete" && eng.LoadNamed(k.field, nil)(call.Call.Args[0]) {
					ok = true
				}
			}
		})
		c.Check(ok, "expiry forgets the witnesses in "+k.field, p.Pos(fn.Pos()), "the expired failover entry is deleted", "the expiry handler keeps the failover entry: witnesses from outside the timeout window still count towards the quorum")
	}
	for _, k := range []struct{ fn, field string }{{"server.(*metadataAPI).ReportLeader", "partitionFailovers"}, {"server.(*metadataAPI).ReportGroupCoordinator", "groupFailovers"}} {
		fn := c.Fn(k.fn)
		if fn == nil {
			continue
		}
		// a new status is created only when none exists, and it is stored
		none := eng.CmpEdges(fn, func(v ssa.Value) bool {
			lk, ok := v.(*ssa.Lookup)
			return ok && eng.LoadNamed(k.field, nil)(lk.X)
		}, eng.NilConst, eng.EQ)
		stored := false
		eng.Instrs(fn, func(in ssa.Instruction) {
			if mu, isMU := in.(*ssa.MapUpdate); isMU && eng.LoadNamed(k.field, nil)(mu.Map) {
				g, _ := eng.GuardedBy(fn, mu, none)
				stored = g && len(none) > 0
			}
		})
		c.Check(stored, "witnesses accumulate in one status per resource in "+fn.Name(), p.Pos(fn.Pos()), "a failover status is created only when none exists, and stored", "each report works on a fresh failover status (or replaces the existing one): witnesses never accumulate / accumulated witnesses are discarded")
	}
	if fn := c.Fn("server.(*partitionFailover).Quorum"); fn != nil {
		ok := false
		for _, r := range eng.Returns(fn) {
			ok = eng.Bin(token.QUO, eng.Bin(token.SUB, eng.Call(-1, "server.partition.ISRSize"), eng.IntConst(1)), eng.IntConst(2))(eng.RetVals(r)[0])
		}
		c.Check(ok, "partition quorum", p.Pos(fn.Pos()), "(ISRSize() - 1) / 2", "partitionFailover.Quorum is not (ISR size - 1) / 2")
	}
	c.Floor(13)

	// ---- R07.3 witness eligibility
	c.Rule("R07.3", "K1")
	if fn := c.Fn("server.(*metadataAPI).ReportGroupCoordinator"); fn != nil {
		for _, e := range eng.CallsIn(fn, "server.failoverStatus.report") {
			call := e.(*ssa.Call)
			wv := call.Call.Args[2]
			member := eng.BoolEdges(fn, func(v ssa.Value) bool {
				mc, ok := v.(*ssa.Call)
				return ok && eng.CalleeRef(&mc.Call) == "server.consumerGroup.IsMember" && sameRead(mc.Call.Args[1], wv)
			}, true)
			g, w := eng.GuardedBy(fn, call, member)
			c.Check(g && len(member) > 0, "group witness is a member", c.Pos(call), "report(req.ConsumerId) only after group.IsMember(req.ConsumerId)", "a coordinator report is counted from a consumer that is not a group member (path "+w.String()+")")
		}
	}
	if fn := c.Fn("server.(*metadataAPI).ReportLeader"); fn != nil {
		for _, e := range eng.CallsIn(fn, "server.failoverStatus.report") {
			call := e.(*ssa.Call)
			wv := call.Call.Args[2]
			inISR := eng.BoolEdges(fn, func(v ssa.Value) bool {
				mc, ok := v.(*ssa.Call)
				if !ok {
					return false
				}
				ref := eng.CalleeRef(&mc.Call)
				return (ref == "server.partition.inISR" || ref == "server.partition.InISR") && sameRead(mc.Call.Args[len(mc.Call.Args)-1], wv)
			}, true)
			g, w := eng.GuardedBy(fn, call, inISR)
			c.Check(g && len(inISR) > 0, "partition witness is an in-sync replica", c.Pos(call), "report(req.Replica) only after the replica was found in the ISR", "a leader report is counted from any replica id without checking that it is in the in-sync set: ids outside the ISR (or invented ones) count toward the failover quorum (path "+w.String()+")")
			notLeader := eng.CmpEdges(fn, func(v ssa.Value) bool { return sameRead(v, wv) }, eng.Call(0, "server.partition.GetLeader"), eng.NE)
			notLeader = append(notLeader, eng.CmpEdges(fn, func(v ssa.Value) bool { return sameRead(v, wv) }, eng.LoadNamed("Leader", eng.Param("req")), eng.NE)...)
			g2, w2 := eng.GuardedBy(fn, call, notLeader)
			c.Check(g2 && len(notLeader) > 0, "partition witness is not the leader itself", c.Pos(call), "report(req.Replica) only when req.Replica != leader", "the reported leader can be its own witness (path "+w2.String()+")")
		}
	}
	c.Floor(3)

	// ---- R07.4 candidate
	c.Rule("R07.4", "K5")
	ruleCandidate(c)
	c.Floor(4)

	// ---- R07.9 persisted ISR follows the in-memory ISR
	c.Rule("R07.9", "K2")
	ruleISRPersisted(c)
	c.Floor(2)
	c.Rule("R07.10", "K4")
	ruleMembershipGettersHandOutCopies(c)
	c.Rule("R02.7", "K2")
	ruleISROpsAlwaysApply(c)

	// ---- R07.5 epochs only grow
	c.Rule("R07.5", "K1m")
	le := p.DepFieldOrModule("server/protocol", "Partition", "LeaderEpoch")
	ep := p.DepFieldOrModule("server/protocol", "Partition", "Epoch")
	for _, a := range eng.StoresToField(p, le, true) {
		key := ir.FuncKey(a.Fn)
		if strings.HasPrefix(key, "server/protocol.") {
			continue // generated (un)marshalling code fills fresh messages
		}
		st := a.Use.(*ssa.Store)
		if key == "server.(*Server).apply" && eng.Param("index")(st.Val) {
			c.OK("store to Partition.LeaderEpoch in "+key, c.Pos(st), "CREATE_STREAM stamps the partitions of the decoded (not yet live) stream with the Raft index")
			continue
		}
		guard := eng.CmpEdges(a.Fn, eng.Same(st.Val), eng.Load(le, nil), eng.GE)
		g, w := eng.GuardedBy(a.Fn, st, guard)
		c.Check(g && len(guard) > 0, "store to Partition.LeaderEpoch in "+key, c.Pos(st), "guarded by ¬(epoch < p.LeaderEpoch)", "the leader epoch can be stored without a not-smaller guard (path "+w.String()+"): it can move backwards")
	}
	for _, a := range eng.StoresToField(p, ep, true) {
		key := ir.FuncKey(a.Fn)
		if strings.HasPrefix(key, "server/protocol.") {
			continue
		}
		ok := key == "server.(*partition).SetEpoch"
		if st, isSt := a.Use.(*ssa.Store); isSt && key == "server.(*Server).apply" && eng.Param("index")(st.Val) {
			c.OK("store to Partition.Epoch in "+key, c.Pos(st), "CREATE_STREAM stamps the partitions of the decoded (not yet live) stream with the Raft index")
			continue
		}
		c.Check(ok, "store to Partition.Epoch in "+key, c.Pos(a.Use), "only SetEpoch stores the partition epoch", "the partition epoch is stored outside SetEpoch")
	}
	for _, s := range eng.Index(p).Sites("server.partition.SetEpoch") {
		fn := s.Fn
		call := s.Instr.(*ssa.Call)
		guard := eng.CmpEdges(fn, eng.Call(-1, "server.partition.GetEpoch"), eng.Same(call.Call.Args[1]), eng.LT)
		g, w := eng.GuardedBy(fn, call, guard)
		c.Check(g && len(guard) > 0, "SetEpoch in "+s.Outer(), c.Pos(call), "reached only when GetEpoch() < epoch", "SetEpoch is reached without the idempotency guard GetEpoch() >= epoch ⇒ return (path "+w.String()+")")
	}
	ruleEpochStamping(c)
	c.Floor(12)

	// ---- R07.6 ISR ⊆ replicas
	c.Rule("R07.6", "K1")
	for _, k := range []string{"server.(*partition).AddToISR", "server.(*partition).RemoveFromISR"} {
		fn := c.Fn(k)
		if fn == nil {
			continue
		}
		isrF := p.Field("server", "partition", "isr")
		isRep := eng.BoolEdges(fn, eng.Call(-1, "server.partition.inReplicas"), true)
		n := 0
		for _, a := range eng.FieldAccesses(p, isrF) {
			if a.Fn != fn || !a.Write {
				continue
			}
			n++
			g, w := eng.GuardedBy(fn, a.Use, isRep)
			c.Check(g && len(isRep) > 0, "ISR update in "+fn.Name(), c.Pos(a.Use), "only when the id is one of the partition's replicas", "the in-sync set is changed for an id that is not a replica (path "+w.String()+")")
		}
		if n == 0 {
			c.Unresolved("update of p.isr in " + k)
		}
		// the protobuf Isr list is rebuilt from the map in the same critical section
		rebuilt := false
		eng.Instrs(fn, func(in ssa.Instruction) {
			if st, ok := in.(*ssa.Store); ok {
				if fa, ok := st.Addr.(*ssa.FieldAddr); ok && eng.FieldNameOf(fa) == "Isr" {
					rebuilt = true
				}
			}
		})
		c.Check(rebuilt, "persisted ISR rebuilt in "+fn.Name(), p.Pos(fn.Pos()), "Partition.Isr is rebuilt from the isr map", "the persisted Isr list is not updated together with the isr map: snapshots restore a different in-sync set")
	}
	c.Floor(4)

	// ---- R07.8 acquire/release pairing
	c.Rule("R07.8", "K2")
	ruleLockPairing(c, "server/failover.go")
	c.Floor(2)

	// ---- R07.7 failover hygiene
	c.Rule("R07.7", "K3")
	ruleFailoverStatusBelongsToItsPartition(c)
	c.WhoMayCall("resetFailovers", []string{"server.metadataAPI.resetFailovers"}, []string{"server.(*metadataAPI).reset", "server.(*metadataAPI).LostLeadership"}, []string{"server.(*metadataAPI).reset", "server.(*metadataAPI).LostLeadership"})
	c.WhoMayCall("reset", []string{"server.metadataAPI.reset"}, []string{"server.(*metadataAPI).Reset", "server.(*metadataAPI).ResetForRestore"}, []string{"server.(*metadataAPI).Reset", "server.(*metadataAPI).ResetForRestore"})
	c.WhoMayCall("LostLeadership", []string{"server.metadataAPI.LostLeadership"}, []string{"server.(*Server).leadershipLost"}, []string{"server.(*Server).leadershipLost"})
	if fn := c.Fn("server.(*metadataAPI).resetFailovers"); fn != nil {
		ok := len(eng.CallsIn(fn, "server.failoverStatus.cancel")) >= 2
		c.Check(ok, "reset cancels partition and group failovers", p.Pos(fn.Pos()), "cancel() for every partition and group failover", "resetFailovers no longer cancels both kinds of in-flight failover")
		for _, f := range []string{"partitionFailovers", "groupFailovers"} {
			fo := p.Field("server", "metadataAPI", f)
			cleared := false
			for _, st := range eng.FieldStores(fn, func(fa *ssa.FieldAddr) bool { return fieldIs(fa, fo) }) {
				if _, isMake := st.Val.(*ssa.MakeMap); isMake {
					cleared = true
				}
			}
			if !cleared {
				// or every entry deleted: the delete sits in a loop over the table and no path through the loop body skips it
				eng.Instrs(fn, func(in ssa.Instruction) {
					call, ok := in.(*ssa.Call)
					if !ok {
						return
					}
					b, ok := call.Call.Value.(*ssa.Builtin)
					if !ok || b.Name() != "delete" || !eng.Load(fo, nil)(call.Call.Args[0]) {
						return
					}
					hdr := in.Block()
					for hdr != nil && !isLoopHeader(hdr) {
						hdr = hdr.Idom()
					}
					if hdr == nil {
						return
					}
					// from the loop body's entry back to the header without deleting?
					var body []eng.Edge
					for si, sb := range hdr.Succs {
						if sb.Dominates(in.Block()) || sb == in.Block() {
							body = append(body, eng.Edge{From: hdr, Succ: si})
						}
					}
					q := &eng.PathQuery{Fn: fn, FromEdges: body, Target: func(x ssa.Instruction) bool { return x == hdr.Instrs[0] }, CutInstr: func(x ssa.Instruction) bool { return x == in }}
					if len(body) > 0 && q.Find() == nil {
						cleared = true
					}
				})
			}
			c.Check(cleared, "reset forgets the witnesses of "+f, p.Pos(fn.Pos()), "the table is re-initialised", "resetFailovers cancels the timers but keeps the "+f+" entries: witnesses reported before a leadership change still count towards a later failover quorum")
		}
	}
	// a quorum is consumed by the failover it triggers: the same witnesses must not count towards the next one
	if fn := c.Fn("server.(*failoverStatus).report"); fn != nil {
		wf := p.Field("server", "failoverStatus", "witnesses")
		var trig []ssa.Instruction
		eng.Instrs(fn, func(in ssa.Instruction) {
			if eng.IsCallTo("server.failover.Failover")(in) {
				trig = append(trig, in)
			}
		})
		forgets := func(in ssa.Instruction) bool {
			switch x := in.(type) {
			case *ssa.Store:
				if fa, ok := x.Addr.(*ssa.FieldAddr); ok && fieldIs(fa, wf) {
					_, isMake := x.Val.(*ssa.MakeMap)
					return isMake
				}
			case *ssa.Call:
				if b, ok := x.Call.Value.(*ssa.Builtin); ok && b.Name() == "clear" && eng.Load(wf, nil)(x.Call.Args[0]) {
					return true
				}
			}
			return false
		}
		ok := len(trig) == 1
		var w *eng.Witness
		if ok {
			var g bool
			g, w = eng.PrecededBy(fn, trig[0], forgets)
			ok = g
			if !ok {
				// alternatively the entry itself is dropped by whoever handles the failover: not the case for a status object that
				// stays in metadataAPI.partitionFailovers / groupFailovers, which is what ReportLeader and
				// ReportGroupCoordinator look up again
				dropped := true
				for _, h := range []string{"server.(*metadataAPI).newPartitionFailoverHandler$1", "server.(*metadataAPI).newGroupFailoverHandler$1"} {
					hf := c.FnQuiet(h)
					if hf == nil {
						dropped = false
						continue
					}
					del := false
					eng.Instrs(hf, func(in ssa.Instruction) {
						if call, isC := in.(*ssa.Call); isC {
							if b, isB := call.Call.Value.(*ssa.Builtin); isB && b.Name() == "delete" {
								del = true
							}
						}
					})
					if !del {
						dropped = false
					}
				}
				ok = dropped
			}
		}
		pos := p.Pos(fn.Pos())
		if len(trig) == 1 {
			pos = c.Pos(trig[0])
		}
		c.Check(ok, "a triggered failover consumes its witnesses", pos, "f.witnesses is re-initialised before Failover is invoked", "report() triggers the failover but keeps the witness set (path "+w.String()+"), and the status object stays registered with its timer stopped: after the leader changed, a single report against the new leader finds the old witnesses and deposes it without a quorum inside the timeout window")
	}
	if fn := c.Fn("server.(*metadataAPI).removeStream"); fn != nil {
		ok := len(eng.CallsIn(fn, "server.failoverStatus.cancel")) > 0
		c.Check(ok, "stream removal cancels partition failovers", p.Pos(fn.Pos()), "failover.cancel() + delete for every partition of the removed stream", "removeStream no longer cancels in-flight failovers of the stream's partitions")
	}
	for _, f := range []string{"partitionFailovers", "groupFailovers"} {
		lock := map[string]string{"partitionFailovers": "mu", "groupFailovers": "consumerGroupsMu"}[f]
		c.CheckFieldLocks(eng.LockRule{Field: p.Field("server", "metadataAPI", f), Lock: lock,
			Exempt: map[string]string{"server.newMetadataAPI": "constructor"}}, "metadataAPI."+f)
	}
	c.Floor(12)
	// ---- R07.10 guards evaluated with the proposal
	c.Rule("R07.10", "K1")
	ruleISRChangeGuards(c)
	c.Floor(7)
	c.Rule("R07.3", "K1")
	ruleWitnessesAreCurrent(c)
	ruleWitnessReportsExpire(c)
	c.Floor(2)

}

// sameRead: two values read the same field of the same base (no CSE in go/ssa), or are the same value.
func sameRead(a, b ssa.Value) bool {
	if eng.Strip(a) == eng.Strip(b) {
		return true
	}
	fa, ba := eng.FieldRead(a)
	fb, bb := eng.FieldRead(b)
	return fa != nil && fa == fb && eng.Strip(ba) == eng.Strip(bb)
}

func phiOnly(v ssa.Value, want ssa.Value) bool {
	ph, ok := v.(*ssa.Phi)
	if !ok {
		return false
	}
	for _, e := range ph.Edges {
		if eng.Strip(e) != want {
			return false
		}
	}
	return true
}

// ruleCandidate is R07.4 (shared with C02): the elected leader is an element of the ISR other than the current leader.
func ruleCandidate(c *eng.Ctx) {
	p := c.P
	if fn := c.Fn("server.(*metadataAPI).electNewPartitionLeader"); fn != nil {
		sel := eng.CallsIn(fn, "server.metadataAPI.selectPartitionLeader")
		if len(sel) != 1 {
			c.Unresolved("selectPartitionLeader call in electNewPartitionLeader")
		} else {
			sc := sel[0].(*ssa.Call)
			// ChangeLeaderOp.Leader is the selection result
			okStore := false
			eng.Instrs(fn, func(in ssa.Instruction) {
				if st, ok := in.(*ssa.Store); ok {
					if fa, ok := st.Addr.(*ssa.FieldAddr); ok && eng.FieldNameOf(fa) == "Leader" && strings.HasSuffix(fa.X.Type().String(), "ChangeLeaderOp") {
						okStore = eng.Strip(st.Val) == sc || phiOnly(st.Val, sc)
					}
				}
			})
			c.Check(okStore, "proposed leader = selected candidate", c.Pos(sc), "ChangeLeaderOp.Leader is the result of selectPartitionLeader(candidates)", "the leader proposed through Raft is not the result of selectPartitionLeader")
			// candidates: elements appended come from ranging GetISR(), on the candidate != leader edge
			cands := sc.Call.Args[1]
			isr := eng.CallsIn(fn, "server.partition.GetISR")
			okSrc := len(isr) == 1
			nApp := 0
			eng.Instrs(fn, func(in ssa.Instruction) {
				call, ok := in.(*ssa.Call)
				if !ok {
					return
				}
				b, ok := call.Call.Value.(*ssa.Builtin)
				if !ok || b.Name() != "append" {
					return
				}
				el := variadicElems(call.Call.Args[1])
				if len(el) != 1 {
					return
				}
				nApp++
				ia := indexOfLoad(el[0])
				if ia == nil || len(isr) != 1 || ia.X != isr[0].(ssa.Value) {
					okSrc = false
					return
				}
				// the value compared is this element: the same load, or another load of the same slot (go/ssa does not share
				// the two reads of isr[i] in `if isr[i] != leader { append(…, isr[i]) }`)
				sameElem := func(v ssa.Value) bool {
					if eng.Same(el[0])(v) {
						return true
					}
					ib := indexOfLoad(eng.Strip(v))
					return ib != nil && ib.X == ia.X && ib.Index == ia.Index
				}
				ne := eng.CmpEdges(fn, sameElem, eng.Call(0, "server.partition.GetLeader"), eng.NE)
				g, _ := eng.GuardedBy(fn, call, ne)
				if !g || len(ne) == 0 {
					okSrc = false
				}
			})
			_ = cands
			c.Check(okSrc && nApp == 1, "candidates = ISR minus the current leader", c.Pos(sc), "only elements of partition.GetISR() that differ from the current leader are appended", "the candidate list is not built from the in-sync set with the current leader excluded")
			// empty candidate set refused
			nonEmpty := eng.CmpEdges(fn, eng.Len(nil), eng.IntConst(0), eng.NE)
			nonEmpty = append(nonEmpty, eng.CmpEdges(fn, eng.Len(nil), eng.IntConst(0), eng.GT)...)
			g, w := eng.GuardedBy(fn, sc, nonEmpty)
			c.Check(g, "no election without candidates", c.Pos(sc), "selectPartitionLeader is reached only with len(candidates) != 0", "selectPartitionLeader can be called with an empty candidate list (path "+w.String()+")")
		}
	}
	if fn := c.Fn("server.(*metadataAPI).selectPartitionLeader"); fn != nil {
		ok := false
		for _, r := range eng.Returns(fn) {
			ia := indexOfLoad(eng.RetVals(r)[0])
			ok = ia != nil && eng.Param("replicas")(ia.X)
		}
		c.Check(ok, "selection returns an element of its argument", p.Pos(fn.Pos()), "returns replicas[i]", "selectPartitionLeader does not return an element of the candidate list")
	}
}

// ruleEpochStamping (R07.5 / R06.5): every mutating path stamps the partition epoch; CREATE_STREAM stamps both epochs.
func ruleEpochStamping(c *eng.Ctx) {
	// every mutating path stamps the partition epoch, and CREATE_STREAM stamps both epochs with the Raft index
	for _, m := range []struct{ fn, mut string }{
		{"server.(*metadataAPI).RemoveFromISR", "server.partition.RemoveFromISR"},
		{"server.(*metadataAPI).AddToISR", "server.partition.AddToISR"},
		{"server.(*metadataAPI).ChangeLeader", "server.partition.SetLeader"},
	} {
		fn := c.Fn(m.fn)
		if fn == nil {
			continue
		}
		muts := eng.CallsIn(fn, m.mut)
		if len(muts) != 1 {
			c.Unresolved(m.mut + " call in " + m.fn)
			continue
		}
		mv := muts[0].(ssa.Value)
		okEdge := eng.CmpEdges(fn, eng.Same(mv), eng.NilConst, eng.EQ)
		q := &eng.PathQuery{Fn: fn, FromEdges: okEdge, Target: isReturn, CutInstr: eng.IsCallTo("server.partition.SetEpoch")}
		w := q.Find()
		c.Check(w == nil && len(okEdge) > 0, fn.Name()+" stamps the epoch after mutating", c.Pos(muts[0].(ssa.Instruction)), "every path from a successful mutation to the return passes SetEpoch(epoch)", "the partition is mutated without its epoch being advanced (path "+w.String()+"): the idempotency guard does not recognise a replay of this operation, and the change is applied twice")
		for _, se := range eng.CallsIn(fn, "server.partition.SetEpoch") {
			c.Check(eng.Param("epoch")(se.Common().Args[1]), fn.Name()+" stamps the operation's epoch", c.Pos(se.(ssa.Instruction)), "SetEpoch(epoch)", "SetEpoch is not given the operation's epoch")
		}
	}
	ruleCreateStampsEpochs(c)
}
