package rules

import (
	"go/types"
	"reflect"
	"sort"
	"strings"

	"golang.org/x/tools/go/ssa"

	"lbcheck/eng"
	"lbcheck/ir"
)

func init() {
	register(&Property{ID: "C19", Level: "other", Run: runC19,
		Technique:   "static analysis: egress ownership (who may call net/http), gating guard dominance, JSON key-set whitelist over the payload type, provenance of payload values, import-graph layering, config/environment key rules (go/packages + go/ssa)",
		LevelText:   "Structural clauses decided: in non-test, non-bench module code only telemetry.sendTelemetry makes HTTP requests and only to the constant endpoint; it is reached only through Start's go statement behind the Enabled test, and the collector is created/started only behind Config.Telemetry.Enabled; the payload's transitive JSON key set equals the documented one and every value derives from runtime.*, the instance id, the version or the clock; the telemetry package cannot import server state; each route to 'disabled' (file, programmatic, environment) is wired. What dependencies do on the network is not decided.",
		LevelNote:   "Trusted: go/types, go/ssa, encoding/json's struct-tag semantics, viper's environment binding rules (prefix + key replacer).",
		DesignRef:   "DESIGN.md §4 C19",
		Explanation: "R19.3 also (round 9): the collector's instance id is the id file's. R19.5 also (round 8): the switch is left at its default only when the key telemetry.enabled itself is absent. R19.5 also: the telemetry section is read key by key. R19.5 also: environment variables are bound per known key (no AutomaticEnv), so a variable named after a section cannot hide telemetry.enabled from the file (F74). R19.1 egress ownership, R19.2 gating, R19.3 payload whitelist and provenance (instance id random or read back from the id file; no host / user / environment identity source in the package), R19.4 layering, R19.5 routes to disabled (file key agreement = R15.6, programmatic, environment). R19.5 also requires that the switch is written only where defaults are built and the configuration is read; R15.8 (shared) telemetry.* keys reach their Config fields. NOT decided: network behaviour of dependencies (NATS, Raft, gRPC are the product).",
	})
}

var documentedPayloadKeys = []string{
	"cpu.frequency_mhz", "cpu.logical_cores", "cpu.physical_cores", "instance_id", "liftbridge_version", "memory.total_gb",
	"os.architecture", "os.name", "os.platform", "os.version", "timestamp",
}

func runC19(c *eng.Ctx) {
	c.Rule("R19.5", "K5")
	ruleServerKeepsTheCallersConfig(c)
	c.Rule("R19.3", "K5")
	ruleInstanceIDComesFromTheIDFile(c)
	p := c.P
	ix := eng.Index(p)

	// ---- R19.1 egress ownership
	c.Rule("R19.1", "K3")
	n := 0
	for ref, sites := range ix.By {
		if !strings.HasPrefix(ref, "net/http.") {
			continue
		}
		isEgress := strings.HasPrefix(ref, "net/http.Client.") || ref == "net/http.Get" || ref == "net/http.Post" || ref == "net/http.PostForm" || ref == "net/http.Head" ||
			strings.HasPrefix(ref, "net/http.NewRequest") || ref == "net/http.DefaultClient"
		if !isEgress {
			continue
		}
		for _, s := range sites {
			outer := s.Outer()
			if strings.HasPrefix(outer, "bench/") {
				continue
			}
			n++
			c.Check(outer == "server/telemetry.(*Collector).sendTelemetry", ref+" in "+outer, c.Pos(s.Instr), "the only HTTP client code of the module is telemetry.sendTelemetry", "an HTTP request is made outside telemetry.sendTelemetry ("+outer+"): with telemetry disabled the server still calls out")
		}
	}
	if fn := c.Fn("server/telemetry.(*Collector).sendTelemetry"); fn != nil {
		for _, nr := range eng.CallsIn(fn, "net/http.NewRequestWithContext", "net/http.NewRequest") {
			args := nr.Common().Args
			url := args[len(args)-2]
			k, ok := eng.Strip(url).(*ssa.Const)
			okURL := ok && strings.HasPrefix(strings.Trim(k.Value.ExactString(), "\""), "https://")
			c.Check(okURL, "telemetry endpoint is a constant https URL", c.Pos(nr.(ssa.Instruction)), "constant DefaultEndpoint", "the telemetry URL is "+eng.Describe(url)+", not a constant https endpoint: it could be steered by configuration or data")
		}
		// request headers are constants / version only
		for _, hs := range eng.CallsIn(fn, "net/http.Header.Set") {
			key, _ := constString(hs.Common().Args[1])
			okH := key == "Content-Type" || key == "User-Agent"
			c.Check(okH, "request header "+key, c.Pos(hs.(ssa.Instruction)), "one of the two documented headers", "telemetry request sets header "+key)
		}
	}
	if n < 2 {
		c.Unresolved("HTTP client call sites in the module")
	}
	c.Floor(5)

	// ---- R19.2 gating
	c.Rule("R19.2", "K1")
	c.WhoMayCall("sendTelemetry", []string{"server/telemetry.Collector.sendTelemetry"}, []string{"server/telemetry.(*Collector).run"}, []string{"server/telemetry.(*Collector).run"})
	c.WhoMayCall("run", []string{"server/telemetry.Collector.run"}, []string{"server/telemetry.(*Collector).Start"}, []string{"server/telemetry.(*Collector).Start"})
	if fn := c.Fn("server/telemetry.(*Collector).Start"); fn != nil {
		on := eng.BoolEdges(fn, eng.LoadNamed("Enabled", nil), true)
		eng.Instrs(fn, func(in ssa.Instruction) {
			if g, ok := in.(*ssa.Go); ok {
				gd, w := eng.GuardedBy(fn, g, on)
				c.Check(gd && len(on) > 0, "collector loop starts only when enabled", c.Pos(g), "go c.run() behind c.config.Enabled", "the telemetry loop can be started although telemetry is disabled (path "+w.String()+")")
			}
		})
	}
	c.WhoMayCall("telemetry.New", []string{"server/telemetry.New"}, []string{"server.(*Server).Start"}, []string{"server.(*Server).Start"})
	c.WhoMayCall("Collector.Start", []string{"server/telemetry.Collector.Start"}, []string{"server.(*Server).Start"}, []string{"server.(*Server).Start"})
	if fn := c.Fn("server.(*Server).Start"); fn != nil {
		on := eng.BoolEdges(fn, eng.LoadNamed("Enabled", eng.LoadNamed("Telemetry", nil)), true)
		on = append(on, eng.BoolEdges(fn, func(v ssa.Value) bool {
			f, b := eng.FieldRead(v)
			if f == nil || f.Name() != "Enabled" {
				return false
			}
			fa, ok := b.(*ssa.FieldAddr)
			return ok && eng.FieldNameOf(fa) == "Telemetry"
		}, true)...)
		for _, nw := range eng.CallsIn(fn, "server/telemetry.New") {
			g, w := eng.GuardedBy(fn, nw.(ssa.Instruction), on)
			c.Check(g && len(on) > 0, "collector created only when enabled", c.Pos(nw.(ssa.Instruction)), "telemetry.New behind s.config.Telemetry.Enabled", "the collector can be created although Config.Telemetry.Enabled is false (path "+w.String()+")")
			// the Config literal handed over
			if al, ok := nw.Common().Args[0].(*ssa.Alloc); ok {
				for _, r := range *al.Referrers() {
					if fa, ok := r.(*ssa.FieldAddr); ok && eng.FieldNameOf(fa) == "DataDir" {
						for _, rr := range *fa.Referrers() {
							if st, ok := rr.(*ssa.Store); ok {
								c.Check(eng.LoadNamed("DataDir", nil)(st.Val), "collector gets only the data directory", c.Pos(st), "DataDir: s.config.DataDir", "the telemetry config is given "+eng.Describe(st.Val))
							}
						}
					}
				}
			}
		}
		notNil := eng.CmpEdges(fn, eng.LoadNamed("telemetry", nil), eng.NilConst, eng.NE)
		for _, st := range eng.CallsIn(fn, "server/telemetry.Collector.Start") {
			g, w := eng.GuardedBy(fn, st.(ssa.Instruction), notNil)
			c.Check(g && len(notNil) > 0, "collector started only when it exists", c.Pos(st.(ssa.Instruction)), "s.telemetry.Start() behind s.telemetry != nil", "Start() is called on a collector that may not have been created (path "+w.String()+")")
		}
		// s.telemetry is assigned only from telemetry.New
		tf := p.Field("server", "Server", "telemetry")
		for _, a := range eng.StoresToField(p, tf, false) {
			st := a.Use.(*ssa.Store)
			ok := eng.Call(0, "server/telemetry.New")(st.Val)
			c.Check(ok, "Server.telemetry assigned in "+ir.FuncKey(a.Fn), c.Pos(st), "result of telemetry.New", "Server.telemetry is assigned something other than telemetry.New's result")
		}
	}
	c.Floor(8)

	// ---- R19.3 payload whitelist and provenance
	c.Rule("R19.3", "K6")
	pt := p.NamedType("server/telemetry", "TelemetryPayload")
	if pt == nil {
		c.Unresolved("type server/telemetry.TelemetryPayload")
	} else {
		keys := jsonKeys(pt, "", 0)
		sort.Strings(keys)
		want := map[string]bool{}
		for _, k := range documentedPayloadKeys {
			want[k] = true
		}
		got := map[string]bool{}
		for _, k := range keys {
			got[k] = true
			c.Check(want[k], "payload key "+k, "-", "documented field", "the telemetry payload carries an undocumented field \""+k+"\"")
		}
		for _, k := range documentedPayloadKeys {
			if !got[k] {
				c.Violate("payload key "+k, "-", "documented field \""+k+"\" is missing from the payload type")
			}
		}
		// the marshalled value is the payload from collectPayload
		if fn := c.Fn("server/telemetry.(*Collector).sendTelemetry"); fn != nil {
			js := eng.CallsIn(fn, "encoding/json.Marshal")
			ok := len(js) == 1
			if ok {
				a := js[0].Common().Args[0]
				if mi, isMI := a.(*ssa.MakeInterface); isMI {
					ok = eng.Call(-1, "server/telemetry.Collector.collectPayload")(mi.X)
				} else {
					ok = false
				}
			}
			c.Check(ok, "request body is the collected payload", p.Pos(fn.Pos()), "json.Marshal(c.collectPayload())", "the request body is not (only) the TelemetryPayload built by collectPayload")
		}
		// provenance of every stored value in collectPayload
		if fn := c.Fn("server/telemetry.(*Collector).collectPayload"); fn != nil {
			sl := &eng.Slicer{P: p, MaxDepth: 0}
			eng.Instrs(fn, func(in ssa.Instruction) {
				st, ok := in.(*ssa.Store)
				if !ok {
					return
				}
				fa, ok := st.Addr.(*ssa.FieldAddr)
				if !ok {
					return
				}
				o := ownerName(fa)
				if o != "TelemetryPayload" && o != "OSInfo" && o != "CPUInfo" && o != "MemInfo" {
					return
				}
				bad := ""
				for _, lf := range sl.Leaves(st.Val) {
					switch lf.Kind {
					case "const":
					case "call":
						okc := strings.HasPrefix(lf.Ref, "runtime.") || strings.HasPrefix(lf.Ref, "time.") || lf.Ref == "fmt.Sprintf" || strings.HasPrefix(lf.Ref, "builtin.")
						if !okc {
							bad = "call " + lf.Ref
						}
					case "field":
						if lf.Ref != "Collector.instanceID" && lf.Ref != "Collector.version" && !strings.HasPrefix(lf.Ref, "MemStats.") {
							bad = "field " + lf.Ref
						}
					case "other":
						// addresses of locals (&numCPU): look at what the local holds
						if al, ok := lf.V.(*ssa.Alloc); ok {
							for _, r := range *al.Referrers() {
								if s2, ok := r.(*ssa.Store); ok && s2.Addr == al {
									for _, l2 := range sl.Leaves(s2.Val) {
										if l2.Kind == "call" && !strings.HasPrefix(l2.Ref, "runtime.") && !strings.HasPrefix(l2.Ref, "builtin.") {
											bad = "call " + l2.Ref
										}
										if l2.Kind == "field" && !strings.HasPrefix(l2.Ref, "MemStats.") {
											bad = "field " + l2.Ref
										}
									}
								}
							}
						}
					default:
						bad = lf.Kind + " " + lf.Ref
					}
				}
				c.Check(bad == "", "value of "+o+"."+eng.FieldNameOf(fa), c.Pos(st), "derives from runtime.*, the instance id, the version, the clock or constants", "payload field "+o+"."+eng.FieldNameOf(fa)+" is filled from "+bad+": user or deployment data could leave the server")
			})
		}
	}
	// the instance id that every report carries is random or read back from the id file — nothing that names the host, the
	// user or the deployment can take its place
	if fn := c.Fn("server/telemetry.loadOrCreateInstanceID"); fn != nil {
		n, ok, bad := 0, true, ""
		for _, r := range eng.Returns(fn) {
			rv := eng.RetVals(r)
			if len(rv) != 2 || !eng.NilConst(rv[1]) {
				continue
			}
			n++
			v := eng.Strip(rv[0])
			isUUID := eng.Call(0, "server/telemetry.generateUUID")(v)
			isFile := false
			if cv, isC := rv[0].(*ssa.Convert); isC {
				if tc := eng.AsCall(cv.X); tc != nil && eng.RefIn(eng.CalleeRef(&tc.Call), "bytes.TrimSpace", "strings.TrimSpace") && eng.Call(0, "os.ReadFile")(tc.Call.Args[0]) {
					isFile = true
				}
			}
			if tc := eng.AsCall(rv[0]); tc != nil && eng.RefIn(eng.CalleeRef(&tc.Call), "strings.TrimSpace") {
				isFile = true
			}
			if !isUUID && !isFile {
				ok, bad = false, eng.Describe(rv[0])
			}
		}
		c.Check(ok && n >= 2, "instance id is random or read back from the id file", p.Pos(fn.Pos()), "every successful return yields generateUUID() or the trimmed contents of the id file", "loadOrCreateInstanceID can return "+bad+" as the instance id: every telemetry report then carries it")
	}
	forbidden := []string{"os.Hostname", "os.Getenv", "os.LookupEnv", "os.Environ", "os.Getwd", "os.UserHomeDir", "os.Executable", "os/user.Current", "os/user.Lookup", "os/user.LookupId", "net.Interfaces", "net.InterfaceAddrs", "net.LookupAddr", "net.LookupHost"}
	badCall := ""
	for _, fn := range p.Funcs {
		if fn.Pkg == nil || ir.Short(fn.Pkg.Pkg.Path()) != "server/telemetry" {
			continue
		}
		eng.Instrs(fn, func(in ssa.Instruction) {
			if ci, isC := in.(ssa.CallInstruction); isC && eng.RefIn(eng.CalleeRef(ci.Common()), forbidden...) {
				badCall = eng.CalleeRef(ci.Common()) + " in " + ir.FuncKey(fn) + " at " + c.Pos(in)
			}
		})
	}
	c.Check(badCall == "", "telemetry reads no host, user or environment identity", "-", "no call to os.Hostname / os.Getenv / os/user / net.Interfaces … in package server/telemetry", "package server/telemetry calls "+badCall+": host or deployment identity can reach the report")
	c.Floor(22)

	// ---- R19.4 layering
	c.Rule("R19.4", "K10")
	if pk := p.ByPath["server/telemetry"]; pk != nil {
		for path := range pk.Imports {
			if ir.InModule(path) {
				c.Check(ir.Short(path) == "server/logger", "telemetry imports "+ir.Short(path), "-", "only the logger", "package server/telemetry imports "+path+": server state (streams, subjects, credentials) becomes reachable from the collector")
			}
		}
		if o := pk.Types.Scope().Lookup("New"); o != nil {
			sig := o.Type().(*types.Signature)
			var ps []string
			for i := 0; i < sig.Params().Len(); i++ {
				ps = append(ps, types.TypeString(sig.Params().At(i).Type(), func(p *types.Package) string { return p.Name() }))
			}
			want := []string{"*telemetry.Config", "string", "logger.Logger"}
			c.Check(reflect.DeepEqual(ps, want), "telemetry.New signature", "-", "(*Config, string, logger.Logger)", "telemetry.New takes ("+strings.Join(ps, ", ")+"): a handle to server state can be passed in")
		}
		// Config carries no reference types to server state
		if ct := p.NamedType("server/telemetry", "Config"); ct != nil {
			st := ct.Underlying().(*types.Struct)
			for i := 0; i < st.NumFields(); i++ {
				_, basic := st.Field(i).Type().Underlying().(*types.Basic)
				c.Check(basic, "telemetry.Config."+st.Field(i).Name()+" is a plain value", "-", "basic type", "telemetry.Config."+st.Field(i).Name()+" has type "+st.Field(i).Type().String())
			}
		}
	} else {
		c.Unresolved("package server/telemetry")
	}
	c.Floor(5)

	// ---- R19.5 routes to disabled
	c.Rule("R19.5", "K6")
	ruleTelemetrySectionIsTakenKeyByKey(c)
	ruleTelemetrySwitchSkippedOnlyWhenKeyAbsent(c)
	c.Rule("R19.2", "K2")
	ruleStopAlwaysStopsTheCollector(c)
	// (file) key agreement for telemetry.enabled
	if fn := c.Fn("server.parseTelemetryConfig"); fn != nil {
		ok := false
		eng.Instrs(fn, func(in ssa.Instruction) {
			st, isSt := in.(*ssa.Store)
			if !isSt {
				return
			}
			fa, isFA := st.Addr.(*ssa.FieldAddr)
			if !isFA || eng.FieldNameOf(fa) != "Enabled" {
				return
			}
			call := eng.AsCall(st.Val)
			if call == nil || eng.CalleeRef(&call.Call) != viperPkg+".Viper.GetBool" {
				return
			}
			k, _ := constString(call.Call.Args[1])
			ok = k == "telemetry.enabled"
		})
		c.Check(ok, "file route: telemetry.enabled is read into Config.Telemetry.Enabled", p.Pos(fn.Pos()), "Telemetry.Enabled = v.GetBool(\"telemetry.enabled\")", "the config file key telemetry.enabled is not what is read into Config.Telemetry.Enabled")
	}
	if fn := c.Fn("server.NewConfig"); fn != nil {
		ok := len(eng.CallsIn(fn, "server.parseTelemetryConfig")) == 1
		c.Check(ok, "file route: telemetry section is parsed", p.Pos(fn.Pos()), "NewConfig calls parseTelemetryConfig", "NewConfig does not parse the telemetry section")
		// (environment) the environment binding must be in effect on every return that yields a config, and keys must map to settable names
		// The binding is one BindEnv per known setting (a range over configKeys): viper's AutomaticEnv also makes a variable
		// named after a SECTION (LIFTBRIDGE_TELEMETRY) hide every key of that section in the config file — IsSet answers
		// false for telemetry.enabled, `enabled: false` is dropped and the default (enabled) stays.
		auto := eng.CallsIn(fn, viperPkg+".Viper.AutomaticEnv")
		c.Check(len(auto) == 0, "environment route: a section-named variable does not hide the file's settings", p.Pos(fn.Pos()), "no AutomaticEnv: variables are bound per known setting", "NewConfig enables viper's AutomaticEnv: a non-empty LIFTBRIDGE_TELEMETRY (any variable named after a parent of a nested key) shadows telemetry.enabled from the config file, so `telemetry.enabled: false` is dropped without a word and telemetry stays on")
		var binding ssa.Instruction
		for _, ml := range eng.MapLoops(fn) {
			if !eng.Global("server.configKeys")(ml.Range.X) {
				continue
			}
			for blk := range ml.Body {
				for _, in := range blk.Instrs {
					if call, isCall := in.(*ssa.Call); isCall && eng.CalleeRef(&call.Call) == viperPkg+".Viper.BindEnv" {
						binding = ml.Range
					}
				}
			}
		}
		if binding == nil && len(auto) > 0 {
			binding = auto[0].(ssa.Instruction)
		}
		repl := eng.CallsIn(fn, viperPkg+".Viper.SetEnvKeyReplacer")
		for _, r := range eng.Returns(fn) {
			if len(eng.RetVals(r)) == 2 && eng.NilConst(eng.RetVals(r)[1]) {
				g, w := eng.PrecededBy(fn, r, func(x ssa.Instruction) bool { return binding != nil && x == binding })
				c.Check(g && binding != nil, "environment route: binding in effect for every returned config", c.Pos(r), "every successful return passes the binding of the LIFTBRIDGE_* variables (BindEnv for every key of configKeys)", "NewConfig can return a config without having bound the environment (path "+w.String()+"): LIFTBRIDGE_* variables, including the documented switch for telemetry, are ignored when no config file is given")
			}
		}
		c.Check(len(repl) > 0, "environment route: dotted keys map to settable variable names", p.Pos(fn.Pos()), "SetEnvKeyReplacer maps '.' to '_'", "no SetEnvKeyReplacer: viper derives LIFTBRIDGE_TELEMETRY.ENABLED from the key telemetry.enabled, which is not a valid shell variable name, so the documented LIFTBRIDGE_TELEMETRY_ENABLED=false has no effect")
	}
	// (programmatic) the gate reads Config.Telemetry.Enabled and the default is the documented one
	if fn := c.Fn("server.NewDefaultConfig"); fn != nil {
		ok := false
		eng.Instrs(fn, func(in ssa.Instruction) {
			if st, isSt := in.(*ssa.Store); isSt {
				if fa, isFA := st.Addr.(*ssa.FieldAddr); isFA && eng.FieldNameOf(fa) == "Enabled" {
					ok = true
				}
			}
		})
		c.Check(ok, "programmatic route: Config.Telemetry.Enabled exists and has a default", p.Pos(fn.Pos()), "NewDefaultConfig sets Telemetry.Enabled", "NewDefaultConfig no longer sets Telemetry.Enabled")
	}
	// the switch, once set by the operator, is not overwritten: Config.Telemetry (whole) and TelemetryConfig.Enabled are
	// written only where the defaults are built and where the configuration file / environment is read
	{
		telF := p.Field("server", "Config", "Telemetry")
		enF := p.Field("server", "TelemetryConfig", "Enabled")
		if telF == nil || enF == nil {
			c.Unresolved("fields server.Config.Telemetry / server.TelemetryConfig.Enabled")
		} else {
			allowed := map[string]bool{"server.NewDefaultConfig": true}
			// the parser: the function that reads the key telemetry.enabled
			for _, fn := range p.Funcs {
				eng.Instrs(fn, func(in ssa.Instruction) {
					if call, ok := in.(*ssa.Call); ok && eng.CalleeRef(&call.Call) == viperPkg+".Viper.GetBool" {
						if k := eng.Strip(call.Call.Args[len(call.Call.Args)-1]); eng.StrConst("telemetry.enabled")(k) {
							allowed[ir.FuncKey(ir.Outermost(fn))] = true
						}
					}
				})
			}
			n := 0
			for _, f := range []*types.Var{telF, enF} {
				for _, a := range eng.FieldAccesses(p, f) {
					if !a.Write {
						continue
					}
					if _, isStore := a.Use.(*ssa.Store); !isStore {
						continue
					}
					n++
					k := ir.FuncKey(ir.Outermost(a.Fn))
					c.Check(allowed[k], "write of "+f.Name()+" in "+ir.FuncKey(a.Fn), c.Pos(a.Use), "written where defaults are built or the configuration is read", "the telemetry switch is overwritten outside configuration loading: an operator's `disabled` can be turned back on before Start tests it")
				}
			}
			c.Check(n >= 2, "telemetry switch writers found", "", "defaults and parser", "the writers of Config.Telemetry.Enabled were not found")
		}
	}
	c.Floor(7)

	// shared key agreement (R15.6)
	runConfigKeyAgreement(c, "R15.6")
	// ---- R15.8 (shared) the configuration keys this property's switches hang on reach their fields
	ruleConfigWiring(c, "R15.8")

}

// jsonKeys enumerates the transitive JSON key paths of a struct type.
func jsonKeys(t types.Type, prefix string, depth int) []string {
	if depth > 5 {
		return []string{prefix + "…"}
	}
	for {
		if p, ok := t.Underlying().(*types.Pointer); ok {
			t = p.Elem()
			continue
		}
		break
	}
	st, ok := t.Underlying().(*types.Struct)
	if !ok {
		return []string{strings.TrimSuffix(prefix, ".")}
	}
	var out []string
	for i := 0; i < st.NumFields(); i++ {
		f := st.Field(i)
		if !f.Exported() {
			continue
		}
		tag := reflect.StructTag(st.Tag(i)).Get("json")
		name := strings.Split(tag, ",")[0]
		if name == "-" {
			continue
		}
		if name == "" {
			name = f.Name()
		}
		out = append(out, jsonKeys(f.Type(), prefix+name+".", depth+1)...)
	}
	return out
}
