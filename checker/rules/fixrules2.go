package rules

import (
	"strings"

	"golang.org/x/tools/go/ssa"

	"lbcheck/eng"
	"lbcheck/ir"
)

// ruleCreateRequestIsConsistent (R14.5 extension, F69): before a CREATE_STREAM request is proposed, every partition is
// checked to name the stream it is part of and partition ids are checked to be unique. Both are things the application of
// the entry depends on (AddStream registers under Stream.Name, addPartition refuses a second partition with the same id, the
// commit log directory is built from the partition's Stream field); a request that fails them would be logged and then fail
// — or do the wrong thing — on every server.
func ruleCreateRequestIsConsistent(c *eng.Ctx) {
	p := c.P
	fn := c.Fn("server.(*metadataAPI).CreateStream")
	if fn == nil {
		return
	}
	propose := eng.IsCallTo("server.raftNode.applyOperation", "server.metadataAPI.applyOperation", "server.Server.applyOperation")
	funcs := moduleReach(c, fn, 1)
	// (a) partition.Stream is compared with Stream.Name, and from the mismatch edge nothing is proposed
	okName, okID := false, false
	for _, g := range funcs {
		isPartStream := func(v ssa.Value) bool {
			f, base := eng.FieldRead(v)
			return f != nil && f.Name() == "Stream" && base != nil && strings.Contains(base.Type().String(), "Partition")
		}
		isStreamName := func(v ssa.Value) bool {
			f, base := eng.FieldRead(v)
			return f != nil && f.Name() == "Name" && base != nil && strings.HasSuffix(strings.TrimPrefix(base.Type().String(), "*"), ".Stream")
		}
		mismatch := eng.CmpEdges(g, isPartStream, isStreamName, eng.NE)
		if len(mismatch) > 0 {
			q := &eng.PathQuery{Fn: g, FromEdges: mismatch, Target: propose}
			if q.Find() == nil {
				okName = true
			}
		}
		// (b) a partition id seen before is refused: a comma-ok lookup keyed by the partition's Id whose found-edge proposes nothing
		var seenEdges []eng.Edge
		eng.Instrs(g, func(in ssa.Instruction) {
			lk, isLk := in.(*ssa.Lookup)
			if !isLk || !lk.CommaOk {
				return
			}
			f, base := eng.FieldRead(lk.Index)
			if f == nil || f.Name() != "Id" || base == nil || !strings.Contains(base.Type().String(), "Partition") {
				return
			}
			seenEdges = append(seenEdges, eng.BoolEdges(g, func(v ssa.Value) bool {
				e, isE := v.(*ssa.Extract)
				return isE && e.Tuple == ssa.Value(lk) && e.Index == 1
			}, true)...)
		})
		if len(seenEdges) > 0 {
			q := &eng.PathQuery{Fn: g, FromEdges: seenEdges, Target: propose}
			if q.Find() == nil {
				okID = true
			}
		}
	}
	c.Check(okName, "a partition naming another stream is refused before the request is proposed", p.Pos(fn.Pos()), "partition.Stream != Stream.Name → error, nothing proposed", "CreateStream proposes a request without comparing each partition's Stream with the stream's Name: a propagated request can create partitions of stream B inside stream A's entry — the entry fails to apply (ErrStreamExists is fatal on every server) or a second commit log is opened on another stream's partition directory")
	c.Check(okID, "a repeated partition id is refused before the request is proposed", p.Pos(fn.Pos()), "ids collected in a set; a second occurrence → error, nothing proposed", "CreateStream proposes a request without checking that partition ids are unique: addPartition refuses the second one at apply time, and an apply error stops every server, on every replay")
}

// ruleAckInboxIsASubject (R14.10, F70): the subject an ack is published to is chosen by the sender of the message. The NATS
// client copies a publish subject into the protocol line as it is, so a subject with a space, tab, CR or LF changes the
// command (reply subject, size) or ends the line — what follows is read as further commands from this server. Every publish
// on the acks connection is therefore behind a test that the subject contains none of them.
func ruleAckInboxIsASubject(c *eng.Ctx) {
	p := c.P
	n := 0
	for _, fn := range p.Funcs {
		if !p.IsModuleFunc(fn) {
			continue
		}
		eng.Instrs(fn, func(in ssa.Instruction) {
			call, ok := in.(*ssa.Call)
			if !ok || eng.CalleeRef(&call.Call) != natsPkg+".Conn.Publish" {
				return
			}
			args := eng.AllArgs(&call.Call)
			if len(args) < 3 || !eng.LoadNamed("ncAcks", nil)(args[0]) {
				return
			}
			n++
			subj := args[1]
			clean := eng.BoolEdges(fn, func(v ssa.Value) bool {
				cc, isCall := v.(*ssa.Call)
				if !isCall || eng.CalleeRef(&cc.Call) != "strings.ContainsAny" || len(cc.Call.Args) != 2 {
					return false
				}
				if eng.Strip(cc.Call.Args[0]) != eng.Strip(subj) {
					return false
				}
				k, isK := eng.Strip(cc.Call.Args[1]).(*ssa.Const)
				if !isK || k.Value == nil {
					return false
				}
				set := k.Value.ExactString()
				return strings.Contains(set, `\r`) && strings.Contains(set, `\n`) && strings.Contains(set, " ") && strings.Contains(set, `\t`)
			}, false)
			g, w := eng.GuardedBy(fn, call, clean)
			c.Check(g && len(clean) > 0, "ack published to a well-formed subject in "+ir.FuncKey(ir.Outermost(fn)), c.Pos(call), "ncAcks.Publish(inbox, …) only behind !strings.ContainsAny(inbox, \" \\t\\r\\n\")", "an ack is published to a subject taken from the message without checking it for whitespace (path "+w.String()+"): an AckInbox containing CR LF makes this server send NATS protocol commands of the publisher's choosing (a publish to any subject under the server's identity) or makes NATS drop the acks connection")
		})
	}
	if n == 0 {
		c.Unresolved("publishes on the acks connection (ncAcks.Publish)")
	}
}

// ruleDeliveredStringsAreUTF8 (R14.11, F71, shared with C10): the NATS subject and reply subject a message arrived with are
// stored as bytes; NATS does not require them to be UTF-8. The subscribe loop hands them out in proto3 string fields, which
// gRPC refuses to marshal when they are not valid UTF-8 — the subscription, and every later one that has to pass the
// offset, ends there. The conversion therefore goes through strings.ToValidUTF8 (or an explicit validity test).
func ruleDeliveredStringsAreUTF8(c *eng.Ctx) {
	root := c.Fn("server.(*partition).newSubscribeLoop")
	if root == nil {
		return
	}
	n := 0
	for _, fn := range append([]*ssa.Function{root}, root.AnonFuncs...) {
		for _, name := range []string{"Subject", "ReplySubject"} {
			for _, st := range eng.FieldStores(fn, func(fa *ssa.FieldAddr) bool {
				return eng.FieldNameOf(fa) == name && strings.Contains(fa.X.Type().String(), "liftbridge-api") && strings.HasSuffix(fa.X.Type().String(), ".Message")
			}) {
				n++
				v := eng.Strip(st.Val)
				ok := false
				if call := eng.AsCall(v); call != nil && eng.CalleeRef(&call.Call) == "strings.ToValidUTF8" {
					ok = true
				}
				if !ok {
					valid := eng.BoolEdges(fn, eng.Call(-1, "unicode/utf8.ValidString", "unicode/utf8.Valid"), true)
					if g, _ := eng.GuardedBy(fn, st, valid); g && len(valid) > 0 {
						ok = true
					}
				}
				if _, isConv := v.(*ssa.Convert); !isConv && !ok {
					// not a conversion of stored bytes (a string the server itself holds): nothing to sanitise
					if _, isLookup := v.(*ssa.Lookup); !isLookup {
						ok = true
					}
				}
				c.Check(ok, "delivered "+name+" is a valid string", c.Pos(st), "strings.ToValidUTF8(string(stored bytes), …)", "the stored "+strings.ToLower(name)+" bytes are converted straight into the string field "+name+" of the delivered message: a message published with a subject / reply subject that is not valid UTF-8 (legal in NATS) cannot be marshalled by gRPC, and every subscription that reaches its offset ends with an Internal error — the rest of the partition is unreachable")
			}
		}
	}
	if n < 2 {
		c.Unresolved("stores to Message.Subject / Message.ReplySubject in the subscribe loop")
	}
}

// ruleDispatchSurvivesCompaction (R18.3 extension, F72): the dispatcher resumes at the recorded index + 1. That index can
// lie below the first entry still in the Raft log (it is not part of the snapshot; the activity stream may be switched on
// after the log was compacted). A missing entry must not stop the controller: the panic after GetLog is reached only when
// the error is not "log not found", the first index cannot be read, or the entry is not below the first index.
func ruleDispatchSurvivesCompaction(c *eng.Ctx) {
	p := c.P
	fn := c.Fn("server.(*activityManager).dispatch")
	if fn == nil {
		return
	}
	gets := eng.CallsIn(fn, "github.com/hashicorp/raft.LogStore.GetLog", "github.com/hashicorp/raft-boltdb/v2.BoltStore.GetLog")
	if len(gets) == 0 {
		c.Unresolved("the GetLog call in dispatch")
		return
	}
	getErr := func(v ssa.Value) bool { return v == gets[0].(ssa.Value) }
	firstIdx := eng.Call(0, "github.com/hashicorp/raft.LogStore.FirstIndex", "github.com/hashicorp/raft-boltdb/v2.BoltStore.FirstIndex")
	firstErr := eng.Call(1, "github.com/hashicorp/raft.LogStore.FirstIndex", "github.com/hashicorp/raft-boltdb/v2.BoltStore.FirstIndex")
	excused := eng.EdgesWhere(fn, func(a eng.AtomView) bool {
		return a.RelHolds(getErr, eng.Global("github.com/hashicorp/raft.ErrLogNotFound"), eng.NE) ||
			a.RelHolds(firstErr, eng.NilConst, eng.NE) ||
			a.RelHolds(eng.AnyV, firstIdx, eng.GE|eng.GT)
	})
	failed := eng.CmpEdges(fn, getErr, eng.NilConst, eng.NE)
	n, ok, where := 0, true, ""
	eng.Instrs(fn, func(in ssa.Instruction) {
		if _, isPanic := in.(*ssa.Panic); !isPanic {
			return
		}
		// only panics in the handling of the failed GetLog (go/ssa also ends a select without default in a synthetic panic)
		handles := false
		for _, e := range failed {
			if e.To().Dominates(in.Block()) {
				handles = true
			}
		}
		if !handles {
			return
		}
		// (the search ends at the next GetLog: that is the next iteration, with its own error)
		q := &eng.PathQuery{Fn: fn, FromEdges: failed, Target: func(x ssa.Instruction) bool { return x == in }, CutEdges: excused,
			CutInstr: func(x ssa.Instruction) bool { return x == gets[0].(ssa.Instruction) }}
		if len(failed) == 0 {
			return
		}
		n++
		if w := q.Find(); w != nil {
			ok, where = false, c.Pos(in)+" (path "+w.String()+")"
		}
	})
	c.Check(ok && len(failed) > 0, "an entry that was compacted away does not stop the dispatcher", p.Pos(fn.Pos()), "after GetLog fails the dispatcher panics only for an error other than ErrLogNotFound, or when the entry is not below the log's first index; otherwise it resumes at the first index", "dispatch panics at "+where+" whenever GetLog fails: when the recorded last-published index lies below the first entry of the Raft log (after a snapshot and restart, or when the activity stream is enabled on a compacted log) the controller dies as soon as it is elected, again after every restart, and no event is ever published")
	_ = n
}

// ruleEncryptionDecisionIsRecorded (R17.5 extension, F73): whether a stream is encrypted is decided once, when it is created,
// and travels with the stream. A stream created under the server default `streams.encryption` and replicated without the
// setting is re-decided by every server from its own current configuration each time the partition is built: after the
// default is switched off (or on a replica configured differently) sealed values are delivered as data and new values are
// stored in clear. So every path through metadataAPI.CreateStream to the proposal has recorded Encryption in the stream's
// configuration.
func ruleEncryptionDecisionIsRecorded(c *eng.Ctx) {
	p := c.P
	fn := c.Fn("server.(*metadataAPI).CreateStream")
	if fn == nil {
		return
	}
	propose := eng.IsCallTo("server.raftNode.applyOperation", "server.metadataAPI.applyOperation", "server.Server.applyOperation", "server.metadataAPI.propagateRequest")
	isEnc := func(fa *ssa.FieldAddr) bool {
		return eng.FieldNameOf(fa) == "Encryption" && strings.HasSuffix(strings.TrimPrefix(fa.X.Type().String(), "*"), ".StreamConfig")
	}
	set := func(x ssa.Instruction) bool {
		st, ok := x.(*ssa.Store)
		if !ok {
			return false
		}
		fa, ok := st.Addr.(*ssa.FieldAddr)
		return ok && isEnc(fa)
	}
	already := eng.CmpEdges(fn, eng.LoadNamed("Encryption", nil), eng.NilConst, eng.NE)
	var target func(ssa.Instruction) bool = func(x ssa.Instruction) bool {
		if !propose(x) {
			return false
		}
		// the leader's own proposal (not the forwarding of the request to the leader, which runs the same function there)
		return eng.IsCallTo("server.raftNode.applyOperation", "server.metadataAPI.applyOperation", "server.Server.applyOperation")(x)
	}
	found := false
	eng.Instrs(fn, func(in ssa.Instruction) {
		if target(in) {
			found = true
		}
	})
	if !found {
		c.Unresolved("the proposal (applyOperation) in metadataAPI.CreateStream")
		return
	}
	q := &eng.PathQuery{Fn: fn, FromEntry: true, Target: target, CutInstr: set, CutEdges: already}
	w := q.Find()
	c.Check(w == nil, "the encryption decision is recorded with the stream before it is replicated", p.Pos(fn.Pos()), "every path to the proposal has Config.Encryption set (from the request, or from the server default)", "CreateStream proposes a stream whose configuration does not say whether it is encrypted ("+w.String()+"): every server re-derives the decision from its own streams.encryption each time it builds the partition — after the default changes, or on a replica configured differently, subscribers receive the sealed bytes as data and new values are stored in clear")
}

// ruleReplicatedMessagesAreValidated (R14.12, F75): a message set that arrives in a replication response is written to the
// follower's log, and everything that later reads the log — subscribers, the replicator, the compactor — trusts what it
// finds there (the CRC mismatch is a deliberate panic, the accessors slice by the stored sizes). So entriesForMessageSet
// admits an entry only for a message that passed SerializedMessage.valid: checksum, and key / value / headers inside the
// message.
func ruleReplicatedMessagesAreValidated(c *eng.Ctx) {
	p := c.P
	fn := c.Fn(cl + "entriesForMessageSet")
	if fn == nil {
		return
	}
	okEdges := eng.BoolEdges(fn, eng.Call(-1, cl+"SerializedMessage.valid"), true)
	n, ok, where := 0, true, ""
	eng.Instrs(fn, func(in ssa.Instruction) {
		call, isCall := in.(*ssa.Call)
		if !isCall || !isBuiltinCall(call, "append") {
			return
		}
		n++
		if g, w := eng.GuardedBy(fn, call, okEdges); !g || len(okEdges) == 0 {
			ok, where = false, c.Pos(call)+" (path "+w.String()+")"
		}
	})
	if n == 0 {
		c.Unresolved("the entries = append(…) of entriesForMessageSet")
		return
	}
	c.Check(ok, "an entry is admitted only for a well-formed message", p.Pos(fn.Pos()), "append(entries, …) behind SerializedMessage.valid() of that message", "entriesForMessageSet indexes a message it has not looked at ("+where+"): a replication response with a wrong CRC, a message shorter than its fixed fields or sizes that point past its end is written to the follower's log, and the next reader of that offset panics — after every restart too, the bytes are on disk")
	// the validator looks at this entry's message: the bytes after the set header, as long as the header says
	for _, e := range okEdges {
		iff := e.From.Instrs[len(e.From.Instrs)-1].(*ssa.If)
		cond, _ := eng.CondPolarity(iff.Cond)
		vc := eng.AsCall(cond)
		if vc == nil || len(vc.Call.Args) == 0 {
			continue
		}
		sl, isSl := eng.Strip(vc.Call.Args[0]).(*ssa.Slice)
		okArg := isSl && sl.Low != nil && sl.High != nil
		if okArg {
			lo, isC := eng.ConstVal(sl.Low)
			okArg = isC && lo == 28
		}
		c.Check(okArg, "the validator is given this entry's message", c.Pos(vc), "valid() on ms[headerLen : headerLen+size]", "the bytes handed to valid() are not the message that follows this set header: "+eng.Describe(vc.Call.Args[0]))
	}
}

func isBuiltinCall(call *ssa.Call, name string) bool {
	b, ok := call.Call.Value.(*ssa.Builtin)
	return ok && b.Name() == name
}

// ruleFreshCommitQueuePerTerm (R04.7, shared with C02): the commit queue holds the messages of THIS term of leadership that
// wait for their acknowledgement. A queue carried over from an earlier term still holds pending acks of messages the server
// may have truncated as a follower in between: when the new term commits another message at the same offset, the old
// publisher receives a positive ack for a message that is stored nowhere. So every path through startReplicating to the
// start of the commit loop installs a queue made there.
func ruleFreshCommitQueuePerTerm(c *eng.Ctx) {
	p := c.P
	fn := c.Fn("server.(*partition).startReplicating")
	if fn == nil {
		return
	}
	qf := p.Field("server", "partition", "commitQueue")
	fresh := func(x ssa.Instruction) bool {
		st, ok := x.(*ssa.Store)
		if !ok {
			return false
		}
		fa, ok := st.Addr.(*ssa.FieldAddr)
		if !ok || !fieldIs(fa, qf) {
			return false
		}
		call := eng.AsCall(eng.Strip(st.Val))
		return call != nil && strings.HasSuffix(eng.CalleeRef(&call.Call), "queue.New")
	}
	startsLoop := func(x ssa.Instruction) bool {
		ci, ok := x.(ssa.CallInstruction)
		if !ok || !strings.Contains(eng.CalleeRef(ci.Common()), "startGoroutine") {
			return false
		}
		for _, a := range ci.Common().Args {
			if mc, isMC := a.(*ssa.MakeClosure); isMC {
				if f, isF := mc.Fn.(*ssa.Function); isF && len(eng.CallsIn(f, "server.partition.commitLoop")) > 0 {
					return true
				}
			}
		}
		return false
	}
	found := false
	eng.Instrs(fn, func(in ssa.Instruction) {
		if startsLoop(in) {
			found = true
		}
	})
	if !found {
		c.Unresolved("the start of commitLoop in startReplicating")
		return
	}
	q := &eng.PathQuery{Fn: fn, FromEntry: true, Target: startsLoop, CutInstr: fresh}
	w := q.Find()
	c.Check(w == nil, "a term of leadership starts with an empty commit queue", p.Pos(fn.Pos()), "p.commitQueue = queue.New(…) on every path to the start of the commit loop", "startReplicating can start the commit loop on a queue it did not make ("+w.String()+"): pending acks of an earlier term of leadership survive — after the server lost and regained the leadership, a publisher is told its message at offset N is committed when another message was stored and committed there")
}
