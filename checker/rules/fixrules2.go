package rules

import (
	"go/token"
	"go/types"
	"strings"

	"golang.org/x/tools/go/ssa"

	"lbcheck/eng"
	"lbcheck/ir"
)

// ruleCreateRequestIsConsistent (R14.5 extension, F69): before a CREATE_STREAM request is proposed, every partition is
// checked to name the stream it is part of and partition ids are checked to be unique. Both are things the application of
// the entry depends on (AddStream registers under Stream.Name, addPartition refuses a second partition with the same id, the
// commit log directory is built from the partition's Stream field); a request that fails them would be logged and then fail
// — or do the wrong thing — on every server.
func ruleCreateRequestIsConsistent(c *eng.Ctx) {
	p := c.P
	fn := c.Fn("server.(*metadataAPI).CreateStream")
	if fn == nil {
		return
	}
	propose := eng.IsCallTo("server.raftNode.applyOperation", "server.metadataAPI.applyOperation", "server.Server.applyOperation")
	funcs := moduleReach(c, fn, 1)
	// (a) partition.Stream is compared with Stream.Name, and from the mismatch edge nothing is proposed
	okName, okID := false, false
	for _, g := range funcs {
		isPartStream := func(v ssa.Value) bool {
			f, base := eng.FieldRead(v)
			return f != nil && f.Name() == "Stream" && base != nil && strings.Contains(base.Type().String(), "Partition")
		}
		isStreamName := func(v ssa.Value) bool {
			f, base := eng.FieldRead(v)
			return f != nil && f.Name() == "Name" && base != nil && strings.HasSuffix(strings.TrimPrefix(base.Type().String(), "*"), ".Stream")
		}
		mismatch := eng.CmpEdges(g, isPartStream, isStreamName, eng.NE)
		if len(mismatch) > 0 {
			q := &eng.PathQuery{Fn: g, FromEdges: mismatch, Target: propose}
			if q.Find() == nil {
				okName = true
			}
		}
		// (b) a partition id seen before is refused: a comma-ok lookup keyed by the partition's Id whose found-edge proposes nothing
		var seenEdges []eng.Edge
		eng.Instrs(g, func(in ssa.Instruction) {
			lk, isLk := in.(*ssa.Lookup)
			if !isLk || !lk.CommaOk {
				return
			}
			f, base := eng.FieldRead(lk.Index)
			if f == nil || f.Name() != "Id" || base == nil || !strings.Contains(base.Type().String(), "Partition") {
				return
			}
			seenEdges = append(seenEdges, eng.BoolEdges(g, func(v ssa.Value) bool {
				e, isE := v.(*ssa.Extract)
				return isE && e.Tuple == ssa.Value(lk) && e.Index == 1
			}, true)...)
		})
		if len(seenEdges) > 0 {
			q := &eng.PathQuery{Fn: g, FromEdges: seenEdges, Target: propose}
			if q.Find() == nil {
				okID = true
			}
		}
	}
	c.Check(okName, "a partition naming another stream is refused before the request is proposed", p.Pos(fn.Pos()), "partition.Stream != Stream.Name → error, nothing proposed", "CreateStream proposes a request without comparing each partition's Stream with the stream's Name: a propagated request can create partitions of stream B inside stream A's entry — the entry fails to apply (ErrStreamExists is fatal on every server) or a second commit log is opened on another stream's partition directory")
	c.Check(okID, "a repeated partition id is refused before the request is proposed", p.Pos(fn.Pos()), "ids collected in a set; a second occurrence → error, nothing proposed", "CreateStream proposes a request without checking that partition ids are unique: addPartition refuses the second one at apply time, and an apply error stops every server, on every replay")
}

// ruleAckInboxIsASubject (R14.10, F70): the subject an ack is published to is chosen by the sender of the message. The NATS
// client copies a publish subject into the protocol line as it is, so a subject with a space, tab, CR or LF changes the
// command (reply subject, size) or ends the line — what follows is read as further commands from this server. Every publish
// on the acks connection is therefore behind a test that the subject contains none of them.
func ruleAckInboxIsASubject(c *eng.Ctx) {
	p := c.P
	n := 0
	for _, fn := range p.Funcs {
		if !p.IsModuleFunc(fn) {
			continue
		}
		eng.Instrs(fn, func(in ssa.Instruction) {
			call, ok := in.(*ssa.Call)
			if !ok || eng.CalleeRef(&call.Call) != natsPkg+".Conn.Publish" {
				return
			}
			args := eng.AllArgs(&call.Call)
			if len(args) < 3 || !eng.LoadNamed("ncAcks", nil)(args[0]) {
				return
			}
			n++
			subj := args[1]
			clean := eng.BoolEdges(fn, func(v ssa.Value) bool {
				cc, isCall := v.(*ssa.Call)
				if !isCall || eng.CalleeRef(&cc.Call) != "strings.ContainsAny" || len(cc.Call.Args) != 2 {
					return false
				}
				if eng.Strip(cc.Call.Args[0]) != eng.Strip(subj) {
					return false
				}
				k, isK := eng.Strip(cc.Call.Args[1]).(*ssa.Const)
				if !isK || k.Value == nil {
					return false
				}
				set := k.Value.ExactString()
				return strings.Contains(set, `\r`) && strings.Contains(set, `\n`) && strings.Contains(set, " ") && strings.Contains(set, `\t`)
			}, false)
			g, w := eng.GuardedBy(fn, call, clean)
			c.Check(g && len(clean) > 0, "ack published to a well-formed subject in "+ir.FuncKey(ir.Outermost(fn)), c.Pos(call), "ncAcks.Publish(inbox, …) only behind !strings.ContainsAny(inbox, \" \\t\\r\\n\")", "an ack is published to a subject taken from the message without checking it for whitespace (path "+w.String()+"): an AckInbox containing CR LF makes this server send NATS protocol commands of the publisher's choosing (a publish to any subject under the server's identity) or makes NATS drop the acks connection")
		})
	}
	if n == 0 {
		c.Unresolved("publishes on the acks connection (ncAcks.Publish)")
	}
}

// ruleDeliveredStringsAreUTF8 (R14.11, F71, shared with C10): the NATS subject and reply subject a message arrived with are
// stored as bytes; NATS does not require them to be UTF-8. The subscribe loop hands them out in proto3 string fields, which
// gRPC refuses to marshal when they are not valid UTF-8 — the subscription, and every later one that has to pass the
// offset, ends there. The conversion therefore goes through strings.ToValidUTF8 (or an explicit validity test).
func ruleDeliveredStringsAreUTF8(c *eng.Ctx) {
	root := c.Fn("server.(*partition).newSubscribeLoop")
	if root == nil {
		return
	}
	n := 0
	for _, fn := range append([]*ssa.Function{root}, root.AnonFuncs...) {
		for _, name := range []string{"Subject", "ReplySubject"} {
			for _, st := range eng.FieldStores(fn, func(fa *ssa.FieldAddr) bool {
				return eng.FieldNameOf(fa) == name && strings.Contains(fa.X.Type().String(), "liftbridge-api") && strings.HasSuffix(fa.X.Type().String(), ".Message")
			}) {
				n++
				v := eng.Strip(st.Val)
				ok := false
				if call := eng.AsCall(v); call != nil && eng.CalleeRef(&call.Call) == "strings.ToValidUTF8" {
					ok = true
				}
				if !ok {
					valid := eng.BoolEdges(fn, eng.Call(-1, "unicode/utf8.ValidString", "unicode/utf8.Valid"), true)
					if g, _ := eng.GuardedBy(fn, st, valid); g && len(valid) > 0 {
						ok = true
					}
				}
				if _, isConv := v.(*ssa.Convert); !isConv && !ok {
					// not a conversion of stored bytes (a string the server itself holds): nothing to sanitise
					if _, isLookup := v.(*ssa.Lookup); !isLookup {
						ok = true
					}
				}
				c.Check(ok, "delivered "+name+" is a valid string", c.Pos(st), "strings.ToValidUTF8(string(stored bytes), …)", "the stored "+strings.ToLower(name)+" bytes are converted straight into the string field "+name+" of the delivered message: a message published with a subject / reply subject that is not valid UTF-8 (legal in NATS) cannot be marshalled by gRPC, and every subscription that reaches its offset ends with an Internal error — the rest of the partition is unreachable")
			}
		}
	}
	if n < 2 {
		c.Unresolved("stores to Message.Subject / Message.ReplySubject in the subscribe loop")
	}
}

// ruleDispatchSurvivesCompaction (R18.3 extension, F72): the dispatcher resumes at the recorded index + 1. That index can
// lie below the first entry still in the Raft log (it is not part of the snapshot; the activity stream may be switched on
// after the log was compacted). A missing entry must not stop the controller: the panic after GetLog is reached only when
// the error is not "log not found", the first index cannot be read, or the entry is not below the first index.
func ruleDispatchSurvivesCompaction(c *eng.Ctx) {
	p := c.P
	fn := c.Fn("server.(*activityManager).dispatch")
	if fn == nil {
		return
	}
	gets := eng.CallsIn(fn, "github.com/hashicorp/raft.LogStore.GetLog", "github.com/hashicorp/raft-boltdb/v2.BoltStore.GetLog")
	if len(gets) == 0 {
		c.Unresolved("the GetLog call in dispatch")
		return
	}
	getErr := func(v ssa.Value) bool { return v == gets[0].(ssa.Value) }
	firstIdx := eng.Call(0, "github.com/hashicorp/raft.LogStore.FirstIndex", "github.com/hashicorp/raft-boltdb/v2.BoltStore.FirstIndex")
	firstErr := eng.Call(1, "github.com/hashicorp/raft.LogStore.FirstIndex", "github.com/hashicorp/raft-boltdb/v2.BoltStore.FirstIndex")
	excused := eng.EdgesWhere(fn, func(a eng.AtomView) bool {
		return a.RelHolds(getErr, eng.Global("github.com/hashicorp/raft.ErrLogNotFound"), eng.NE) ||
			a.RelHolds(firstErr, eng.NilConst, eng.NE) ||
			a.RelHolds(eng.AnyV, firstIdx, eng.GE|eng.GT)
	})
	failed := eng.CmpEdges(fn, getErr, eng.NilConst, eng.NE)
	n, ok, where := 0, true, ""
	eng.Instrs(fn, func(in ssa.Instruction) {
		if _, isPanic := in.(*ssa.Panic); !isPanic {
			return
		}
		// only panics in the handling of the failed GetLog (go/ssa also ends a select without default in a synthetic panic)
		handles := false
		for _, e := range failed {
			if e.To().Dominates(in.Block()) {
				handles = true
			}
		}
		if !handles {
			return
		}
		// (the search ends at the next GetLog: that is the next iteration, with its own error)
		q := &eng.PathQuery{Fn: fn, FromEdges: failed, Target: func(x ssa.Instruction) bool { return x == in }, CutEdges: excused,
			CutInstr: func(x ssa.Instruction) bool { return x == gets[0].(ssa.Instruction) }}
		if len(failed) == 0 {
			return
		}
		n++
		if w := q.Find(); w != nil {
			ok, where = false, c.Pos(in)+" (path "+w.String()+")"
		}
	})
	c.Check(ok && len(failed) > 0, "an entry that was compacted away does not stop the dispatcher", p.Pos(fn.Pos()), "after GetLog fails the dispatcher panics only for an error other than ErrLogNotFound, or when the entry is not below the log's first index; otherwise it resumes at the first index", "dispatch panics at "+where+" whenever GetLog fails: when the recorded last-published index lies below the first entry of the Raft log (after a snapshot and restart, or when the activity stream is enabled on a compacted log) the controller dies as soon as it is elected, again after every restart, and no event is ever published")
	_ = n
}

// ruleEncryptionDecisionIsRecorded (R17.5 extension, F73): whether a stream is encrypted is decided once, when it is created,
// and travels with the stream. A stream created under the server default `streams.encryption` and replicated without the
// setting is re-decided by every server from its own current configuration each time the partition is built: after the
// default is switched off (or on a replica configured differently) sealed values are delivered as data and new values are
// stored in clear. So every path through metadataAPI.CreateStream to the proposal has recorded Encryption in the stream's
// configuration.
func ruleEncryptionDecisionIsRecorded(c *eng.Ctx) {
	p := c.P
	fn := c.Fn("server.(*metadataAPI).CreateStream")
	if fn == nil {
		return
	}
	propose := eng.IsCallTo("server.raftNode.applyOperation", "server.metadataAPI.applyOperation", "server.Server.applyOperation", "server.metadataAPI.propagateRequest")
	isEnc := func(fa *ssa.FieldAddr) bool {
		return eng.FieldNameOf(fa) == "Encryption" && strings.HasSuffix(strings.TrimPrefix(fa.X.Type().String(), "*"), ".StreamConfig")
	}
	set := func(x ssa.Instruction) bool {
		st, ok := x.(*ssa.Store)
		if !ok {
			return false
		}
		fa, ok := st.Addr.(*ssa.FieldAddr)
		return ok && isEnc(fa)
	}
	already := eng.CmpEdges(fn, eng.LoadNamed("Encryption", nil), eng.NilConst, eng.NE)
	var target func(ssa.Instruction) bool = func(x ssa.Instruction) bool {
		if !propose(x) {
			return false
		}
		// the leader's own proposal (not the forwarding of the request to the leader, which runs the same function there)
		return eng.IsCallTo("server.raftNode.applyOperation", "server.metadataAPI.applyOperation", "server.Server.applyOperation")(x)
	}
	found := false
	eng.Instrs(fn, func(in ssa.Instruction) {
		if target(in) {
			found = true
		}
	})
	if !found {
		c.Unresolved("the proposal (applyOperation) in metadataAPI.CreateStream")
		return
	}
	q := &eng.PathQuery{Fn: fn, FromEntry: true, Target: target, CutInstr: set, CutEdges: already}
	w := q.Find()
	c.Check(w == nil, "the encryption decision is recorded with the stream before it is replicated", p.Pos(fn.Pos()), "every path to the proposal has Config.Encryption set (from the request, or from the server default)", "CreateStream proposes a stream whose configuration does not say whether it is encrypted ("+w.String()+"): every server re-derives the decision from its own streams.encryption each time it builds the partition — after the default changes, or on a replica configured differently, subscribers receive the sealed bytes as data and new values are stored in clear")
}

// ruleReplicatedMessagesAreValidated (R14.12, F75): a message set that arrives in a replication response is written to the
// follower's log, and everything that later reads the log — subscribers, the replicator, the compactor — trusts what it
// finds there (the CRC mismatch is a deliberate panic, the accessors slice by the stored sizes). So entriesForMessageSet
// admits an entry only for a message that passed SerializedMessage.valid: checksum, and key / value / headers inside the
// message.
func ruleReplicatedMessagesAreValidated(c *eng.Ctx) {
	p := c.P
	fn := c.Fn(cl + "entriesForMessageSet")
	if fn == nil {
		return
	}
	okEdges := eng.BoolEdges(fn, eng.Call(-1, cl+"SerializedMessage.valid"), true)
	n, ok, where := 0, true, ""
	eng.Instrs(fn, func(in ssa.Instruction) {
		call, isCall := in.(*ssa.Call)
		if !isCall || !isBuiltinCall(call, "append") {
			return
		}
		n++
		if g, w := eng.GuardedBy(fn, call, okEdges); !g || len(okEdges) == 0 {
			ok, where = false, c.Pos(call)+" (path "+w.String()+")"
		}
	})
	if n == 0 {
		c.Unresolved("the entries = append(…) of entriesForMessageSet")
		return
	}
	c.Check(ok, "an entry is admitted only for a well-formed message", p.Pos(fn.Pos()), "append(entries, …) behind SerializedMessage.valid() of that message", "entriesForMessageSet indexes a message it has not looked at ("+where+"): a replication response with a wrong CRC, a message shorter than its fixed fields or sizes that point past its end is written to the follower's log, and the next reader of that offset panics — after every restart too, the bytes are on disk")
	// the validator looks at this entry's message: the bytes after the set header, as long as the header says
	for _, e := range okEdges {
		iff := e.From.Instrs[len(e.From.Instrs)-1].(*ssa.If)
		cond, _ := eng.CondPolarity(iff.Cond)
		vc := eng.AsCall(cond)
		if vc == nil || len(vc.Call.Args) == 0 {
			continue
		}
		sl, isSl := eng.Strip(vc.Call.Args[0]).(*ssa.Slice)
		okArg := isSl && sl.Low != nil && sl.High != nil
		if okArg {
			lo, isC := eng.ConstVal(sl.Low)
			okArg = isC && lo == 28
		}
		c.Check(okArg, "the validator is given this entry's message", c.Pos(vc), "valid() on ms[headerLen : headerLen+size]", "the bytes handed to valid() are not the message that follows this set header: "+eng.Describe(vc.Call.Args[0]))
	}
}

func isBuiltinCall(call *ssa.Call, name string) bool {
	b, ok := call.Call.Value.(*ssa.Builtin)
	return ok && b.Name() == name
}

// ruleFreshCommitQueuePerTerm (R04.7, shared with C02): the commit queue holds the messages of THIS term of leadership that
// wait for their acknowledgement. A queue carried over from an earlier term still holds pending acks of messages the server
// may have truncated as a follower in between: when the new term commits another message at the same offset, the old
// publisher receives a positive ack for a message that is stored nowhere. So every path through startReplicating to the
// start of the commit loop installs a queue made there.
func ruleFreshCommitQueuePerTerm(c *eng.Ctx) {
	p := c.P
	fn := c.Fn("server.(*partition).startReplicating")
	if fn == nil {
		return
	}
	qf := p.Field("server", "partition", "commitQueue")
	fresh := func(x ssa.Instruction) bool {
		st, ok := x.(*ssa.Store)
		if !ok {
			return false
		}
		fa, ok := st.Addr.(*ssa.FieldAddr)
		if !ok || !fieldIs(fa, qf) {
			return false
		}
		call := eng.AsCall(eng.Strip(st.Val))
		return call != nil && strings.HasSuffix(eng.CalleeRef(&call.Call), "queue.New")
	}
	startsLoop := func(x ssa.Instruction) bool {
		ci, ok := x.(ssa.CallInstruction)
		if !ok || !strings.Contains(eng.CalleeRef(ci.Common()), "startGoroutine") {
			return false
		}
		for _, a := range ci.Common().Args {
			if mc, isMC := a.(*ssa.MakeClosure); isMC {
				if f, isF := mc.Fn.(*ssa.Function); isF && len(eng.CallsIn(f, "server.partition.commitLoop")) > 0 {
					return true
				}
			}
		}
		return false
	}
	found := false
	eng.Instrs(fn, func(in ssa.Instruction) {
		if startsLoop(in) {
			found = true
		}
	})
	if !found {
		c.Unresolved("the start of commitLoop in startReplicating")
		return
	}
	q := &eng.PathQuery{Fn: fn, FromEntry: true, Target: startsLoop, CutInstr: fresh}
	w := q.Find()
	c.Check(w == nil, "a term of leadership starts with an empty commit queue", p.Pos(fn.Pos()), "p.commitQueue = queue.New(…) on every path to the start of the commit loop", "startReplicating can start the commit loop on a queue it did not make ("+w.String()+"): pending acks of an earlier term of leadership survive — after the server lost and regained the leadership, a publisher is told its message at offset N is committed when another message was stored and committed there")
}

// ruleHealthCheckPeriod (R02.7 extension): a replicator starts with lastCaughtUp = now, so a replica counts as caught up for
// one lag period after the leader started replicating to it — whether it has fetched anything or not. That is sound only
// because the first health check comes a full lag period later. The check timer is therefore armed, and re-armed, with the
// same r.maxLagTime the out-of-sync comparison uses; a shorter period re-admits a replica that is outside the in-sync set
// without it having fetched a byte.
func ruleHealthCheckPeriod(c *eng.Ctx) {
	p := c.P
	fn := c.Fn("server.(*replicator).tick")
	if fn == nil {
		return
	}
	isLag := func(v ssa.Value) bool { return eng.LoadNamed("maxLagTime", nil)(v) }
	nt := eng.CallsIn(fn, "time.NewTimer")
	ct := eng.CallsIn(fn, "server.computeTick")
	ok := len(nt) == 1 && isLag(nt[0].Common().Args[0])
	for _, k := range ct {
		a := k.Common().Args
		if len(a) != 2 || !isLag(a[1]) {
			ok = false
		}
	}
	if len(nt) != 1 || len(ct) == 0 {
		c.Unresolved("time.NewTimer / computeTick in replicator.tick")
		return
	}
	c.Check(ok, "the replica health check runs once per lag period", p.Pos(fn.Pos()), "time.NewTimer(r.maxLagTime), computeTick(…, r.maxLagTime)", "the health-check timer of replicator.tick is not armed with r.maxLagTime: with a shorter period the first check of a term finds lastCaughtUp (initialised to the start of the term) younger than the lag limit and proposes to re-admit a replica that is outside the in-sync set and has fetched nothing — it becomes electable without the committed messages")
}

// ruleFailoverStatusBelongsToItsPartition (R07.7 extension): a failover status is created for one partition object and keeps
// a pointer to it (quorum from its in-sync set, expiry removes its map key). It is therefore never filed under another
// partition: every store into partitionFailovers (and groupFailovers) puts a status made by the constructor in the same
// function under the key it was made for — or nil-deletes the key. Handing the status of a replaced partition object to its
// replacement keeps counting witnesses against a frozen in-sync set and never expires them.
func ruleFailoverStatusBelongsToItsPartition(c *eng.Ctx) {
	p := c.P
	n := 0
	for _, tbl := range []string{"partitionFailovers", "groupFailovers"} {
		f := p.Field("server", "metadataAPI", tbl)
		if f == nil {
			c.Unresolved("field metadataAPI." + tbl)
			continue
		}
		for _, fn := range p.Funcs {
			if !p.IsModuleFunc(fn) {
				continue
			}
			eng.Instrs(fn, func(in ssa.Instruction) {
				mu, ok := in.(*ssa.MapUpdate)
				if !ok || !eng.Load(f, nil)(mu.Map) {
					return
				}
				n++
				v := eng.Strip(mu.Value)
				call := eng.AsCall(v)
				fresh := call != nil && strings.HasPrefix(eng.CalleeRef(&call.Call), "server.new") && strings.HasSuffix(eng.CalleeRef(&call.Call), "FailoverStatus")
				c.Check(fresh, "a failover status is filed under the object it was made for ("+tbl+" in "+ir.FuncKey(ir.Outermost(fn))+")", c.Pos(mu), "the stored status is made by its constructor (new…FailoverStatus) in the same function", "a failover status that was not made here ("+eng.Describe(mu.Value)+") is stored into "+tbl+": a status belongs to the partition (group) object it was created for — under another key it counts old witnesses against a frozen in-sync set, and its expiry deletes the wrong entry, so the reports never expire")
			})
		}
	}
	if n == 0 {
		c.Unresolved("stores into metadataAPI.partitionFailovers / groupFailovers")
	}
}

// ruleReadAtAnswersFromTheFile (R03.12, shared with C01 and C10): segment.ReadAt answers with what the file says — or with
// the closed / replaced sentinels. It does not decide "end of data" from the segment's own flags: the committed reader
// issues zero-length reads at its limit (hwPos − pos == 0) and relies on them succeeding; an early io.EOF from a sealed
// segment sends it on to the next segment before the watermark allows.
func ruleReadAtAnswersFromTheFile(c *eng.Ctx) {
	p := c.P
	fn := c.Fn(cl + "(*segment).ReadAt")
	if fn == nil {
		return
	}
	ok, why, n := true, "", 0
	for _, r := range eng.Returns(fn) {
		rv := eng.RetVals(r)
		if len(rv) != 2 {
			continue
		}
		n++
		e := eng.Strip(rv[1])
		if ex, isEx := e.(*ssa.Extract); isEx {
			if call := eng.AsCall(ex.Tuple); call != nil && eng.CalleeRef(&call.Call) == "os.File.ReadAt" {
				continue
			}
		}
		if g := globalLoad(e); g != nil && (strings.HasSuffix(g.Name(), "ErrSegmentClosed") || strings.HasSuffix(g.Name(), "ErrSegmentReplaced")) {
			continue
		}
		ok, why = false, c.Pos(r)+": "+eng.Describe(rv[1])
	}
	c.Check(ok && n > 0, "a segment read is answered by the file", p.Pos(fn.Pos()), "ReadAt returns os.File.ReadAt's result, or ErrSegmentClosed / ErrSegmentReplaced", "segment.ReadAt answers a read itself ("+why+"): a read the file would have satisfied (a zero-length read at the committed reader's limit, a read at the end of a sealed segment that is written again after a truncation) comes back as an error, and the reader moves on past data it has not delivered")
}

// ruleEpochRecoveryAssignsEveryMissingEpoch (R05.8 extension): after a crash the epoch history can lack more than one epoch
// (a replicated message set can span several epochs the follower has not seen). Recovery walks the log and assigns each:
// the Assign call of recoverLeaderEpochs sits in a loop.
func ruleEpochRecoveryAssignsEveryMissingEpoch(c *eng.Ctx) {
	p := c.P
	fn := c.Fn(cl + "(*commitLog).recoverLeaderEpochs")
	if fn == nil {
		return
	}
	as := eng.CallsIn(fn, cl+"leaderEpochCache.Assign")
	if len(as) == 0 {
		c.Unresolved("leaderEpochCache.Assign in recoverLeaderEpochs")
		return
	}
	inLoop := false
	for _, a := range as {
		b := a.(ssa.Instruction).Block()
		// b is in a cycle iff b is reachable from one of its successors
		q := &eng.PathQuery{Fn: fn, FromAfter: []ssa.Instruction{a.(ssa.Instruction)}, Target: func(x ssa.Instruction) bool { return x == a.(ssa.Instruction) }}
		if q.Find() != nil {
			inLoop = true
		}
		_ = b
	}
	c.Check(inLoop, "recovery assigns every epoch missing from the history", p.Pos(fn.Pos()), "Assign is called once per missing epoch (in a loop)", "recoverLeaderEpochs calls Assign once: when the newest messages span more than one epoch that the checkpoint lacks (a replicated set that crossed two leader changes, then a crash before the first Assign) only one boundary is recovered, and the log answers a wrong end offset for the other epoch")
}

// ruleRebuildIndexAcceptsGaps (R05.8 extension, shared with C08): offsets inside a segment are not consecutive once the
// segment was compacted (or replicated from a compacted leader). The index rebuild therefore never decides on the decoded
// offset of a message set: the value only flows into the entry it describes.
func ruleRebuildIndexAcceptsGaps(c *eng.Ctx) {
	p := c.P
	fn := c.Fn(cl + "(*segment).rebuildIndex")
	if fn == nil {
		return
	}
	// the decoded offset: Uint64 of headerBuf[0:8] (first fixed-width read of the header)
	var offs []ssa.Value
	eng.Instrs(fn, func(in ssa.Instruction) {
		call, ok := in.(*ssa.Call)
		if !ok || !strings.HasSuffix(eng.CalleeRef(&call.Call), "Uint64") || len(call.Call.Args) == 0 {
			return
		}
		if sl, isSl := eng.Strip(call.Call.Args[len(call.Call.Args)-1]).(*ssa.Slice); isSl && (sl.Low == nil || eng.IntConst(0)(sl.Low)) {
			offs = append(offs, call)
		}
	})
	for _, cs := range eng.CallsIn(fn, cl+"messageSet.Offset") {
		if v, isV := cs.(ssa.Value); isV {
			offs = append(offs, v)
		}
	}
	if len(offs) == 0 {
		c.Unresolved("the decoded offset of a message set header in rebuildIndex")
		return
	}
	bad := ""
	var walk func(v ssa.Value, depth int)
	seen := map[ssa.Value]bool{}
	walk = func(v ssa.Value, depth int) {
		if seen[v] || depth > 6 || v.Referrers() == nil {
			return
		}
		seen[v] = true
		for _, r := range *v.Referrers() {
			switch x := r.(type) {
			case *ssa.If:
				bad = c.Pos(x)
			case *ssa.BinOp:
				walk(x, depth+1)
			case *ssa.Convert:
				walk(x, depth+1)
			case *ssa.ChangeType:
				walk(x, depth+1)
			case *ssa.Phi:
				walk(x, depth+1)
			case *ssa.UnOp:
				walk(x, depth+1)
			}
		}
	}
	for _, o := range offs {
		walk(o, 0)
	}
	c.Check(bad == "", "the index rebuild does not decide on message offsets", p.Pos(fn.Pos()), "the decoded offset only flows into the rebuilt entry", "rebuildIndex branches on the decoded offset of a message set ("+bad+"): offsets in a compacted segment (or one replicated from a compacted leader) are not consecutive, so a rebuild after a crash stops at the first gap and setupIndex cuts the log there — every message after the gap is destroyed")
}

// rulePersistedReadonlyFollowsTheLog (R06.4 extension): the read-only flag has a run-time home (the commit log) and a
// persisted one (Partition.Readonly, which snapshots, pause / resume and restarts rebuild the partition from). Wherever the
// run-time flag is set to v, the persisted flag is v afterwards: the function stores Partition.Readonly = v, or v was read
// from Partition.Readonly in the first place.
func rulePersistedReadonlyFollowsTheLog(c *eng.Ctx) {
	p := c.P
	n := 0
	for _, s := range eng.Index(p).Sites(cl+"CommitLog.SetReadonly", cl+"commitLog.SetReadonly") {
		if !p.IsModuleFunc(s.Fn) || s.Fn.Pkg == nil || ir.Short(s.Fn.Pkg.Pkg.Path()) != "server" {
			continue
		}
		n++
		args := eng.AllArgs(s.Instr.(ssa.CallInstruction).Common())
		v := args[len(args)-1]
		fromProto := func(x ssa.Value) bool { f, _ := eng.FieldRead(x); return f != nil && f.Name() == "Readonly" }
		ok := fromProto(v)
		if !ok {
			// a constant set behind a test of the persisted flag (if proto.Readonly { log.SetReadonly(true) })
			if _, isC := eng.Strip(v).(*ssa.Const); isC {
				es := eng.BoolEdges(s.Fn, func(x ssa.Value) bool { return fromProto(x) }, true)
				if g, _ := eng.GuardedBy(s.Fn, s.Instr, es); g && len(es) > 0 {
					ok = true
				}
			}
		}
		if !ok {
			for _, st := range eng.FieldStores(s.Fn, func(fa *ssa.FieldAddr) bool {
				return eng.FieldNameOf(fa) == "Readonly" && strings.Contains(fa.X.Type().String(), "Partition")
			}) {
				if eng.Strip(st.Val) == eng.Strip(v) {
					ok = true
				}
			}
		}
		c.Check(ok, "the persisted read-only flag follows the log's in "+ir.FuncKey(ir.Outermost(s.Fn)), c.Pos(s.Instr), "Partition.Readonly = v next to log.SetReadonly(v) (or v read from Partition.Readonly)", "the commit log's read-only flag is set here without the persisted Partition.Readonly being given the same value: the partition is rebuilt from the persisted flag on resume after a pause, on restart and on restore, so the flag silently reverts (or comes back) there — servers on different sides of a snapshot end up disagreeing")
	}
	if n == 0 {
		c.Unresolved("calls of CommitLog.SetReadonly in package server")
	}
}

// ruleNewPartitionKnowsOnlyItsOwnProgress (R04.5 extension): a partition object built over an existing log knows how far ITS
// log goes and nothing about the others: the in-sync entries it creates start at -1, except the server's own. Seeding every
// entry with the local log end makes a leader that restarts (or resumes after a pause) believe its followers hold its whole
// log — the watermark jumps past messages only the leader stores.
func ruleNewPartitionKnowsOnlyItsOwnProgress(c *eng.Ctx) {
	p := c.P
	fn := c.Fn("server.(*Server).newPartition")
	if fn == nil {
		return
	}
	offF := p.Field("server", "replica", "offset")
	n, ok, why := 0, true, ""
	for _, g := range moduleReach(c, fn, 1) {
		if ir.Outermost(g) != fn && g != fn {
			// helpers extracted from newPartition are inlined by the normaliser; other callees are not constructors of p.isr
			continue
		}
		for _, st := range eng.FieldStores(g, func(fa *ssa.FieldAddr) bool { return fieldIs(fa, offF) }) {
			n++
			v := eng.Strip(st.Val)
			switch x := v.(type) {
			case *ssa.Const:
				if !eng.IntConst(-1)(x) {
					ok, why = false, "a constant other than -1"
				}
			case *ssa.Phi:
				has := false
				for _, e := range x.Edges {
					if eng.IntConst(-1)(e) {
						has = true
					}
				}
				if !has {
					ok, why = false, eng.Describe(v)
				}
			default:
				ok, why = false, eng.Describe(v)+" for every replica"
			}
		}
	}
	if n == 0 {
		c.Unresolved("the replica offsets set up by newPartition")
		return
	}
	c.Check(ok, "a new partition object knows only its own log end", p.Pos(fn.Pos()), "replica offsets start at -1 (the server's own at its log end)", "newPartition seeds the progress of in-sync replicas with "+why+": a leader that is rebuilt over a non-empty log (restart, resume after a pause) takes its followers to hold everything it holds, and the commit loop acknowledges and commits messages only the leader stores")
}

// ruleReadonlyReappliedUnconditionally (R06.4 clause shared with C10): newPartition looks at the persisted read-only flag on
// every path, and makes the log read-only when it is set. A subscription to a read-only partition ends at the end of the log
// only if the log knows it is read-only — also after the partition object was rebuilt by a resume.
func ruleReadonlyReappliedUnconditionally(c *eng.Ctx) {
	fn := c.Fn("server.(*Server).newPartition")
	if fn == nil {
		return
	}
	isFlag := func(v ssa.Value) bool {
		f, _ := eng.FieldRead(v)
		return f != nil && f.Name() == "Readonly" && f.Pkg() != nil && strings.HasSuffix(f.Pkg().Path(), "server/protocol")
	}
	set, unset := eng.BoolEdges(fn, isFlag, true), eng.BoolEdges(fn, isFlag, false)
	if len(set) == 0 {
		c.Unresolved("the test of Partition.Readonly in newPartition")
		return
	}
	ok, where := true, ""
	for _, r := range eng.Returns(fn) {
		rv := eng.RetVals(r)
		if len(rv) == 0 || !eng.NilConst(rv[len(rv)-1]) {
			continue
		}
		if g, w := eng.GuardedBy(fn, r, append(append([]eng.Edge{}, set...), unset...)); !g {
			ok, where = false, w.String()
		}
	}
	q := &eng.PathQuery{Fn: fn, FromEdges: set, Target: func(x ssa.Instruction) bool {
		r, isR := x.(*ssa.Return)
		if !isR {
			return false
		}
		rv := eng.RetVals(r)
		return len(rv) > 0 && eng.NilConst(rv[len(rv)-1])
	}, CutInstr: eng.IsCallTo(cl + "CommitLog.SetReadonly")}
	if w := q.Find(); w != nil {
		ok, where = false, w.String()
	}
	c.Check(ok, "a rebuilt partition is read-only exactly when its persisted flag says so", c.P.Pos(fn.Pos()), "newPartition tests Partition.Readonly on every path and calls log.SetReadonly(true) when it is set", "newPartition can build a partition without applying the persisted read-only flag ("+where+"): after set-readonly → pause → resume the log is writable again, and a subscription that should end with `end of readonly partition` hangs at the end of the log")
}

// ruleSwapOnlyAfterASuccessfulPass (R09.8): Clean installs a new segment list only when the pass that produced it succeeded.
// A list returned next to an error lacks segments whose files could not be removed: swapped in, they leave the in-memory log
// while still on disk, are never retried, later passes delete what follows them, and a hole opens.
func ruleSwapOnlyAfterASuccessfulPass(c *eng.Ctx) {
	p := c.P
	fn := c.Fn(cl + "(*commitLog).Clean")
	if fn == nil {
		return
	}
	calls := eng.CallsIn(fn, cl+"commitLog.clean")
	if len(calls) != 1 {
		c.Unresolved("the call of commitLog.clean in Clean")
		return
	}
	cv := calls[0].(ssa.Value)
	errNil := eng.CmpEdges(fn, func(v ssa.Value) bool {
		e, ok := v.(*ssa.Extract)
		return ok && e.Tuple == cv && e.Type().String() == "error"
	}, eng.NilConst, eng.EQ)
	segF := p.Field(clPkg, "commitLog", "segments")
	n, ok, where := 0, len(errNil) > 0, ""
	for _, st := range eng.FieldStores(fn, func(fa *ssa.FieldAddr) bool { return fieldIs(fa, segF) }) {
		n++
		if g, w := eng.GuardedBy(fn, st, errNil); !g {
			ok, where = false, c.Pos(st)+" (path "+w.String()+")"
		}
	}
	c.Check(ok && n > 0, "the cleaned segment list is installed only after a successful pass", p.Pos(fn.Pos()), "l.segments = … only over err == nil of l.clean", "Clean installs the list a failed pass handed back ("+where+"): segments whose files could not be removed drop out of the in-memory log although they are still on disk; they are never retried, later passes remove the segments after them, and after a restart the log has a hole")
}

// ruleReaderStartsInsideItsSegment (R01.9 extension): a reader asked to start at an offset positions itself with findEntry
// only when the segment it found CONTAINS the offset; otherwise (retention or compaction removed what was there, or the
// segment is empty) it starts at the beginning of the segment found. findEntry on a segment that does not hold the offset
// answers "not found" — or, for an empty newest segment, fails the subscription outright.
func ruleReaderStartsInsideItsSegment(c *eng.Ctx) {
	p := c.P
	for _, key := range []string{cl + "(*commitLog).newReaderUncommitted", cl + "(*commitLog).newReaderCommitted"} {
		fn := c.Fn(key)
		if fn == nil {
			continue
		}
		contains := eng.BoolEdges(fn, func(v ssa.Value) bool {
			e, ok := v.(*ssa.Extract)
			if !ok || e.Index != 1 {
				return false
			}
			call := eng.AsCall(e.Tuple)
			return call != nil && eng.CalleeRef(&call.Call) == cl+"findSegmentContains"
		}, true)
		fe := eng.CallsIn(fn, cl+"segment.findEntry")
		ok, where := len(contains) > 0, "no containment test (findSegmentContains) in "+ir.FuncKey(fn)
		for _, call := range fe {
			if g, w := eng.GuardedBy(fn, call.(ssa.Instruction), contains); !g {
				ok, where = false, c.Pos(call.(ssa.Instruction))+" (path "+w.String()+")"
			}
		}
		c.Check(ok, "a reader positions itself by entry only inside a segment that contains its offset ("+ir.FuncKey(fn)+")", p.Pos(fn.Pos()), "findEntry behind contains == true; position 0 otherwise", "the reader looks its start entry up in a segment that need not contain the offset: "+where+" — when retention left only an empty newest segment, or the offset fell into a compaction hole, creating the reader fails with `entry not found` (or it starts at a surviving message below its start offset) instead of continuing at the next message")
	}
}

// ruleRebalanceCountsPartitionsNow (R12.8): the partitions a rebalance hands out are counted when it runs. A count remembered
// from an earlier rebalance outlives the stream it was taken from (deleted and re-created with another partition count):
// partitions are left unassigned, or members are given partitions that do not exist.
func ruleRebalanceCountsPartitionsNow(c *eng.Ctx) {

	// the lookup the group calls is the one it was handed (the metadata store's count), not a wrapper that remembers
	if ctor := c.Fn("server.newConsumerGroup"); ctor != nil {
		gf := c.P.Field("server", "consumerGroup", "getStreamPartitions")
		n, direct := 0, true
		for _, st := range eng.FieldStores(ctor, func(fa *ssa.FieldAddr) bool { return fieldIs(fa, gf) }) {
			n++
			if _, isParam := eng.Strip(st.Val).(*ssa.Parameter); !isParam {
				direct = false
			}
		}
		for _, f := range c.P.Funcs {
			if f == ctor {
				continue
			}
			for range eng.FieldStores(f, func(fa *ssa.FieldAddr) bool { return fieldIs(fa, gf) }) {
				direct = false
			}
		}
		if n == 0 {
			c.Unresolved("the store of consumerGroup.getStreamPartitions in newConsumerGroup")
		} else {
			c.Check(direct, "the group asks the metadata store for partition counts", c.P.Pos(ctor.Pos()), "group.getStreamPartitions = the lookup handed to newConsumerGroup", "consumerGroup.getStreamPartitions is not the lookup the metadata store handed in but something built around it (a per-group cache): a count remembered from before a stream was deleted and re-created with another number of partitions leaves partitions unassigned, or assigns partitions that do not exist")
		}
	}
	p := c.P
	fn := c.Fn("server.(*consumerGroup).balanceAssignmentsForStream")
	if fn == nil {
		return
	}
	isCount := func(v ssa.Value) bool {
		call := eng.AsCall(eng.Strip(v))
		if call == nil {
			return false
		}
		return eng.LoadNamed("getStreamPartitions", nil)(call.Call.Value)
	}
	n, ok, why := 0, true, ""
	eng.Instrs(fn, func(in ssa.Instruction) {
		bo, isB := in.(*ssa.BinOp)
		if !isB || (bo.Op != token.LSS && bo.Op != token.GTR) {
			return
		}
		// counter < bound, or the same test written bound > counter
		ctr, bound := bo.X, bo.Y
		if bo.Op == token.GTR {
			ctr, bound = bo.Y, bo.X
		}
		if _, isPhi := ctr.(*ssa.Phi); !isPhi {
			return
		}
		if t, isBasic := bound.Type().Underlying().(*types.Basic); !isBasic || t.Kind() != types.Int32 {
			return
		}
		n++
		if !isCount(bound) {
			ok, why = false, eng.Describe(bound)
		}
	})
	if n == 0 {
		c.Unresolved("the partition loop of balanceAssignmentsForStream")
		return
	}
	c.Check(ok, "a rebalance counts the stream's partitions when it runs", p.Pos(fn.Pos()), "the loop bound is c.getStreamPartitions(stream), called in the rebalance", "the number of partitions a rebalance assigns is "+why+", not a fresh getStreamPartitions(stream): a remembered count survives the deletion and re-creation of the stream with another partition count")
}

// ruleRegisteredMemberIsThisCall (R13.9): after a successful group Subscribe the partition's member record for the group
// carries THIS call's consumer id, group epoch and subscription. The epoch is the fence for the next subscriber: a record
// that keeps the epoch it was created with admits an older member after a hand-over.
func ruleRegisteredMemberIsThisCall(c *eng.Ctx) {
	p := c.P
	fn := c.Fn("server.(*partition).Subscribe")
	if fn == nil {
		return
	}
	noGroup := eng.CmpEdges(fn, eng.AnyV, eng.StrConst(""), eng.EQ)
	for _, fld := range []string{"consumerID", "groupEpoch", "sub"} {
		f := p.Field("server", "groupMember", fld)
		if f == nil {
			c.Unresolved("field groupMember." + fld)
			continue
		}
		set := func(x ssa.Instruction) bool {
			st, ok := x.(*ssa.Store)
			if !ok {
				return false
			}
			fa, ok := st.Addr.(*ssa.FieldAddr)
			return ok && fieldIs(fa, f)
		}
		registers := false
		eng.Instrs(fn, func(in ssa.Instruction) {
			if set(in) {
				registers = true
			}
		})
		if !registers {
			c.Unresolved("a store to groupMember." + fld + " in partition.Subscribe")
			continue
		}
		q := &eng.PathQuery{Fn: fn, FromEntry: true, Target: func(x ssa.Instruction) bool {
			r, isR := x.(*ssa.Return)
			if !isR {
				return false
			}
			rv := eng.RetVals(r)
			return len(rv) == 2 && eng.NilConst(rv[1])
		}, CutInstr: set, CutEdges: noGroup}
		w := q.Find()
		c.Check(w == nil, "a successful group subscription registers this call's "+fld, p.Pos(fn.Pos()), "every successful return with a group has stored groupMember."+fld, "partition.Subscribe can succeed for a group without storing "+fld+" of the registered member ("+w.String()+"): the record keeps what an earlier subscriber put there — with the epoch stale, a member of an older group epoch is admitted after a hand-over and cancels the current one")
	}
}

// ruleReverseScanRecoversFromDeleted (R08.6 extension, F76): when the index of the segment a reverse scan is in was closed
// under it, the scan answers ErrSegmentReplaced — "re-position yourself" — exactly when the segment was replaced by
// compaction OR deleted by retention (reach condition over the two predicates); the forward path does the same in ReadAt.
func ruleReverseScanRecoversFromDeleted(c *eng.Ctx) {
	fn := c.Fn(cl + "(*reverseSegmentScanner).Scan")
	if fn == nil {
		return
	}
	isRep := eng.Global(cl + "ErrSegmentReplaced")
	var site ssa.Instruction
	eng.Instrs(fn, func(in ssa.Instruction) {
		switch x := in.(type) {
		case *ssa.Return:
			for _, r := range eng.RetVals(x) {
				if isRep(r) {
					site = in
				}
			}
		case *ssa.Store:
			if isRep(x.Val) {
				site = in
			}
		}
	})
	if site == nil {
		// the sentinel is usually merged into err by a phi: take the block in which the load of the sentinel sits
		eng.Instrs(fn, func(in ssa.Instruction) {
			if u, ok := in.(*ssa.UnOp); ok && isRep(u) {
				site = in
			}
		})
	}
	if site == nil {
		c.Unresolved("ErrSegmentReplaced in reverseSegmentScanner.Scan")
		return
	}
	specs := []eng.AtomSpec{
		{A: eng.Call(-1, cl+"segment.IsReplaced")},
		{A: eng.Call(-1, cl+"segment.IsDeleted")},
	}
	t, okT := eng.ReachTable(fn, site, specs)
	ok := okT && eng.TableIs(t, func(bit func(int) bool) bool { return bit(0) || bit(1) })
	c.Check(ok, "a reverse scan of a segment that was replaced or deleted asks the reader to re-position", c.Pos(site), "ErrSegmentReplaced exactly for IsReplaced() ∨ IsDeleted() (behind err == ErrSegmentClosed)", "reverseSegmentScanner.Scan turns a closed index into ErrSegmentReplaced for compaction only: a reverse subscription that steps into a segment retention has removed ends with Unknown `segment has been closed` instead of ResourceExhausted (a cursor fetch fails instead of answering)")
}

// ruleTruncateDeletesNewestFirst (R05.7 extension, F77): Truncate removes the segments behind the truncation point from the
// newest end, so that whatever is left after a crash or a failed Delete is a contiguous prefix of the log (the mirror of
// retention, which removes from the oldest end).
func ruleTruncateDeletesNewestFirst(c *eng.Ctx) {
	p := c.P
	fn := c.Fn(cl + "(*commitLog).Truncate")
	if fn == nil {
		return
	}
	segF := p.Field(clPkg, "commitLog", "segments")
	// the Delete call whose receiver is l.segments[i] with i a loop counter
	ok, found, where := false, false, ""
	for _, d := range eng.CallsIn(fn, cl+"segment.Delete") {
		recv := d.Common().Args[0]
		ia := indexOfLoad(recv)
		if ia == nil || !eng.Load(segF, nil)(ia.X) {
			continue
		}
		phi, isPhi := ia.Index.(*ssa.Phi)
		if !isPhi {
			continue
		}
		found = true
		where = c.Pos(d.(ssa.Instruction))
		// the counter is stepped by −1 (and starts at len−1)
		for _, e := range phi.Edges {
			if bo, isB := e.(*ssa.BinOp); isB && bo.X == ssa.Value(phi) {
				if (bo.Op == token.SUB && eng.IntConst(1)(bo.Y)) || (bo.Op == token.ADD && eng.IntConst(-1)(bo.Y)) {
					ok = true
				}
			}
		}
	}
	if !found {
		c.Unresolved("the loop that deletes the segments behind the truncation point in Truncate")
		return
	}
	c.Check(ok, "Truncate removes the later segments newest first", where, "for i := len(l.segments)-1; i > idx; i--", "Truncate deletes the segments behind the truncation point oldest first: a crash (or a failed Delete) part-way leaves the newer ones on disk behind a hole — the reopened log has a gap, and its epoch history names an epoch with no message left")
}

// ruleSnapshotSkipsTombstonedStreams (R06.6 extension, F78): a stream deleted by an entry replayed during recovery is only
// tombstoned until recovery ends; the tombstone is not part of a snapshot. Snapshot therefore leaves such a stream out — the
// delete that removed it is compacted away with the log, and a snapshot that lists it brings it back on restore.
func ruleSnapshotSkipsTombstonedStreams(c *eng.Ctx) {
	p := c.P
	fn := c.Fn("server.(*Server).Snapshot")
	if fn == nil {
		return
	}
	tomb := eng.BoolEdges(fn, eng.Call(-1, "server.stream.IsTombstoned"), false)
	// every store of a *proto.Stream into the snapshot's stream list (indexed store or append) is behind !IsTombstoned()
	n, ok, where := 0, len(tomb) > 0, "no test of IsTombstoned in Snapshot"
	isProtoStream := func(v ssa.Value) bool {
		return strings.HasSuffix(v.Type().String(), "protocol.Stream")
	}
	eng.Instrs(fn, func(in ssa.Instruction) {
		var val ssa.Value
		switch x := in.(type) {
		case *ssa.Store:
			if _, isIA := x.Addr.(*ssa.IndexAddr); isIA && isProtoStream(x.Val) {
				val = x.Val
			}
		}
		if val == nil {
			return
		}
		// skip the stores that build the variadic argument of an append of something else
		n++
		if g, w := eng.GuardedBy(fn, in, tomb); !g && len(tomb) > 0 {
			ok, where = false, c.Pos(in)+" (path "+w.String()+")"
		}
	})
	if n == 0 {
		c.Unresolved("stores of stream records into the snapshot in Snapshot")
		return
	}
	c.Check(ok, "a snapshot leaves tombstoned streams out", p.Pos(fn.Pos()), "a stream enters the snapshot only behind !stream.IsTombstoned()", "Snapshot records a stream without asking whether it is tombstoned ("+where+"): a snapshot taken while the log is being replayed lists a stream whose deletion was already applied; the delete is compacted away with the log, and restoring the snapshot brings the stream back, in the metadata and on disk")
}

// ruleEmptySubscriberHeapIsDropped (R12.5 extension, F79): the per-stream subscriber table of a group is a function of its
// current members — exactly what a group rebuilt from a snapshot has. When the last subscriber of a stream leaves, the
// (empty) entry is removed; a leftover entry makes a later stream deletion advance the group epoch on this server and not
// on a restored one.
func ruleEmptySubscriberHeapIsDropped(c *eng.Ctx) {
	p := c.P
	fn := c.Fn("server.(*consumerGroup).removeConsumer")
	if fn == nil {
		return
	}
	subF := p.Field("server", "consumerGroup", "subscribers")
	deletes := false
	for _, g := range append([]*ssa.Function{fn}, fn.AnonFuncs...) {
		empty := eng.EdgesWhere(g, func(a eng.AtomView) bool {
			isLen := func(v ssa.Value) bool {
				call := eng.AsCall(eng.Strip(v))
				if call == nil {
					return false
				}
				if b, ok := call.Call.Value.(*ssa.Builtin); ok && b.Name() == "len" {
					return true
				}
				return strings.HasSuffix(eng.CalleeRef(&call.Call), "consumerHeap.Len")
			}
			return a.RelHolds(isLen, eng.IntConst(0), eng.EQ)
		})
		if len(empty) == 0 {
			continue
		}
		q := &eng.PathQuery{Fn: g, FromEdges: empty, Target: func(x ssa.Instruction) bool {
			call, ok := x.(*ssa.Call)
			if !ok || !isBuiltinCall(call, "delete") || len(call.Call.Args) < 1 {
				return false
			}
			return eng.Load(subF, nil)(call.Call.Args[0])
		}}
		if q.Find() != nil {
			deletes = true
		}
		// ... and nothing on the way from the removal to the end of the visit skips the emptiness test: whether the leaving
		// member held partitions of the stream decides the rebalance, not the drop
		notEmpty := eng.EdgesWhere(g, func(a eng.AtomView) bool {
			isLen := func(v ssa.Value) bool {
				call := eng.AsCall(eng.Strip(v))
				if call == nil {
					return false
				}
				if b, ok := call.Call.Value.(*ssa.Builtin); ok && b.Name() == "len" {
					return true
				}
				return strings.HasSuffix(eng.CalleeRef(&call.Call), "consumerHeap.Len")
			}
			return a.RelHolds(isLen, eng.IntConst(0), eng.NE|eng.GT)
		})
		var rem []ssa.Instruction
		for _, r := range eng.CallsIn(g, "container/heap.Remove") {
			rem = append(rem, r.(ssa.Instruction))
		}
		if len(rem) > 0 {
			q2 := &eng.PathQuery{Fn: g, FromAfter: rem, Target: isReturn, CutEdges: append(append([]eng.Edge{}, empty...), notEmpty...)}
			if w := q2.Find(); w != nil {
				c.Violate("after a member left a stream's heap the heap is tested for emptiness", c.Pos(rem[0]), "removeConsumer can finish with a stream after the heap removal without testing whether the heap is now empty ("+w.String()+"): an early return for `held no partition of this stream` skips the drop, the empty heap stays — it is not part of a snapshot — and a later deletion of the stream moves the group epoch on this server only")
			}
		}
	}
	c.Check(deletes, "a stream's subscriber entry goes when its last subscriber leaves", p.Pos(fn.Pos()), "len(*subscribers) == 0 → delete(c.subscribers, stream)", "removeConsumer leaves an empty subscriber heap behind when the last subscriber of a stream leaves: the entry is not part of a snapshot, so a later deletion of that stream advances the group epoch on a server that saw the member leave and not on one restored from a snapshot — the replicas disagree on the epoch FetchConsumerGroupAssignments checks")
}

// ruleEpochQueryTellsNotFoundFromMinusOne (R02.4 extension, F80): the start offset of an epoch can be −1 (a leader elected on
// an empty log), so "no later epoch" cannot be encoded as −1 in the answer the log gives to a follower's epoch query. The
// fall-back to the log end in commitLog.LastOffsetForLeaderEpoch is taken on a found/not-found flag, not on offset == −1.
func ruleEpochQueryTellsNotFoundFromMinusOne(c *eng.Ctx) {
	p := c.P
	fn := c.Fn(cl + "(*commitLog).LastOffsetForLeaderEpoch")
	if fn == nil {
		return
	}
	bySentinel := eng.EdgesWhere(fn, func(a eng.AtomView) bool {
		return a.RelHolds(eng.AnyV, eng.IntConst(-1), eng.EQ) || a.RelHolds(eng.AnyV, eng.IntConst(-1), eng.NE)
	})
	byFlag := false
	for _, blk := range fn.Blocks {
		if len(blk.Instrs) == 0 {
			continue
		}
		iff, ok := blk.Instrs[len(blk.Instrs)-1].(*ssa.If)
		if !ok {
			continue
		}
		cond, _ := eng.CondPolarity(iff.Cond)
		if e, isE := cond.(*ssa.Extract); isE && e.Index == 1 {
			if call := eng.AsCall(e.Tuple); call != nil && strings.Contains(eng.CalleeRef(&call.Call), "leaderEpochCache.") {
				byFlag = true
			}
		}
	}
	c.Check(byFlag && len(bySentinel) == 0, "the log end is answered only when no later epoch exists", p.Pos(fn.Pos()), "the fall-back is taken on the cache's found flag; −1 is a legitimate start offset (a leader elected on an empty log)", "commitLog.LastOffsetForLeaderEpoch decides `no later epoch` by comparing the answer with −1: a leader elected on an empty log recorded its epoch at −1, so for the previous epoch it answers its log end instead of −1 — the returning old leader truncates nothing and keeps different messages at the same offsets below the high watermark")
}

// ruleClearEarliestStaysInsideTheLog (R02.8 extension, F81): after a cleaning pass the epoch history is trimmed at the oldest
// retained offset — but never beyond the newest offset: on a log retention has emptied, the base offset of the remaining
// segment is one past the newest offset, and an epoch boundary moved there makes the next leader's NewLeaderEpoch (which
// records at the newest offset) be refused.
func ruleClearEarliestStaysInsideTheLog(c *eng.Ctx) {
	p := c.P
	fn := c.Fn(cl + "(*commitLog).Clean")
	if fn == nil {
		return
	}
	calls := eng.CallsIn(fn, cl+"leaderEpochCache.ClearEarliest")
	if len(calls) == 0 {
		c.Unresolved("ClearEarliest in Clean")
		return
	}
	for _, cs := range calls {
		arg := cs.Common().Args[len(cs.Common().Args)-1]
		// the argument is min(base offset, newest offset): a phi / a value one of whose sources is NewestOffset()
		usesNewest := false
		var walk func(v ssa.Value, d int)
		walk = func(v ssa.Value, d int) {
			if d > 4 {
				return
			}
			v = eng.Strip(v)
			if call := eng.AsCall(v); call != nil && strings.HasSuffix(eng.CalleeRef(&call.Call), "commitLog.NewestOffset") {
				usesNewest = true
			}
			if ph, ok := v.(*ssa.Phi); ok {
				for _, e := range ph.Edges {
					walk(e, d+1)
				}
			}
			if call := eng.AsCall(v); call != nil && (isBuiltinCall(call, "min") || eng.CalleeRef(&call.Call) == cl+"min") {
				for _, a := range call.Call.Args {
					walk(a, d+1)
				}
			}
		}
		walk(arg, 0)
		c.Check(usesNewest, "the epoch history is not trimmed beyond the newest offset", c.Pos(cs.(ssa.Instruction)), "ClearEarliest(min(oldest base offset, newest offset))", "Clean trims the leader epoch history at the base offset of the oldest segment whatever the log holds: on a log that retention has emptied that is one past the newest offset, the next elected leader's epoch record (at the newest offset) is refused with a warning, its epoch is learnt one message late, and a returning old leader keeps a divergent message below the high watermark")
	}
	_ = p
}

// ruleStopOnAnEmptiedLogEnds (R10.10, F82): retention can remove every message; the log then has a newest offset but no
// oldest one. A forward subscription with a stop position that is not past the end has nothing left to read and nothing to
// wait for: Subscribe ends it with ResourceExhausted instead of creating a reader that parks until the next publish.
func ruleStopOnAnEmptiedLogEnds(c *eng.Ctx) {
	p := c.P
	fn := c.Fn("server.(*partition).Subscribe")
	if fn == nil {
		return
	}
	emptied := eng.EdgesWhere(fn, func(a eng.AtomView) bool {
		return a.RelHolds(eng.Call(-1, cl+"CommitLog.OldestOffset"), eng.IntConst(-1), eng.EQ)
	})
	ok := false
	if len(emptied) > 0 {
		q := &eng.PathQuery{Fn: fn, FromEdges: emptied, Target: func(x ssa.Instruction) bool {
			call, isCall := x.(*ssa.Call)
			if !isCall || !strings.HasSuffix(eng.CalleeRef(&call.Call), "status.New") || len(call.Call.Args) == 0 {
				return false
			}
			k, isK := eng.Strip(call.Call.Args[0]).(*ssa.Const)
			return isK && k.Value != nil && k.Value.String() == "8" // codes.ResourceExhausted
		}, CutInstr: eng.IsCallTo(cl+"CommitLog.NewReader", cl+"CommitLog.NewReverseReader", "server.partition.newSubscribeLoop")}
		ok = q.Find() != nil
	}
	c.Check(ok, "a stop position on a log emptied by retention ends the subscription", p.Pos(fn.Pos()), "OldestOffset() == -1 (with a stop offset inside the log) → ResourceExhausted before a reader is created", "Subscribe creates a reader for a forward subscription with a stop position although retention has removed every message (OldestOffset() == -1 is never looked at): the reader parks until the next publish, and a subscription that should end at once hangs")
}

// ruleAckBelongsToThePublishedStream (R04.8, F83): every stream attached to a NATS subject stores a message published to it
// and acknowledges it on the message's ack inbox. The ack that completes a publish TO A STREAM is that stream's: publishSync
// returns an ack only when it names the stream (or no stream was named — PublishToSubject), and the async session forwards an
// ack only when it arrived on the inbox that belongs to its stream.
func ruleAckBelongsToThePublishedStream(c *eng.Ctx) {
	p := c.P
	if fn := c.Fn("server.(*apiServer).publishSync"); fn != nil {
		mine := eng.EdgesWhere(fn, func(a eng.AtomView) bool {
			return a.RelHolds(eng.LoadNamed("Stream", nil), eng.Param("stream"), eng.EQ) || a.RelHolds(eng.Param("stream"), eng.StrConst(""), eng.EQ)
		})
		ok, n, where := len(mine) > 0, 0, "no comparison of the ack's Stream with the stream published to"
		for _, r := range eng.Returns(fn) {
			rv := eng.RetVals(r)
			if len(rv) != 2 || !eng.NilConst(rv[1]) || eng.NilConst(rv[0]) {
				continue
			}
			n++
			if g, w := eng.GuardedBy(fn, r, mine); !g && len(mine) > 0 {
				ok, where = false, c.Pos(r)+" (path "+w.String()+")"
			}
		}
		c.Check(ok && n > 0, "a synchronous publish to a stream is completed by that stream's ack", p.Pos(fn.Pos()), "publishSync returns an ack only behind ack.Stream == stream (or stream == \"\")", "publishSync returns the first ack that arrives on the inbox ("+where+"): another stream attached to the same NATS subject acknowledges the message too, so a publish with AckPolicy ALL to a stream that cannot commit (in-sync set below its minimum) is answered with the other stream's positive ack")
	}
	if fn := c.Fn("server.(*publishAsyncSession).dispatchAcks"); fn != nil {
		// the handler (closure or method) compares the subject the ack arrived on with something derived from ack.Stream
		ok := false
		for _, g := range moduleReach(c, fn, 2) {
			if ir.Outermost(g) != fn && !strings.Contains(ir.FuncKey(g), "publishAsyncSession") {
				continue
			}
			if eng.CmpExists(g, eng.LoadNamed("Subject", nil), eng.AnyV) {
				eng.Instrs(g, func(in ssa.Instruction) {
					if f, _ := eng.FieldRead(valueOf(in)); f != nil && f.Name() == "Stream" {
						ok = true
					}
				})
			}
		}
		c.Check(ok, "an asynchronous publish is completed by its own stream's ack", p.Pos(fn.Pos()), "the session drops an ack that did not arrive on the inbox of ack.Stream", "the async session forwards every ack that carries a known correlation id: the ack of another stream on the same subject completes the publish")
	}
}

func valueOf(in ssa.Instruction) ssa.Value {
	v, _ := in.(ssa.Value)
	return v
}
