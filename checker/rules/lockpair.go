package rules

import (
	"strings"

	"lbcheck/eng"
	"lbcheck/ir"
)

// documented exceptions to acquire/release pairing
var lockPairExempt = map[string]string{
	"server.(*partition).stopLeading": "releases the caller's p.mu while waiting for the leader loops and re-acquires it before returning (the caller holds and releases it)",
}

// ruleLockPairing: every explicit Lock/RLock in the functions of the given files is released on every path to a return
// (directly or by a deferred unlock). A lock left held blocks every later operation on the object for ever.
func ruleLockPairing(c *eng.Ctx, files ...string) {
	n := 0
	for _, fn := range c.P.Funcs {
		file := c.P.Fset.Position(fn.Pos()).Filename
		match := false
		for _, f := range files {
			if strings.HasSuffix(file, "/"+f) {
				match = true
			}
		}
		if !match {
			continue
		}
		for _, f := range eng.LockPairing(fn) {
			n++
			key := ir.FuncKey(fn)
			construct := "lock of " + f.Mutex + " in " + key
			if why, ok := lockPairExempt[key]; ok && !f.OK {
				c.OK(construct, c.Pos(f.Instr), "exempt: "+why)
				continue
			}
			c.Check(f.OK, construct, c.Pos(f.Instr), "released on every path to a return (directly or deferred)", "the mutex can stay held after the function returns: "+f.Detail+"; every later reader or writer of the object blocks for ever")
		}
	}
	if n == 0 {
		c.Unresolved("lock sites in " + strings.Join(files, ", "))
	}
}
